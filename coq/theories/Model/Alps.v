(* C22 — application settings (ALPS) on the uTLS client.  Executable definitions only.
     handshake_messages.go:1093-1152   encryptedExtensionsMsg.unmarshal (the extension loop, client side)
     u_handshake_messages.go:62-71     encryptedExtensionsMsg.utlsUnmarshal (ALPS on 17513 / 17613)
     u_handshake_messages.go:80-107    utlsClientEncryptedExtensionsMsg.marshal
     u_handshake_messages.go:109-139   utlsClientEncryptedExtensionsMsg.unmarshal  = RobustSrv.cee_unmarshal (C34)
     handshake_client_tls13.go:688-757 readServerParameters (checkALPN, c.clientProtocol, the uTLS hook, QUIC / early-data checks)
     u_handshake_client.go:164-187     utlsReadServerParameters
     u_handshake_client.go:143-162     serverFinishedReceived / sendClientEncryptedExtensions
     handshake_client_tls13.go:149-166 position in the client's last flight (after readServerFinished, before
                                       sendClientCertificate / sendClientFinished)
     handshake_messages.go (serverHelloMsg.unmarshal, default branch)  TLS <= 1.2: ALPS in a ServerHello is an unknown extension
   STATE OF THIS FILE: [fixed = true] is the code AFTER fixes/C22-alps-local-key.diff (the client's own settings are looked up
   under c.clientProtocol); [fixed = false] is the code as found (lookup under hs.serverHello.alpnProtocol, which
   checkServerHelloOrHRR forces to be empty in TLS 1.3) and is kept only for the machine-checked refutation F-22.
   Parsing uses the cryptobyte model of Model/RobustSrv.v (every slice expression can yield Panic), so the same definitions
   serve C33.  The client modelled here has no QUIC transport, offers no early data and has no ECH context. *)
From UV Require Export Base.Common Model.Wire Model.RobustSrv.
From UV Require Model.Negotiate.
Open Scope N_scope.

Definition ext_ALPN : N := 16.
Definition ext_early_data : N := 42.
Definition ext_quic_tp : N := 57.
Definition ext_ech : N := 65037.
Definition ext_custom : N := 1234.             (* utlsFakeExtensionCustom *)
Definition a_unexpected_message : N := 10.
Definition a_unsupported_extension : N := 110.
Definition a_no_application_protocol : N := 120.
Definition a_internal_error : N := 80.
Definition V13 : N := 772.
Definition typeEncryptedExtensions : N := 8.
Definition typeFinished : N := 20.

(* ---------- encryptedExtensionsMsg (client's view of the server's EncryptedExtensions) ---------- *)
Record ee_msg := mkEE {
  ee_alpn : bytes;            (* alpnProtocol *)
  ee_quic : option bytes;     (* quicTransportParameters (nil = None) *)
  ee_early : bool;            (* earlyData *)
  ee_ech : option bytes;      (* echRetryConfigs *)
  ee_cp : N;                  (* utls.applicationSettingsCodepoint, 0 = no ALPS *)
  ee_alps : bytes             (* utls.applicationSettings *)
}.
Definition ee_zero : ee_msg := mkEE [] None false None 0 [].

(* u_handshake_messages.go:62-71: always returns true *)
Definition utls_unmarshal (id : N) (d : bytes) (m : ee_msg) : ee_msg :=
  if (id =? ext_alps_old) || (id =? ext_alps_new)
  then mkEE (ee_alpn m) (ee_quic m) (ee_early m) (ee_ech m) id d
  else m.

(* one turn of the switch, handshake_messages.go:1111-1147 (+ the `!extData.Empty()` test after the switch for the
   non-default branches). Ok None = `return false`. *)
Definition ee_handle (id : N) (d : bytes) (m : ee_msg) : res (option ee_msg) :=
  if id =? ext_ALPN then
    do r <- cb_lp 2 d; match r with None => Ok None | Some (plist, d') =>
    if is_empty plist then Ok None else
    do p <- cb_lp 1 plist; match p with None => Ok None | Some (proto, plist') =>
    if is_empty proto || negb (is_empty plist') then Ok None else
    if negb (is_empty d') then Ok None else
    Ok (Some (mkEE proto (ee_quic m) (ee_early m) (ee_ech m) (ee_cp m) (ee_alps m))) end end
  else if id =? ext_quic_tp then                 (* make(len(extData)); CopyBytes consumes everything *)
    Ok (Some (mkEE (ee_alpn m) (Some d) (ee_early m) (ee_ech m) (ee_cp m) (ee_alps m)))
  else if id =? ext_early_data then
    if negb (is_empty d) then Ok None else
    Ok (Some (mkEE (ee_alpn m) (ee_quic m) true (ee_ech m) (ee_cp m) (ee_alps m)))
  else if id =? ext_ech then
    Ok (Some (mkEE (ee_alpn m) (ee_quic m) (ee_early m) (Some d) (ee_cp m) (ee_alps m)))
  else Ok (Some (utls_unmarshal id d m)).        (* default: utlsUnmarshal, then `continue` *)

(* `for !extensions.Empty() { ReadUint16(&extension); ReadUint16LengthPrefixed(&extData); switch ... }` *)
Fixpoint ee_loop (fuel : nat) (exts : bytes) (m : ee_msg) : res (option ee_msg) :=
  if is_empty exts then Ok (Some m) else
  match fuel with O => Err E_FUEL | S fuel =>
    do e <- cb_uint 2 exts; match e with None => Ok None | Some (id, exts) =>
    do d <- cb_lp 2 exts; match d with None => Ok None | Some (body, exts) =>
    do h <- ee_handle id body m; match h with None => Ok None | Some m' => ee_loop fuel exts m' end
    end end
  end.

(* handshake_messages.go:1093-1152 *)
Definition ee_unmarshal (data : bytes) : res (option ee_msg) :=
  do s <- cb_skip 4 data; match s with None => Ok None | Some s =>
  do e <- cb_lp 2 s; match e with None => Ok None | Some (exts, rest) =>
  if negb (is_empty rest) then Ok None else
  ee_loop (length exts) exts ee_zero end end.

(* ---------- what the client keeps ---------- *)
Record client := mkClient {
  cl_vers : N;                          (* c.vers *)
  cl_offered : list bytes;              (* hs.hello.alpnProtocols *)
  cl_settings : list (bytes * bytes);   (* Config.ApplicationSettings (a Go map: keys unique; nil map = []) *)
  cl_sh_alpn : bytes                    (* hs.serverHello.alpnProtocol *)
}.
Record alps_state := mkSt {
  st_proto : bytes;      (* c.clientProtocol *)
  st_peer : bytes;       (* c.utls.peerApplicationSettings -> ConnectionState.PeerApplicationSettings *)
  st_cp : N;             (* c.utls.applicationSettingsCodepoint *)
  st_local : bytes       (* c.utls.localApplicationSettings *)
}.

Fixpoint lookup (k : bytes) (m : list (bytes * bytes)) : option bytes :=
  match m with [] => None | (k', v) :: r => if bytes_eqb k k' then Some v else lookup k r end.

(* u_handshake_client.go:164-187. proto = hs.uconn.clientProtocol (set by the caller just before). Err a = error returned;
   the caller sends unsupported_extension. *)
Definition utls_read_server_parameters (fixed : bool) (c : client) (proto : bytes) (m : ee_msg) : res alps_state :=
  let st := mkSt proto (ee_alps m) (ee_cp m) [] in                              (* :165-166 *)
  if negb (ee_cp m =? 0) then                                                   (* :168 *)
    if cl_vers c <? V13 then Err a_unsupported_extension                        (* :169 *)
    else if is_empty proto then Err a_unsupported_extension                     (* :172 *)
    else match lookup (if fixed then proto else cl_sh_alpn c) (cl_settings c) with   (* :177 *)
         | Some a => Ok (mkSt proto (ee_alps m) (ee_cp m) a)
         | None => Ok st                                                        (* :181 ignored *)
         end
  else Ok st.

(* handshake_client_tls13.go:688-745, client without QUIC / early data / ECH *)
Definition read_server_parameters (fixed : bool) (c : client) (m : ee_msg) : res alps_state :=
  if negb (Negotiate.check_alpn (cl_offered c) (ee_alpn m)) then Err a_no_application_protocol else   (* :702-709 *)
  do st <- utls_read_server_parameters fixed c (ee_alpn m) m;                                          (* :710-719 *)
  match ee_quic m with Some _ => Err a_unsupported_extension | None =>                                 (* :729-732 *)
  if ee_early m then Err a_unsupported_extension else Ok st end.                                       (* :735-738 *)

(* handshake_client_tls13.go:712: the uTLS hook is guarded by `hs.uconn != nil` only - in particular NOT by hs.usingPSK: a resumed
   connection negotiates application settings afresh, exactly like a full handshake *)
Definition read_server_parameters_conn (using_psk : bool) (fixed : bool) (c : client) (m : ee_msg) : res alps_state :=
  read_server_parameters fixed c m.

(* readHandshake + the type assertion (:691-700): a message that does not parse is unexpected_message *)
Definition client_read_ee (fixed : bool) (c : client) (data : bytes) : res alps_state :=
  do r <- ee_unmarshal data;
  match r with None => Err a_unexpected_message | Some m => read_server_parameters fixed c m end.
Definition client_read_ee_conn (using_psk fixed : bool) (c : client) (data : bytes) : res alps_state :=
  do r <- ee_unmarshal data;
  match r with None => Err a_unexpected_message | Some m => read_server_parameters_conn using_psk fixed c m end.

(* ---------- utlsClientEncryptedExtensionsMsg.marshal, u_handshake_messages.go:80-107 ---------- *)
Definition E_BUILD : N := 1.     (* cryptobyte.Builder: "pending child length exceeds N-byte length prefix" *)
Definition cee_exts (cp : N) (settings custom : bytes) : bytes :=
  (if cp =? 0 then [] else enc_u16 cp ++ enc_u16lp settings) ++
  (if is_empty custom then [] else enc_u16 ext_custom ++ enc_u16lp custom).
Definition cee_marshal (cp : N) (settings custom : bytes) : res bytes :=
  if (negb (cp =? 0) && (65536 <=? blen settings)) || (65536 <=? blen custom) then Err E_BUILD else   (* a child is only built when written *)
  let exts := cee_exts cp settings custom in
  if 65536 <=? blen exts then Err E_BUILD else
  Ok (typeEncryptedExtensions :: enc_u24lp (enc_u16lp exts)).

(* sendClientEncryptedExtensions, u_handshake_client.go:150-162: the message written (and hashed), if any.
   customExtension is never set by the library. *)
Definition send_client_ee (st : alps_state) : res (list bytes) :=
  if st_cp st =? 0 then Ok [] else do m <- cee_marshal (st_cp st) (st_local st) []; Ok [m].

(* ---------- the client's last flight and the transcript ---------- *)
Section Flight.
  (* verify_data as a function of the bytes hashed so far (finishedHash with the client handshake traffic secret fixed) *)
  Variable fin : bytes -> bytes.

  Definition finished_msg (tr : bytes) : bytes := typeFinished :: enc_u24lp (fin tr).

  (* handshake_client_tls13.go:155-165: serverFinishedReceived; sendClientCertificate (cert_msgs: Certificate and
     CertificateVerify when requested, each written with writeHandshakeRecord(msg, hs.transcript)); sendClientFinished.
     tr = the bytes hashed up to and including the server Finished.  Result: (messages sent in order, bytes hashed when
     the client Finished is computed). *)
  Definition client_flight (tr : bytes) (st : alps_state) (cert_msgs : list bytes) : res (list bytes * bytes) :=
    do ee <- send_client_ee st;
    let tr2 := tr ++ concat ee ++ concat cert_msgs in
    Ok (ee ++ cert_msgs ++ [finished_msg tr2], tr2).

  (* an ALPS-negotiating server after its own Finished (hooks' verif_server.go:467-489, BoringSSL likewise): when it sent
     ALPS it reads the client's EncryptedExtensions INTO the transcript, then ncert certificate messages, then compares the
     client Finished with its own computation.  Some (cp, settings) = accepted, with the client's settings as decoded. *)
  Fixpoint take_msgs (n : nat) (msgs : list bytes) : option (list bytes * list bytes) :=
    match n with O => Some ([], msgs) | S n' =>
      match msgs with [] => None | m :: r =>
        match take_msgs n' r with Some (a, b) => Some (m :: a, b) | None => None end end end.
  Definition server_finish (tr : bytes) (sent_alps : bool) (ncert : nat) (msgs : list bytes) : option (option (N * bytes)) :=
    let after_ee :=
      if sent_alps then
        match msgs with
        | m :: r => match nth_error m 0, cee_unmarshal m with
                    | Some 8, Ok (Some e) => Some (Some (ee_codepoint e, ee_settings e), tr ++ m, r)
                    | _, _ => None end
        | [] => None end
      else Some (None, tr, msgs) in
    match after_ee with None => None | Some (dec, tr1, r) =>
      match take_msgs ncert r with None => None | Some (certs, r2) =>
        match r2 with
        | [f] => if bytes_eqb f (finished_msg (tr1 ++ concat certs)) then Some dec else None
        | _ => None end end end.
End Flight.

(* ---------- TLS 1.0 - 1.2: serverHelloMsg.unmarshal ignores unknown extensions (default branch), the TLS 1.2 state
   machine has no uTLS hook: nothing is stored, nothing is sent ---------- *)
Definition sh12_alps_state (negotiated : bytes) (alps_in_server_hello : option (N * bytes)) : alps_state :=
  mkSt negotiated [] 0 [].

(* Model of the dicttls lookups and of the name -> code point steps of the JSON
   ClientHello importer. Executable definitions only; the table DATA are in the
   generated Gen/Dict.v.

   Go maps are modelled as association lists in source order; a map literal
   cannot repeat a key (compile error, and the translator type-checks the
   package), so "first match" is exactly the map lookup.

   JSON importer steps modelled (each is a loop `for _, name := range names`):
     CipherSuitesJSONUnmarshaler.UnmarshalJSON        u_clienthello_json.go:36-56
     CompressionMethodsJSONUnmarshaler.UnmarshalJSON  u_clienthello_json.go:66-81
     SupportedCurvesExtension.UnmarshalJSON           u_tls_extensions.go:289-311
     SupportedPointsExtension.UnmarshalJSON           u_tls_extensions.go:363-379
     SignatureAlgorithms(Cert)Extension.UnmarshalJSON u_tls_extensions.go:426-447, 556-577
     UtlsCompressCertExtension.UnmarshalJSON          u_tls_extensions.go:1207-1223
     KeyShareExtension.UnmarshalJSON (groups)         u_tls_extensions.go:1302-1333
     PSKKeyExchangeModesExtension.UnmarshalJSON       u_tls_extensions.go:1427-1443
     TLSExtensionsJSONUnmarshaler (extension names)   u_clienthello_json.go:100-107 *)
From Coq Require Import String.
From UV Require Import Base.Common.
Open Scope string_scope.

Definition vtable := list (N * string).   (* Dict*ValueIndexed *)
Definition ntable := list (string * N).   (* Dict*NameIndexed *)

(* NameIndexed[name] *)
Fixpoint lookup_name (n : string) (t : ntable) : option N :=
  match t with
  | [] => None
  | (k, v) :: r => if String.eqb k n then Some v else lookup_name n r
  end.

(* ValueIndexed[v] *)
Fixpoint lookup_value (v : N) (t : vtable) : option string :=
  match t with
  | [] => None
  | (k, n) :: r => if N.eqb k v then Some n else lookup_value v r
  end.

(* one value-indexed entry resolves back to its value *)
Definition entry_ok (ni : ntable) (p : N * string) : bool :=
  match lookup_name (snd p) ni with Some v => N.eqb v (fst p) | None => false end.

Definition table_ok (t : vtable * ntable) : bool := forallb (entry_ok (snd t)) (fst t).

(* the asymmetric entries of a table (witnesses when table_ok fails) *)
Definition asym (t : vtable * ntable) : list (N * string) := filter (fun p => negb (entry_ok (snd t) p)) (fst t).

Definition all_asym (ts : list (string * (vtable * ntable))) : list (string * list (N * string)) :=
  filter (fun x => match snd x with [] => false | _ => true end) (map (fun t => (fst t, asym (snd t))) ts).

(* ---- JSON importer: list of names -> list of code points ---- *)

Definition GREASE_PLACEHOLDER : N := 2570.

(* loops with the `if name == "GREASE"` special case (cipher suites, groups, signature schemes, key_share groups);
   None = "unknown ... name" error *)
Fixpoint import_names_grease (ni : ntable) (names : list string) : option (list N) :=
  match names with
  | [] => Some []
  | n :: r =>
      let hd := if String.eqb n "GREASE" then Some GREASE_PLACEHOLDER else lookup_name n ni in
      match hd, import_names_grease ni r with
      | Some v, Some vs => Some (v :: vs)
      | _, _ => None
      end
  end.

(* loops without a GREASE case (compression methods, point formats, cert compression algorithms, psk modes) *)
Fixpoint import_names (ni : ntable) (names : list string) : option (list N) :=
  match names with
  | [] => Some []
  | n :: r =>
      match lookup_name n ni, import_names ni r with
      | Some v, Some vs => Some (v :: vs)
      | _, _ => None
      end
  end.

(* The rendering the property speaks of ("a ClientHello described in the supported JSON format"):
   a code point is written by its value-indexed name, a GREASE value as "GREASE". [is_g] is the
   wire-level GREASE predicate (Model.Grease.is_grease for uint16 lists, constantly false for uint8 lists). *)
Fixpoint render_names (is_g : N -> bool) (vi : vtable) (vs : list N) : option (list string) :=
  match vs with
  | [] => Some []
  | v :: r =>
      let hd := if is_g v then Some "GREASE" else lookup_value v vi in
      match hd, render_names is_g vi r with
      | Some n, Some ns => Some (n :: ns)
      | _, _ => None
      end
  end.

Definition ungrease (is_g : N -> bool) (v : N) : N := if is_g v then GREASE_PLACEHOLDER else v.

Definition no_name_is_grease (vi : vtable) : bool := forallb (fun p => negb (String.eqb (snd p) "GREASE")) vi.

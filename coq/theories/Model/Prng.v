(* Model of u_prng.go (prng helpers) and of the math/rand (Go 1.24) algorithms
   they call: Int31n, Int63n, Intn, Perm over a Source whose Int63 is
   Uint64() & (2^63-1), Uint64 being 8 big-endian bytes of the SHAKE256 stream.
   The stream is an input (list of bytes); None = stream exhausted / fuel out,
   which the theorems exclude and the harness never reaches. *)
From UV Require Import Base.Common.
From Coq Require Import QArith.
Open Scope N_scope.

Definition stream := list N.

(* u_prng.go:122 Uint64: 8 bytes, big endian *)
Definition uint64 (s : stream) : option (N * stream) :=
  match s with
  | b0 :: b1 :: b2 :: b3 :: b4 :: b5 :: b6 :: b7 :: r =>
      Some (((((((b0 * 256 + b1) * 256 + b2) * 256 + b3) * 256 + b4) * 256 + b5) * 256 + b6) * 256 + b7, r)
  | _ => None
  end.
(* u_prng.go:116 *)
Definition int63 (s : stream) : option (N * stream) :=
  match uint64 s with Some (u, r) => Some (N.land u 9223372036854775807, r) | None => None end.
(* rand.go:110 *)
Definition int31 (s : stream) : option (N * stream) :=
  match int63 s with Some (v, r) => Some (N.shiftr v 32, r) | None => None end.

(* rejection loops: `for v > max { v = next() }`, fuel-bounded *)
Fixpoint reject (fuel : nat) (next : stream -> option (N * stream)) (max v : N) (s : stream) : option (N * stream) :=
  if v <=? max then Some (v, s)
  else match fuel with
       | O => None
       | S k => match next s with Some (v', s') => reject k next max v' s' | None => None end
       end.

(* rand.go:137, n : int32 > 0 *)
Definition int31n (fuel : nat) (n : N) (s : stream) : option (N * stream) :=
  if N.land n (n - 1) =? 0 then
    match int31 s with Some (v, r) => Some (N.land v (n - 1), r) | None => None end
  else
    let max := 2147483647 - (2147483648 mod n) in
    match int31 s with
    | Some (v, r) => match reject fuel int31 max v r with Some (v', r') => Some (v' mod n, r') | None => None end
    | None => None
    end.

(* rand.go:120, n : int64 > 0 *)
Definition int63n (fuel : nat) (n : N) (s : stream) : option (N * stream) :=
  if N.land n (n - 1) =? 0 then
    match int63 s with Some (v, r) => Some (N.land v (n - 1), r) | None => None end
  else
    let max := 9223372036854775807 - (9223372036854775808 mod n) in
    match int63 s with
    | Some (v, r) => match reject fuel int63 max v r with Some (v', r') => Some (v' mod n, r') | None => None end
    | None => None
    end.

(* rand.go:178 for n > 0 *)
Definition rand_intn (fuel : nat) (n : N) (s : stream) : option (N * stream) :=
  if n <=? 2147483647 then int31n fuel n s else int63n fuel n s.

(* u_prng.go:151 / 160: Go ints are Z; n <= 0 returns 0 and consumes nothing *)
Definition intn (fuel : nat) (n : Z) (s : stream) : option (Z * stream) :=
  if (n <=? 0)%Z then Some (0%Z, s)
  else match rand_intn fuel (Z.to_N n) s with Some (v, r) => Some (Z.of_N v, r) | None => None end.
Definition p_int63n (fuel : nat) (n : Z) (s : stream) : option (Z * stream) :=
  if (n <=? 0)%Z then Some (0%Z, s)
  else match int63n fuel (Z.to_N n) s with Some (v, r) => Some (Z.of_N v, r) | None => None end.

(* Go int arithmetic wraps at 64 bits *)
Definition wrap64 (x : Z) : Z := ((x + 9223372036854775808) mod 18446744073709551616 - 9223372036854775808)%Z.

(* u_prng.go:176 *)
Definition range (fuel : nat) (mn mx : Z) (s : stream) : option (Z * stream) :=
  let mn := if (mn <? 0)%Z then 0%Z else mn in
  if (mx <? mn)%Z then Some (mn, s)
  else match intn fuel (wrap64 (mx - mn + 1)) s with
       | Some (n, r) => Some (wrap64 (n + mn), r)
       | None => None
       end.

(* rand.go:229 Perm *)
Fixpoint set_nth {A} (i : nat) (x : A) (l : list A) : list A :=
  match l, i with
  | [], _ => []
  | _ :: t, O => x :: t
  | h :: t, S k => h :: set_nth k x t
  end.
Fixpoint perm_loop (fuel : nat) (todo : nat) (i : nat) (m : list Z) (s : stream) : option (list Z * stream) :=
  match todo with
  | O => Some (m, s)
  | S k =>
    match intn fuel (Z.of_nat (S i)) s with
    | None => None
    | Some (j, r) =>
      let j := Z.to_nat j in
      let m1 := set_nth i (nth j m 0%Z) m in
      let m2 := set_nth j (Z.of_nat i) m1 in
      perm_loop fuel k (S i) m2 r
    end
  end.
Definition perm (fuel : nat) (n : nat) (s : stream) : option (list Z * stream) :=
  perm_loop fuel n 0 (repeat 0%Z n) s.

(* ---- FlipWeightedCoin (u_prng.go:139), float64 ---- *)
(* A float64 weight as the model sees it. *)
Inductive fw := WNaN | WInf (neg : bool) | WFin (q : Q).
Inductive fv := VNaN | VInf (neg : bool) | VFin (q : Q).

(* Executable round-to-nearest-even to binary64 on rationals (53-bit significand,
   minimum exponent -1074; overflow cannot arise for the operands FlipWeightedCoin
   produces, see DESIGN). Validated against Go on every run; the theorems are
   proved for any rounding function satisfying the laws in Proofs/PrngP.v. *)
Definition half_even (p q : Z) : Z :=
  let fl := (p / q)%Z in let r := (p mod q)%Z in
  if (2 * r <? q)%Z then fl else if (q <? 2 * r)%Z then (fl + 1)%Z
  else if Z.even fl then fl else (fl + 1)%Z.
Definition qscale (a : Q) (e : Z) : Z * Z := (* numerator, denominator of a / 2^e *)
  if (0 <=? e)%Z then (Qnum a, (Zpos (Qden a) * 2 ^ e)%Z) else ((Qnum a * 2 ^ (- e))%Z, Zpos (Qden a)).
Definition q_of_scaled (m e : Z) : Q :=
  if (0 <=? e)%Z then inject_Z (m * 2 ^ e) else Qmake m (Z.to_pos (2 ^ (- e))).
Definition rne_pos (a : Q) : Q :=
  let e0 := (Z.log2 (Qnum a) - Z.log2 (Zpos (Qden a)) - 54)%Z in
  (* pick e in e0..e0+3 with 2^52 <= a/2^e < 2^53 *)
  let ok e := let '(p, q) := qscale a e in ((2 ^ 52 * q <=? p) && (p <? 2 ^ 53 * q))%Z in
  let e := if ok e0 then e0 else if ok (e0 + 1)%Z then (e0 + 1)%Z else if ok (e0 + 2)%Z then (e0 + 2)%Z else (e0 + 3)%Z in
  let e := Z.max e (-1074) in
  let '(p, q) := qscale a e in
  q_of_scaled (half_even p q) e.
Definition rne (x : Q) : Q :=
  match Qnum x with
  | Z0 => 0%Q
  | Zpos _ => rne_pos x
  | Zneg _ => Qopp (rne_pos (Qopp x))
  end.

Section Flip.
  Variable rnd : Q -> Q.

  (* weight > 1.0 ? 1.0 : weight *)
  Definition clamp (w : fw) : fw :=
    match w with
    | WNaN => WNaN
    | WInf false => WFin 1
    | WInf true => WInf true
    | WFin q => if Qlt_le_dec 1 q then WFin 1 else WFin q
    end.
  (* 1.0 - weight *)
  Definition one_minus (w : fw) : fv :=
    match w with
    | WNaN => VNaN
    | WInf neg => VInf (negb neg)
    | WFin q => VFin (rnd (1 - q))
    end.
  (* float64(int63) / float64(MaxInt64); float64(MaxInt64) = 2^63 *)
  Definition unit_float (i : N) : Q := rnd (rnd (inject_Z (Z.of_N i)) / inject_Z 9223372036854775808).
  Definition gt (f : Q) (t : fv) : bool :=
    match t with
    | VNaN => false
    | VInf neg => neg
    | VFin q => if Qlt_le_dec q f then true else false
    end.
  Definition flip_with (w : fw) (i : N) : bool := gt (unit_float i) (one_minus (clamp w)).
End Flip.

Definition flip (w : fw) (s : stream) : option (bool * stream) :=
  match int63 s with Some (i, r) => Some (flip_with rne w i, r) | None => None end.

(* decode a float64 bit pattern into fw (exact) *)
Definition fw_of_bits (b : N) : fw :=
  let sign := N.testbit b 63 in
  let ex := N.land (N.shiftr b 52) 2047 in
  let man := N.land b 4503599627370495 in
  if ex =? 2047 then (if man =? 0 then WInf sign else WNaN)
  else
    let '(m, e) := if ex =? 0 then (Z.of_N man, (-1074)%Z) else (Z.of_N (man + 4503599627370496), (Z.of_N ex - 1075)%Z) in
    let q := q_of_scaled m e in
    WFin (if sign then Qopp q else q).

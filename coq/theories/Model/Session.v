(* Model of the session-injection protocol of UConn and its sessionController.
   Go sources (line numbers at the pinned commit with fix 222e09f "apply the ClientHelloID preset only once"):
     u_session_controller.go:32-361  sessionController (state, locked, loadSessionTracker, owned extensions)
     u_conn.go:96-201                BuildHandshakeState / BuildHandshakeStateWithoutSession / buildHandshakeState /
                                     uLoadSession / uApplyPatch
     u_conn.go:214-252               SetSessionState / SetSessionTicketExtension / SetPskExtension / SetSessionCache
     u_conn.go:311-423               handshakeContext (sticky handshakeErr, isHandshakeComplete, implicit Build)
     u_parrots.go:2735-2943          applyPresetByID / ApplyPreset (only the parts touching the session extensions
                                     and the key-share private keys)
     handshake_client.go:396-560     Conn.loadSession (tracker hooks), u_handshake_client.go:383-440 clientHandshake
     u_session_ticket.go, u_pre_shared_key.go  SessionTicketExtension / UtlsPreSharedKeyExtension
   Executable definitions only. Every uAssert / panic(...) is [Panic code]; every returned error is [Err code].
   Go mutates state before it fails, so every operation returns the new state together with its outcome.

   ARCHITECTURE. The state is literally  finite control (cstate)  x  provenance flags (gstate)  x  data (dstate).
   The Go functions are written as programs of a small free monad [prog]: [Get] can read only the two finite parts,
   [Put] changes only the control part, and every movement of data (ticket bytes, identities, session pointers) is a
   first-order action [Act a] whose effect on the flags ([gapply]) and on the data ([dapply]) is defined once. So the
   control behaviour of every call depends, by construction, only on (abstract world, kind of call, control, flags):
   [runC]; the data ride along: [runF]. Proofs/SessionP.v computes the reachable control states per abstract world.

   Abstractions (see notes/C20.md): an extension object is (made by the caller?, Initialized) in the control part and
   (wire bytes, session identity) in the data part; pointer identity between the controller's extension and the entry
   of uconn.Extensions is kept explicitly ([SOwn] / [SObj]); only the first session_ticket entry of the extension list
   is tracked (the others are the spec's untouched empty objects). The key-share private keys are modelled by three
   bits (a share exists / keys exist / the keys are the ones of the share). The one place where the code compares
   data (setPskToUConn on state PskExtAllSet: "only binders are allowed to change") is modelled by the flag
   [psk_same]: true exactly when the psk fields of HandshakeState were copied from the owned extension and neither
   has been written since. Cryptography, the ClientHello outside the two session extensions and the network are not
   modelled. *)
From UV Require Import Base.Common.

(* ---- panic codes (the message each uAssert/panic carries) ---- *)
Definition P_LOCKED : N := 1.        (* assertNotLocked: "you must not modify the session after it's locked"      :120 *)
Definition P_STATE : N := 2.         (* assertControllerState: "undesired controller state %d"                     :112 *)
Definition P_BUILT : N := 3.         (* assertHelloNotBuilt / syncSessionExts first uAssert                      :106,266 *)
Definition P_ABOUT : N := 4.         (* utlsAboutToLoadSession                                                    :102 *)
Definition P_SET_TICKET : N := 5.    (* setSessionTicketToUConn: "setSessionTicketExt failed: invalid state"      :190 *)
Definition P_SET_PSK : N := 6.       (* setPskToUConn: invalid state                                              :198 *)
Definition P_PSK_CHANGED : N := 7.   (* setPskToUConn: only binders are allowed to change                         :206 *)
Definition P_BINDERS : N := 8.       (* updateBinders                                                             :227 *)
Definition P_MULTI_TICKET : N := 9.  (* syncSessionExts: multiple ISessionTicketExtensions                        :275 *)
Definition P_PSK_NOT_LAST : N := 10. (* syncSessionExts: PreSharedKeyExtension must be the last extension         :285 *)
Definition P_ENTER_LOCKED : N := 11. (* onEnterLoadSessionCheck: session is set and locked                        :321 *)
Definition P_TWICE : N := 12.        (* onEnterLoadSessionCheck: you must not call loadSession() twice            :326 *)
Definition P_RETURN : N := 13.       (* onLoadSessionReturn                                                    :336,343 *)
Definition P_WRITE_BINDERS : N := 14. (* shouldLoadSessionWriteBinders                                          :351,359 *)
Definition P_CANNOT_SKIP : N := 15.  (* assertCanSkip: "session resumption is enabled, but there is no ..."       :126 *)
Definition P_INIT_GUARD : N := 16.   (* initializationGuard                                                    :142,144 *)
Definition P_BUILD_CALL : N := 17.   (* buildHandshakeState: "invalid call, client hello has already been built"  u_conn.go:113,127 *)
(* ---- error codes ---- *)
Definition E_DISABLED : N := 1.      (* "SetSessionTicketExtension/SetPskExtension failed: session is disabled" u_conn.go:227,238 *)
Definition E_NO_TICKET_EXT : N := 2. (* "the user provided a session ticket, but the specification doesn't contain one" :299 *)
Definition E_NO_PSK_EXT : N := 3.    (* "the user provided a psk, but the specification doesn't contain one"      :307 *)
Definition E_EMPTY_PSK : N := 4.     (* ErrEmptyPsk from UtlsPreSharedKeyExtension.Read  u_pre_shared_key.go:260 *)
Definition E_HANDSHAKE : N := 5.     (* the handshake itself failed (any error from clientHandshake) *)

Inductive bstatus := NotBuilt | ByUtls | ByGo.                                   (* u_conn.go:25-27 *)
Inductive cst := NoSession | TicketInit | TicketAllSet | PskInit | PskAllSet.    (* u_session_controller.go:21-25 *)
Inductive trk := NeverCalled | AboutToCall | ByULoad | ByGoTLS.                  (* u_session_controller.go:13-16 *)

(* control view of an ISessionTicketExtension / PreSharedKeyExtension object: who made it, IsInitialized() *)
Inductive oshape := ONone | OSome (user init : bool).
(* an entry of uconn.Extensions: the very object the controller owns, or another object *)
Inductive sshape := SOwn | SObj (user init : bool).
Inductive xts := X0 | X1 (s : sshape) | Xmany (s : sshape).   (* session_ticket entries: none, one, several (first shown) *)
Inductive xps := XPnone | XPsome (s : sshape).                (* the pre_shared_key entry *)
(* provenance of a datum: it is the value the caller injected (an initialized setter argument), or anything else *)
Inductive ghost := GInj | GOther.

Definition datum := (bytes * N)%type.     (* wire bytes (Ticket / Identities[0].Label), identity of the *SessionState (0 = nil) *)
Definition pristine : datum := ([], 0).

(* what loadSession finds in the ClientSessionCache for this server *)
Inductive hit := HitNone | Hit12 (ticket : bytes) (sess : N) | Hit13 (label : bytes) (sess : N).
Inductive hitk := HNone | H12 | H13.
Definition hit_kind (h : hit) : hitk := match h with HitNone => HNone | Hit12 _ _ => H12 | Hit13 _ _ => H13 end.
Definition hit_datum (h : hit) : datum := match h with HitNone => pristine | Hit12 b s | Hit13 b s => (b, s) end.

(* the session part of a marshaled ClientHello: the bodies of the session_ticket extensions in order, and the first
   identity of pre_shared_key when that extension is written *)
Definition wireview := (list bytes * option bytes)%type.

Record world := mkWorld {
  w_golang : bool;     (* ClientHelloID == HelloGolang *)
  w_tickets : nat;     (* number of ISessionTicketExtension in the spec *)
  w_psk : bool;        (* the spec has a PreSharedKeyExtension *)
  w_psk_last : bool;   (* ... and it is the last extension *)
  w_skip : bool;       (* uconn.skipResumptionOnNilExtension (true for every non-custom ClientHelloID) u_conn.go:75 *)
  w_tls13 : bool;      (* the spec has a KeyShareExtension whose entries have no Data yet *)
  w_cache0 : bool;     (* Config.ClientSessionCache != nil at UClient time *)
  w_disabled : bool;   (* Config.SessionTicketsDisabled *)
  w_omit : bool;       (* Config.OmitEmptyPsk *)
  w_hit : hit;         (* content of the cache for this server *)
  w_srv13 : bool;      (* the peer negotiates TLS 1.3 (so the key-share private key is needed) *)
  w_reapply : bool     (* true = the code before the fix: ApplyPreset runs again on every build until the session is locked *)
}.

(* the finite part of a world *)
Inductive tclass := T0 | T1 | Tmany.
Definition tclass_of (n : nat) : tclass := match n with O => T0 | S O => T1 | _ => Tmany end.
Record cworld := mkCW {
  cw_golang : bool; cw_tk : tclass; cw_psk : bool; cw_psk_last : bool; cw_skip : bool; cw_tls13 : bool;
  cw_cache0 : bool; cw_disabled : bool; cw_omit : bool; cw_hit : hitk; cw_srv13 : bool; cw_reapply : bool
}.
Definition cworld_of (w : world) : cworld :=
  mkCW (w_golang w) (tclass_of (w_tickets w)) (w_psk w) (w_psk_last w) (w_skip w) (w_tls13 w) (w_cache0 w)
       (w_disabled w) (w_omit w) (hit_kind (w_hit w)) (w_srv13 w) (w_reapply w).

Inductive op :=
| SetCache                                   (* SetSessionCache(non-nil cache) *)
| BuildNoSess                                (* BuildHandshakeStateWithoutSession *)
| SetTicket (e : option (bool * bytes * N))  (* SetSessionTicketExtension(nil | &SessionTicketExtension{Initialized, Ticket, Session}) *)
| SetPsk (e : option (bool * bytes * N))     (* SetPskExtension(nil | a UtlsPreSharedKeyExtension, initialized or not) *)
| SetState (e : option (bytes * N))          (* SetSessionState(nil | session) *)
| Build                                      (* BuildHandshakeState *)
| Handshake
| ReuseTicket (e : bytes * N)                (* fill the ISessionTicketExtension found in uconn.Extensions (Ticket, Session, Initialized)
                                                and pass that very object to SetSessionTicketExtension *)
| ReusePsk (e : bytes * N)                   (* InitializeByUtls on the UtlsPreSharedKeyExtension found in uconn.Extensions, then SetPskExtension(it) *)
| EditHello.                                 (* a documented edit of the (built) ClientHello: SetClientRandom, SetSNI, session id, ... *)

(* the finite part of a call *)
Inductive argk := ANil | AInit | AUninit.
Inductive okind := KSetCache | KBuildNoSess | KSetTicket (a : argk) | KSetPsk (a : argk) | KSetState | KBuild | KHandshake
                 | KReuseTicket | KReusePsk | KEdit.
Definition argk_of (e : option (bool * bytes * N)) : argk :=
  match e with None => ANil | Some (true, _, _) => AInit | Some (false, _, _) => AUninit end.
Definition kind (o : op) : okind :=
  match o with
  | SetCache => KSetCache | BuildNoSess => KBuildNoSess | Build => KBuild | Handshake => KHandshake
  | SetTicket e => KSetTicket (argk_of e) | SetPsk e => KSetPsk (argk_of e) | SetState _ => KSetState
  | ReuseTicket _ => KReuseTicket | ReusePsk _ => KReusePsk | EditHello => KEdit
  end.
(* the call hands over an initialized session *)
Definition injecting (k : okind) : bool :=
  match k with KSetTicket AInit | KSetPsk AInit | KSetState | KReuseTicket | KReusePsk => true | _ => false end.
(* the datum a setter call carries *)
Definition arg_datum (o : op) : datum :=
  match o with
  | SetTicket (Some (_, d, se)) | SetPsk (Some (_, d, se)) => (d, se)
  | SetState (Some (d, se)) | ReuseTicket (d, se) | ReusePsk (d, se) => (d, se)
  | _ => pristine          (* SetSessionState(nil): Initialized ticket extension with empty ticket and nil session *)
  end.

Record cstate := mkC {
  cache : bool;
  status : bstatus;
  applied : bool;
  cs : cst;
  locked : bool;
  tracker : trk;
  calling : bool;
  own_t : oshape;
  own_p : oshape;
  x_t : xts;
  x_p : xps;
  share_some : bool;
  keys_some : bool;
  keys_match : bool;
  done : bool;
  herr : bool;
  tsup : bool;
  binder_fresh : bool
}.
Definition set_cache (v : bool) (s : cstate) : cstate := mkC (v) (status s) (applied s) (cs s) (locked s) (tracker s) (calling s) (own_t s) (own_p s) (x_t s) (x_p s) (share_some s) (keys_some s) (keys_match s) (done s) (herr s) (tsup s) (binder_fresh s).
Definition set_status (v : bstatus) (s : cstate) : cstate := mkC (cache s) (v) (applied s) (cs s) (locked s) (tracker s) (calling s) (own_t s) (own_p s) (x_t s) (x_p s) (share_some s) (keys_some s) (keys_match s) (done s) (herr s) (tsup s) (binder_fresh s).
Definition set_applied (v : bool) (s : cstate) : cstate := mkC (cache s) (status s) (v) (cs s) (locked s) (tracker s) (calling s) (own_t s) (own_p s) (x_t s) (x_p s) (share_some s) (keys_some s) (keys_match s) (done s) (herr s) (tsup s) (binder_fresh s).
Definition set_cs (v : cst) (s : cstate) : cstate := mkC (cache s) (status s) (applied s) (v) (locked s) (tracker s) (calling s) (own_t s) (own_p s) (x_t s) (x_p s) (share_some s) (keys_some s) (keys_match s) (done s) (herr s) (tsup s) (binder_fresh s).
Definition set_locked (v : bool) (s : cstate) : cstate := mkC (cache s) (status s) (applied s) (cs s) (v) (tracker s) (calling s) (own_t s) (own_p s) (x_t s) (x_p s) (share_some s) (keys_some s) (keys_match s) (done s) (herr s) (tsup s) (binder_fresh s).
Definition set_tracker (v : trk) (s : cstate) : cstate := mkC (cache s) (status s) (applied s) (cs s) (locked s) (v) (calling s) (own_t s) (own_p s) (x_t s) (x_p s) (share_some s) (keys_some s) (keys_match s) (done s) (herr s) (tsup s) (binder_fresh s).
Definition set_calling (v : bool) (s : cstate) : cstate := mkC (cache s) (status s) (applied s) (cs s) (locked s) (tracker s) (v) (own_t s) (own_p s) (x_t s) (x_p s) (share_some s) (keys_some s) (keys_match s) (done s) (herr s) (tsup s) (binder_fresh s).
Definition set_own_t (v : oshape) (s : cstate) : cstate := mkC (cache s) (status s) (applied s) (cs s) (locked s) (tracker s) (calling s) (v) (own_p s) (x_t s) (x_p s) (share_some s) (keys_some s) (keys_match s) (done s) (herr s) (tsup s) (binder_fresh s).
Definition set_own_p (v : oshape) (s : cstate) : cstate := mkC (cache s) (status s) (applied s) (cs s) (locked s) (tracker s) (calling s) (own_t s) (v) (x_t s) (x_p s) (share_some s) (keys_some s) (keys_match s) (done s) (herr s) (tsup s) (binder_fresh s).
Definition set_x_t (v : xts) (s : cstate) : cstate := mkC (cache s) (status s) (applied s) (cs s) (locked s) (tracker s) (calling s) (own_t s) (own_p s) (v) (x_p s) (share_some s) (keys_some s) (keys_match s) (done s) (herr s) (tsup s) (binder_fresh s).
Definition set_x_p (v : xps) (s : cstate) : cstate := mkC (cache s) (status s) (applied s) (cs s) (locked s) (tracker s) (calling s) (own_t s) (own_p s) (x_t s) (v) (share_some s) (keys_some s) (keys_match s) (done s) (herr s) (tsup s) (binder_fresh s).
Definition set_share_some (v : bool) (s : cstate) : cstate := mkC (cache s) (status s) (applied s) (cs s) (locked s) (tracker s) (calling s) (own_t s) (own_p s) (x_t s) (x_p s) (v) (keys_some s) (keys_match s) (done s) (herr s) (tsup s) (binder_fresh s).
Definition set_keys_some (v : bool) (s : cstate) : cstate := mkC (cache s) (status s) (applied s) (cs s) (locked s) (tracker s) (calling s) (own_t s) (own_p s) (x_t s) (x_p s) (share_some s) (v) (keys_match s) (done s) (herr s) (tsup s) (binder_fresh s).
Definition set_keys_match (v : bool) (s : cstate) : cstate := mkC (cache s) (status s) (applied s) (cs s) (locked s) (tracker s) (calling s) (own_t s) (own_p s) (x_t s) (x_p s) (share_some s) (keys_some s) (v) (done s) (herr s) (tsup s) (binder_fresh s).
Definition set_done (v : bool) (s : cstate) : cstate := mkC (cache s) (status s) (applied s) (cs s) (locked s) (tracker s) (calling s) (own_t s) (own_p s) (x_t s) (x_p s) (share_some s) (keys_some s) (keys_match s) (v) (herr s) (tsup s) (binder_fresh s).
Definition set_herr (v : bool) (s : cstate) : cstate := mkC (cache s) (status s) (applied s) (cs s) (locked s) (tracker s) (calling s) (own_t s) (own_p s) (x_t s) (x_p s) (share_some s) (keys_some s) (keys_match s) (done s) (v) (tsup s) (binder_fresh s).
Definition set_tsup (v : bool) (s : cstate) : cstate := mkC (cache s) (status s) (applied s) (cs s) (locked s) (tracker s) (calling s) (own_t s) (own_p s) (x_t s) (x_p s) (share_some s) (keys_some s) (keys_match s) (done s) (herr s) (v) (binder_fresh s).
Definition set_binder_fresh (v : bool) (s : cstate) : cstate := mkC (cache s) (status s) (applied s) (cs s) (locked s) (tracker s) (calling s) (own_t s) (own_p s) (x_t s) (x_p s) (share_some s) (keys_some s) (keys_match s) (done s) (herr s) (tsup s) (v).

Record gstate := mkG {
  psk_same : bool;
  g_own_t : ghost;
  g_own_p : ghost;
  g_slot_t : ghost;
  g_slot_p : ghost;
  g_hs_sess : ghost;
  g_hs_ticket : ghost;
  g_hs_ident : ghost;
  g_raw_t : ghost;
  g_raw_p : ghost
}.
Definition set_psk_same (v : bool) (s : gstate) : gstate := mkG (v) (g_own_t s) (g_own_p s) (g_slot_t s) (g_slot_p s) (g_hs_sess s) (g_hs_ticket s) (g_hs_ident s) (g_raw_t s) (g_raw_p s).
Definition set_g_own_t (v : ghost) (s : gstate) : gstate := mkG (psk_same s) (v) (g_own_p s) (g_slot_t s) (g_slot_p s) (g_hs_sess s) (g_hs_ticket s) (g_hs_ident s) (g_raw_t s) (g_raw_p s).
Definition set_g_own_p (v : ghost) (s : gstate) : gstate := mkG (psk_same s) (g_own_t s) (v) (g_slot_t s) (g_slot_p s) (g_hs_sess s) (g_hs_ticket s) (g_hs_ident s) (g_raw_t s) (g_raw_p s).
Definition set_g_slot_t (v : ghost) (s : gstate) : gstate := mkG (psk_same s) (g_own_t s) (g_own_p s) (v) (g_slot_p s) (g_hs_sess s) (g_hs_ticket s) (g_hs_ident s) (g_raw_t s) (g_raw_p s).
Definition set_g_slot_p (v : ghost) (s : gstate) : gstate := mkG (psk_same s) (g_own_t s) (g_own_p s) (g_slot_t s) (v) (g_hs_sess s) (g_hs_ticket s) (g_hs_ident s) (g_raw_t s) (g_raw_p s).
Definition set_g_hs_sess (v : ghost) (s : gstate) : gstate := mkG (psk_same s) (g_own_t s) (g_own_p s) (g_slot_t s) (g_slot_p s) (v) (g_hs_ticket s) (g_hs_ident s) (g_raw_t s) (g_raw_p s).
Definition set_g_hs_ticket (v : ghost) (s : gstate) : gstate := mkG (psk_same s) (g_own_t s) (g_own_p s) (g_slot_t s) (g_slot_p s) (g_hs_sess s) (v) (g_hs_ident s) (g_raw_t s) (g_raw_p s).
Definition set_g_hs_ident (v : ghost) (s : gstate) : gstate := mkG (psk_same s) (g_own_t s) (g_own_p s) (g_slot_t s) (g_slot_p s) (g_hs_sess s) (g_hs_ticket s) (v) (g_raw_t s) (g_raw_p s).
Definition set_g_raw_t (v : ghost) (s : gstate) : gstate := mkG (psk_same s) (g_own_t s) (g_own_p s) (g_slot_t s) (g_slot_p s) (g_hs_sess s) (g_hs_ticket s) (g_hs_ident s) (v) (g_raw_p s).
Definition set_g_raw_p (v : ghost) (s : gstate) : gstate := mkG (psk_same s) (g_own_t s) (g_own_p s) (g_slot_t s) (g_slot_p s) (g_hs_sess s) (g_hs_ticket s) (g_hs_ident s) (g_raw_t s) (v).

Record dstate := mkD {
  d_own_t : datum;
  d_own_p : datum;
  d_slot_t : datum;
  d_slot_p : datum;
  hs_sess : N;
  hs_ticket : bytes;
  hs_ident : option bytes;
  hs_early : N;
  raw : option wireview;
  wire : option wireview
}.
Definition set_d_own_t (v : datum) (s : dstate) : dstate := mkD (v) (d_own_p s) (d_slot_t s) (d_slot_p s) (hs_sess s) (hs_ticket s) (hs_ident s) (hs_early s) (raw s) (wire s).
Definition set_d_own_p (v : datum) (s : dstate) : dstate := mkD (d_own_t s) (v) (d_slot_t s) (d_slot_p s) (hs_sess s) (hs_ticket s) (hs_ident s) (hs_early s) (raw s) (wire s).
Definition set_d_slot_t (v : datum) (s : dstate) : dstate := mkD (d_own_t s) (d_own_p s) (v) (d_slot_p s) (hs_sess s) (hs_ticket s) (hs_ident s) (hs_early s) (raw s) (wire s).
Definition set_d_slot_p (v : datum) (s : dstate) : dstate := mkD (d_own_t s) (d_own_p s) (d_slot_t s) (v) (hs_sess s) (hs_ticket s) (hs_ident s) (hs_early s) (raw s) (wire s).
Definition set_hs_sess (v : N) (s : dstate) : dstate := mkD (d_own_t s) (d_own_p s) (d_slot_t s) (d_slot_p s) (v) (hs_ticket s) (hs_ident s) (hs_early s) (raw s) (wire s).
Definition set_hs_ticket (v : bytes) (s : dstate) : dstate := mkD (d_own_t s) (d_own_p s) (d_slot_t s) (d_slot_p s) (hs_sess s) (v) (hs_ident s) (hs_early s) (raw s) (wire s).
Definition set_hs_ident (v : option bytes) (s : dstate) : dstate := mkD (d_own_t s) (d_own_p s) (d_slot_t s) (d_slot_p s) (hs_sess s) (hs_ticket s) (v) (hs_early s) (raw s) (wire s).
Definition set_hs_early (v : N) (s : dstate) : dstate := mkD (d_own_t s) (d_own_p s) (d_slot_t s) (d_slot_p s) (hs_sess s) (hs_ticket s) (hs_ident s) (v) (raw s) (wire s).
Definition set_raw (v : option wireview) (s : dstate) : dstate := mkD (d_own_t s) (d_own_p s) (d_slot_t s) (d_slot_p s) (hs_sess s) (hs_ticket s) (hs_ident s) (hs_early s) (v) (wire s).
Definition set_wire (v : option wireview) (s : dstate) : dstate := mkD (d_own_t s) (d_own_p s) (d_slot_t s) (d_slot_p s) (hs_sess s) (hs_ticket s) (hs_ident s) (hs_early s) (raw s) (v).

Definition st := (cstate * gstate * dstate)%type.
Definition st_c (s : st) : cstate := fst (fst s).
Definition st_g (s : st) : gstate := snd (fst s).
Definition st_d (s : st) : dstate := snd s.

(* ---- movements of data: the only way a program touches the flags and the data ---- *)
Inductive dact :=
| DArgT | DArgP          (* the controller takes the caller's extension (overrideExtension :235) *)
| DReuseT | DReuseP      (* the caller writes a session into the extension object found in uconn.Extensions *)
| DTakeT | DTakeP        (* the controller takes that object of the list (overrideExtension :235 with it) *)
| DAdoptT | DAdoptP      (* the controller takes the extension found in uconn.Extensions (syncSessionExts :278,288) *)
| DPreset                (* uconn.Extensions := copy of the spec's list (u_parrots.go:2839-2840) *)
| DInitT | DInitP        (* InitializeByUtls with the session loaded from the cache (:158,:182) *)
| DHsFromT | DHsFromP    (* setSessionTicketToUConn :191-192, setPskToUConn :201-204 *)
| DClearT | DClearP      (* syncSessionExts :301-303, :309-313 *)
| DMarshal               (* MarshalClientHello: what Read() of the two extensions writes *)
| DWireRaw | DWireGo.    (* the hello goes on the wire: the marshaled one, or the one crypto/tls builds for HelloGolang *)

Definition first_own (x : xts) : bool := match x with X1 SOwn | Xmany SOwn => true | _ => false end.
Definition first_slot (x : xts) : option sshape := match x with X0 => None | X1 s | Xmany s => Some s end.
Definition p_own (x : xps) : bool := match x with XPsome SOwn => true | _ => false end.
Definition o_some (o : oshape) : bool := match o with ONone => false | OSome _ _ => true end.
Definition o_is_init (o : oshape) : bool := match o with OSome _ true => true | _ => false end.
(* IsInitialized() of the object an entry denotes *)
Definition slot_init (own : oshape) (s : sshape) : bool :=
  match s with SOwn => o_is_init own | SObj _ i => i end.
(* the spec's object in the freshly copied list: the controller's own object if it adopted the spec's before *)
Definition spec_slot (own : oshape) : sshape :=
  match own with OSome false _ => SOwn | _ => SObj false false end.
Definition sessions_off (cw : cworld) (c : cstate) : bool := cw_disabled cw || negb (cache c).

(* effect on the provenance flags; [k] is the kind of the running call, [c] the control state at that point *)
Definition gapply (a : dact) (k : okind) (c : cstate) (g : gstate) : gstate :=
  match a with
  | DArgT => set_g_own_t (if injecting k then GInj else GOther)
               (set_g_slot_t (if first_own (x_t c) then g_own_t g else g_slot_t g) g)
  | DArgP => set_psk_same false
               (set_g_own_p (if injecting k then GInj else GOther)
                  (set_g_slot_p (if p_own (x_p c) then g_own_p g else g_slot_p g) g))
  | DReuseT => let x := if injecting k then GInj else GOther in
               if first_own (x_t c) then set_g_own_t x g else set_g_slot_t x g
  | DReuseP => let x := if injecting k then GInj else GOther in
               set_psk_same false (if p_own (x_p c) then set_g_own_p x g else set_g_slot_p x g)
  | DTakeT => if first_own (x_t c) then g else set_g_own_t (g_slot_t g) g
  | DTakeP => set_psk_same false (if p_own (x_p c) then g else set_g_own_p (g_slot_p g) g)
  | DAdoptT => match own_t c, first_slot (x_t c) with
               | ONone, Some (SObj _ _) => set_g_own_t (g_slot_t g) g
               | _, _ => g
               end
  | DAdoptP => match own_p c, x_p c with
               | ONone, XPsome (SObj _ _) => set_psk_same false (set_g_own_p (g_slot_p g) g)
               | _, _ => g
               end
  | DPreset => let g1 := match spec_slot (own_t c) with SOwn => g | SObj _ _ => set_g_slot_t GOther g end in
               match spec_slot (own_p c) with SOwn => g1 | SObj _ _ => set_g_slot_p GOther g1 end
  | DInitT => set_g_own_t GOther g
  | DInitP => set_psk_same false (set_g_own_p GOther g)
  | DHsFromT => set_psk_same false (set_g_hs_sess (g_own_t g) (set_g_hs_ticket (g_own_t g) g))
  | DHsFromP => set_psk_same true (set_g_hs_sess (g_own_p g) (set_g_hs_ident (g_own_p g) g))
  | DClearT => set_psk_same false (set_g_hs_sess GOther (set_g_hs_ticket GOther g))
  | DClearP => set_psk_same false (set_g_hs_sess GOther (set_g_hs_ident GOther g))
  | DMarshal =>
      set_g_raw_t (match x_t c with
                   | X1 SOwn => if o_some (own_t c) then g_own_t g else GOther
                   | X1 (SObj _ _) => g_slot_t g
                   | _ => GOther
                   end)
        (set_g_raw_p (match x_p c with
                      | XPsome s => if slot_init (own_p c) s
                                    then match s with SOwn => g_own_p g | SObj _ _ => g_slot_p g end
                                    else GOther
                      | XPnone => GOther
                      end) g)
  | DWireRaw | DWireGo => g
  end.

(* the session part of the hello crypto/tls writes for HelloGolang after its own loadSession *)
Definition go_view (w : world) (c : cstate) : wireview :=
  if sessions_off (cworld_of w) c
  then (if tsup c then [[]] else [], None)   (* loadSession returns early; the extension is there only if a setter flagged it *)
  else match w_hit w with
       | HitNone => ([[]], None)
       | Hit12 tk _ => ([tk], None)
       | Hit13 lb _ => ([[]], Some lb)
       end.

(* effect on the data *)
Definition dapply (w : world) (o : op) (a : dact) (c : cstate) (d : dstate) : dstate :=
  match a with
  | DArgT => set_d_own_t (arg_datum o) (set_d_slot_t (if first_own (x_t c) then d_own_t d else d_slot_t d) d)
  | DArgP => set_d_own_p (arg_datum o) (set_d_slot_p (if p_own (x_p c) then d_own_p d else d_slot_p d) d)
  | DReuseT => if first_own (x_t c) then set_d_own_t (arg_datum o) d else set_d_slot_t (arg_datum o) d
  | DReuseP => if p_own (x_p c) then set_d_own_p (arg_datum o) d else set_d_slot_p (arg_datum o) d
  | DTakeT => if first_own (x_t c) then d else set_d_own_t (d_slot_t d) d
  | DTakeP => if p_own (x_p c) then d else set_d_own_p (d_slot_p d) d
  | DAdoptT => match own_t c, first_slot (x_t c) with
               | ONone, Some (SObj _ _) => set_d_own_t (d_slot_t d) d
               | _, _ => d
               end
  | DAdoptP => match own_p c, x_p c with
               | ONone, XPsome (SObj _ _) => set_d_own_p (d_slot_p d) d
               | _, _ => d
               end
  | DPreset => let d1 := match spec_slot (own_t c) with SOwn => d | SObj _ _ => set_d_slot_t pristine d end in
               match spec_slot (own_p c) with SOwn => d1 | SObj _ _ => set_d_slot_p pristine d1 end
  | DInitT => set_d_own_t (hit_datum (w_hit w)) d
  | DInitP => set_d_own_p (hit_datum (w_hit w)) d
  | DHsFromT => set_hs_sess (snd (d_own_t d)) (set_hs_ticket (fst (d_own_t d)) d)
  | DHsFromP => set_hs_early (snd (d_own_p d)) (set_hs_sess (snd (d_own_p d)) (set_hs_ident (Some (fst (d_own_p d))) d))
  | DClearT => set_hs_sess 0 (set_hs_ticket [] d)
  | DClearP => set_hs_early 0 (set_hs_sess 0 (set_hs_ident None d))
  | DMarshal =>
      (* SessionTicketExtension.Read writes e.Ticket whatever Initialized says (u_session_ticket.go:37-53);
         UtlsPreSharedKeyExtension.Read writes the identities only when a session is present (u_pre_shared_key.go:257-262) *)
      let tdat := fun s => match s with
                           | SOwn => if o_some (own_t c) then fst (d_own_t d) else []
                           | SObj _ _ => fst (d_slot_t d)
                           end in
      let tks := match x_t c with
                 | X0 => []
                 | X1 s => [tdat s]
                 | Xmany s => tdat s :: repeat [] (Nat.pred (w_tickets w))
                 end in
      let pk := match x_p c with
                | XPnone => None
                | XPsome s => if slot_init (own_p c) s
                              then Some (match s with SOwn => fst (d_own_p d) | SObj _ _ => fst (d_slot_p d) end)
                              else None
                end in
      set_raw (Some (tks, pk)) d
  | DWireRaw => set_wire (raw d) d
  | DWireGo => set_wire (Some (go_view w c)) d
  end.

(* ---- programs ---- *)
Inductive prog (A : Type) : Type :=
| Ret (a : A)
| Get (k : cstate -> gstate -> prog A)       (* read the finite parts *)
| Put (f : cstate -> cstate) (k : prog A)    (* write the control part *)
| Act (a : dact) (k : prog A)                (* move data *)
| Fail (e : N)                               (* return an error *)
| Pan (p : N).                               (* panic *)
Arguments Ret {A} a.
Arguments Get {A} k.
Arguments Put {A} f k.
Arguments Act {A} a k.
Arguments Fail {A} e.
Arguments Pan {A} p.

Fixpoint bind {A B} (p : prog A) (f : A -> prog B) : prog B :=
  match p with
  | Ret a => f a
  | Get k => Get (fun c g => bind (k c g) f)
  | Put h k => Put h (bind k f)
  | Act a k => Act a (bind k f)
  | Fail e => Fail e
  | Pan q => Pan q
  end.
Notation "'let!' x := m 'in' k" := (bind m (fun x => k)) (at level 199, x name, m at level 100, k at level 199, right associativity).
Notation "m ;;; k" := (bind m (fun _ => k)) (at level 199, right associativity).

(* the control semantics: abstract world (inside the program), kind of call, control and flags *)
Fixpoint runC {A} (k : okind) (p : prog A) (c : cstate) (g : gstate) : (cstate * gstate) * res A :=
  match p with
  | Ret a => ((c, g), Ok a)
  | Get f => runC k (f c g) c g
  | Put h q => runC k q (h c) g
  | Act a q => runC k q c (gapply a k c g)
  | Fail e => ((c, g), Err e)
  | Pan x => ((c, g), Panic x)
  end.
(* the full semantics *)
Fixpoint runF {A} (w : world) (o : op) (p : prog A) (c : cstate) (g : gstate) (d : dstate) : st * res A :=
  match p with
  | Ret a => ((c, g, d), Ok a)
  | Get f => runF w o (f c g) c g d
  | Put h q => runF w o q (h c) g d
  | Act a q => runF w o q c (gapply a (kind o) c g) (dapply w o a c d)
  | Fail e => ((c, g, d), Err e)
  | Pan x => ((c, g, d), Panic x)
  end.

Definition get : prog cstate := Get (fun c _ => Ret c).
Definition put (f : cstate -> cstate) : prog unit := Put f (Ret tt).
Definition act (a : dact) : prog unit := Act a (Ret tt).
Definition uassert (b : bool) (c : N) : prog unit := if b then Ret tt else Pan c.
Definition when (b : bool) (m : prog unit) : prog unit := if b then m else Ret tt.

Definition cst_eqb (a b : cst) : bool :=
  match a, b with
  | NoSession, NoSession | TicketInit, TicketInit | TicketAllSet, TicketAllSet
  | PskInit, PskInit | PskAllSet, PskAllSet => true
  | _, _ => false
  end.
Definition bstatus_eqb (a b : bstatus) : bool :=
  match a, b with NotBuilt, NotBuilt | ByUtls, ByUtls | ByGo, ByGo => true | _, _ => false end.
Definition is_some {A} (o : option A) : bool := match o with Some _ => true | None => false end.

(* ---- sessionController ---- *)

(* an entry that pointed to the controller's old object keeps pointing to it when the controller is given another *)
Definition demote_s (old : oshape) (s : sshape) : sshape :=
  match s, old with SOwn, OSome u i => SObj u i | _, _ => s end.
Definition demote_t (old : oshape) (x : xts) : xts :=
  match x with X0 => X0 | X1 s => X1 (demote_s old s) | Xmany s => Xmany (demote_s old s) end.
Definition demote_p (old : oshape) (x : xps) : xps :=
  match x with XPnone => XPnone | XPsome s => XPsome (demote_s old s) end.
Definition shape_of (s : sshape) : oshape := match s with SOwn => ONone | SObj u i => OSome u i end.
Definition own_first (x : xts) : xts := match x with X0 => X0 | X1 _ => X1 SOwn | Xmany _ => Xmany SOwn end.

(* overrideExtension, u_session_controller.go:231-240 (extension is non-nil here); the caller's object is
   {made by the caller, Initialized = init} *)
Definition override_ticket (init : bool) : prog unit :=
  let! c := get in
  uassert (negb (locked c)) P_LOCKED ;;;
  uassert (cst_eqb (cs c) NoSession) P_STATE ;;;
  act DArgT ;;;
  put (fun c => set_own_t (OSome true init) (set_x_t (demote_t (own_t c) (x_t c)) c)) ;;;
  when init (put (set_cs TicketInit)).

Definition override_psk (init : bool) : prog unit :=
  let! c := get in
  uassert (negb (locked c)) P_LOCKED ;;;
  uassert (cst_eqb (cs c) NoSession) P_STATE ;;;
  act DArgP ;;;
  put (fun c => set_own_p (OSome true init) (set_x_p (demote_p (own_p c) (x_p c)) c)) ;;;
  when init (put (set_cs PskInit)).

(* syncSessionExts, u_session_controller.go:265-316. The loop visits the session-ticket entries in order, then the
   pre_shared_key entry (which the second uAssert requires to be the last one anyway). *)
Definition adopt_ticket : prog unit :=           (* lines 274-283 *)
  let! c := get in
  match first_slot (x_t c) with
  | None => Ret tt
  | Some sl =>
      act DAdoptT ;;;
      put (fun c => match own_t c with
                    | ONone => set_own_t (shape_of sl) (set_x_t (own_first (x_t c)) c)
                    | OSome _ _ => set_x_t (own_first (x_t c)) c
                    end) ;;;
      uassert (match x_t c with Xmany _ => false | _ => true end) P_MULTI_TICKET   (* a second one: numSessionExt != 0 *)
  end.

Definition adopt_psk (cw : cworld) : prog unit :=  (* lines 284-294 *)
  let! c := get in
  match x_p c with
  | XPnone => Ret tt
  | XPsome sl =>
      uassert (cw_psk_last cw) P_PSK_NOT_LAST ;;;
      act DAdoptP ;;;
      put (fun c => match own_p c with
                    | ONone => set_own_p (shape_of sl) (set_x_p (XPsome SOwn) c)
                    | OSome _ _ => set_x_p (XPsome SOwn) c
                    end)
  end.

Definition sync_session_exts (cw : cworld) : prog unit :=
  let! c := get in
  uassert (bstatus_eqb (status c) NotBuilt) P_BUILT ;;;                                            (* 266 *)
  uassert (negb (locked c)) P_LOCKED ;;;                                                           (* 267 *)
  uassert (cst_eqb (cs c) NoSession || cst_eqb (cs c) TicketInit || cst_eqb (cs c) PskInit) P_STATE ;;;  (* 269 *)
  adopt_ticket ;;;
  adopt_psk cw ;;;
  let! c := get in
  (match x_t c with                                                                                (* 297-304 *)
   | X0 => if cst_eqb (cs c) TicketInit then Fail E_NO_TICKET_EXT
           else act DClearT ;;; put (set_own_t ONone)
   | _ => Ret tt
   end) ;;;
  let! c := get in
  (match x_p c with                                                                                (* 305-314 *)
   | XPnone => if cst_eqb (cs c) PskInit then Fail E_NO_PSK_EXT
               else act DClearP ;;; put (set_own_p ONone)
   | XPsome _ => Ret tt
   end).

(* Conn.loadSession as seen by the controller, handshake_client.go:396-560: onEnterLoadSessionCheck, the lookup,
   shouldLoadSessionWriteBinders on the TLS 1.3 path, deferred onLoadSessionReturn *)
Definition load_session (cw : cworld) : prog hitk :=
  let! c := get in
  uassert (negb (locked c)) P_ENTER_LOCKED ;;;                                                      (* 321 *)
  (match tracker c with                                                                             (* 322-329 *)
   | AboutToCall | NeverCalled => put (set_calling true)
   | ByULoad | ByGoTLS => Pan P_TWICE
   end) ;;;
  let! c := get in
  let h := if sessions_off cw c then HNone else cw_hit cw in
  (match h with                                                                                     (* 351-360 *)
   | H13 => uassert (calling c) P_WRITE_BINDERS ;;;
            match tracker c with NeverCalled | AboutToCall => Ret tt | _ => Pan P_WRITE_BINDERS end
   | _ => Ret tt
   end) ;;;
  uassert (calling c) P_RETURN ;;;                                                                  (* 336 *)
  (match tracker c with                                                                             (* 337-344 *)
   | NeverCalled => put (set_tracker ByGoTLS)
   | AboutToCall => put (set_tracker ByULoad)
   | _ => Pan P_RETURN
   end) ;;;
  put (set_calling false) ;;;
  Ret h.

(* initSessionTicketExt, :148-161 *)
Definition init_ticket_ext (cw : cworld) : prog unit :=
  let! c := get in
  uassert (negb (locked c)) P_LOCKED ;;;
  uassert (bstatus_eqb (status c) NotBuilt) P_BUILT ;;;
  uassert (cst_eqb (cs c) NoSession) P_STATE ;;;
  match own_t c with
  | ONone => uassert (cw_skip cw) P_CANNOT_SKIP
  | OSome u i =>
      uassert (negb i) P_INIT_GUARD ;;;
      act DInitT ;;;
      put (fun c => set_cs TicketInit (set_own_t (OSome u true) c))
  end.

(* initPskExt, :166-186 *)
Definition init_psk_ext (cw : cworld) : prog unit :=
  let! c := get in
  uassert (negb (locked c)) P_LOCKED ;;;
  uassert (bstatus_eqb (status c) NotBuilt) P_BUILT ;;;
  uassert (cst_eqb (cs c) NoSession) P_STATE ;;;
  match own_p c with
  | ONone => uassert (cw_skip cw) P_CANNOT_SKIP
  | OSome u i =>
      uassert (negb i) P_INIT_GUARD ;;;
      act DInitP ;;;
      put (fun c => set_cs PskInit (set_own_p (OSome u true) c))
  end.

(* setSessionTicketToUConn, :189-194 *)
Definition set_ticket_to_uconn : prog unit :=
  let! c := get in
  match own_t c with
  | OSome _ _ =>
      uassert (cst_eqb (cs c) TicketInit) P_SET_TICKET ;;;
      act DHsFromT ;;;
      put (set_cs TicketAllSet)
  | ONone => Pan P_SET_TICKET
  end.

(* setPskToUConn, :197-213 *)
Definition set_psk_to_uconn : prog unit :=
  Get (fun c g =>
  match own_p c with
  | OSome _ _ =>
      match cs c with
      | PskInit => act DHsFromP ;;; put (set_cs PskAllSet)
      | PskAllSet => uassert (psk_same g) P_PSK_CHANGED     (* Session, EarlySecret, identities still the extension's *)
      | _ => Pan P_SET_PSK
      end
  | ONone => Pan P_SET_PSK
  end).

(* shouldUpdateBinders :219-224, updateBinders :226-229 (PatchBuiltHello itself is cryptography: not modelled) *)
Definition should_update_binders (c : cstate) : bool :=
  o_some (own_p c) && (cst_eqb (cs c) PskInit || cst_eqb (cs c) PskAllSet).

(* finalCheck, :136-139 *)
Definition final_check : prog unit :=
  let! c := get in
  uassert (cst_eqb (cs c) PskAllSet || cst_eqb (cs c) TicketAllSet || cst_eqb (cs c) NoSession) P_STATE ;;;
  put (set_locked true).

(* ---- UConn ---- *)

(* ApplyPreset, u_parrots.go:2766-2943: fresh KeyShareKeys (2779-2783); uconn.Extensions := copy of the spec's list
   (2839-2840) — the spec's objects are the ones of the previous application; a key share is generated only for
   entries without Data (2885-2887), the first generated private key is kept (2917); syncSessionExts (2937). *)
Definition apply_preset (cw : cworld) : prog unit :=
  put (fun c => set_keys_some false (set_keys_match false c)) ;;;
  act DPreset ;;;
  put (fun c => set_x_t (match cw_tk cw with
                         | T0 => X0
                         | T1 => X1 (spec_slot (own_t c))
                         | Tmany => Xmany (spec_slot (own_t c))
                         end)
                (set_x_p (if cw_psk cw then XPsome (spec_slot (own_p c)) else XPnone) c)) ;;;
  when (cw_tls13 cw)
    (let! c := get in
     if share_some c then Ret tt             (* len(ext.KeyShares[i].Data) > 1: continue *)
     else put (fun c => set_share_some true (set_keys_some true (set_keys_match true c)))) ;;;
  sync_session_exts cw.

(* uLoadSession, u_conn.go:165-192; shouldLoadSession, u_session_controller.go:85-97 *)
Definition u_load_session (cw : cworld) : prog unit :=
  let! c := get in
  if sessions_off cw c then Ret tt
  else if (negb (o_some (own_t c)) && negb (o_some (own_p c))) || negb (bstatus_eqb (status c) NotBuilt) then Ret tt
  else match cs c with
       | TicketInit => set_ticket_to_uconn
       | PskInit => set_psk_to_uconn
       | _ =>
           uassert (cst_eqb (cs c) NoSession && negb (locked c)) P_ABOUT ;;;   (* utlsAboutToLoadSession :101-104 *)
           put (set_tracker AboutToCall) ;;;
           let! h := load_session cw in
           match h with
           | HNone => Ret tt
           | H12 => init_ticket_ext cw ;;; set_ticket_to_uconn
           | H13 => init_psk_ext cw
           end
       end.

(* MarshalClientHello, as far as the two session extensions go: ErrEmptyPsk when the pre_shared_key extension has no
   session and OmitEmptyPsk is unset (u_pre_shared_key.go:257-262) *)
Definition marshal (cw : cworld) : prog unit :=
  let! c := get in
  (match x_p c with
   | XPnone => act DMarshal
   | XPsome sl => if slot_init (own_p c) sl || cw_omit cw then act DMarshal else Fail E_EMPTY_PSK
   end) ;;;
  put (set_binder_fresh false).   (* Raw is new: the binders in it are placeholders / those of an earlier marshaling *)

(* uApplyPatch, u_conn.go:194-201 *)
Definition u_apply_patch : prog unit :=
  let! c := get in
  when (should_update_binders c)
    (uassert (should_update_binders c) P_BINDERS ;;;
     put (set_binder_fresh true) ;;;          (* PatchBuiltHello: binders recomputed over the hello just marshaled *)
     set_psk_to_uconn).

(* buildHandshakeState, u_conn.go:108-163 (with the fix: the preset is applied once) *)
Definition build (cw : cworld) (load : bool) : prog unit :=
  let! c := get in
  if cw_golang cw then
    if bstatus_eqb (status c) ByGo then Ret tt
    else
      uassert (bstatus_eqb (status c) NotBuilt) P_BUILD_CALL ;;;
      (* makeClientHello: fresh key share and its private key together *)
      (* ... in a new Hello object (TicketSupported unset until crypto/tls' loadSession) *)
      put (fun c => set_tsup false (set_status ByGo (set_share_some true (set_keys_some true (set_keys_match true c)))))
  else
    uassert (bstatus_eqb (status c) ByUtls || bstatus_eqb (status c) NotBuilt) P_BUILD_CALL ;;;
    when (bstatus_eqb (status c) NotBuilt)
      (if applied c && negb (cw_reapply cw) then sync_session_exts cw
       else (apply_preset cw ;;; put (set_applied true))) ;;;
    when load (u_load_session cw) ;;;
    marshal cw ;;;
    when load (u_apply_patch ;;; final_check ;;; put (set_status ByUtls)).

(* the key-share private keys are the ones of the share in the hello (or there is neither) *)
Definition keys_eq (c : cstate) : bool :=
  if share_some c then keys_some c && keys_match c else negb (keys_some c).

(* the session_ticket extension in the list is initialized (it carries a ticket the server accepts) but the session
   was never set to HandshakeState: only possible when a setter call was refused after the caller had filled the object *)
Definition unarmed_ticket (c : cstate) : bool :=
  match first_slot (x_t c) with Some sl => slot_init (own_t c) sl | None => false end &&
  negb (cst_eqb (cs c) TicketAllSet).

Definition unarmed_psk (c : cstate) : bool :=
  match x_p c with XPsome sl => slot_init (own_p c) sl | XPnone => false end &&
  negb (cst_eqb (cs c) PskAllSet).

(* UConn.handshakeContext u_conn.go:317-423 and clientHandshake u_handshake_client.go:383-440 *)
Definition handshake (cw : cworld) : prog unit :=
  let! c := get in
  if done c then Ret tt                                   (* isHandshakeComplete: 321 *)
  else if herr c then Fail E_HANDSHAKE                    (* sticky handshakeErr: 364 *)
  else
    build cw true ;;;                                     (* 376: an error here is returned without being recorded *)
    let! c := get in
    (if locked c then act DWireRaw                        (* session taken from HandshakeState: 431-440 *)
     else (let! h := load_session cw in act DWireGo)) ;;;
    let! c := get in
    if cw_srv13 cw && (((cw_tls13 cw || cw_golang cw) && negb (keys_eq c))       (* no private key for the share the server used *)
                       || (cst_eqb (cs c) PskAllSet && negb (binder_fresh c)))  (* the server rejects a stale binder *)
       || (cw_srv13 cw && unarmed_psk c)              (* identity with placeholder binders: a TLS 1.3 server rejects it *)
       || (negb (cw_srv13 cw) && unarmed_ticket c)    (* a TLS 1.2 server resumes the initialized ticket it is shown; a client
                                                        that did not arm that session (HandshakeState.Session) fails *)
    then put (set_herr true) ;;; Fail E_HANDSHAKE
    else put (set_done true).

(* "Reuse": BuildHandshakeStateWithoutSession exists to inspect the hello before setting the session; here the caller
   fills the session-ticket / pre_shared_key extension object it found in uconn.Extensions and hands that same object
   to the setter. The object is written before the setter runs its checks. *)
Definition init_slot (s : sshape) : sshape := match s with SOwn => SOwn | SObj u _ => SObj u true end.
Definition init_own (o : oshape) : oshape := match o with ONone => ONone | OSome u _ => OSome u true end.
Definition reuse_ticket (cw : cworld) (fallback : prog unit) : prog unit :=
  let! c := get in
  match first_slot (x_t c) with
  | None => fallback                                   (* no such object in the list: a fresh one is used instead *)
  | Some sl =>
      act DReuseT ;;;
      put (fun c => if first_own (x_t c) then set_own_t (init_own (own_t c)) c
                    else set_x_t (match x_t c with X0 => X0 | X1 s => X1 (init_slot s) | Xmany s => Xmany (init_slot s) end) c) ;;;
      let! c := get in
      if sessions_off cw c then Fail E_DISABLED
      else
        uassert (negb (locked c)) P_LOCKED ;;;
        uassert (cst_eqb (cs c) NoSession) P_STATE ;;;
        act DTakeT ;;;
        put (fun c => set_x_t (own_first (x_t c))
                        (match first_slot (x_t c) with Some (SObj u i) => set_own_t (OSome u i) c | _ => c end)) ;;;
        let! c := get in
        when (o_is_init (own_t c)) (put (set_cs TicketInit))
  end.
Definition reuse_psk (cw : cworld) (fallback : prog unit) : prog unit :=
  let! c := get in
  match x_p c with
  | XPnone => fallback
  | XPsome sl =>
      act DReuseP ;;;
      put (fun c => if p_own (x_p c) then set_own_p (init_own (own_p c)) c
                    else set_x_p (match x_p c with XPnone => XPnone | XPsome s => XPsome (init_slot s) end) c) ;;;
      let! c := get in
      if sessions_off cw c then Fail E_DISABLED
      else
        put (set_tsup true) ;;;
        uassert (negb (locked c)) P_LOCKED ;;;
        uassert (cst_eqb (cs c) NoSession) P_STATE ;;;
        act DTakeP ;;;
        put (fun c => set_x_p (XPsome SOwn)
                        (match x_p c with XPsome (SObj u i) => set_own_p (OSome u i) c | _ => c end)) ;;;
        let! c := get in
        when (o_is_init (own_p c)) (put (set_cs PskInit))
  end.

Definition setter (cw : cworld) (a : argk) (ov : bool -> prog unit) : prog unit :=
  let! c := get in
  if sessions_off cw c then Fail E_DISABLED                                 (* u_conn.go:226-228, 237-239 *)
  else match a with ANil => Ret tt | AInit => ov true | AUninit => ov false end.

Definition stepk (cw : cworld) (k : okind) : prog unit :=
  match k with
  | KSetCache => put (fun c => set_tsup true (set_cache true c))            (* u_conn.go:249-252: also Hello.TicketSupported = true *)
  | KBuildNoSess => build cw false
  | KBuild => build cw true
  | KHandshake => handshake cw
  | KSetTicket a => setter cw a override_ticket                             (* u_conn.go:225-233 *)
  | KSetState => setter cw AInit override_ticket                            (* u_conn.go:214-221 *)
  | KSetPsk a => setter cw a (fun i => put (set_tsup true) ;;; override_psk i)   (* u_conn.go:236-246; :244 Hello.TicketSupported = true *)
  | KReuseTicket => reuse_ticket cw (setter cw AInit override_ticket)
  | KReusePsk => reuse_psk cw (setter cw AInit (fun i => put (set_tsup true) ;;; override_psk i))
  | KEdit => put (set_binder_fresh false)                                   (* the hello bytes change: binders computed before are stale *)
  end.

Definition cstep (cw : cworld) (k : okind) (c : cstate) (g : gstate) : (cstate * gstate) * res unit :=
  runC k (stepk cw k) c g.
Definition step (w : world) (o : op) (s : st) : st * res unit :=
  runF w o (stepk (cworld_of w) (kind o)) (st_c s) (st_g s) (st_d s).

Definition cinit (cache0 : bool) : cstate :=
  mkC cache0 NotBuilt false NoSession false NeverCalled false ONone ONone X0 XPnone false false false false false false false.
Definition ginit : gstate := mkG false GOther GOther GOther GOther GOther GOther GOther GOther GOther.
Definition dinit : dstate := mkD pristine pristine pristine pristine 0 [] None 0 None None.
Definition init (w : world) : st := (cinit (w_cache0 w), ginit, dinit).

Fixpoint run (w : world) (s : st) (ops : list op) : list (res unit) :=
  match ops with
  | [] => []
  | o :: r => let (s', x) := step w o s in x :: run w s' r
  end.
Fixpoint final (w : world) (s : st) (ops : list op) : st :=
  match ops with
  | [] => s
  | o :: r => final w (fst (step w o s)) r
  end.

(* ---- the orders the documentation allows ----
   u_conn.go:79-106: BuildHandshakeState may be called repeatedly and is called by Handshake; the session ticket and
   psk extensions "cannot be changed after calling BuildHandshakeState"; BuildHandshakeStateWithoutSession exists "to
   inspect the ClientHello before setting the session manually through SetSessionTicketExtension or SetPSKExtension".
   u_conn.go:225-248: the setters need session support (a ClientSessionCache, tickets not disabled).
   u_session_controller.go:231-240: one session per connection (the controller must be in NoSession). *)
Inductive injk := INone | ITicket | IPsk.
Record lst := mkL { l_cache : bool; l_set : bool; l_built : bool; l_hs : bool; l_inj : injk }.
Definition linit (cache0 : bool) : lst := mkL cache0 false false false INone.

Definition setter_arg (k : okind) : option (option bool) :=   (* None: not a setter; Some None: nil argument; Some (Some i): Initialized = i *)
  match k with
  | KSetTicket ANil | KSetPsk ANil => Some None
  | KSetTicket AInit | KSetPsk AInit | KSetState | KReuseTicket | KReusePsk => Some (Some true)
  | KSetTicket AUninit | KSetPsk AUninit => Some (Some false)
  | _ => None
  end.
Definition inj_kind (k : okind) : injk :=
  match k with KSetTicket AInit | KSetState | KReuseTicket => ITicket | KSetPsk AInit | KReusePsk => IPsk | _ => INone end.

(* a call the documentation forbids: a setter without session support, a (non-nil) session extension after
   BuildHandshakeState/Handshake, a second session *)
Definition forbiddenk (cw : cworld) (l : lst) (k : okind) : bool :=
  match setter_arg k with
  | None => false
  | Some None => negb (l_cache l) || cw_disabled cw
  | Some (Some _) => negb (l_cache l) || cw_disabled cw || l_built l || l_set l
  end.

(* Once Handshake has been called only Handshake again is a documented call (it returns the recorded result); the
   handshake replaces HandshakeState, so building again afterwards is outside the documentation and outside this model. *)
Definition legal_stepk (cw : cworld) (l : lst) (k : okind) : option lst :=
  match k with
  | KSetCache => if l_hs l then None else Some (mkL true (l_set l) (l_built l) (l_hs l) (l_inj l))
  | KBuildNoSess | KEdit => if l_hs l then None else Some l
  | KBuild => if l_hs l then None else Some (mkL (l_cache l) (l_set l) true (l_hs l) (l_inj l))
  | KHandshake => Some (mkL (l_cache l) (l_set l) true true (l_inj l))
  | _ =>
      if forbiddenk cw l k then None
      else match setter_arg k with
           | Some (Some i) => Some (mkL (l_cache l) i (l_built l) (l_hs l)
                                        (match l_inj l with INone => inj_kind k | x => x end))
           | _ => Some l
           end
  end.
Definition forbidden (w : world) (l : lst) (o : op) : bool := forbiddenk (cworld_of w) l (kind o).
Definition legal_step (w : world) (l : lst) (o : op) : option lst := legal_stepk (cworld_of w) l (kind o).

Fixpoint legal_from (w : world) (l : lst) (ops : list op) : option lst :=
  match ops with
  | [] => Some l
  | o :: r => match legal_step w l o with Some l' => legal_from w l' r | None => None end
  end.
Definition legal (w : world) (ops : list op) : bool := is_some (legal_from w (linit (w_cache0 w)) ops).

(* the shape of every predefined (non-custom) ClientHelloID: at most one session-ticket extension, pre_shared_key
   last and never without session_ticket, resumption skipped when an extension is missing, OmitEmptyPsk set when the
   spec carries a pre_shared_key extension (otherwise the hello does not marshal without a session: ErrEmptyPsk) *)
Definition cworld_ok (cw : cworld) : bool :=
  (match cw_tk cw with Tmany => false | _ => true end) && cw_skip cw && negb (cw_reapply cw) &&
  (negb (cw_psk cw) || (cw_psk_last cw && cw_omit cw && match cw_tk cw with T1 => true | _ => false end)).
Definition world_ok (w : world) : bool := cworld_ok (cworld_of w).

(* the initialized session the caller injected in a legal history, if any *)
Inductive inj := InjTicket (tk : bytes) (se : N) | InjPsk (lb : bytes) (se : N).
Definition inj_of (o : op) : option inj :=
  match o with
  | SetTicket (Some (true, tk, se)) => Some (InjTicket tk se)
  | SetState None => Some (InjTicket [] 0)
  | SetState (Some (tk, se)) => Some (InjTicket tk se)
  | SetPsk (Some (true, lb, se)) => Some (InjPsk lb se)
  | ReuseTicket (tk, se) => Some (InjTicket tk se)
  | ReusePsk (lb, se) => Some (InjPsk lb se)
  | _ => None
  end.
Fixpoint injected (ops : list op) : option inj :=
  match ops with
  | [] => None
  | o :: r => match inj_of o with Some i => Some i | None => injected r end
  end.

(* Model of the session-injection protocol of UConn and its sessionController.
   Go sources (line numbers at the pinned commit, with fixes/C20-apply-preset-once.diff applied):
     u_session_controller.go:32-361  sessionController (state, locked, loadSessionTracker, owned extensions)
     u_conn.go:96-201                BuildHandshakeState / BuildHandshakeStateWithoutSession / buildHandshakeState /
                                     uLoadSession / uApplyPatch
     u_conn.go:214-252               SetSessionState / SetSessionTicketExtension / SetPskExtension / SetSessionCache
     u_conn.go:311-423               handshakeContext (sticky handshakeErr, isHandshakeComplete, implicit Build)
     u_parrots.go:2735-2943          applyPresetByID / ApplyPreset (only the parts touching the session extensions
                                     and the key-share private keys)
     handshake_client.go:396-560     Conn.loadSession (tracker hooks), u_handshake_client.go:383-440 clientHandshake
     u_session_ticket.go, u_pre_shared_key.go  SessionTicketExtension / UtlsPreSharedKeyExtension (IsInitialized,
                                     InitializeByUtls, what Read puts on the wire)
   Executable definitions only. Every uAssert / panic(...) is [Panic code]; every returned error is [Err code].
   Go mutates state before it fails, so every operation returns the new state together with its outcome.

   Abstractions (see notes/C20.md): an extension object is (who made it, Initialized, the bytes it would put on the
   wire, the identity of the session it carries). Pointer identity between the controller's owned extension and the
   entry of uconn.Extensions is kept explicitly: a slot of the extension list is either [SOwn] (the very object the
   controller owns) or [SObj o] (another object). Key pairs are identified by a generation number. Cryptography, the
   ClientHello encoding outside the two session extensions and the network are not modelled. *)
From UV Require Import Base.Common.

(* ---- panic codes (the message each uAssert/panic carries) ---- *)
Definition P_LOCKED : N := 1.        (* assertNotLocked: "you must not modify the session after it's locked"      :120 *)
Definition P_STATE : N := 2.         (* assertControllerState: "undesired controller state %d"                     :112 *)
Definition P_BUILT : N := 3.         (* assertHelloNotBuilt / syncSessionExts first uAssert                      :106,266 *)
Definition P_ABOUT : N := 4.         (* utlsAboutToLoadSession                                                    :102 *)
Definition P_SET_TICKET : N := 5.    (* setSessionTicketToUConn: "setSessionTicketExt failed: invalid state"      :190 *)
Definition P_SET_PSK : N := 6.       (* setPskToUConn: invalid state                                              :198 *)
Definition P_PSK_CHANGED : N := 7.   (* setPskToUConn: only binders are allowed to change                         :206 *)
Definition P_BINDERS : N := 8.       (* updateBinders                                                             :227 *)
Definition P_MULTI_TICKET : N := 9.  (* syncSessionExts: multiple ISessionTicketExtensions                        :275 *)
Definition P_PSK_NOT_LAST : N := 10. (* syncSessionExts: PreSharedKeyExtension must be the last extension         :285 *)
Definition P_ENTER_LOCKED : N := 11. (* onEnterLoadSessionCheck: session is set and locked                        :321 *)
Definition P_TWICE : N := 12.        (* onEnterLoadSessionCheck: you must not call loadSession() twice            :326 *)
Definition P_RETURN : N := 13.       (* onLoadSessionReturn                                                    :336,343 *)
Definition P_WRITE_BINDERS : N := 14. (* shouldLoadSessionWriteBinders                                          :351,359 *)
Definition P_CANNOT_SKIP : N := 15.  (* assertCanSkip: "session resumption is enabled, but there is no ..."       :126 *)
Definition P_INIT_GUARD : N := 16.   (* initializationGuard                                                    :142,144 *)
Definition P_BUILD_CALL : N := 17.   (* buildHandshakeState: "invalid call, client hello has already been built"  u_conn.go:113,127 *)
(* ---- error codes ---- *)
Definition E_DISABLED : N := 1.      (* "SetSessionTicketExtension/SetPskExtension failed: session is disabled" u_conn.go:227,238 *)
Definition E_NO_TICKET_EXT : N := 2. (* "the user provided a session ticket, but the specification doesn't contain one" :299 *)
Definition E_NO_PSK_EXT : N := 3.    (* "the user provided a psk, but the specification doesn't contain one"      :307 *)
Definition E_EMPTY_PSK : N := 4.     (* ErrEmptyPsk from UtlsPreSharedKeyExtension.Read  u_pre_shared_key.go:260 *)
Definition E_HANDSHAKE : N := 5.     (* the handshake itself failed (any error from clientHandshake) *)

Inductive bstatus := NotBuilt | ByUtls | ByGo.                                   (* u_conn.go:25-27 *)
Inductive cst := NoSession | TicketInit | TicketAllSet | PskInit | PskAllSet.    (* u_session_controller.go:21-25 *)
Inductive trk := NeverCalled | AboutToCall | ByULoad | ByGoTLS.                  (* u_session_controller.go:13-16 *)

(* an ISessionTicketExtension / PreSharedKeyExtension object *)
Record obj := mkObj {
  o_user : bool;    (* true: passed in by the caller; false: the object inside the ClientHelloSpec *)
  o_init : bool;    (* IsInitialized() *)
  o_data : bytes;   (* Ticket, resp. Identities[0].Label *)
  o_sess : N        (* identity of the *SessionState it carries (0 = nil) *)
}.
Definition pristine : obj := mkObj false false [] 0.
Inductive slot := SOwn | SObj (o : obj).

(* what loadSession finds in the ClientSessionCache for this server *)
Inductive hit := HitNone | Hit12 (ticket : bytes) (sess : N) | Hit13 (label : bytes) (sess : N).

(* the session part of a marshaled ClientHello: the bodies of the session_ticket extensions in order, and the first
   identity of pre_shared_key when that extension is written *)
Definition wireview := (list bytes * option bytes)%type.

Record world := mkWorld {
  w_golang : bool;     (* ClientHelloID == HelloGolang *)
  w_tickets : nat;     (* number of ISessionTicketExtension in the spec *)
  w_psk : bool;        (* the spec has a PreSharedKeyExtension *)
  w_psk_last : bool;   (* ... and it is the last extension *)
  w_skip : bool;       (* uconn.skipResumptionOnNilExtension (true for every non-custom ClientHelloID) u_conn.go:75 *)
  w_tls13 : bool;      (* the spec has a KeyShareExtension whose entries have no Data yet *)
  w_cache0 : bool;     (* Config.ClientSessionCache != nil at UClient time *)
  w_disabled : bool;   (* Config.SessionTicketsDisabled *)
  w_omit : bool;       (* Config.OmitEmptyPsk *)
  w_hit : hit;         (* content of the cache for this server *)
  w_srv13 : bool;      (* the peer negotiates TLS 1.3 (so the key-share private key is needed) *)
  w_reapply : bool     (* true = the code before the fix: ApplyPreset runs again on every build until the session is locked *)
}.

Inductive op :=
| SetCache                                   (* SetSessionCache(non-nil cache) *)
| BuildNoSess                                (* BuildHandshakeStateWithoutSession *)
| SetTicket (e : option (bool * bytes * N))  (* SetSessionTicketExtension(nil | &SessionTicketExtension{Initialized, Ticket, Session}) *)
| SetPsk (e : option (bool * bytes * N))     (* SetPskExtension(nil | a UtlsPreSharedKeyExtension, initialized or not) *)
| SetState (e : option (bytes * N))          (* SetSessionState(nil | session) *)
| Build                                      (* BuildHandshakeState *)
| Handshake.

Record st := mkSt {
  cache : bool;
  status : bstatus;
  applied : bool;
  cs : cst;
  locked : bool;
  tracker : trk;
  calling : bool;
  own_t : option obj;
  own_p : option obj;
  x_t : list slot;
  x_p : option slot;
  hs_sess : N;
  hs_ticket : bytes;
  hs_ident : option bytes;
  hs_early : N;
  gen : N;
  keys : option N;
  share : option N;
  raw : option wireview;
  done : bool;
  herr : bool;
  wire : option wireview
}.

Definition set_cache (v : bool) (s : st) : st := mkSt (v) (status s) (applied s) (cs s) (locked s) (tracker s) (calling s) (own_t s) (own_p s) (x_t s) (x_p s) (hs_sess s) (hs_ticket s) (hs_ident s) (hs_early s) (gen s) (keys s) (share s) (raw s) (done s) (herr s) (wire s).
Definition set_status (v : bstatus) (s : st) : st := mkSt (cache s) (v) (applied s) (cs s) (locked s) (tracker s) (calling s) (own_t s) (own_p s) (x_t s) (x_p s) (hs_sess s) (hs_ticket s) (hs_ident s) (hs_early s) (gen s) (keys s) (share s) (raw s) (done s) (herr s) (wire s).
Definition set_applied (v : bool) (s : st) : st := mkSt (cache s) (status s) (v) (cs s) (locked s) (tracker s) (calling s) (own_t s) (own_p s) (x_t s) (x_p s) (hs_sess s) (hs_ticket s) (hs_ident s) (hs_early s) (gen s) (keys s) (share s) (raw s) (done s) (herr s) (wire s).
Definition set_cs (v : cst) (s : st) : st := mkSt (cache s) (status s) (applied s) (v) (locked s) (tracker s) (calling s) (own_t s) (own_p s) (x_t s) (x_p s) (hs_sess s) (hs_ticket s) (hs_ident s) (hs_early s) (gen s) (keys s) (share s) (raw s) (done s) (herr s) (wire s).
Definition set_locked (v : bool) (s : st) : st := mkSt (cache s) (status s) (applied s) (cs s) (v) (tracker s) (calling s) (own_t s) (own_p s) (x_t s) (x_p s) (hs_sess s) (hs_ticket s) (hs_ident s) (hs_early s) (gen s) (keys s) (share s) (raw s) (done s) (herr s) (wire s).
Definition set_tracker (v : trk) (s : st) : st := mkSt (cache s) (status s) (applied s) (cs s) (locked s) (v) (calling s) (own_t s) (own_p s) (x_t s) (x_p s) (hs_sess s) (hs_ticket s) (hs_ident s) (hs_early s) (gen s) (keys s) (share s) (raw s) (done s) (herr s) (wire s).
Definition set_calling (v : bool) (s : st) : st := mkSt (cache s) (status s) (applied s) (cs s) (locked s) (tracker s) (v) (own_t s) (own_p s) (x_t s) (x_p s) (hs_sess s) (hs_ticket s) (hs_ident s) (hs_early s) (gen s) (keys s) (share s) (raw s) (done s) (herr s) (wire s).
Definition set_own_t (v : option obj) (s : st) : st := mkSt (cache s) (status s) (applied s) (cs s) (locked s) (tracker s) (calling s) (v) (own_p s) (x_t s) (x_p s) (hs_sess s) (hs_ticket s) (hs_ident s) (hs_early s) (gen s) (keys s) (share s) (raw s) (done s) (herr s) (wire s).
Definition set_own_p (v : option obj) (s : st) : st := mkSt (cache s) (status s) (applied s) (cs s) (locked s) (tracker s) (calling s) (own_t s) (v) (x_t s) (x_p s) (hs_sess s) (hs_ticket s) (hs_ident s) (hs_early s) (gen s) (keys s) (share s) (raw s) (done s) (herr s) (wire s).
Definition set_x_t (v : list slot) (s : st) : st := mkSt (cache s) (status s) (applied s) (cs s) (locked s) (tracker s) (calling s) (own_t s) (own_p s) (v) (x_p s) (hs_sess s) (hs_ticket s) (hs_ident s) (hs_early s) (gen s) (keys s) (share s) (raw s) (done s) (herr s) (wire s).
Definition set_x_p (v : option slot) (s : st) : st := mkSt (cache s) (status s) (applied s) (cs s) (locked s) (tracker s) (calling s) (own_t s) (own_p s) (x_t s) (v) (hs_sess s) (hs_ticket s) (hs_ident s) (hs_early s) (gen s) (keys s) (share s) (raw s) (done s) (herr s) (wire s).
Definition set_hs_sess (v : N) (s : st) : st := mkSt (cache s) (status s) (applied s) (cs s) (locked s) (tracker s) (calling s) (own_t s) (own_p s) (x_t s) (x_p s) (v) (hs_ticket s) (hs_ident s) (hs_early s) (gen s) (keys s) (share s) (raw s) (done s) (herr s) (wire s).
Definition set_hs_ticket (v : bytes) (s : st) : st := mkSt (cache s) (status s) (applied s) (cs s) (locked s) (tracker s) (calling s) (own_t s) (own_p s) (x_t s) (x_p s) (hs_sess s) (v) (hs_ident s) (hs_early s) (gen s) (keys s) (share s) (raw s) (done s) (herr s) (wire s).
Definition set_hs_ident (v : option bytes) (s : st) : st := mkSt (cache s) (status s) (applied s) (cs s) (locked s) (tracker s) (calling s) (own_t s) (own_p s) (x_t s) (x_p s) (hs_sess s) (hs_ticket s) (v) (hs_early s) (gen s) (keys s) (share s) (raw s) (done s) (herr s) (wire s).
Definition set_hs_early (v : N) (s : st) : st := mkSt (cache s) (status s) (applied s) (cs s) (locked s) (tracker s) (calling s) (own_t s) (own_p s) (x_t s) (x_p s) (hs_sess s) (hs_ticket s) (hs_ident s) (v) (gen s) (keys s) (share s) (raw s) (done s) (herr s) (wire s).
Definition set_gen (v : N) (s : st) : st := mkSt (cache s) (status s) (applied s) (cs s) (locked s) (tracker s) (calling s) (own_t s) (own_p s) (x_t s) (x_p s) (hs_sess s) (hs_ticket s) (hs_ident s) (hs_early s) (v) (keys s) (share s) (raw s) (done s) (herr s) (wire s).
Definition set_keys (v : option N) (s : st) : st := mkSt (cache s) (status s) (applied s) (cs s) (locked s) (tracker s) (calling s) (own_t s) (own_p s) (x_t s) (x_p s) (hs_sess s) (hs_ticket s) (hs_ident s) (hs_early s) (gen s) (v) (share s) (raw s) (done s) (herr s) (wire s).
Definition set_share (v : option N) (s : st) : st := mkSt (cache s) (status s) (applied s) (cs s) (locked s) (tracker s) (calling s) (own_t s) (own_p s) (x_t s) (x_p s) (hs_sess s) (hs_ticket s) (hs_ident s) (hs_early s) (gen s) (keys s) (v) (raw s) (done s) (herr s) (wire s).
Definition set_raw (v : option wireview) (s : st) : st := mkSt (cache s) (status s) (applied s) (cs s) (locked s) (tracker s) (calling s) (own_t s) (own_p s) (x_t s) (x_p s) (hs_sess s) (hs_ticket s) (hs_ident s) (hs_early s) (gen s) (keys s) (share s) (v) (done s) (herr s) (wire s).
Definition set_done (v : bool) (s : st) : st := mkSt (cache s) (status s) (applied s) (cs s) (locked s) (tracker s) (calling s) (own_t s) (own_p s) (x_t s) (x_p s) (hs_sess s) (hs_ticket s) (hs_ident s) (hs_early s) (gen s) (keys s) (share s) (raw s) (v) (herr s) (wire s).
Definition set_herr (v : bool) (s : st) : st := mkSt (cache s) (status s) (applied s) (cs s) (locked s) (tracker s) (calling s) (own_t s) (own_p s) (x_t s) (x_p s) (hs_sess s) (hs_ticket s) (hs_ident s) (hs_early s) (gen s) (keys s) (share s) (raw s) (done s) (v) (wire s).
Definition set_wire (v : option wireview) (s : st) : st := mkSt (cache s) (status s) (applied s) (cs s) (locked s) (tracker s) (calling s) (own_t s) (own_p s) (x_t s) (x_p s) (hs_sess s) (hs_ticket s) (hs_ident s) (hs_early s) (gen s) (keys s) (share s) (raw s) (done s) (herr s) (v).

(* ---- state-and-outcome monad: the state survives an error or a panic ---- *)
Definition M (A : Type) := st -> st * res A.
Definition ret {A} (a : A) : M A := fun s => (s, Ok a).
Definition mbind {A B} (m : M A) (f : A -> M B) : M B :=
  fun s => match m s with
           | (s', Ok a) => f a s'
           | (s', Err c) => (s', Err c)
           | (s', Panic c) => (s', Panic c)
           end.
Notation "'let!' x := m 'in' k" := (mbind m (fun x => k)) (at level 199, x name, m at level 100, k at level 199, right associativity).
Notation "m ;;; k" := (mbind m (fun _ => k)) (at level 199, right associativity).
Definition get : M st := fun s => (s, Ok s).
Definition upd (f : st -> st) : M unit := fun s => (f s, Ok tt).
Definition merr {A} (c : N) : M A := fun s => (s, Err c).
Definition mpanic {A} (c : N) : M A := fun s => (s, Panic c).
Definition uassert (b : bool) (c : N) : M unit := if b then ret tt else mpanic c.
Definition when (b : bool) (m : M unit) : M unit := if b then m else ret tt.

Definition cst_eqb (a b : cst) : bool :=
  match a, b with
  | NoSession, NoSession | TicketInit, TicketInit | TicketAllSet, TicketAllSet
  | PskInit, PskInit | PskAllSet, PskAllSet => true
  | _, _ => false
  end.
Definition bstatus_eqb (a b : bstatus) : bool :=
  match a, b with NotBuilt, NotBuilt | ByUtls, ByUtls | ByGo, ByGo => true | _, _ => false end.
Definition is_some {A} (o : option A) : bool := match o with Some _ => true | None => false end.
Definition optN_eqb (a b : option N) : bool :=
  match a, b with Some x, Some y => x =? y | None, None => true | _, _ => false end.

Definition sessions_off (w : world) (s : st) : bool := w_disabled w || negb (cache s).

(* the object an entry of uconn.Extensions denotes *)
Definition slot_obj (own : option obj) (sl : slot) : option obj :=
  match sl with SOwn => own | SObj o => Some o end.
(* the controller is given another object: entries that pointed to the old one keep pointing to it *)
Definition demote (old : option obj) (sl : slot) : slot :=
  match sl, old with SOwn, Some o => SObj o | _, _ => sl end.

(* ---- sessionController ---- *)

(* overrideExtension, u_session_controller.go:231-240 (extension is non-nil here) *)
Definition override_ticket (o : obj) : M unit :=
  let! s := get in
  uassert (negb (locked s)) P_LOCKED ;;;
  uassert (cst_eqb (cs s) NoSession) P_STATE ;;;
  upd (fun s => set_own_t (Some o) (set_x_t (map (demote (own_t s)) (x_t s)) s)) ;;;
  when (o_init o) (upd (set_cs TicketInit)).

Definition override_psk (o : obj) : M unit :=
  let! s := get in
  uassert (negb (locked s)) P_LOCKED ;;;
  uassert (cst_eqb (cs s) NoSession) P_STATE ;;;
  upd (fun s => set_own_p (Some o) (set_x_p (option_map (demote (own_p s)) (x_p s)) s)) ;;;
  when (o_init o) (upd (set_cs PskInit)).

(* syncSessionExts, u_session_controller.go:265-316. The loop visits the session-ticket entries in order, then the
   pre_shared_key entry (which the second uAssert requires to be the last one anyway). *)
Definition adopt_ticket : M unit :=           (* lines 274-283, first ISessionTicketExtension *)
  let! s := get in
  match x_t s with
  | [] => ret tt
  | sl :: rest =>
      upd (fun s => match own_t s with
                    | None => set_own_t (slot_obj None sl) (set_x_t (SOwn :: rest) s)
                    | Some _ => set_x_t (SOwn :: rest) s
                    end) ;;;
      uassert (match rest with [] => true | _ => false end) P_MULTI_TICKET   (* a second one: numSessionExt != 0 *)
  end.

Definition adopt_psk (w : world) : M unit :=  (* lines 284-294 *)
  let! s := get in
  match x_p s with
  | None => ret tt
  | Some sl =>
      uassert (w_psk_last w) P_PSK_NOT_LAST ;;;
      upd (fun s => match own_p s with
                    | None => set_own_p (slot_obj None sl) (set_x_p (Some SOwn) s)
                    | Some _ => set_x_p (Some SOwn) s
                    end)
  end.

Definition sync_session_exts (w : world) : M unit :=
  let! s := get in
  uassert (bstatus_eqb (status s) NotBuilt) P_BUILT ;;;                                            (* 266 *)
  uassert (negb (locked s)) P_LOCKED ;;;                                                           (* 267 *)
  uassert (cst_eqb (cs s) NoSession || cst_eqb (cs s) TicketInit || cst_eqb (cs s) PskInit) P_STATE ;;;  (* 269 *)
  adopt_ticket ;;;
  adopt_psk w ;;;
  let! s := get in
  (match x_t s with                                                                                (* 297-304 *)
   | [] => if cst_eqb (cs s) TicketInit then merr E_NO_TICKET_EXT
           else upd (fun s => set_own_t None (set_hs_sess 0 (set_hs_ticket [] s)))
   | _ => ret tt
   end) ;;;
  let! s := get in
  (match x_p s with                                                                                (* 305-314 *)
   | None => if cst_eqb (cs s) PskInit then merr E_NO_PSK_EXT
             else upd (fun s => set_own_p None (set_hs_early 0 (set_hs_sess 0 (set_hs_ident None s))))
   | Some _ => ret tt
   end).

(* Conn.loadSession as seen by the controller, handshake_client.go:396-560: onEnterLoadSessionCheck, the lookup,
   shouldLoadSessionWriteBinders on the TLS 1.3 path, deferred onLoadSessionReturn *)
Definition load_session (w : world) : M hit :=
  let! s := get in
  uassert (negb (locked s)) P_ENTER_LOCKED ;;;                                                      (* 321 *)
  (match tracker s with                                                                             (* 322-329 *)
   | AboutToCall | NeverCalled => upd (set_calling true)
   | ByULoad | ByGoTLS => mpanic P_TWICE
   end) ;;;
  let! s := get in
  let h := if sessions_off w s then HitNone else w_hit w in
  (match h with                                                                                     (* 351-360 *)
   | Hit13 _ _ => uassert (calling s) P_WRITE_BINDERS ;;;
                  match tracker s with NeverCalled | AboutToCall => ret tt | _ => mpanic P_WRITE_BINDERS end
   | _ => ret tt
   end) ;;;
  uassert (calling s) P_RETURN ;;;                                                                  (* 336 *)
  (match tracker s with                                                                             (* 337-344 *)
   | NeverCalled => upd (set_tracker ByGoTLS)
   | AboutToCall => upd (set_tracker ByULoad)
   | _ => mpanic P_RETURN
   end) ;;;
  upd (set_calling false) ;;;
  ret h.

(* initSessionTicketExt, :148-161 *)
Definition init_ticket_ext (w : world) (ticket : bytes) (sess : N) : M unit :=
  let! s := get in
  uassert (negb (locked s)) P_LOCKED ;;;
  uassert (bstatus_eqb (status s) NotBuilt) P_BUILT ;;;
  uassert (cst_eqb (cs s) NoSession) P_STATE ;;;
  match own_t s with
  | None => uassert (w_skip w) P_CANNOT_SKIP
  | Some o =>
      uassert (negb (o_init o)) P_INIT_GUARD ;;;
      upd (fun s => set_cs TicketInit (set_own_t (Some (mkObj (o_user o) true ticket sess)) s))
  end.

(* initPskExt, :166-186 *)
Definition init_psk_ext (w : world) (label : bytes) (sess : N) : M unit :=
  let! s := get in
  uassert (negb (locked s)) P_LOCKED ;;;
  uassert (bstatus_eqb (status s) NotBuilt) P_BUILT ;;;
  uassert (cst_eqb (cs s) NoSession) P_STATE ;;;
  match own_p s with
  | None => uassert (w_skip w) P_CANNOT_SKIP
  | Some o =>
      uassert (negb (o_init o)) P_INIT_GUARD ;;;
      upd (fun s => set_cs PskInit (set_own_p (Some (mkObj (o_user o) true label sess)) s))
  end.

(* setSessionTicketToUConn, :189-194 *)
Definition set_ticket_to_uconn : M unit :=
  let! s := get in
  match own_t s with
  | Some o =>
      uassert (cst_eqb (cs s) TicketInit) P_SET_TICKET ;;;
      upd (fun s => set_cs TicketAllSet (set_hs_sess (o_sess o) (set_hs_ticket (o_data o) s)))
  | None => mpanic P_SET_TICKET
  end.

(* setPskToUConn, :197-213 *)
Definition set_psk_to_uconn : M unit :=
  let! s := get in
  match own_p s with
  | Some o =>
      match cs s with
      | PskInit =>
          upd (fun s => set_cs PskAllSet (set_hs_early (o_sess o) (set_hs_sess (o_sess o) (set_hs_ident (Some (o_data o)) s))))
      | PskAllSet =>
          uassert ((hs_sess s =? o_sess o) && (hs_early s =? o_sess o) &&
                   match hs_ident s with None => true | Some l => bytes_eqb l (o_data o) end) P_PSK_CHANGED
      | _ => mpanic P_SET_PSK
      end
  | None => mpanic P_SET_PSK
  end.

(* shouldUpdateBinders :219-224, updateBinders :226-229 (PatchBuiltHello itself is cryptography: not modelled) *)
Definition should_update_binders (s : st) : bool :=
  is_some (own_p s) && (cst_eqb (cs s) PskInit || cst_eqb (cs s) PskAllSet).

(* finalCheck, :136-139 *)
Definition final_check : M unit :=
  let! s := get in
  uassert (cst_eqb (cs s) PskAllSet || cst_eqb (cs s) TicketAllSet || cst_eqb (cs s) NoSession) P_STATE ;;;
  upd (set_locked true).

(* ---- UConn ---- *)

(* ApplyPreset, u_parrots.go:2766-2943: fresh KeyShareKeys (2779-2783); uconn.Extensions := copy of the spec's list
   (2839-2840) — the spec's objects are the ones of the previous application; a key share is generated only for
   entries without Data (2885-2887), the first generated private key is kept (2917); syncSessionExts (2937). *)
Definition spec_slot (own : option obj) : slot :=
  match own with
  | Some o => if o_user o then SObj pristine else SOwn   (* the controller already owns the spec's object *)
  | None => SObj pristine
  end.
Definition apply_preset (w : world) : M unit :=
  upd (set_keys None) ;;;
  upd (fun s => set_x_t (match w_tickets w with
                         | O => []
                         | S k => spec_slot (own_t s) :: repeat (SObj pristine) k
                         end)
                (set_x_p (if w_psk w then Some (spec_slot (own_p s)) else None) s)) ;;;
  when (w_tls13 w)
    (let! s := get in
     match share s with
     | None => upd (fun s => set_gen (gen s + 1) (set_share (Some (gen s + 1)) (set_keys (Some (gen s + 1)) s)))
     | Some _ => ret tt                      (* len(ext.KeyShares[i].Data) > 1: continue *)
     end) ;;;
  sync_session_exts w.

(* uLoadSession, u_conn.go:165-192; shouldLoadSession, u_session_controller.go:85-97 *)
Definition u_load_session (w : world) : M unit :=
  let! s := get in
  if sessions_off w s then ret tt
  else if (negb (is_some (own_t s)) && negb (is_some (own_p s))) || negb (bstatus_eqb (status s) NotBuilt) then ret tt
  else match cs s with
       | TicketInit => set_ticket_to_uconn
       | PskInit => set_psk_to_uconn
       | _ =>
           uassert (cst_eqb (cs s) NoSession && negb (locked s)) P_ABOUT ;;;   (* utlsAboutToLoadSession :101-104 *)
           upd (set_tracker AboutToCall) ;;;
           let! h := load_session w in
           match h with
           | HitNone => ret tt
           | Hit12 tk se => init_ticket_ext w tk se ;;; set_ticket_to_uconn
           | Hit13 lb se => init_psk_ext w lb se
           end
       end.

(* MarshalClientHello, as far as the two session extensions go: SessionTicketExtension.Read writes e.Ticket whatever
   Initialized says (u_session_ticket.go:37-53); UtlsPreSharedKeyExtension.Read writes the identities when a session
   is present, nothing when not and OmitEmptyPsk, ErrEmptyPsk otherwise (u_pre_shared_key.go:257-262) *)
Definition marshal (w : world) : M unit :=
  let! s := get in
  let tks := map (fun sl => match slot_obj (own_t s) sl with Some o => o_data o | None => [] end) (x_t s) in
  match x_p s with
  | None => upd (set_raw (Some (tks, None)))
  | Some sl =>
      match slot_obj (own_p s) sl with
      | Some o => if o_init o then upd (set_raw (Some (tks, Some (o_data o))))
                  else if w_omit w then upd (set_raw (Some (tks, None))) else merr E_EMPTY_PSK
      | None => if w_omit w then upd (set_raw (Some (tks, None))) else merr E_EMPTY_PSK
      end
  end.

(* uApplyPatch, u_conn.go:194-201 *)
Definition u_apply_patch : M unit :=
  let! s := get in
  when (should_update_binders s)
    (uassert (should_update_binders s) P_BINDERS ;;; set_psk_to_uconn).

(* buildHandshakeState, u_conn.go:108-163 (with the fix: the preset is applied once) *)
Definition build (w : world) (load : bool) : M unit :=
  let! s := get in
  if w_golang w then
    if bstatus_eqb (status s) ByGo then ret tt
    else
      uassert (bstatus_eqb (status s) NotBuilt) P_BUILD_CALL ;;;
      (* makeClientHello: fresh key share and its private key together *)
      upd (fun s => set_status ByGo (set_gen (gen s + 1) (set_share (Some (gen s + 1)) (set_keys (Some (gen s + 1)) s))))
  else
    uassert (bstatus_eqb (status s) ByUtls || bstatus_eqb (status s) NotBuilt) P_BUILD_CALL ;;;
    when (bstatus_eqb (status s) NotBuilt)
      (if applied s && negb (w_reapply w) then sync_session_exts w
       else (apply_preset w ;;; upd (set_applied true))) ;;;
    when load (u_load_session w) ;;;
    marshal w ;;;
    when load (u_apply_patch ;;; final_check ;;; upd (set_status ByUtls)).

(* the session part of the hello crypto/tls writes for HelloGolang after its own loadSession *)
Definition go_view (w : world) (s : st) (h : hit) : wireview :=
  if sessions_off w s then ([], None)
  else match h with
       | HitNone => ([[]], None)
       | Hit12 tk _ => ([tk], None)
       | Hit13 lb _ => ([[]], Some lb)
       end.

(* UConn.handshakeContext u_conn.go:317-423 and clientHandshake u_handshake_client.go:383-440 *)
Definition handshake (w : world) : M unit :=
  let! s := get in
  if done s then ret tt                                   (* isHandshakeComplete: 321 *)
  else if herr s then merr E_HANDSHAKE                    (* sticky handshakeErr: 364 *)
  else
    build w true ;;;                                      (* 376: an error here is returned without being recorded *)
    let! s := get in
    (if locked s then upd (fun s => set_wire (raw s) s)   (* session taken from HandshakeState: 431-440 *)
     else (let! h := load_session w in let! s := get in upd (set_wire (Some (go_view w s h))))) ;;;
    let! s := get in
    if w_srv13 w && (w_tls13 w || w_golang w) && negb (optN_eqb (keys s) (share s))
    then upd (set_herr true) ;;; merr E_HANDSHAKE         (* no private key for the share the server used *)
    else upd (set_done true).

Definition obj_of (e : bool * bytes * N) : obj := let '(i, d, se) := e in mkObj true i d se.

Definition step (w : world) (o : op) : M unit :=
  match o with
  | SetCache => upd (set_cache true)                                        (* u_conn.go:249-252 *)
  | BuildNoSess => build w false
  | Build => build w true
  | Handshake => handshake w
  | SetTicket e =>                                                          (* u_conn.go:225-233 *)
      let! s := get in
      if sessions_off w s then merr E_DISABLED
      else match e with None => ret tt | Some e => override_ticket (obj_of e) end
  | SetState e =>                                                           (* u_conn.go:214-221 *)
      let! s := get in
      if sessions_off w s then merr E_DISABLED
      else match e with
           | None => override_ticket (mkObj true true [] 0)
           | Some (tk, se) => override_ticket (mkObj true true tk se)
           end
  | SetPsk e =>                                                             (* u_conn.go:236-246 *)
      let! s := get in
      if sessions_off w s then merr E_DISABLED
      else match e with None => ret tt | Some e => override_psk (obj_of e) end
  end.

Definition init (w : world) : st :=
  mkSt (w_cache0 w) NotBuilt false NoSession false NeverCalled false None None [] None 0 [] None 0 0 None None None
       false false None.

Fixpoint run (w : world) (s : st) (ops : list op) : list (res unit) :=
  match ops with
  | [] => []
  | o :: r => let (s', x) := step w o s in x :: run w s' r
  end.
Fixpoint final (w : world) (s : st) (ops : list op) : st :=
  match ops with
  | [] => s
  | o :: r => final w (fst (step w o s)) r
  end.

(* ---- the orders the documentation allows ----
   u_conn.go:79-106: BuildHandshakeState may be called repeatedly and is called by Handshake; the session ticket and
   psk extensions "cannot be changed after calling BuildHandshakeState"; BuildHandshakeStateWithoutSession exists "to
   inspect the ClientHello before setting the session manually through SetSessionTicketExtension or SetPSKExtension".
   u_conn.go:225-248: the setters need session support (a ClientSessionCache, tickets not disabled).
   u_session_controller.go:231-240: one session per connection (the controller must be in NoSession). *)
Record lst := mkL { l_cache : bool; l_set : bool; l_built : bool; l_hs : bool }.
Definition linit (w : world) : lst := mkL (w_cache0 w) false false false.

Definition setter_arg (o : op) : option (option bool) :=   (* None: not a setter; Some None: nil argument; Some (Some i): Initialized = i *)
  match o with
  | SetTicket None | SetPsk None => Some None
  | SetTicket (Some (i, _, _)) | SetPsk (Some (i, _, _)) => Some (Some i)
  | SetState _ => Some (Some true)
  | _ => None
  end.

(* a call the documentation forbids: a setter without session support, a (non-nil) session extension after
   BuildHandshakeState/Handshake, a second session *)
Definition forbidden (w : world) (l : lst) (o : op) : bool :=
  match setter_arg o with
  | None => false
  | Some None => negb (l_cache l) || w_disabled w
  | Some (Some _) => negb (l_cache l) || w_disabled w || l_built l || l_set l
  end.

(* Once Handshake has been called only Handshake again is a documented call (it returns the recorded result); the
   handshake replaces HandshakeState, so building again afterwards is outside the documentation and outside this model. *)
Definition legal_step (w : world) (l : lst) (o : op) : option lst :=
  match o with
  | SetCache => if l_hs l then None else Some (mkL true (l_set l) (l_built l) (l_hs l))
  | BuildNoSess => if l_hs l then None else Some l
  | Build => if l_hs l then None else Some (mkL (l_cache l) (l_set l) true (l_hs l))
  | Handshake => Some (mkL (l_cache l) (l_set l) true true)
  | _ =>
      if forbidden w l o then None
      else match setter_arg o with
           | Some (Some i) => Some (mkL (l_cache l) i (l_built l) (l_hs l))
           | _ => Some l
           end
  end.

Fixpoint legal_from (w : world) (l : lst) (ops : list op) : option lst :=
  match ops with
  | [] => Some l
  | o :: r => match legal_step w l o with Some l' => legal_from w l' r | None => None end
  end.
Definition legal (w : world) (ops : list op) : bool := is_some (legal_from w (linit w) ops).

(* the shape of every predefined (non-custom) ClientHelloID: at most one session-ticket extension, pre_shared_key
   last and never without session_ticket, resumption skipped when an extension is missing, OmitEmptyPsk set when the
   spec carries a pre_shared_key extension (otherwise the hello does not marshal without a session: ErrEmptyPsk) *)
Definition world_ok (w : world) : bool :=
  (Nat.leb (w_tickets w) 1) && w_skip w && negb (w_reapply w) &&
  (negb (w_psk w) || (w_psk_last w && w_omit w && Nat.eqb (w_tickets w) 1)).

(* the initialized session the caller injected in a legal history, if any *)
Inductive inj := InjTicket (tk : bytes) (se : N) | InjPsk (lb : bytes) (se : N).
Definition inj_of (o : op) : option inj :=
  match o with
  | SetTicket (Some (true, tk, se)) => Some (InjTicket tk se)
  | SetState None => Some (InjTicket [] 0)
  | SetState (Some (tk, se)) => Some (InjTicket tk se)
  | SetPsk (Some (true, lb, se)) => Some (InjPsk lb se)
  | _ => None
  end.
Fixpoint injected (ops : list op) : option inj :=
  match ops with
  | [] => None
  | o :: r => match inj_of o with Some i => Some i | None => injected r end
  end.

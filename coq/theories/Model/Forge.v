(* Model of MakeConnWithCompleteHandshake (u_conn.go:767-815), keysFromMasterSecret
   (prf.go:135-154), cipherSuiteByID (cipher_suites.go:656) and the cipher constructors of the
   suite table (cipher_suites.go:403-423, 512-590). Suite rows come from Gen/Suites.v (generated).

   STATE: [forge] models the code AFTER fixes/C27-forge-cbc-direction.diff (ciphers are built per
   role, as establishKeys does). [forge_prefix] is the construction as it was before the fix
   (clientCipher always built with isRead = true, serverCipher with isRead = false); it is kept
   only so that the former witness stays a checked Example. *)
From UV Require Import Base.Common Model.Record Gen.Suites.
Open Scope N_scope.

(* cipher_suites.go:656 cipherSuiteByID over utlsSupportedCipherSuites *)
Definition suite_by_id (tbl : list suite_row) (id : N) : option suite_row :=
  find (fun r => s_id r =? id) tbl.

(* prf.go:135 keysFromMasterSecret. The PRF output has exactly n bytes, so the Go slice
   expressions keyMaterial[:k] cannot go out of range. *)
Record keyblock := mkKeys { k_cmac : bytes; k_smac : bytes; k_ckey : bytes; k_skey : bytes; k_civ : bytes; k_siv : bytes }.
Definition keys_from_master_secret (P : prims) (version : N) (cs : suite_row) (ms cr sr : bytes) : keyblock :=
  let macLen := s_macLen cs in let keyLen := s_keyLen cs in let ivLen := s_ivLen cs in
  let n := (2 * macLen + 2 * keyLen + 2 * ivLen)%nat in
  let km0 := prf P version (s_id cs) ms (sr ++ cr) n in                 (* seed = serverRandom ++ clientRandom *)
  let cmac := firstn macLen km0 in let km1 := skipn macLen km0 in
  let smac := firstn macLen km1 in let km2 := skipn macLen km1 in
  let ckey := firstn keyLen km2 in let km3 := skipn keyLen km2 in
  let skey := firstn keyLen km3 in let km4 := skipn keyLen km3 in
  let civ := firstn ivLen km4 in let km5 := skipn ivLen km4 in
  let siv := firstn ivLen km5 in
  mkKeys cmac smac ckey skey civ siv.

(* cs.cipher(key, iv, isRead): cipherRC4 ignores isRead; cipher3DES / cipherAES return a CBC
   decrypter when isRead, an encrypter otherwise *)
Definition mk_cipher (cs : suite_row) (key iv : bytes) (is_read : bool) : cipher :=
  if s_kind cs =? 1 then mkCipher KStream algRC4 key [] false 0 0
  else if s_kind cs =? 2 then mkCipher KCbc alg3DES key iv is_read 0 (s_bs cs)
  else mkCipher KCbc algAES key iv is_read 0 (s_bs cs).

(* cs.mac(key): HMAC with the hash of the suite *)
Definition mac_alg_of_size (n : nat) : N :=
  if (n =? 20)%nat then macSHA1 else if (n =? 32)%nat then macSHA256 else macSHA384.
Definition mk_mac (cs : suite_row) (key : bytes) : macst := mkMac (mac_alg_of_size (s_macSize cs)) key.

(* cs.aead(key, fixedNonce): aeadAESGCM panics unless len(noncePrefix) = 4, aeadChaCha20Poly1305
   unless len(nonceMask) = 12 *)
Definition mk_aead (cs : suite_row) (key iv : bytes) : res cipher :=
  if s_kind cs =? 4 then
    if (length iv =? 4)%nat then Ok (mkCipher KAeadPrefix algGCM key iv false 0 0) else Panic p_cipher
  else
    if (length iv =? 12)%nat then Ok (mkCipher KAeadXor algCHACHA key iv false 0 0) else Panic p_cipher.

Definition is_aead_row (cs : suite_row) : bool := (s_kind cs =? 4) || (s_kind cs =? 5).

Definition forged_conn (version suite : N) (i o : half) : conn :=
  mkConn version false suite i o [] [] 0 0 0 false.

(* u_conn.go:801-808: changeCipherSpec on both halves, then incSeq for the skipped Finished *)
Definition finish_forge (version suite : N) (i o : half) : res (option conn) :=
  do i1 <- change_cipher_spec i;
  do o1 <- change_cipher_spec o;
  do i2 <- inc_seq i1;
  do o2 <- inc_seq o1;
  Ok (Some (forged_conn version suite i2 o2)).

Definition version_has_prf (version : N) : bool := (version =? V10) || (version =? V11) || (version =? V12).

(* the ciphers of the two directions: (client-write cipher, client MAC, server-write cipher, server MAC);
   [client_reads]/[server_reads] are the isRead arguments given to cs.cipher *)
Definition build_ciphers (cs : suite_row) (k : keyblock) (client_is_read server_is_read : bool)
  : res (cipher * option macst * cipher * option macst) :=
  if is_aead_row cs then
    do cc <- mk_aead cs (k_ckey k) (k_civ k);
    do sc <- mk_aead cs (k_skey k) (k_siv k);
    Ok (cc, None, sc, None)
  else
    Ok (mk_cipher cs (k_ckey k) (k_civ k) client_is_read, Some (mk_mac cs (k_cmac k)),
        mk_cipher cs (k_skey k) (k_siv k) server_is_read, Some (mk_mac cs (k_smac k))).

(* u_conn.go:767-815 with fixes/C27-forge-cbc-direction.diff: the cipher a side writes with is built
   with isRead = false, the one it reads with with isRead = true *)
Definition forge (P : prims) (tbl : list suite_row) (version suite : N) (ms cr sr : bytes) (is_client : bool)
  : res (option conn) :=
  match suite_by_id tbl suite with
  | None => Ok None                                                   (* unsupported suite: nil *)
  | Some cs =>
    if negb (version_has_prf version) then Panic p_cipher else         (* prf.go:101 panic("unknown version") *)
    let k := keys_from_master_secret P version cs ms cr sr in
    do b <- build_ciphers cs k (negb is_client) is_client;
    let '(cc, cm, sc, sm) := b in
    if is_client then
      finish_forge version suite
        (prepare_cipher_spec half0 version (Some sc) sm) (prepare_cipher_spec half0 version (Some cc) cm)
    else
      finish_forge version suite
        (prepare_cipher_spec half0 version (Some cc) cm) (prepare_cipher_spec half0 version (Some sc) sm)
  end.

(* the construction before the fix: clientCipher "for reading", serverCipher "not for reading",
   whatever the role *)
Definition forge_prefix (P : prims) (tbl : list suite_row) (version suite : N) (ms cr sr : bytes) (is_client : bool)
  : res (option conn) :=
  match suite_by_id tbl suite with
  | None => Ok None
  | Some cs =>
    if negb (version_has_prf version) then Panic p_cipher else
    let k := keys_from_master_secret P version cs ms cr sr in
    do b <- build_ciphers cs k true false;
    let '(cc, cm, sc, sm) := b in
    if is_client then
      finish_forge version suite
        (prepare_cipher_spec half0 version (Some sc) sm) (prepare_cipher_spec half0 version (Some cc) cm)
    else
      finish_forge version suite
        (prepare_cipher_spec half0 version (Some cc) cm) (prepare_cipher_spec half0 version (Some sc) sm)
  end.

(* A toy instance of the primitives with the right lengths, used by the Corr files to evaluate the
   framing logic (record lengths, explicit nonces, sequence numbers) and to show that the laws in
   Proofs/RecordP.v are satisfiable. It is NOT a cipher: keystreams and tags are all-zero. *)
Definition toy_ks (a : N) (k n : bytes) (l : nat) : bytes := zeros l.
Definition toy_tag (a : N) (k n ad p : bytes) : bytes := zeros aead_overhead.
Definition toy_seal (a : N) (k n ad p : bytes) : bytes := bxor p (toy_ks a k n (length p)) ++ toy_tag a k n ad p.
Definition toy_open (a : N) (k n ad c : bytes) : option bytes :=
  if (length c <? aead_overhead)%nat then None else
  let body := firstn (length c - aead_overhead) c in
  let p := bxor body (toy_ks a k n (length body)) in
  if bytes_eqb (skipn (length c - aead_overhead) c) (toy_tag a k n ad p) then Some p else None.
Definition toy : prims :=
  mkPrims toy_seal toy_open toy_ks toy_tag
    (fun a k iv p => p)
    (fun a k iv c => c)
    (fun a k pos l => zeros l)
    (fun a k m => zeros (mac_len a))
    (fun s sec => map (fun x => (x + 1) mod 256) sec)
    (fun s sec => (firstn 16 (sec ++ zeros 16), firstn 12 (rev sec ++ zeros 12)))
    (fun v s sec seed n => firstn n (sec ++ seed ++ zeros n)).

(* The Write / Close interlock of a UConn (C26): UConn.Write (u_conn.go:427-470: activeCall CAS loop +2 with the
   deferred Add(-2), implicit Handshake(), c.out.Lock(), writeRecordLocked) against Conn.Close (conn.go:1425-1458:
   CAS sets the closed bit; if a Write is in flight close the transport at once, otherwise closeNotify under c.out,
   then close the transport). One writer, one closer, and a transport whose write may never finish ([stall]: the peer
   stopped reading and no write deadline is set); closing the transport ends a blocked transport write.
   closeNotify sets its own 5 s write deadline (conn.go:1479), so its transport write always ends.

   [marker_early] selects the code: false = the code as it is (the in-flight marker is dropped by the deferred
   Add(-2) when Write returns); true = a variant that drops the marker before the record is written. *)
From UV Require Import Base.Common.

Inductive holder := HFree | HW | HC.
Inductive wpc := W0 | W1 | W2 | W3 | W4 | W5 | WRet.
Inductive cpc := C0 | C1 | C2 | C3 | C4 | C5 | CRet.
Inductive wres := WNone | WOk | WErrClosed | WErr.

Record state := mkState {
  marker_early : bool;
  complete : bool;        (* isHandshakeComplete (Close sends close_notify only then) *)
  stall : bool;           (* the peer has stopped reading *)
  closed_bit : bool;      (* activeCall & 1 *)
  inflight : bool;        (* activeCall >> 1 (one writer) *)
  out : holder;           (* c.out mutex *)
  conn_closed : bool;     (* c.conn.Close() done *)
  w : wpc; c : cpc;
  saw_writer : bool;      (* Close's x != 0 *)
  wret : wres; cdone : bool
}.

Definition init (me co st : bool) : state := mkState me co st false false HFree false W0 C0 false WNone false.

Inductive label := LW | LC.

Definition setw (s : state) (cb inf : bool) (o : holder) (q : wpc) (r : wres) : state :=
  mkState (marker_early s) (complete s) (stall s) cb inf o (conn_closed s) q (c s) (saw_writer s) r (cdone s).
Definition setc (s : state) (cb : bool) (o : holder) (cl : bool) (q : cpc) (sw : bool) (d : bool) : state :=
  mkState (marker_early s) (complete s) (stall s) cb (inflight s) o cl (w s) q sw (wret s) d.

Definition step (s : state) (l : label) : option state :=
  match l with
  | LW =>
      match w s with
      (* u_conn.go:429-438 *)
      | W0 => if closed_bit s then Some (setw s (closed_bit s) (inflight s) (out s) WRet WErrClosed)
              else Some (setw s (closed_bit s) true (out s) W1 (wret s))
      (* u_conn.go:440 implicit Handshake (its own model: HsLock.v); the variant drops the marker here *)
      | W1 => Some (setw s (closed_bit s) (if marker_early s then false else inflight s) (out s) W2 (wret s))
      (* u_conn.go:444 c.out.Lock() *)
      | W2 => match out s with HFree => Some (setw s (closed_bit s) (inflight s) HW W3 (wret s)) | _ => None end
      (* writeRecordLocked -> c.conn.Write: ends when the peer reads, or when the transport is closed *)
      | W3 => if conn_closed s then Some (setw s (closed_bit s) (inflight s) (out s) W4 WErr)
              else if stall s then None
              else Some (setw s (closed_bit s) (inflight s) (out s) W4 WOk)
      | W4 => Some (setw s (closed_bit s) (inflight s) HFree W5 (wret s))        (* deferred c.out.Unlock() *)
      | W5 => Some (setw s (closed_bit s) false (out s) WRet (wret s))           (* deferred activeCall.Add(-2) *)
      | WRet => None
      end
  | LC =>
      match c s with
      (* conn.go:1427-1445 *)
      | C0 => if closed_bit s then Some (setc s true (out s) (conn_closed s) CRet (saw_writer s) true)
              else if inflight s then Some (setc s true (out s) (conn_closed s) C5 true (cdone s))
              else Some (setc s true (out s) (conn_closed s) C1 false (cdone s))
      | C1 => if complete s then Some (setc s (closed_bit s) (out s) (conn_closed s) C2 (saw_writer s) (cdone s))
              else Some (setc s (closed_bit s) (out s) (conn_closed s) C5 (saw_writer s) (cdone s))
      (* closeNotify: c.out.Lock() *)
      | C2 => match out s with HFree => Some (setc s (closed_bit s) HC (conn_closed s) C3 (saw_writer s) (cdone s)) | _ => None end
      | C3 => Some (setc s (closed_bit s) (out s) (conn_closed s) C4 (saw_writer s) (cdone s))   (* alert write, 5 s deadline *)
      | C4 => Some (setc s (closed_bit s) HFree (conn_closed s) C5 (saw_writer s) (cdone s))
      | C5 => Some (setc s (closed_bit s) (out s) true CRet (saw_writer s) true)                 (* c.conn.Close() *)
      | CRet => None
      end
  end.

Definition finished (s : state) : bool :=
  match w s, c s with WRet, CRet => true | _, _ => false end.
Definition can_step (s : state) : bool :=
  match step s LW, step s LC with None, None => false | _, _ => true end.

Fixpoint run (s : state) (ls : list label) : option state :=
  match ls with [] => Some s | l :: r => match step s l with Some s' => run s' r | None => None end end.

(* Model of the raw-ClientHello importer of /repo (C06, C07):

     ClientHelloSpec.ReadCipherSuites         u_common.go:203-215
     ClientHelloSpec.ReadCompressionMethods   u_common.go:219-222
     ClientHelloSpec.ReadTLSExtensions        u_common.go:226-268
     ClientHelloSpec.AlwaysAddPadding         u_common.go:270-287
     ClientHelloSpec.FromRaw                  u_common.go:483-575
     Fingerprinter.RawClientHello             u_fingerprinter.go:46-59
       (= FingerprintClientHello, :37)

   on byte lists, with the cryptobyte readers of Model/Wire.v and the
   per-extension ExtensionFromID+Write of Model/Ext.v. Every Go slice
   expression of these functions is written with go_slice_to / go_slice_from
   (Panic when out of range): "never panics" is a statement to prove, not a
   consequence of totality. Executable definitions only; proofs are in
   Proofs/FromRawP.v. *)
From UV Require Import Base.Common Model.Wire Model.Varint Model.Ext.

(* ---- panic and error codes of the importers ---- *)
Definition P_SLICE : N := 1.   (* slice bounds out of range *)
Definition P_INDEX : N := 2.   (* index out of range *)
Definition P_NIL : N := 3.     (* nil pointer dereference *)

Definition E_RECORD_HDR : N := 40.      (* "unable to read record type, version, and length" *)
Definition E_NOT_HANDSHAKE : N := 41.   (* "record is not a handshake" *)
Definition E_HS_HDR : N := 42.          (* "unable to read handshake message type, length, and random" *)
Definition E_NOT_CH : N := 43.          (* "handshake message is not a ClientHello" *)
Definition E_SESSION_ID : N := 44.      (* "unable to read session id" *)
Definition E_SUITES : N := 45.          (* "unable to read ciphersuites" *)
Definition E_SUITE : N := 46.           (* "unable to read ciphersuite" *)
Definition E_COMPRESSION : N := 47.     (* "unable to read compression methods" *)
Definition E_EXTENSIONS : N := 48.      (* "unable to read extensions data" *)
Definition E_EXT_ID : N := 49.          (* "unable to read extension ID" *)
Definition E_EXT_DATA : N := 50.        (* "unable to read data for extension %x" *)
Definition E_UNSUPPORTED : N := 51.     (* "unsupported extension %d" *)

(* ---- Go slice expressions s[:j], s[i:] on a slice with cap = len, and s[i] ---- *)
Definition go_slice_to {A} (l : list A) (j : N) : res (list A) :=
  if j <=? N.of_nat (length l) then Ok (firstn (N.to_nat j) l) else Panic P_SLICE.
Definition go_slice_from {A} (l : list A) (i : N) : res (list A) :=
  if i <=? N.of_nat (length l) then Ok (skipn (N.to_nat i) l) else Panic P_SLICE.
Definition go_index {A} (l : list A) (i : N) : res A :=
  match nth_error l (N.to_nat i) with Some x => Ok x | None => Panic P_INDEX end.

(* ---- ClientHelloSpec (the fields the importers set) ---- *)
Record spec := {
  sp_suites : list N;          (* CipherSuites *)
  sp_comp : bytes;             (* CompressionMethods *)
  sp_exts : list ext;          (* Extensions *)
  sp_vmin : N;                 (* TLSVersMin *)
  sp_vmax : N;                 (* TLSVersMax *)
  (* FromRaw replaces GetPaddingLen of the FIRST padding extension by
     AlwaysPadToLen(len(raw)-5) (rendered PadOther in Model/Ext.v); this is its argument *)
  sp_padto : option Z
}.

(* Fingerprinter{AllowBluntMimicry, AlwaysAddPadding, RealPSKResumption} *)
Record fp_flags := { f_blunt : bool; f_always_pad : bool; f_real_psk : bool }.

(* ---- ReadCipherSuites, :203-215: `for !s.Empty() { ReadUint16; append(unGREASEUint16(suite)) }` ---- *)
Definition read_cipher_suites (b : bytes) : res (list N) :=
  match read_u16s b with
  | Some l => Ok (map ungrease l)
  | None => Err E_SUITE
  end.

(* ---- ReadTLSExtensions, :226-268 ----
   One iteration: ReadUint16(&extension), ReadUint16LengthPrefixed(&extData),
   ext := ExtensionFromID(extension); extWriter, ok := ext.(TLSExtensionWriter).
   ext_write returns E_NO_EXT exactly when ExtensionFromID gives nil and E_NO_WRITER
   exactly when the type has no Write (QUIC transport parameters); both depend on
   the id alone. vreset: supported_versions seen (TLSVersMin/Max := 0, before Write). *)
Definition no_writer (c : N) : bool := (c =? E_NO_EXT) || (c =? E_NO_WRITER).

Definition read_one_ext (blunt real : bool) (id : N) (data : bytes) : res ext :=
  match (if real then ext_write_realpsk id data else ext_write id data) with
  | Ok e => Ok e
  | Err c =>
      if no_writer c then
        (if blunt then Ok (EGeneric id data) else Err E_UNSUPPORTED)
      else Err c
  | Panic p => Panic p
  end.

Fixpoint read_tls_extensions (fuel : nat) (blunt real : bool) (s : bytes) : res (list ext * bool) :=
  match s with
  | [] => Ok ([], false)
  | _ =>
    match fuel with
    | O => Err E_EXT_ID     (* unreachable for fuel >= length s *)
    | S k =>
      match read_u16 s with
      | None => Err E_EXT_ID
      | Some (id, s1) =>
        match read_u16lp s1 with
        | None => Err E_EXT_DATA
        | Some (data, s2) =>
          do e <- read_one_ext blunt real id data;
          do rest <- read_tls_extensions k blunt real s2;
          Ok (e :: fst rest, (id =? ID_VERSIONS) || snd rest)
        end
      end
    end
  end.

(* ---- AlwaysAddPadding, :270-287 ---- *)
Definition is_padding (e : ext) : bool := match e with EPadding _ _ _ => true | _ => false end.
(* ext.(PreSharedKeyExtension) *)
Definition is_psk (e : ext) : bool :=
  match e with EUtlsPreSharedKey _ _ _ _ _ | EFakePreSharedKey _ _ _ => true | _ => false end.

Definition boring_padding : ext := EPadding 0 false PadBoring.

(* the range loop: index of the first padding or PSK extension and which it was *)
Fixpoint aap_scan (es : list ext) (idx : N) : option (N * bool (* is_psk *)) :=
  match es with
  | [] => None
  | e :: r =>
      if is_padding e then Some (idx, false)
      else if is_psk e then Some (idx, true)
      else aap_scan r (idx + 1)
  end.

Definition always_add_padding (es : list ext) : res (list ext) :=
  match aap_scan es 0 with
  | Some (_, false) => Ok es
  | Some (idx, true) =>
      (* append(chs.Extensions[:idx], append([]TLSExtension{pad}, chs.Extensions[idx:]...)...) *)
      do tl <- go_slice_from es idx;
      do hd <- go_slice_to es idx;
      Ok (hd ++ boring_padding :: tl)
  | None => Ok (es ++ [boring_padding])
  end.

(* ---- FromRaw, :483-575 ---- *)

(* :565-572 the first *UtlsPaddingExtension gets GetPaddingLen = AlwaysPadToLen(len(raw)-5) *)
Fixpoint install_pad_to (es : list ext) : list ext * bool :=
  match es with
  | [] => ([], false)
  | EPadding l w _ :: r => (EPadding l w PadOther :: r, true)
  | e :: r => let '(r', f) := install_pad_to r in (e :: r', f)
  end.

Definition recordTypeHandshake : N := 22.
Definition typeClientHello : N := 1.

Definition from_raw (blunt real : bool) (raw : bytes) : res spec :=
  (* :503-507 *)
  match obind (read_u8 raw) (fun '(ct, s1) => obind (read_u16 s1) (fun '(rv, s2) =>
        obind (skip 2 s2) (fun s3 => Some (ct, rv, s3)))) with
  | None => Err E_RECORD_HDR
  | Some (ct, rv, s3) =>
    if negb (ct =? recordTypeHandshake) then Err E_NOT_HANDSHAKE else
    (* :516-519 *)
    match obind (read_u8 s3) (fun '(ht, s4) => obind (skip 3 s4) (fun s5 =>
          obind (read_u16 s5) (fun '(hv, s6) => obind (skip 32 s6) (fun s7 => Some (ht, hv, s7))))) with
    | None => Err E_HS_HDR
    | Some (ht, hv, s7) =>
      if negb (ht =? typeClientHello) then Err E_NOT_CH else
      match read_u8lp s7 with                      (* :528-531 session id, ignored *)
      | None => Err E_SESSION_ID
      | Some (_, s8) =>
        match read_u16lp s8 with                   (* :534-537 *)
        | None => Err E_SUITES
        | Some (csb, s9) =>
          do suites <- read_cipher_suites csb;
          match read_u8lp s9 with                  (* :544-547 *)
          | None => Err E_COMPRESSION
          | Some (comp, s10) =>
            if empty s10 then                      (* :553-556 extensions are optional *)
              Ok {| sp_suites := suites; sp_comp := comp; sp_exts := [];
                    sp_vmin := rv; sp_vmax := hv; sp_padto := None |}
            else
            match read_u16lp s10 with              (* :558-561; trailing bytes are ignored *)
            | None => Err E_EXTENSIONS
            | Some (extb, _) =>
              do r <- read_tls_extensions (length extb) blunt real extb;
              let '(es, vreset) := r in
              let '(es', padded) := install_pad_to es in
              Ok {| sp_suites := suites; sp_comp := comp; sp_exts := es';
                    sp_vmin := if vreset then 0 else rv;
                    sp_vmax := if vreset then 0 else hv;
                    sp_padto := if padded then Some (Z.of_N (blen raw) - 5)%Z else None |}
            end
          end
        end
      end
    end
  end.

(* ---- Fingerprinter.RawClientHello / FingerprintClientHello ---- *)
Definition fingerprint (f : fp_flags) (raw : bytes) : res spec :=
  do s <- from_raw (f_blunt f) (f_real_psk f) raw;
  if f_always_pad f then
    do es <- always_add_padding (sp_exts s);
    Ok {| sp_suites := sp_suites s; sp_comp := sp_comp s; sp_exts := es;
          sp_vmin := sp_vmin s; sp_vmax := sp_vmax s; sp_padto := sp_padto s |}
  else Ok s.

(* Extension of the negotiation core (Model/Negotiate.v) with the state a client carries over from an
   earlier connection: a cached TLS <= 1.2 session offered again in this ClientHello (session ticket).
   Executable definitions only. Model/Negotiate.v is unchanged (other properties depend on it);
   [client_run_sess ... None] is [client_run_gen] (NegotiateSessP.sess_none).

   Mirrored code:
     handshake_client.go:897-902   clientHandshakeState.serverResumedSession
     handshake_client.go:904-977   processServerHello (<= 1.2): the resumption tail (session version,
                                   cipher suite, extended-master-secret must match the ServerHello)
     handshake_client.go:581-625   handshake(): isResume branch (no certificate, no ServerKeyExchange)
     u_handshake_client.go:383-575 UConn.clientHandshake: version pick, offered-version check and the
                                   downgrade-sentinel test are done BEFORE and INDEPENDENTLY of the session
   A TLS 1.3 PSK session is the [cv_session] field of the view (Negotiate.v); this file is about <= 1.2. *)
From UV Require Export Base.Common Model.Negotiate.

Record session12 := mkSess {
  s_vers : N;      (* SessionState.version *)
  s_suite : N;     (* SessionState.cipherSuite *)
  s_ems : bool     (* SessionState.extMasterSecret *)
}.

(* handshake_client.go:897-902. hello.sessionId != nil is modelled as non-empty (uTLS always sends 32 bytes
   when it offers a ticket) *)
Definition resumes (v : client_view) (sess : option session12) (h : hello_msg) : bool :=
  match sess with
  | None => false
  | Some _ => negb (match cv_sid v with [] => true | _ => false end) && bytes_eqb (h_sid h) (cv_sid v)
  end.

(* handshake_client.go:907-935: the checks of processServerHello that precede the resumption test *)
Definition prefix12 (e : env) (v : client_view) (h : hello_msg) : option N :=
  if negb (memN (h_suite h) (cv_suites v) && memN (h_suite h) (e_impl12 e)) then Some a_handshake_failure
  else if negb (h_comp h =? 0) then Some a_unexpected_message
  else if negb (check_alpn (cv_alpn v) (h_alpn h)) then Some a_unsupported_extension
  else None.

(* sh_ems = the ServerHello carries extended_master_secret *)
Definition run12_sess (e : env) (v : client_view) (vers : N) (h : hello_msg) (fl : flight)
           (sess : option session12) (sh_ems : bool) : outcome :=
  if resumes v sess h then
    match prefix12 e v h with
    | Some a => Abort a
    | None =>
        match sess with
        | None => Abort a_internal_error
        | Some s =>
            if negb (s_vers s =? vers) then Abort a_handshake_failure
            else if negb (s_suite s =? h_suite h) then Abort a_handshake_failure
            else if negb (Bool.eqb (s_ems s) sh_ems) then Abort a_handshake_failure
            else if negb (f_crypto_ok fl) then Abort a_bad_record_mac
            else Complete (mkState vers (h_suite h) 0 (h_alpn h) false false)
        end
    end
  else run12 e v vers h fl.

Definition client_run_sess (e : env) (v : client_view) (sess : option session12) (sh_ems : bool) (fl : flight) : outcome :=
  let first := match f_hrr fl with Some h => h | None => f_sh fl end in
  match pick_version v first with
  | None => Abort a_protocol_version
  | Some vers =>
      if negb (version_offered e v vers) then Abort a_protocol_version
      else if canary_abort e v vers first then Abort a_illegal_parameter
      else if vers =? V13 then run13 v fl
      else run12_sess e v vers first fl sess sh_ems
  end.

(* did the handshake resume the offered session (ConnectionState.DidResume) *)
Definition did_resume (e : env) (v : client_view) (sess : option session12) (fl : flight) : bool :=
  let first := match f_hrr fl with Some h => h | None => f_sh fl end in
  match pick_version v first with
  | Some vers => negb (vers =? V13) && resumes v sess first
  | None => false
  end.

(* Model of the ECH client/server codec logic of /repo (C15).
   Executable definitions only (no proofs).

   Mirrors
     handshake_messages.go:113-398  clientHelloMsg.marshalMsgReorderOuterExts (echInner, outerExts)
     ech.go:212-233                 encodeInnerClientHello / encodeInnerClientHelloReorderOuterExts (padding rule)
     ech.go:255-281                 extractRawExtensions
     ech.go:283-386                 decodeInnerClientHello (monotone scan of the outer extensions)
     ech.go:393-403                 generateOuterECHExt
     u_conn.go:494-505              UConn.extensionsList
     u_conn.go:507-565              UConn.computeAndUpdateOuterECHExtension
     u_conn.go:567-594              UConn.MarshalClientHello (ECH path)
     u_conn.go:598-690              UConn.MarshalClientHelloNoECH
     u_parrots.go:2849-2856         ApplyPreset, SNIExtension case
     handshake_client_tls13.go:330-352, 397-416, 450-467  processHelloRetryRequest (key share, uTLS section, inner/outer)
     handshake_client_tls13.go:101-130, 170-173, 750-758  accept confirmation, ECHRejectionError, retry configs
     handshake_client.go:1142-1184  verifyServerCertificate, ECH-rejected branch

   Extensions are abstract (id, body) pairs; extension bodies are opaque bytes
   except server_name, key_share, supported_versions, ech_outer_extensions and
   the outer encrypted_client_hello, whose layout the ECH logic depends on.
   HPKE, the per-extension body parsers of clientHelloMsg.unmarshal,
   hostnameInSNI, GetPaddingLen and x509 verification are function arguments
   (Section variables in the proofs).

   State of this file: models the code WITH the fix fixes/C15-ech-hrr-keyshare.diff
   (HRR uTLS section copies hello.keyShares, not the stale hs.hello.keyShares);
   the pre-fix behaviour is kept as [hrr_update_prefix] for the regression lemma EchOuterP.hrr_prefix_refuted. *)
From UV Require Import Base.Common.

(* ------------------------------------------------------------------ *)
(* byte helpers (cryptobyte.String readers / Builder writers)          *)
(* ------------------------------------------------------------------ *)
Definition len (b : bytes) : N := N.of_nat (length b).
Definition be16 (x : N) : bytes := [(x / 256) mod 256; x mod 256].
Definition be24 (x : N) : bytes := [(x / 65536) mod 256; (x / 256) mod 256; x mod 256].
Fixpoint zeros (n : nat) : bytes := match n with O => [] | S k => 0 :: zeros k end.

Definition p8lp (b : bytes) : bytes := len b :: b.
Definition p16lp (b : bytes) : bytes := be16 (len b) ++ b.
Definition p24lp (b : bytes) : bytes := be24 (len b) ++ b.
Definition fits8 (b : bytes) : bool := len b <? 256.
Definition fits16 (b : bytes) : bool := len b <? 65536.
Definition fits24 (b : bytes) : bool := len b <? 16777216.

Definition rd_u8 (s : bytes) : option (N * bytes) :=
  match s with b :: r => Some (b, r) | [] => None end.
Definition rd_u16 (s : bytes) : option (N * bytes) :=
  match s with a :: b :: r => Some (a * 256 + b, r) | _ => None end.
Definition rd_bytes (n : N) (s : bytes) : option (bytes * bytes) :=
  if n <=? len s then Some (firstn (N.to_nat n) s, skipn (N.to_nat n) s) else None.
Definition rd_u8lp (s : bytes) : option (bytes * bytes) :=
  match rd_u8 s with Some (n, r) => rd_bytes n r | None => None end.
Definition rd_u16lp (s : bytes) : option (bytes * bytes) :=
  match rd_u16 s with Some (n, r) => rd_bytes n r | None => None end.
(* String.Skip / skipUint8LengthPrefixed / skipUint16LengthPrefixed *)
Definition skip_n (n : N) (s : bytes) : option bytes :=
  match rd_bytes n s with Some (_, r) => Some r | None => None end.
Definition skip_u8lp (s : bytes) : option bytes :=
  match rd_u8lp s with Some (_, r) => Some r | None => None end.
Definition skip_u16lp (s : bytes) : option bytes :=
  match rd_u16lp s with Some (_, r) => Some r | None => None end.

(* ------------------------------------------------------------------ *)
(* constants                                                           *)
(* ------------------------------------------------------------------ *)
Definition EXT_SNI : N := 0.
Definition EXT_PADDING : N := 21.
Definition EXT_PSK : N := 41.
Definition EXT_SUPPORTED_VERSIONS : N := 43.
Definition EXT_KEY_SHARE : N := 51.
Definition EXT_ECH : N := 65037.            (* 0xfe0d *)
Definition EXT_ECH_OUTER : N := 64768.      (* 0xfd00 *)
Definition VERSION_TLS13 : N := 772.        (* 0x0304 *)

(* error codes (decodeInnerClientHello error strings) *)
Definition E_INVALID_INNER : N := 1.        (* "tls: invalid inner client hello" *)
Definition E_INVALID_OUTER_EXTS : N := 2.   (* "tls: invalid outer extensions" *)
Definition E_MALFORMED_OUTER : N := 3.      (* "tls: malformed outer client hello" *)
Definition E_INVALID_RECON : N := 4.        (* "tls: invalid reconstructed inner client hello" *)
Definition E_INVALID_ECH_EXT : N := 5.      (* errInvalidECHExt *)
Definition E_VERSIONS : N := 6.             (* "... offered incompatible versions" *)
Definition E_OVERFLOW : N := 7.             (* cryptobyte builder: length prefix overflow / wrong fixed length *)
Definition E_FUEL : N := 8.                 (* never reached: fuel = input length *)
Definition E_NO_ECH_EXT : N := 9.           (* "extension satisfying EncryptedClientHelloExtension not present" *)
Definition E_MULTI_PADDING : N := 10.       (* "multiple padding extensions" *)
Definition E_HELLO_LEN : N := 11.           (* "utls: unexpected ClientHello length" *)
Definition E_NO_KEYSHARE_EXT : N := 12.     (* "uTLS: received HelloRetryRequest, but keyshare not found ..." *)

(* ------------------------------------------------------------------ *)
(* extensions and the inner ClientHello                                 *)
(* ------------------------------------------------------------------ *)
Record ext := mkExt { eid : N; ebody : bytes }.

Definition ext_eqb (a b : ext) : bool := (eid a =? eid b) && bytes_eqb (ebody a) (ebody b).

(* exts.AddUint16(id); exts.AddUint16LengthPrefixed(body) *)
Definition ext_wire (e : ext) : bytes := be16 (eid e) ++ p16lp (ebody e).
Definition exts_wire (l : list ext) : bytes := flat_map ext_wire l.

(* How marshalMsgReorderOuterExts treats one extension slot:
   KAlways        written in every mode (sct, early_data, quic params, encrypted_client_hello)
   KOuterOnly     guarded by [&& !echInner] (ec_point_formats, session_ticket, renegotiation_info, extended_master_secret)
   KComp          compressed when echInner (status_request, supported_groups, signature_algorithms,
                  signature_algorithms_cert, alpn, cookie, key_share, psk_key_exchange_modes)
   KCompNoReorder compressed only when echInner && outerExts == nil (supported_versions, the uTLS change) *)
Inductive ckind := KAlways | KOuterOnly | KComp | KCompNoReorder.
Record item := mkItem { it_ext : ext; it_kind : ckind }.

Record chello := mkHello {
  ch_vers : N;
  ch_random : bytes;
  ch_sid : bytes;
  ch_suites : list N;
  ch_comp : bytes;
  ch_sni : bytes;              (* serverName; "" = no server_name extension *)
  ch_items : list item;        (* every slot between server_name and pre_shared_key, marshal order *)
  ch_psk : option ext          (* pre_shared_key, always last *)
}.

(* server_name body: u16lp( 0 ‖ u16lp name ), handshake_messages.go:118-127 *)
Definition sni_body (name : bytes) : bytes := p16lp (0 :: p16lp name).
Definition sni_ext (name : bytes) : ext := mkExt EXT_SNI (sni_body name).

Definition mem (x : N) (l : list N) : bool := existsb (N.eqb x) l.

Definition emits (echInner reorder : bool) (k : ckind) : bool :=
  match k with
  | KAlways => true
  | KOuterOnly => negb echInner
  | KComp => negb echInner
  | KCompNoReorder => negb (echInner && negb reorder)
  end.
Definition compresses (echInner reorder : bool) (k : ckind) : bool :=
  match k with
  | KComp => echInner
  | KCompNoReorder => echInner && negb reorder
  | _ => false
  end.

(* the ids appended to echOuterExts, in marshal order *)
Definition comp_ids (echInner reorder : bool) (items : list item) : list N :=
  map (fun it => eid (it_ext it)) (filter (fun it => compresses echInner reorder (it_kind it)) items).

(* handshake_messages.go:327-341: slices.Collect over outerExts keeping those Contained in echOuterExts *)
Definition reorder_ids (echInner : bool) (outerExts : option (list N)) (ids : list N) : list N :=
  match outerExts with
  | Some oe => if echInner then filter (fun e => mem e ids) oe else ids
  | None => ids
  end.

(* ech_outer_extensions: u16lp( u8lp( ids ) ), handshake_messages.go:343-352 *)
Definition outer_exts_body (ids : list N) : bytes := p16lp (p8lp (flat_map be16 ids)).
Definition outer_exts_ext (ids : list N) : ext := mkExt EXT_ECH_OUTER (p8lp (flat_map be16 ids)).

Definition is_some {A} (o : option A) : bool := match o with Some _ => true | None => false end.
Definition opt_list {A} (o : option A) : list A := match o with Some a => [a] | None => [] end.

(* the list of extensions the marshaller writes, in order *)
Definition marshal_exts (echInner : bool) (outerExts : option (list N)) (m : chello) : list ext :=
  let reorder := is_some outerExts in
  let sni := if 0 <? len (ch_sni m) then [sni_ext (ch_sni m)] else [] in
  let inl := map it_ext (filter (fun it => emits echInner reorder (it_kind it)) (ch_items m)) in
  let ids := reorder_ids echInner outerExts (comp_ids echInner reorder (ch_items m)) in
  let oext := if (0 <? len ids) && echInner then [outer_exts_ext ids] else [] in
  sni ++ inl ++ oext ++ opt_list (ch_psk m).

Definition suites_bytes (l : list N) : bytes := flat_map be16 l.

(* handshake_messages.go:113-398. A cryptobyte Builder fails as a whole when any
   length prefix overflows or the random is not 32 bytes; the error is Err E_OVERFLOW. *)
Definition marshal_msg (echInner : bool) (outerExts : option (list N)) (m : chello) : res bytes :=
  let exts := marshal_exts echInner outerExts m in
  let extBytes := exts_wire exts in
  let sid := if echInner then [] else ch_sid m in
  let body := be16 (ch_vers m) ++ ch_random m ++ p8lp sid ++ p16lp (suites_bytes (ch_suites m)) ++
              p8lp (ch_comp m) ++ (if 0 <? len extBytes then p16lp extBytes else []) in
  let ids := reorder_ids echInner outerExts (comp_ids echInner (is_some outerExts) (ch_items m)) in
  if (len (ch_random m) =? 32) && forallb (fun e => fits16 (ebody e)) exts && fits16 extBytes && fits8 sid &&
     fits16 (suites_bytes (ch_suites m)) && fits8 (ch_comp m) && fits8 (flat_map be16 ids) &&
     fits16 (ch_sni m) && fits24 body
  then Ok (1 :: p24lp body) else Err E_OVERFLOW.

(* ech.go:217-233. paddingLen arithmetic in Go int (Z), exactly as written. *)
Definition padding_len (hlen : Z) (name_len : Z) (maxNameLength : Z) : Z :=
  let p := if (name_len =? 0)%Z then (maxNameLength + 9)%Z else Z.max 0 (maxNameLength - name_len) in
  (31 - Z.rem (hlen + p - 1) 32)%Z.

Definition encode_inner (inner : chello) (maxNameLength : N) (outerExts : option (list N)) : res bytes :=
  do h <- marshal_msg true outerExts inner;
  let h4 := skipn 4 h in    (* h[4:] *)
  let pl := padding_len (Z.of_N (len h4)) (Z.of_N (len (ch_sni inner))) (Z.of_N maxNameLength) in
  Ok (h4 ++ zeros (Z.to_nat pl)).

(* ------------------------------------------------------------------ *)
(* decodeInnerClientHello                                               *)
(* ------------------------------------------------------------------ *)
Fixpoint parse_ext_list (fuel : nat) (s : bytes) : option (list ext) :=
  match s with
  | [] => Some []
  | _ =>
    match fuel with
    | O => None
    | S f =>
      match rd_u16 s with
      | None => None
      | Some (id, s1) =>
        match rd_u16lp s1 with
        | None => None
        | Some (body, s2) =>
          match parse_ext_list f s2 with
          | None => None
          | Some l => Some (mkExt id body :: l)
          end
        end
      end
    end
  end.

(* ech.go:255-281 *)
Definition extract_raw_extensions (orig : bytes) : res (list ext) :=
  match skip_n 38 orig with
  | None => Err E_MALFORMED_OUTER
  | Some s1 =>
    match skip_u8lp s1 with
    | None => Err E_MALFORMED_OUTER
    | Some s2 =>
      match skip_u16lp s2 with
      | None => Err E_MALFORMED_OUTER
      | Some s3 =>
        match skip_u8lp s3 with
        | None => Err E_MALFORMED_OUTER
        | Some s4 =>
          match rd_u16lp s4 with
          | None => Err E_MALFORMED_OUTER
          | Some (extensions, _) =>
            match parse_ext_list (length extensions) extensions with
            | None => Err E_INVALID_INNER      (* sic: the Go error text says "inner" *)
            | Some l => Ok l
            end
          end
        end
      end
    end
  end.

(* for ; i <= len(rawOuterExts); i++ … break   (ech.go:340-348): first match at or after i;
   i is NOT advanced past the match, so the returned suffix starts at the match. *)
Fixpoint drop_to (t : N) (raw : list ext) : option (ext * list ext) :=
  match raw with
  | [] => None
  | x :: r => if eid x =? t then Some (x, raw) else drop_to t r
  end.

(* ech.go:330-353, on the already-split id list *)
Fixpoint scan_outer (raw : list ext) (ts : list N) : res (list ext) :=
  match ts with
  | [] => Ok []
  | t :: ts' =>
    if t =? EXT_ECH then Err E_INVALID_OUTER_EXTS else
    match drop_to t raw with
    | None => Err E_INVALID_OUTER_EXTS
    | Some (x, raw') => do r <- scan_outer raw' ts'; Ok (x :: r)
    end
  end.

(* the same loop reading the u16 ids on the fly (error order as in the code) *)
Fixpoint scan_outer_b (fuel : nat) (raw : list ext) (s : bytes) : res (list ext) :=
  match s with
  | [] => Ok []
  | _ =>
    match fuel with
    | O => Err E_FUEL
    | S f =>
      match rd_u16 s with
      | None => Err E_INVALID_INNER
      | Some (t, s') =>
        if t =? EXT_ECH then Err E_INVALID_OUTER_EXTS else
        match drop_to t raw with
        | None => Err E_INVALID_OUTER_EXTS
        | Some (x, raw') => do r <- scan_outer_b f raw' s'; Ok (x :: r)
        end
      end
    end
  end.

(* ech.go:317-364: the extension loop of the reconstruction *)
Fixpoint recon_exts (fuel : nat) (raw : list ext) (s : bytes) : res (list ext) :=
  match s with
  | [] => Ok []
  | _ =>
    match fuel with
    | O => Err E_FUEL
    | S f =>
      match rd_u16 s with
      | None => Err E_INVALID_INNER
      | Some (id, s1) =>
        match rd_u16lp s1 with
        | None => Err E_INVALID_INNER
        | Some (body, s2) =>
          if id =? EXT_ECH_OUTER then
            match rd_u8lp body with      (* extData.ReadUint8LengthPrefixed(&extData): trailing bytes ignored *)
            | None => Err E_INVALID_INNER
            | Some (lst, _) =>
              do xs <- scan_outer_b (length lst) raw lst;
              do r <- recon_exts f raw s2;
              Ok (xs ++ r)
            end
          else
            do r <- recon_exts f raw s2;
            Ok (mkExt id body :: r)
        end
      end
    end
  end.

(* the reconstructed inner hello (what clientHelloMsg.unmarshal is then run on) *)
Record recon := mkRecon {
  r_vr : bytes;       (* legacy_version ‖ random, 34 bytes *)
  r_sid : bytes;      (* copied from the OUTER hello *)
  r_suites : bytes;
  r_comp : bytes;
  r_exts : list ext
}.

Definition recon_body (r : recon) : bytes :=
  r_vr r ++ p8lp (r_sid r) ++ p16lp (r_suites r) ++ p8lp (r_comp r) ++ p16lp (exts_wire (r_exts r)).
Definition recon_bytes (r : recon) : bytes := 1 :: p24lp (recon_body r).
Definition recon_fits (r : recon) : bool :=
  fits8 (r_sid r) && fits16 (r_suites r) && fits8 (r_comp r) &&
  forallb (fun e => fits16 (ebody e)) (r_exts r) && fits16 (exts_wire (r_exts r)) && fits24 (recon_body r).

Fixpoint nodup_ids (seen : list N) (l : list ext) : bool :=
  match l with
  | [] => true
  | e :: r => negb (mem (eid e) seen) && nodup_ids (eid e :: seen) r
  end.

(* pre_shared_key must be the last extension (handshake_messages.go:684) *)
Fixpoint psk_last (l : list ext) : bool :=
  match l with
  | [] => true
  | e :: r => (negb (eid e =? EXT_PSK) || match r with [] => true | _ => false end) && psk_last r
  end.

Fixpoint find_ext (id : N) (l : list ext) : option ext :=
  match l with
  | [] => None
  | e :: r => if eid e =? id then Some e else find_ext id r
  end.

Fixpoint parse_u16s (fuel : nat) (s : bytes) : option (list N) :=
  match s with
  | [] => Some []
  | _ =>
    match fuel with
    | O => None
    | S f =>
      match rd_u16 s with
      | None => None
      | Some (v, s') => match parse_u16s f s' with Some l => Some (v :: l) | None => None end
      end
    end
  end.

(* supported_versions body: u8lp of a non-empty u16 list, nothing after (handshake_messages.go:621-634) *)
Definition parse_sv (body : bytes) : option (list N) :=
  match rd_u8lp body with
  | Some (lst, []) => match lst with [] => None | _ => parse_u16s (length lst) lst end
  | _ => None
  end.

(* the parts of clientHelloMsg.unmarshal that can fail on a structurally well-formed
   reconstruction: odd cipher-suite bytes, a duplicate extension, a body the
   per-extension parser rejects (body_ok, uninterpreted except supported_versions),
   pre_shared_key not last. *)
Definition unmarshal_ok (body_ok : N -> bytes -> bool) (r : recon) : bool :=
  (len (r_suites r) mod 2 =? 0) && nodup_ids [] (r_exts r) &&
  forallb (fun e => body_ok (eid e) (ebody e)) (r_exts r) &&
  match find_ext EXT_SUPPORTED_VERSIONS (r_exts r) with
  | Some e => is_some (parse_sv (ebody e))
  | None => true
  end &&
  psk_last (r_exts r).

Definition all_zero (s : bytes) : bool := forallb (N.eqb 0) s.

(* ech.go:283-386 *)
Definition decode_inner (body_ok : N -> bytes -> bool) (outer_orig outer_sid encoded : bytes) : res recon :=
  match rd_bytes 34 encoded with
  | None => Err E_INVALID_INNER
  | Some (vr, s1) =>
    match rd_u8lp s1 with
    | None => Err E_INVALID_INNER
    | Some (sid, s2) =>
      if negb (len sid =? 0) then Err E_INVALID_INNER else
      match rd_u16lp s2 with
      | None => Err E_INVALID_INNER
      | Some (suites, s3) =>
        match rd_u8lp s3 with
        | None => Err E_INVALID_INNER
        | Some (comp, s4) =>
          match rd_u16lp s4 with
          | None => Err E_INVALID_INNER
          | Some (extensions, rest) =>
            if negb (all_zero rest) then Err E_INVALID_INNER else
            do raw <- extract_raw_extensions outer_orig;
            do exts <- recon_exts (length extensions) raw extensions;
            let r := mkRecon vr outer_sid suites comp exts in
            if negb (recon_fits r) then Err E_OVERFLOW else
            if negb (unmarshal_ok body_ok r) then Err E_INVALID_RECON else
            match find_ext EXT_ECH (r_exts r) with
            | Some e =>
              if negb (bytes_eqb (ebody e) [1]) then Err E_INVALID_ECH_EXT else
              match find_ext EXT_SUPPORTED_VERSIONS (r_exts r) with
              | Some sv =>
                match parse_sv (ebody sv) with
                | Some [v] => if v =? VERSION_TLS13 then Ok r else Err E_VERSIONS
                | _ => Err E_VERSIONS
                end
              | None => Err E_VERSIONS
              end
            | None => Err E_INVALID_ECH_EXT
            end
          end
        end
      end
    end
  end.

(* ------------------------------------------------------------------ *)
(* the outer ClientHello of a UConn                                     *)
(* ------------------------------------------------------------------ *)
Definition kshare := (N * bytes)%type.     (* group, key_exchange *)
Definition ks_entry (k : kshare) : bytes := be16 (fst k) ++ p16lp (snd k).
Definition ks_body (ks : list kshare) : bytes := p16lp (flat_map ks_entry ks).
Definition ks_ext (ks : list kshare) : ext := mkExt EXT_KEY_SHARE (ks_body ks).

Inductive uext :=
| UExt (e : ext)                 (* any other TLSExtension: Read emits id ‖ u16 len ‖ body *)
| USni (name : bytes)            (* *SNIExtension with its ServerName field *)
| UEch (old : ext)               (* an EncryptedClientHelloExtension (e.g. the GREASE one) and what it would emit *)
| UPad                           (* *UtlsPaddingExtension driven by GetPaddingLen *)
| UKeyShare (ks : list kshare).  (* *KeyShareExtension *)

Record uhello := mkUHello {
  uh_vers : N; uh_random : bytes; uh_sid : bytes; uh_suites : list N; uh_comp : bytes
}.

(* u_parrots.go:2849-2856 *)
Definition apply_preset_sni (ech_public_name : option bytes) (cfg_server_name : bytes) (e : uext) : uext :=
  match e with
  | USni n =>
    let n1 := if len n =? 0 then cfg_server_name else n in
    USni (match ech_public_name with Some pn => pn | None => n1 end)
  | _ => e
  end.

Section Outer.
  Variable hostname_in_sni : bytes -> bytes.   (* hostnameInSNI, u_common / common.go *)
  Variable padf : N -> N * bool.               (* UtlsPaddingExtension.GetPaddingLen *)

  (* SNIExtension.Read, u_tls_extensions.go:137-159 *)
  Definition usni_wire (name : bytes) : bytes :=
    let hn := hostname_in_sni name in
    if len hn =? 0 then [] else
    be16 EXT_SNI ++ be16 (u16 (len hn + 5)) ++ be16 (u16 (len hn + 3)) ++ [0] ++ be16 (u16 (len hn)) ++ hn.
  Definition usni_exts (name : bytes) : list ext :=
    let hn := hostname_in_sni name in
    if len hn =? 0 then [] else [sni_ext hn].

  Definition gext_wire (e : ext) : bytes := be16 (eid e) ++ be16 (u16 (len (ebody e))) ++ ebody e.

  (* bytes an extension other than padding contributes / its Len() *)
  Definition uext_wire (e : uext) : bytes :=
    match e with
    | UExt x => gext_wire x
    | USni n => usni_wire n
    | UEch x => gext_wire x
    | UPad => []
    | UKeyShare ks => gext_wire (ks_ext ks)
    end.
  Definition is_pad (e : uext) : bool := match e with UPad => true | _ => false end.
  Definition uext_len (e : uext) : N := len (uext_wire e).

  Definition pad_wire (unpadded : N) : bytes :=
    let '(pl, will) := padf unpadded in
    if will then be16 EXT_PADDING ++ be16 (u16 pl) ++ zeros (N.to_nat pl) else [].
  Definition pad_exts (unpadded : N) : list ext :=
    let '(pl, will) := padf unpadded in
    if will then [mkExt EXT_PADDING (zeros (N.to_nat pl))] else [].

  Definition sum_len (l : list uext) : N := fold_right (fun e a => uext_len e + a) 0 l.
  Definition count_pad (l : list uext) : nat := length (filter is_pad l).

  Definition header_length (h : uhello) : N :=
    2 + 32 + 1 + len (uh_sid h) + 2 + 2 * N.of_nat (length (uh_suites h)) + 1 + len (uh_comp h).

  (* what the padding extension is asked: headerLength + 4 + extensionsLen + 2 *)
  Definition unpadded_len (h : uhello) (exts : list uext) : N := header_length h + 4 + sum_len exts + 2.

  Definition exts_bytes (h : uhello) (exts : list uext) : bytes :=
    flat_map (fun e => if is_pad e then pad_wire (unpadded_len h exts) else uext_wire e) exts.

  (* the extensions actually on the wire, as (id, body) pairs *)
  Definition wire_exts (h : uhello) (exts : list uext) : list ext :=
    flat_map (fun e => match e with
                       | UExt x => [x] | UEch x => [x] | USni n => usni_exts n
                       | UKeyShare ks => [ks_ext ks] | UPad => pad_exts (unpadded_len h exts)
                       end) exts.

  (* u_conn.go:598-690 *)
  Definition marshal_outer (h : uhello) (exts : list uext) : res bytes :=
    if (1 <? count_pad exts)%nat then Err E_MULTI_PADDING else
    let eb := exts_bytes h exts in
    let extensionsLen := len eb in
    let helloLen := header_length h + (if (0 <? length exts)%nat then 2 + extensionsLen else 0) in
    let out :=
      [1] ++ be24 helloLen ++ be16 (uh_vers h) ++ uh_random h ++ [u8 (len (uh_sid h))] ++ uh_sid h ++
      be16 (u16 (2 * N.of_nat (length (uh_suites h)))) ++ suites_bytes (uh_suites h) ++
      [u8 (len (uh_comp h))] ++ uh_comp h ++
      (if (0 <? length exts)%nat then be16 (u16 extensionsLen) ++ eb else []) in
    if len out =? 4 + helloLen then Ok out else Err E_HELLO_LEN.

  (* u_conn.go:494-505: Read into a zeroed 2000-byte buffer, take the first two bytes.
     An extension that emits nothing or does not fit leaves the buffer zero -> id 0. *)
  Definition ext_list_id (pad_on : bool) (e : uext) : N :=
    match e with
    | UPad => if pad_on then EXT_PADDING else 0
    | _ =>
      let w := uext_wire e in
      if (len w =? 0) || (2000 <? len w) then 0 else
      match rd_u16 w with Some (id, _) => id | None => 0 end
    end.
  Definition extensions_list (pad_on : bool) (exts : list uext) : list N := map (ext_list_id pad_on) exts.

  (* ech.go:393-403 *)
  Definition gen_outer_ech (cid kdf aead : N) (enc payload : bytes) : bytes :=
    [0] ++ be16 kdf ++ be16 aead ++ [cid] ++ p16lp enc ++ p16lp payload.

  (* slices.IndexFunc + assignment, u_conn.go:524-535 *)
  Fixpoint replace_first_ech (exts : list uext) (e : ext) : option (list uext) :=
    match exts with
    | [] => None
    | UEch _ :: r => Some (UExt e :: r)
    | x :: r => match replace_first_ech r e with Some r' => Some (x :: r') | None => None end
    end.

  Record echcfg := mkCfg { c_id : N; c_kdf : N; c_aead : N; c_maxname : N; c_public_name : bytes }.

  Variable seal : N -> bytes -> bytes -> bytes.     (* hpke context Seal: seq, aad, plaintext *)

  Record outer_result := mkOuter { o_encoded : bytes; o_aad : bytes; o_raw : bytes }.

  (* u_conn.go:507-565 *)
  Definition compute_outer (h : uhello) (exts : list uext) (pad_on : bool) (inner : chello)
             (cfg : echcfg) (enc : bytes) (useKey : bool) (seq : N) : res outer_result :=
    let encap := if useKey then enc else [] in
    do encoded <- encode_inner inner (c_maxname cfg) (Some (extensions_list pad_on exts));
    let encryptedLen := N.to_nat (len encoded + 16) in
    let ext0 := gen_outer_ech (c_id cfg) (c_kdf cfg) (c_aead cfg) encap (zeros encryptedLen) in
    if negb (fits16 encap && fits16 (zeros encryptedLen)) then Err E_OVERFLOW else
    match replace_first_ech exts (mkExt EXT_ECH ext0) with
    | None => Err E_NO_ECH_EXT
    | Some exts1 =>
      do raw1 <- marshal_outer h exts1;
      let aad := skipn 4 raw1 in
      let ct := seal seq aad encoded in
      if negb (fits16 ct) then Err E_OVERFLOW else
      match replace_first_ech exts (mkExt EXT_ECH (gen_outer_ech (c_id cfg) (c_kdf cfg) (c_aead cfg) encap ct)) with
      | None => Err E_NO_ECH_EXT
      | Some exts2 =>
        do raw2 <- marshal_outer h exts2;
        Ok (mkOuter encoded aad raw2)
      end
    end.
End Outer.

(* ------------------------------------------------------------------ *)
(* HelloRetryRequest with ECH accepted (isInnerHello)                   *)
(* ------------------------------------------------------------------ *)
Record hrr_state := mkHrr {
  hs_outer_ks : list kshare;     (* hs.hello.keyShares (outer) *)
  hs_inner : chello;             (* hs.echContext.innerHello *)
  hs_exts : list uext            (* hs.uconn.Extensions *)
}.

(* replace the body of the first item with this id; when absent insert in marshal position
   (key_share is followed only by psk_key_exchange_modes) *)
Fixpoint set_item (e : ext) (k : ckind) (items : list item) : list item :=
  match items with
  | [] => [mkItem e k]
  | it :: r =>
    if eid (it_ext it) =? eid e then mkItem e (it_kind it) :: r
    else if eid (it_ext it) =? 45 then mkItem e k :: it :: r
    else it :: set_item e k r
  end.

Definition set_inner_keyshares (m : chello) (ks : list kshare) : chello :=
  mkHello (ch_vers m) (ch_random m) (ch_sid m) (ch_suites m) (ch_comp m) (ch_sni m)
          (set_item (ks_ext ks) KComp (ch_items m)) (ch_psk m).

Definition has_keyshare_ext (exts : list uext) : bool :=
  existsb (fun e => match e with UKeyShare _ => true | _ => false end) exts.

Definition set_keyshare_exts (ks : list kshare) (exts : list uext) : list uext :=
  map (fun e => match e with UKeyShare _ => UKeyShare ks | _ => e end) exts.

(* handshake_client_tls13.go:350-352 then 397-416 then 450-456, ECH accepted, parrot != HelloGolang.
   The uTLS section reads `hello.keyShares` (the hello being updated = inner) after the fix. *)
Definition hrr_update (group : N) (pub : bytes) (st : hrr_state) : res hrr_state :=
  let new := [(group, pub)] in
  let inner' := set_inner_keyshares (hs_inner st) new in        (* hello.keyShares = []keyShare{{group, pub}} *)
  if negb (has_keyshare_ext (hs_exts st)) then Err E_NO_KEYSHARE_EXT else
  let exts' := set_keyshare_exts new (hs_exts st) in             (* ks.KeyShares = keyShares(hello.keyShares).ToPublic() *)
  Ok (mkHrr new inner' exts').                                   (* hs.hello.keyShares = hello.keyShares *)

(* the unfixed line 404: ks.KeyShares = keyShares(hs.hello.keyShares).ToPublic() — the outer, still stale *)
Definition hrr_update_prefix (group : N) (pub : bytes) (st : hrr_state) : res hrr_state :=
  let new := [(group, pub)] in
  let inner' := set_inner_keyshares (hs_inner st) new in
  if negb (has_keyshare_ext (hs_exts st)) then Err E_NO_KEYSHARE_EXT else
  let exts' := set_keyshare_exts (hs_outer_ks st) (hs_exts st) in
  Ok (mkHrr new inner' exts').

(* ------------------------------------------------------------------ *)
(* acceptance / rejection outcome of the client handshake               *)
(* ------------------------------------------------------------------ *)
Inductive hs_result :=
| HsComplete (ech_accepted : bool) (server_name : bytes)
| HsECHRejection (retry_configs : bytes)
| HsCertError
| HsOtherError (code : N).

Record client_view := mkView {
  v_config_server_name : bytes;       (* Config.ServerName, the secret name *)
  v_outer_server_name : bytes;        (* c.serverName after the first flight = outer hello's name *)
  v_confirmation_ok : bool;           (* accept confirmation matched (tls13.go:108-112) *)
  v_ee_retry_configs : option bytes;  (* EncryptedExtensions.echRetryConfigs *)
  v_rejection_verify : option bool;   (* Config.EncryptedClientHelloRejectionVerify result, when set *)
  v_server_flight_ok : bool           (* CertificateVerify and Finished check out *)
}.

Section Finish.
  Variable x509_verify : bytes -> bool.   (* the presented chain verifies for this DNS name *)

  (* tls13.go:101-130 (echRejected), 750-758 (retry configs), handshake_client.go:1142-1184
     (rejected branch verifies against the name of the OUTER hello — with fixes/C14-*; the unfixed
     code used Config.ServerName), tls13.go:170-173 (ECHRejectionError after the client Finished). *)
  Definition client_finish (v : client_view) : hs_result :=
    let rejected := negb (v_confirmation_ok v) in
    if negb rejected && is_some (v_ee_retry_configs v) then HsOtherError 1 else
    let retry := if rejected then match v_ee_retry_configs v with Some r => r | None => [] end else [] in
    let cert_ok :=
      if rejected then
        match v_rejection_verify v with
        | Some b => b
        | None => x509_verify (v_outer_server_name v)
        end
      else x509_verify (v_config_server_name v) in
    if negb cert_ok then HsCertError else
    if negb (v_server_flight_ok v) then HsOtherError 2 else
    if rejected then HsECHRejection retry
    else HsComplete true (v_config_server_name v).
End Finish.

(* ------------------------------------------------------------------ *)
(* the server's configured ECH keys over a history of connections       *)
(* ------------------------------------------------------------------ *)
(* Config.EncryptedClientHelloKeys entry: marshalled ECHConfig, SendAsRetry *)
Definition ech_key := (bytes * bool)%type.

(* ech.go:630-646 buildRetryConfigList: the SendAsRetry configs in configuration order, u16-length-prefixed;
   nil when there is none. The key slice is only read. (Assumes the configs fit the 2-byte prefix.) *)
Definition retry_list (keys : list ech_key) : option bytes :=
  match filter snd keys with
  | [] => None
  | cs => Some (p16lp (flat_map fst cs))
  end.

(* ech.go:572-626 processECHClientHello: trial decryption with every configured key; the HPKE info string is
   "tls ech\0" ‖ config, so with a correct HPKE exactly a key whose config the client used opens the payload *)
Definition server_accepts (keys : list ech_key) (client_cfg : bytes) : bool :=
  existsb (fun k => bytes_eqb (fst k) client_cfg) keys.

(* one served connection: (ECH accepted, retry configs sent in EncryptedExtensions when it was not,
   handshake_server_tls13.go:804-811) and the configured key list afterwards *)
Definition server_step (keys : list ech_key) (client_cfg : bytes) : (bool * option bytes) * list ech_key :=
  let a := server_accepts keys client_cfg in
  ((a, if a then None else retry_list keys), keys).

Fixpoint server_history (keys : list ech_key) (cfgs : list bytes) : list (bool * option bytes) :=
  match cfgs with
  | [] => []
  | c :: r => let '(o, keys') := server_step keys c in o :: server_history keys' r
  end.

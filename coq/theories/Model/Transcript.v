(* C11: what each side of a handshake feeds its transcript hash, the keys exported from it,
   the ConnectionState each side reports, and the server name.  Executable definitions
   only (crypto is a Section variable); proofs in Proofs/TranscriptP.v.

   Mirrored code (line numbers of /repo at the time of writing):
   client, TLS 1.3   handshake_client_tls13.go
        73   transcriptMsg(hs.hello)                       first ClientHello
        262-270  processHelloRetryRequest: chHash := Sum; Reset; Write(message_hash hdr); Write(chHash);
                 transcriptMsg(HRR)                        the HRR message-hash substitution
        486  writeHandshakeRecord(hs.hello, transcript)     second ClientHello
        133  transcriptMsg(hs.serverHello)
        691  readHandshake(hs.transcript)                   EncryptedExtensions
        785-797  readHandshake(nil) / transcriptMsg(certReq)   CertificateRequest
        u_handshake_client.go:33  transcriptMsg(compressedCertMsg)   CompressedCertificate AS RECEIVED
        828  transcriptMsg(certMsg)                         Certificate (when not compressed)
        875  transcriptMsg(certVerify)
        905  transcriptMsg(finished)                        server Finished
        911-926  application traffic secrets, c.ekm = exportKeyingMaterial(masterSecret, transcript)
        u_handshake_client.go:150-160  sendClientEncryptedExtensions (ALPS) writeHandshakeRecord(.., transcript)
        939/961, 998  client Certificate, CertificateVerify
        1012 client Finished; 1019 resumption secret
   server, TLS 1.3   handshake_server_tls13.go (stock) and verif_server.go (scripted: same order, re-stated)
        551-557  doHelloRetryRequest: transcriptMsg(clientHello); Sum; Reset; message_hash
        585  writeHandshakeRecord(HRR, transcript); 594 readHandshake(nil) second ClientHello
        748  transcriptMsg(hs.clientHello); 752 ServerHello; 812 EncryptedExtensions
        841  CertificateRequest; 852 Certificate (scripted: the CompressedCertificate it sends); 883 CertificateVerify
        897  Finished; 905-928 application secrets, c.ekm
        (scripted, ReadClientEE) readHandshake(transcript) client EncryptedExtensions
        1054 client Certificate; 1111 CertificateVerify; 968 / readClientFinished  client Finished; 972 resumption secret
   TLS <= 1.2        handshake_client.go doFullHandshake / handshake_server.go doFullHandshake: finishedHash.Write in
                     message order; master secret (EMS: from the session hash through ClientKeyExchange, prf.go:
                     extMasterFromPreMasterSecret), ekm = PRF(master, label, client_random ++ server_random ++ ctx) (prf.go:253)
   ConnectionState   conn.go:1625-1665 connectionStateLocked (Version, CipherSuite, NegotiatedProtocol, DidResume,
                     ServerName = c.serverName, curveID), u_conn.go:842 utlsConnectionStateLocked
   server name       u_handshake_client.go:223 makeClientHelloForApplyPreset (hello.serverName = hostnameInSNI(Config.ServerName)),
                     u_tls_extensions.go:201-208 SNIExtension.writeToUConn, u_conn.go:492 ApplyConfig (with fixes/C11-...:
                     Hello.ServerName cleared first), u_handshake_client.go:510 c.serverName = hello.serverName,
                     u_tls_extensions.go:127-160 SNIExtension.Len/Read, handshake_server(_tls13).go c.serverName = clientHello.serverName *)
From UV Require Import Base.Common.
From UV Require Model.Negotiate.
Open Scope N_scope.

(* ---- the messages of one TLS 1.3 handshake as they cross the wire (whole handshake messages) ---- *)
Record shape := mkShape {
  s_hrr : bool;      (* HelloRetryRequest round *)
  s_psk : bool;      (* resumed: no certificate messages either way *)
  s_creq : bool;     (* server sends CertificateRequest *)
  s_ccv : bool;      (* client answers it with a non-empty certificate, hence CertificateVerify *)
  s_alps : bool      (* client sends EncryptedExtensions (application_settings negotiated) *)
}.

Record msgs := mkMsgs {
  m_ch1 : bytes; m_hrr : bytes; m_ch2 : bytes; m_sh : bytes; m_ee : bytes; m_creq : bytes;
  m_cert : bytes;    (* the server's certificate message AS SENT: Certificate or CompressedCertificate *)
  m_cv : bytes; m_sfin : bytes; m_cee : bytes; m_ccert : bytes; m_ccv : bytes; m_cfin : bytes
}.

Definition opt (b : bool) (x : bytes) : list bytes := if b then [x] else [].

Section Crypto.
(* the negotiated suite's hash, HKDF-based derivations and the exporters: uninterpreted *)
Variable H : bytes -> bytes.
Variable exporter_secret : bytes -> bytes -> bytes.          (* master secret, H(transcript) -> exporter master secret *)
Variable ekm13 : bytes -> bytes -> bytes -> N -> bytes.      (* exporter secret, label, context, length *)
Variable master12 : bool -> bytes -> bytes -> bytes -> bytes -> bytes. (* ems?, pre-master, H(session transcript), client random, server random *)
Variable ekm12 : bytes -> bytes -> bytes -> bytes -> bytes -> N -> bytes. (* master, client random, server random, label, context, length *)

(* hash state = the bytes written so far *)
Definition message_hash (ch1 : bytes) : bytes :=
  let h := H ch1 in [254; 0; 0; u8 (N.of_nat (length h))] ++ h.

(* ---- client, TLS 1.3: bytes written to hs.transcript, in code order ---- *)
Definition client_hello_part (s : shape) (m : msgs) : bytes :=
  let t := m_ch1 m in                                               (* :73 *)
  if s_hrr s then
    let t := message_hash t in                                      (* :262-265 Sum, Reset, Write, Write *)
    let t := t ++ m_hrr m in                                        (* :266 *)
    t ++ m_ch2 m                                                    (* :486 *)
  else t.

Definition client_to_server_finished (s : shape) (m : msgs) : bytes :=
  let t := client_hello_part s m in
  let t := t ++ m_sh m in                                           (* :133 *)
  let t := t ++ m_ee m in                                           (* :691 *)
  let t := if s_psk s then t                                        (* :765 usingPSK: no certificate messages *)
           else
             let t := if s_creq s then t ++ m_creq m else t in      (* :794 *)
             let t := t ++ m_cert m in                              (* u_handshake_client.go:33 (compressed, as received) / :828 *)
             t ++ m_cv m in                                         (* :875 *)
  t ++ m_sfin m.                                                    (* :905 *)

Definition client_to_client_finished (s : shape) (m : msgs) : bytes :=
  let t := client_to_server_finished s m in
  let t := if s_alps s then t ++ m_cee m else t in                  (* u_handshake_client.go:156 *)
  let t := if s_creq s && negb (s_psk s)
           then let t := t ++ m_ccert m in                          (* :939 / :961 *)
                if s_ccv s then t ++ m_ccv m else t                 (* :998 *)
           else t in
  t ++ m_cfin m.                                                    (* :1012 *)

(* ---- server, TLS 1.3 ---- *)
Definition server_hello_part (s : shape) (m : msgs) : bytes :=
  if s_hrr s then
    let t := m_ch1 m in                                             (* :551 *)
    let t := message_hash t in                                      (* :554-557 *)
    let t := t ++ m_hrr m in                                        (* :585 *)
    t ++ m_ch2 m                                                    (* :748, hs.clientHello is the second hello *)
  else m_ch1 m.                                                     (* :748 *)

Definition server_to_server_finished (s : shape) (m : msgs) : bytes :=
  let t := server_hello_part s m in
  let t := t ++ m_sh m in                                           (* :752 *)
  let t := t ++ m_ee m in                                           (* :812 *)
  let t := if s_psk s then t                                        (* :822 *)
           else
             let t := if s_creq s then t ++ m_creq m else t in      (* :841 *)
             let t := t ++ m_cert m in                              (* :852 *)
             t ++ m_cv m in                                         (* :883 *)
  t ++ m_sfin m.                                                    (* :897 *)

Definition server_to_client_finished (s : shape) (m : msgs) : bytes :=
  let t := server_to_server_finished s m in
  let t := if s_alps s then t ++ m_cee m else t in                  (* verif_server.go ReadClientEE *)
  let t := if s_creq s && negb (s_psk s)
           then let t := t ++ m_ccert m in                          (* :1054 *)
                if s_ccv s then t ++ m_ccv m else t                 (* :1111 *)
           else t in
  t ++ m_cfin m.                                                    (* :968 / after readClientFinished *)

(* exporters: both ends call exportKeyingMaterial(masterSecret, transcript) right after the server Finished *)
Definition client_ekm13 (master : bytes) (s : shape) (m : msgs) (label ctx : bytes) (n : N) : bytes :=
  ekm13 (exporter_secret master (H (client_to_server_finished s m))) label ctx n.
Definition server_ekm13 (master : bytes) (s : shape) (m : msgs) (label ctx : bytes) (n : N) : bytes :=
  ekm13 (exporter_secret master (H (server_to_server_finished s m))) label ctx n.

(* ---- TLS <= 1.2 full handshake: messages hashed up to ClientKeyExchange (the EMS session hash) ---- *)
Record shape12 := mkShape12 { t_status : bool; t_skx : bool; t_creq : bool; t_ems : bool }.
Record msgs12 := mkMsgs12 {
  n_ch : bytes; n_sh : bytes; n_cert : bytes; n_status : bytes; n_skx : bytes; n_creq : bytes; n_shd : bytes;
  n_ccert : bytes; n_cke : bytes; n_crandom : bytes; n_srandom : bytes
}.
(* handshake_client.go: hs.finishedHash.Write in doFullHandshake order *)
Definition client_session12 (s : shape12) (m : msgs12) : bytes :=
  n_ch m ++ n_sh m ++ n_cert m ++ concat (opt (t_status s) (n_status m)) ++ concat (opt (t_skx s) (n_skx m))
  ++ concat (opt (t_creq s) (n_creq m)) ++ n_shd m ++ concat (opt (t_creq s) (n_ccert m)) ++ n_cke m.
(* handshake_server.go doFullHandshake *)
Definition server_session12 (s : shape12) (m : msgs12) : bytes :=
  n_ch m ++ n_sh m ++ n_cert m ++ concat (opt (t_status s) (n_status m)) ++ concat (opt (t_skx s) (n_skx m))
  ++ concat (opt (t_creq s) (n_creq m)) ++ n_shd m ++ concat (opt (t_creq s) (n_ccert m)) ++ n_cke m.
Definition client_ekm12 (pre : bytes) (s : shape12) (m : msgs12) (label ctx : bytes) (n : N) : bytes :=
  ekm12 (master12 (t_ems s) pre (H (client_session12 s m)) (n_crandom m) (n_srandom m)) (n_crandom m) (n_srandom m) label ctx n.
Definition server_ekm12 (pre : bytes) (s : shape12) (m : msgs12) (label ctx : bytes) (n : N) : bytes :=
  ekm12 (master12 (t_ems s) pre (H (server_session12 s m)) (n_crandom m) (n_srandom m)) (n_crandom m) (n_srandom m) label ctx n.

End Crypto.

(* ---- what the server reports: the values it put into its own messages (RFC 8446 4.1.3 / 4.2.8 / 4.2.11 / 4.3.1,
        RFC 5246 7.4.1.3 / 7.4.3); handshake_server(_tls13).go set c.vers, c.cipherSuite, c.curveID, c.clientProtocol,
        c.didResume from exactly these ---- *)
Record srv_state := mkSrv { ss_vers : N; ss_suite : N; ss_group : N; ss_alpn : bytes; ss_resumed : bool }.

Definition server_state (fl : Negotiate.flight) : srv_state :=
  (* the version is announced by the first hello the server sends (a HelloRetryRequest is a TLS 1.3 message) *)
  let first := match Negotiate.f_hrr fl with Some h => h | None => Negotiate.f_sh fl end in
  let sh := Negotiate.f_sh fl in
  let vers := if Negotiate.h_sv first =? 0 then Negotiate.h_vers first else Negotiate.h_sv first in
  if vers =? Negotiate.V13 then
    mkSrv vers (Negotiate.h_suite sh) (Negotiate.h_share sh) (Negotiate.f_ee_alpn fl)
          (match Negotiate.h_psk sh with Some _ => true | None => false end)
  else
    mkSrv vers (Negotiate.h_suite first) (match Negotiate.f_skx fl with Some c => c | None => 0 end) (Negotiate.h_alpn first) false.

(* ---- TLS <= 1.2 session resumption (ticket or session id), handshake_client.go:914-986 processServerHello with
        serverResumedSession() true: pickCipherSuite, compression, checkALPN and c.clientProtocol = serverHello.alpnProtocol
        exactly as in a full handshake (the protocol is negotiated afresh, never taken from the session), then the three
        session checks. The client reports no curve (no key exchange took place). ---- *)
Record session12 := mkSess12 { se_vers : N; se_suite : N; se_ems : bool }.

Definition client_resume12 (e : Negotiate.env) (v : Negotiate.client_view) (se : session12) (vers : N)
           (h : Negotiate.hello_msg) (h_ems crypto_ok : bool) : Negotiate.outcome :=
  if negb (Negotiate.memN (Negotiate.h_suite h) (Negotiate.cv_suites v)
           && Negotiate.memN (Negotiate.h_suite h) (Negotiate.e_impl12 e)) then Negotiate.Abort Negotiate.a_handshake_failure (* :917 *)
  else if negb (Negotiate.h_comp h =? 0) then Negotiate.Abort Negotiate.a_unexpected_message                                (* :921 *)
  else if negb (Negotiate.check_alpn (Negotiate.cv_alpn v) (Negotiate.h_alpn h)) then Negotiate.Abort Negotiate.a_unsupported_extension (* :944 *)
  else if negb (se_vers se =? vers) then Negotiate.Abort Negotiate.a_handshake_failure                                      (* :956 *)
  else if negb (se_suite se =? Negotiate.h_suite h) then Negotiate.Abort Negotiate.a_handshake_failure                      (* :961 *)
  else if negb (Bool.eqb (se_ems se) h_ems) then Negotiate.Abort Negotiate.a_handshake_failure                              (* :967 *)
  else if negb crypto_ok then Negotiate.Abort Negotiate.a_bad_record_mac                                                    (* Finished *)
  else Negotiate.Complete (Negotiate.mkState vers (Negotiate.h_suite h) 0 (Negotiate.h_alpn h) false true).

(* the server's view of an abbreviated handshake (handshake_server.go doResumeHandshake): the values of its ServerHello *)
Definition server_state_resumed12 (vers : N) (h : Negotiate.hello_msg) : srv_state :=
  mkSrv vers (Negotiate.h_suite h) 0 (Negotiate.h_alpn h) true.

(* ---- server name ---- *)
(* one element of uconn.Extensions as far as the server name is concerned *)
Inductive sni_item := SniExt (name : bytes)   (* an SNIExtension with this ServerName (after ApplyPreset's fill-in) *)
                    | NoSni.                  (* any other extension *)

Section Sni.
Variable host : bytes -> bytes.   (* hostnameInSNI: "" for IP literals, trailing dots dropped *)

(* ApplyConfig: every SNIExtension.writeToUConn sets Hello.ServerName = hostnameInSNI(e.ServerName) *)
Definition apply_config (start : bytes) (exts : list sni_item) : bytes :=
  fold_left (fun cur e => match e with SniExt n => host n | NoSni => cur end) exts start.

(* ConnectionState().ServerName on the client (no ECH): c.serverName = hello.serverName.
   fixed = fixes/C11-...: ApplyConfig clears Hello.ServerName before the loop;
   before the fix the value left by makeClientHelloForApplyPreset, hostnameInSNI(Config.ServerName), survived *)
Definition client_server_name (fixed : bool) (config_name : bytes) (exts : list sni_item) : bytes :=
  apply_config (if fixed then [] else host config_name) exts.

(* the server_name extensions actually emitted: SNIExtension.Len() = 0 / Read = (0, EOF) when hostnameInSNI is empty *)
Definition wire_snis (exts : list sni_item) : list bytes :=
  flat_map (fun e => match e with SniExt n => match host n with [] => [] | h => [h] end | NoSni => [] end) exts.

(* what a server reports: clientHello.serverName; two server_name extensions make any server refuse the hello
   (duplicate extension), so such a handshake never succeeds *)
Definition server_server_name (exts : list sni_item) : option bytes :=
  match wire_snis exts with [] => Some [] | [h] => Some h | _ => None end.
End Sni.

(* Shared codec core, part 1: big-endian byte-list encoders as the Go code
   writes them (byte(x>>8), byte(x): every narrowing is an explicit mod 256),
   length-prefixed vectors, and readers mirroring
   golang.org/x/crypto/cryptobyte.String (string.go): a reader takes the
   remaining bytes and returns None where the Go method returns false, else
   the value and the rest. Executable definitions only; lemmas in
   Proofs/WireP.v. *)
From UV Require Import Base.Common.

Definition blen (b : bytes) : N := N.of_nat (length b).

(* ---- encoders: byte(x >> 8k) ... byte(x) for any non-negative int x ---- *)
Definition enc_u8 (x : N) : bytes := [x mod 256].
Definition enc_u16 (x : N) : bytes := [(x / 256) mod 256; x mod 256].
Definition enc_u24 (x : N) : bytes := [(x / 65536) mod 256; (x / 256) mod 256; x mod 256].
Definition enc_u32 (x : N) : bytes :=
  [(x / 16777216) mod 256; (x / 65536) mod 256; (x / 256) mod 256; x mod 256].

(* length-prefixed vectors; the prefix is the (narrowed) content length *)
Definition enc_u8lp (b : bytes) : bytes := enc_u8 (blen b) ++ b.
Definition enc_u16lp (b : bytes) : bytes := enc_u16 (blen b) ++ b.
Definition enc_u24lp (b : bytes) : bytes := enc_u24 (blen b) ++ b.

Fixpoint zbytes (n : nat) : bytes := match n with O => [] | S k => 0 :: zbytes k end.

(* ---- cryptobyte.String readers ---- *)
Definition empty (s : bytes) : bool := match s with [] => true | _ => false end.

(* String.ReadUint8 *)
Definition read_u8 (s : bytes) : option (N * bytes) :=
  match s with x :: r => Some (x, r) | _ => None end.
(* String.ReadUint16 *)
Definition read_u16 (s : bytes) : option (N * bytes) :=
  match s with a :: b :: r => Some (a * 256 + b, r) | _ => None end.
(* String.ReadUint24 *)
Definition read_u24 (s : bytes) : option (N * bytes) :=
  match s with a :: b :: c :: r => Some (a * 65536 + b * 256 + c, r) | _ => None end.
(* String.ReadUint32 *)
Definition read_u32 (s : bytes) : option (N * bytes) :=
  match s with a :: b :: c :: d :: r => Some (a * 16777216 + b * 65536 + c * 256 + d, r) | _ => None end.

(* String.ReadBytes(&out, n) / String.read(n): fails when fewer than n bytes remain *)
Definition read_bytes (n : N) (s : bytes) : option (bytes * bytes) :=
  if n <=? blen s then Some (firstn (N.to_nat n) s, skipn (N.to_nat n) s) else None.
(* String.Skip(n) *)
Definition skip (n : N) (s : bytes) : option bytes :=
  match read_bytes n s with Some (_, r) => Some r | None => None end.

(* String.ReadUint8LengthPrefixed / 16 / 24 (readLengthPrefixed) *)
Definition read_u8lp (s : bytes) : option (bytes * bytes) :=
  match read_u8 s with Some (n, r) => read_bytes n r | None => None end.
Definition read_u16lp (s : bytes) : option (bytes * bytes) :=
  match read_u16 s with Some (n, r) => read_bytes n r | None => None end.
Definition read_u24lp (s : bytes) : option (bytes * bytes) :=
  match read_u24 s with Some (n, r) => read_bytes n r | None => None end.

(* ---- the loops `for !s.Empty() { s.ReadUintN(&v); append }` ---- *)
Fixpoint read_u16s (s : bytes) : option (list N) :=
  match s with
  | [] => Some []
  | a :: b :: r => match read_u16s r with Some l => Some ((a * 256 + b) :: l) | None => None end
  | _ => None
  end.

(* `for !s.Empty() { s.ReadUint8LengthPrefixed(&v); if v.Empty() fail; append }`
   (nonempty = true) or without the emptiness test. fuel >= length s suffices. *)
Fixpoint read_u8lps (nonempty : bool) (fuel : nat) (s : bytes) : option (list bytes) :=
  match s with
  | [] => Some []
  | _ =>
    match fuel with
    | O => None
    | S k =>
      match read_u8lp s with
      | None => None
      | Some (v, r) =>
        if nonempty && empty v then None else
        match read_u8lps nonempty k r with Some l => Some (v :: l) | None => None end
      end
    end
  end.

(* option plumbing used by the Write models *)
Definition obind {A B} (o : option A) (f : A -> option B) : option B :=
  match o with Some a => f a | None => None end.
Definition of_opt {A} (code : N) (o : option A) : res A :=
  match o with Some a => Ok a | None => Err code end.

(* sum of a per-element size, the shape of every `for ... { n += f(x) }` loop *)
Fixpoint sum_map {A} (f : A -> N) (l : list A) : N :=
  match l with [] => 0 | x :: r => f x + sum_map f r end.

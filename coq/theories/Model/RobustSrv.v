(* C34 — the uTLS-specific message handling a SERVER can be driven into by client bytes, as total functions with an
   explicit Panic outcome for every Go index / slice expression:
     conn.go:1089-1194      readHandshake + unmarshalHandshakeMessage (header indexing, the message-type switch)
     u_conn.go:826-839      utlsHandshakeMessageType (types 8 and 25, by role)
     u_handshake_messages.go:43-54, 108-138   utlsCompressedCertificateMsg.unmarshal, utlsClientEncryptedExtensionsMsg.unmarshal
     x/crypto/cryptobyte/string.go            String.read / readUnsigned / readLengthPrefixed (where the slicing happens)
     handshake_server.go:139-828, handshake_server_tls13.go:594-1137, conn.go:1263-1336   the server's read points,
                                              each a type assertion on the value readHandshake returns.
   NOT modelled (partial): the upstream unmarshalers of the standard message types (a Section variable) and the
   server state machine between the read points.  Executable definitions only. *)
From UV Require Export Base.Common.
Open Scope N_scope.

Definition P_INDEX : N := 1.    (* runtime error: index out of range *)
Definition P_SLICE : N := 2.    (* runtime error: slice bounds out of range *)
Definition E_FUEL : N := 99.    (* loop fuel exhausted (shown unreachable) *)

(* s[i], s[:n], s[n:] with Go's bounds rules; n is an int and may be negative *)
Definition idx (s : bytes) (i : nat) : res N := match nth_error s i with Some x => Ok x | None => Panic P_INDEX end.
Definition slice_to (s : bytes) (n : Z) : res bytes :=
  if ((n <? 0) || (Z.of_nat (length s) <? n))%Z then Panic P_SLICE else Ok (firstn (Z.to_nat n) s).
Definition slice_from (s : bytes) (n : Z) : res bytes :=
  if ((n <? 0) || (Z.of_nat (length s) <? n))%Z then Panic P_SLICE else Ok (skipn (Z.to_nat n) s).

(* cryptobyte String.read (s is a pointer to the slice; written here without the dereference):
     if len(s) < n || n < 0 { return nil }; v := s[:n]; s = s[n:]; return v *)
Definition cb_read (s : bytes) (n : Z) : res (option (bytes * bytes)) :=
  if ((Z.of_nat (length s) <? n) || (n <? 0))%Z then Ok None
  else do v <- slice_to s n; do r <- slice_from s n; Ok (Some (v, r)).
(* readUnsigned: v := s.read(k); for i := 0; i < k; i++ { result <<= 8; result |= uint32(v[i]) } *)
Fixpoint be_acc (v : bytes) (i n : nat) (acc : N) : res N :=
  match n with O => Ok acc | S n' => do x <- idx v i; be_acc v (S i) n' (u32 (acc * 256) + x) end.
Definition cb_uint (k : nat) (s : bytes) : res (option (N * bytes)) :=
  do r <- cb_read s (Z.of_nat k);
  match r with None => Ok None | Some (v, rest) => do x <- be_acc v 0 k 0; Ok (Some (x, rest)) end.
(* readLengthPrefixed(lenLen): lenBytes := s.read(lenLen); length := big-endian(lenBytes); v := s.read(int(length)) *)
Definition cb_lp (lenLen : nat) (s : bytes) : res (option (bytes * bytes)) :=
  do r <- cb_uint lenLen s;
  match r with None => Ok None | Some (n, rest) => cb_read rest (Z.of_N n) end.
Definition cb_skip (n : Z) (s : bytes) : res (option bytes) :=
  do r <- cb_read s n; Ok (match r with Some (_, rest) => Some rest | None => None end).
Definition is_empty (s : bytes) : bool := match s with [] => true | _ => false end.

(* utlsCompressedCertificateMsg.unmarshal (u_handshake_messages.go:43-54): Ok true / Ok false *)
Record ccert := { cc_algorithm : N; cc_uncompressedLength : N; cc_data : bytes }.
Definition cc_unmarshal (data : bytes) : res (option ccert) :=
  do s <- cb_skip 4 data; match s with None => Ok None | Some s =>
  do a <- cb_uint 2 s; match a with None => Ok None | Some (alg, s) =>
  do l <- cb_uint 3 s; match l with None => Ok None | Some (ulen, s) =>
  do c <- cb_lp 3 s; match c with None => Ok None | Some (body, _) =>
  Ok (Some {| cc_algorithm := alg; cc_uncompressedLength := ulen; cc_data := body |}) end end end end.

(* utlsClientEncryptedExtensionsMsg.unmarshal (u_handshake_messages.go:108-138) *)
Record cee := { ee_codepoint : N; ee_settings : bytes }.
Definition ext_alps_old : N := 17513.
Definition ext_alps_new : N := 17613.
Fixpoint cee_loop (fuel : nat) (exts : bytes) (st : cee) : res (option cee) :=
  if is_empty exts then Ok (Some st) else
  match fuel with O => Err E_FUEL | S fuel =>
    do e <- cb_uint 2 exts; match e with None => Ok None | Some (id, exts) =>
    do d <- cb_lp 2 exts; match d with None => Ok None | Some (body, exts) =>
    if (id =? ext_alps_old) || (id =? ext_alps_new)
    then cee_loop fuel exts {| ee_codepoint := id; ee_settings := body |}
    else Ok None                                   (* unknown extensions are illegal *)
    end end
  end.
Definition cee_unmarshal (data : bytes) : res (option cee) :=
  do s <- cb_skip 4 data; match s with None => Ok None | Some s =>
  do e <- cb_lp 2 s; match e with None => Ok None | Some (exts, rest) =>
  if negb (is_empty rest) then Ok None else
  cee_loop (length exts) exts {| ee_codepoint := 0; ee_settings := [] |} end end.

(* ---- readHandshake on a server connection ---- *)
Definition maxHandshake : N := 65536.
Definition maxHandshakeCertificateMsg : N := 262144.
Definition alert_unexpected_message : N := 10.
Definition alert_internal_error : N := 80.
Definition alert_no_renegotiation : N := 100.

(* the Go type of the value unmarshalHandshakeMessage allocates for a type byte (conn.go:1120-1178, u_conn.go:826) *)
Inductive gotype :=
| T_helloRequest | T_clientHello | T_serverHello | T_newSessionTicket | T_newSessionTicket13 | T_certificate | T_certificate13
| T_certificateRequest | T_certificateRequest13 | T_certificateStatus | T_serverKeyExchange | T_serverHelloDone
| T_clientKeyExchange | T_certificateVerify | T_finished | T_endOfEarlyData | T_keyUpdate
| T_encryptedExtensions           (* client side only *)
| T_utlsClientEncryptedExtensions (* server side: type 8 *)
| T_utlsCompressedCertificate.    (* either side: type 25 *)
Definition tls13 : N := 772.
Definition type_of_byte (is_client : bool) (vers : N) (ty : N) : option gotype :=
  match ty with
  | 0 => Some T_helloRequest | 1 => Some T_clientHello | 2 => Some T_serverHello
  | 4 => Some (if vers =? tls13 then T_newSessionTicket13 else T_newSessionTicket)
  | 11 => Some (if vers =? tls13 then T_certificate13 else T_certificate)
  | 13 => Some (if vers =? tls13 then T_certificateRequest13 else T_certificateRequest)
  | 22 => Some T_certificateStatus | 12 => Some T_serverKeyExchange | 14 => Some T_serverHelloDone
  | 16 => Some T_clientKeyExchange | 15 => Some T_certificateVerify | 20 => Some T_finished
  | 5 => Some T_endOfEarlyData | 24 => Some T_keyUpdate
  (* default: utlsHandshakeMessageType *)
  | 25 => Some T_utlsCompressedCertificate
  | 8 => Some (if is_client then T_encryptedExtensions else T_utlsClientEncryptedExtensions)
  | _ => None
  end.

Inductive rh_outcome :=
| NeedMore                       (* readHandshakeBytes has to read another record (blocks, or returns the record layer's error) *)
| RAlert (a : N)                 (* an alert is sent and the error is latched *)
| RMsg (t : gotype) (data : bytes).

Section ReadHandshake.
  (* the upstream unmarshalers of the standard message types: total boolean functions (NOT modelled) *)
  Variable std_unmarshal : gotype -> bytes -> bool.

  Definition unmarshal_of (t : gotype) (data : bytes) : res bool :=
    match t with
    | T_utlsCompressedCertificate => do r <- cc_unmarshal data; Ok (match r with Some _ => true | None => false end)
    | T_utlsClientEncryptedExtensions => do r <- cee_unmarshal data; Ok (match r with Some _ => true | None => false end)
    | _ => Ok (std_unmarshal t data)
    end.

  (* conn.go:1118-1194 *)
  Definition unmarshal_handshake_message (is_client : bool) (vers : N) (data : bytes) : res rh_outcome :=
    do t0 <- idx data 0;                                                   (* :1120 switch data[0] *)
    match type_of_byte is_client vers t0 with
    | None => Ok (RAlert alert_unexpected_message)                         (* :1177 *)
    | Some t =>
        do ok <- unmarshal_of t data;                                      (* :1185 on a copy of data *)
        if ok then Ok (RMsg t data) else Ok (RAlert alert_unexpected_message)   (* :1186 *)
    end.

  (* conn.go:1089-1116; [hand] is what c.hand holds *)
  Definition read_handshake (is_client haveVers : bool) (vers : N) (hand : bytes) : res rh_outcome :=
    if (length hand <? 4)%nat then Ok NeedMore else                        (* :1090 readHandshakeBytes(4) *)
    do is_cert <- (if haveVers then do d0 <- idx hand 0; Ok (d0 =? 11) else Ok false);   (* :1099 short-circuit && *)
    let maxsz := if is_cert then maxHandshakeCertificateMsg else maxHandshake in
    do d1 <- idx hand 1; do d2 <- idx hand 2; do d3 <- idx hand 3;         (* :1106 *)
    let n := d1 * 65536 + d2 * 256 + d3 in
    if maxsz <? n then Ok (RAlert alert_internal_error) else               (* :1107-1110 *)
    if (length hand <? 4 + N.to_nat n)%nat then Ok NeedMore else           (* :1111 *)
    let data := firstn (4 + N.to_nat n) hand in                            (* :1114 c.hand.Next(4+n) (bytes.Buffer: no panic) *)
    unmarshal_handshake_message is_client vers data.
End ReadHandshake.

(* ---- the server's read points: what each accepts, as the Go type assertion it performs ---- *)
Inductive read_point :=
| RP_ClientHello            (* handshake_server.go:139-146 *)
| RP_SecondClientHello      (* handshake_server_tls13.go:594-602 (after HelloRetryRequest) *)
| RP_Certificate12          (* handshake_server.go:671-682 *)
| RP_ClientKeyExchange      (* :694-710 *)
| RP_CertificateVerify12    (* :741-748 *)
| RP_Finished12             (* :821-828 *)
| RP_Certificate13          (* handshake_server_tls13.go:1054-1062 *)
| RP_CertificateVerify13    (* :1080-1088 *)
| RP_Finished13             (* :1129-1137 *)
| RP_PostHandshake13        (* conn.go:1314-1335 *)
| RP_PostHandshake12.       (* conn.go:1263-1281 *)
Definition all_read_points : list read_point :=
  [RP_ClientHello; RP_SecondClientHello; RP_Certificate12; RP_ClientKeyExchange; RP_CertificateVerify12; RP_Finished12;
   RP_Certificate13; RP_CertificateVerify13; RP_Finished13; RP_PostHandshake13; RP_PostHandshake12].

Inductive step_outcome :=
| SNeedMore | SAlert (a : N) | SAccept (t : gotype).   (* SAccept: the message goes on to the (unmodelled) handler *)

Definition gotype_eqb (a b : gotype) : bool :=
  match a, b with
  | T_helloRequest, T_helloRequest | T_clientHello, T_clientHello | T_serverHello, T_serverHello
  | T_newSessionTicket, T_newSessionTicket | T_newSessionTicket13, T_newSessionTicket13 | T_certificate, T_certificate
  | T_certificate13, T_certificate13 | T_certificateRequest, T_certificateRequest | T_certificateRequest13, T_certificateRequest13
  | T_certificateStatus, T_certificateStatus | T_serverKeyExchange, T_serverKeyExchange | T_serverHelloDone, T_serverHelloDone
  | T_clientKeyExchange, T_clientKeyExchange | T_certificateVerify, T_certificateVerify | T_finished, T_finished
  | T_endOfEarlyData, T_endOfEarlyData | T_keyUpdate, T_keyUpdate | T_encryptedExtensions, T_encryptedExtensions
  | T_utlsClientEncryptedExtensions, T_utlsClientEncryptedExtensions | T_utlsCompressedCertificate, T_utlsCompressedCertificate => true
  | _, _ => false
  end.

(* what the code after readHandshake does with a successfully unmarshalled message of Go type t *)
Definition dispatch (rp : read_point) (t : gotype) : step_outcome :=
  let expect want := if gotype_eqb t want then SAccept t else SAlert alert_unexpected_message in
  match rp with
  | RP_ClientHello | RP_SecondClientHello => expect T_clientHello
  | RP_Certificate12 => expect T_certificate
  | RP_ClientKeyExchange => expect T_clientKeyExchange
  | RP_CertificateVerify12 | RP_CertificateVerify13 => expect T_certificateVerify
  | RP_Finished12 | RP_Finished13 => expect T_finished
  | RP_Certificate13 => expect T_certificate13
  | RP_PostHandshake13 =>                                  (* conn.go:1324-1335; handleNewSessionTicket refuses on a server *)
      if gotype_eqb t T_keyUpdate then SAccept t else SAlert alert_unexpected_message
  | RP_PostHandshake12 =>                                  (* conn.go:1273-1281 *)
      if gotype_eqb t T_helloRequest then SAlert alert_no_renegotiation else SAlert alert_unexpected_message
  end.

Definition server_step (std : gotype -> bytes -> bool) (rp : read_point) (haveVers : bool) (vers : N) (hand : bytes) : res step_outcome :=
  do o <- read_handshake std false haveVers vers hand;
  Ok (match o with NeedMore => SNeedMore | RAlert a => SAlert a | RMsg t _ => dispatch rp t end).

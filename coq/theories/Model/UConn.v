(* C01: the life of HandshakeState.Hello.Raw on a UConn, as far as the ClientHello is
   concerned.  Executable definitions only; proofs in Proofs/UConnP.v.

   Go sources mirrored (/repo):
     u_conn.go:96-163     BuildHandshakeState / BuildHandshakeStateWithoutSession / buildHandshakeState
                          (status gate, preset applied once [with fixes/C20-apply-preset-once; on the tree
                          without it the difference shows only when BuildHandshakeStateWithoutSession
                          precedes the first BuildHandshakeState], ApplyConfig on every call, uLoadSession,
                          MarshalClientHello, uApplyPatch, session lock, status)
     u_conn.go:278-297    SetClientRandom, SetSNI
     u_conn.go:394-410    handshakeContext re-runs BuildHandshakeState before clientHandshake
     u_handshake_client.go:383-387, 509  the private copy of the hello (original := Raw), the write of the
                          first ClientHello (marshal() returns original), the deferred copy back
     handshake_messages.go:400            clientHelloMsg.marshal returns original when set
     handshake_client_tls13.go:395-438    HelloRetryRequest: key share replaced, cookie set or inserted at a
                          random index, MarshalClientHelloNoECH, hs.hello.original := Raw, second ClientHello
   "Documented edits" are modelled on what the marshaller reads: the five header fields of
   HandshakeState.Hello and the extension objects in uconn.Extensions.

   Not modelled: the session controller beyond its lock flag (no session cache, no PSK: the HRR path
   refuses PSK identities), ApplyConfig (it copies extension values into Config / the private hello and
   touches none of the marshalled fields), HelloGolang (status BuildByGoTLS: excluded by the property),
   real ECH, the legality checks crypto/tls performs on a HelloRetryRequest (the server is assumed to
   send a legal one: selected group offered without a share). *)
From UV Require Import Base.Common Model.Wire Model.Ext Model.ExtSpec Model.Strict.
From UV Require Import Model.Padding Model.Marshal Model.ChMarshal.

Inductive build_status := NotBuilt | BuildByUtls | BuildByGoTLS.

(* what the server does after the first ClientHello *)
Inductive server :=
| SrvPlain                                          (* ServerHello *)
| SrvHRR (group : N) (key : bytes)                  (* HelloRetryRequest selecting [group]; [key]: the fresh public key *)
         (cookie : bytes) (cookie_idx : nat).       (* its cookie ([] = none); the index p.Intn(len-2) drew *)

Inductive op :=
| OBuild                                  (* BuildHandshakeState *)
| OBuildNoSession                         (* BuildHandshakeStateWithoutSession *)
| OSetClientRandom (r : bytes)
| OSetSNI (host : bytes)                  (* SetSNI(s), host = hostnameInSNI(s) *)
| OEditExt (i : nat) (e : ext)            (* uconn.Extensions[i] = e / a field edit of that object *)
| OInsertExt (i : nat) (e : ext)
| ORemoveExt (i : nat)
| OSetCipherSuites (l : list N)           (* HandshakeState.Hello.CipherSuites = l *)
| OSetSessionId (b : bytes)               (* HandshakeState.Hello.SessionId = b *)
| OHandshake (srv : server).

Record ustate := {
  u_status : build_status;                (* clientHelloBuildStatus *)
  u_applied : bool;                       (* the preset of the ClientHelloID has been applied *)
  u_spec : res (hello_hdr * list ext);    (* what applyPresetByID yields on this connection (id, Config, randomness) *)
  u_hdr : hello_hdr;                      (* HandshakeState.Hello: Vers, Random, SessionId, CipherSuites, CompressionMethods *)
  u_exts : list ext;                      (* uconn.Extensions *)
  u_raw : bytes;                          (* HandshakeState.Hello.Raw *)
  u_locked : bool;                        (* session controller locked *)
  u_sent : list bytes;                    (* ClientHello handshake messages written to the connection, in order *)
  u_done : bool                           (* a handshake ran *)
}.

Definition P_ASSERT : N := 7.             (* uAssert *)
Definition P_INTN : N := 8.               (* prng.Intn(n) with n <= 0 *)
Definition E_RANDOM_LEN : N := 40.        (* "Incorrect client random length!" *)
Definition E_NO_KEYSHARE : N := 41.       (* "received HelloRetryRequest, but keyshare not found" *)
Definition E_PSK_HRR : N := 42.           (* "uTLS does not support reprocessing of PSK key triggered by HelloRetryRequest" *)
Definition E_COOKIE_IDX : N := 43.        (* "cookieIndex >= len(hs.uconn.Extensions)" *)

Definition set_fields (s : ustate) (h : hello_hdr) (es : list ext) : ustate :=
  {| u_status := u_status s; u_applied := u_applied s; u_spec := u_spec s; u_hdr := h; u_exts := es;
     u_raw := u_raw s; u_locked := u_locked s; u_sent := u_sent s; u_done := u_done s |}.

Definition empty_hdr : hello_hdr := {| h_vers := 0; h_random := []; h_sid := []; h_suites := []; h_comp := [] |}.

Definition init (spec : res (hello_hdr * list ext)) : ustate :=
  {| u_status := NotBuilt; u_applied := false; u_spec := spec; u_hdr := empty_hdr; u_exts := [];
     u_raw := []; u_locked := false; u_sent := []; u_done := false |}.

Section Run.
Variable bbs : N -> N.      (* spare capacity offered by bytes.Buffer *)
Variable padto : Z.         (* AlwaysPadToLen argument of a PadOther padding extension *)

(* u_conn.go:108-163 *)
Definition build (load : bool) (s : ustate) : ustate * res unit :=
  match u_status s with
  | BuildByGoTLS => (s, Panic P_ASSERT)                               (* :127 uAssert *)
  | st =>
    let applied :=                                                     (* :128-134 status == NotBuilt: applyPresetByID, once *)
      match st, u_applied s with
      | NotBuilt, false =>
          match u_spec s with
          | Ok (h, es) => Ok {| u_status := u_status s; u_applied := true; u_spec := u_spec s; u_hdr := h; u_exts := es;
                                u_raw := u_raw s; u_locked := u_locked s; u_sent := u_sent s; u_done := u_done s |}
          | Err c => Err c
          | Panic c => Panic c
          end
      | _, _ => Ok s
      end in
    match applied with
    | Err c => (s, Err c)
    | Panic c => (s, Panic c)
    | Ok s1 =>
      (* :136 ApplyConfig, :141 uLoadSession (no cache): no effect on the marshalled fields *)
      match marshal_hello bbs padto (u_hdr s1) (u_exts s1) with          (* :148 MarshalClientHello *)
      | Err c => (s1, Err c)
      | Panic c => (s1, Panic c)
      | Ok raw =>
        let st' := if load then BuildByUtls else u_status s1 in          (* :153-157 *)
        ({| u_status := st'; u_applied := u_applied s1; u_spec := u_spec s1; u_hdr := u_hdr s1; u_exts := u_exts s1;
            u_raw := raw; u_locked := u_locked s1 || load; u_sent := u_sent s1; u_done := u_done s1 |}, Ok tt)
      end
    end
  end.

Definition is_key_share (e : ext) : bool := match e with EKeyShare _ => true | _ => false end.
Definition is_cookie (e : ext) : bool := match e with ECookie _ => true | _ => false end.
(* len(hs.hello.pskIdentities) > 0: identities in the PRIVATE hello. They get there from a loaded session
   (UtlsPreSharedKeyExtension with Session != nil); the identities of a FakePreSharedKeyExtension are copied
   only when a session cache holds a session (u_pre_shared_key.go:346), which these connections never have. *)
Definition has_psk_ids (e : ext) : bool :=
  match e with
  | EUtlsPreSharedKey true _ _ (_ :: _) _ => true
  | _ => false
  end.

(* handshake_client_tls13.go:395-436: what the HelloRetryRequest does to uconn.Extensions *)
Definition hrr_exts (group : N) (key cookie : bytes) (idx : nat) (es : list ext) : res (list ext) :=
  if existsb has_psk_ids es then Err E_PSK_HRR else                                  (* :397 *)
  if negb (existsb is_key_share es) then Err E_NO_KEYSHARE else                        (* :412 *)
  (* :402-409 ks.KeyShares = hello.keyShares: the one fresh share when a group was selected (:350),
     else the shares of the first flight *)
  let es1 := if group =? 0 then es
             else map (fun e => if is_key_share e then EKeyShare [(group, key)] else e) es in
  match cookie with
  | [] => Ok es1                                                                       (* :417 *)
  | _ =>
    if existsb is_cookie es1 then
      Ok (map (fun e => if is_cookie e then ECookie cookie else e) es1)                (* :420-424 *)
    else if Nat.leb (length es1) 2 then Panic P_INTN                                   (* :433 p.Intn(len-2) *)
    else if Nat.leb (length es1) idx then Err E_COOKIE_IDX                             (* :434 *)
    else Ok (firstn idx es1 ++ [ECookie cookie] ++ skipn idx es1)                      (* :439-441 *)
  end.

(* u_conn.go:394 + u_handshake_client.go:383-575 + handshake_client_tls13.go:395-438 *)
Definition handshake (srv : server) (s : ustate) : ustate * res unit :=
  if u_done s then (s, Ok tt) else
  match build true s with                                              (* handshakeContext: BuildHandshakeState *)
  | (s1, Ok _) =>
    (* hello := Hello.getPrivatePtr(): original = Raw; writeHandshakeRecord(hello): marshal() = original *)
    let first := u_raw s1 in
    let sent1 := u_sent s1 ++ [first] in
    let mk es raw sent := {| u_status := u_status s1; u_applied := u_applied s1; u_spec := u_spec s1; u_hdr := u_hdr s1;
                             u_exts := es; u_raw := raw; u_locked := u_locked s1; u_sent := sent; u_done := true |} in
    match srv with
    | SrvPlain => (mk (u_exts s1) first sent1, Ok tt)                  (* deferred copy back: Raw = original *)
    | SrvHRR g key cookie idx =>
      match hrr_exts g key cookie idx (u_exts s1) with
      | Err c => (mk (u_exts s1) first sent1, Err c)
      | Panic c => (mk (u_exts s1) first sent1, Panic c)
      | Ok es' =>
        match marshal_hello bbs padto (u_hdr s1) es' with              (* :443 MarshalClientHelloNoECH *)
        | Err c => (mk es' first sent1, Err c)
        | Panic c => (mk es' first sent1, Panic c)
        | Ok raw2 => (mk es' raw2 (sent1 ++ [raw2]), Ok tt)            (* :446 original = Raw; second ClientHello; copy back *)
        end
      end
    end
  | (s1, Err c) => (s1, Err c)
  | (s1, Panic c) => (s1, Panic c)
  end.

Definition set_nth {A} (i : nat) (x : A) (l : list A) : list A :=
  if Nat.ltb i (length l) then firstn i l ++ [x] ++ skipn (S i) l else l.
Definition insert_nth {A} (i : nat) (x : A) (l : list A) : list A := firstn i l ++ [x] ++ skipn i l.
Definition remove_nth {A} (i : nat) (l : list A) : list A := firstn i l ++ skipn (S i) l.

Definition with_random (h : hello_hdr) (r : bytes) : hello_hdr :=
  {| h_vers := h_vers h; h_random := r; h_sid := h_sid h; h_suites := h_suites h; h_comp := h_comp h |}.
Definition with_sid (h : hello_hdr) (b : bytes) : hello_hdr :=
  {| h_vers := h_vers h; h_random := h_random h; h_sid := b; h_suites := h_suites h; h_comp := h_comp h |}.
Definition with_suites (h : hello_hdr) (l : list N) : hello_hdr :=
  {| h_vers := h_vers h; h_random := h_random h; h_sid := h_sid h; h_suites := l; h_comp := h_comp h |}.

(* the documented mutators, as functions on what the marshaller reads *)
Definition edit (o : op) (hf : hello_hdr * list ext) : hello_hdr * list ext :=
  let (h, es) := hf in
  match o with
  | OSetClientRandom r => if blen r =? 32 then (with_random h r, es) else (h, es)       (* u_conn.go:278 *)
  | OSetSNI host => (h, map (fun e => match e with ESNI _ => ESNI host | _ => e end) es)  (* u_conn.go:288 *)
  | OEditExt i e => (h, set_nth i e es)
  | OInsertExt i e => (h, insert_nth i e es)
  | ORemoveExt i => (h, remove_nth i es)
  | OSetCipherSuites l => (with_suites h l, es)
  | OSetSessionId b => (with_sid h b, es)
  | _ => (h, es)
  end.

Definition is_edit (o : op) : bool :=
  match o with OBuild | OBuildNoSession | OHandshake _ => false | _ => true end.

Definition step (s : ustate) (o : op) : ustate * res unit :=
  match o with
  | OBuild => build true s
  | OBuildNoSession => build false s
  | OHandshake srv => handshake srv s
  | OSetClientRandom r =>
      let (h, es) := edit o (u_hdr s, u_exts s) in
      (set_fields s h es, if blen r =? 32 then Ok tt else Err E_RANDOM_LEN)
  | _ => let (h, es) := edit o (u_hdr s, u_exts s) in (set_fields s h es, Ok tt)
  end.

(* the caller goes on after an error: results are collected, the state carries on *)
Fixpoint run (s : ustate) (ops : list op) : ustate :=
  match ops with
  | [] => s
  | o :: r => run (fst (step s o)) r
  end.

End Run.

(* Model of the path from a ClientHelloSpec to the bytes of the ClientHello:
     UConn.ApplyPreset                       u_parrots.go:2766-2943
     UConn.SetTLSVers                        u_conn.go:696-755
     makeClientHelloForApplyPreset (vers)    u_handshake_client.go:170-215
     GREASEEncryptedClientHelloExtension.init  u_ech.go:65-148
     sessionController.syncSessionExts       u_session_controller.go:265-316 (no user session)
   followed by MarshalClientHelloNoECH (Model/Marshal.v) over the per-extension
   codecs of Model/Ext.v. Executable definitions only; proofs in Proofs/PresetP.v.

   Randomness is an input ([fresh]): the 32 bytes of hello.Random, the 10
   GREASE seed bytes and the 32 session-id bytes read from Config.rand(), the
   public keys of the generated key shares ("fresh bytes of the group's size"),
   and for every GREASE ECH extension what init() draws from crypto/rand.

   Not modelled (outside C03): Config.EncryptedClientHelloConfigList (real ECH),
   a session taken from Config.ClientSessionCache or set by the user (the PSK
   and session-ticket extensions stay as the spec has them), QUIC (session id
   always drawn). *)
From UV Require Import Base.Common Model.Wire.
From UV Require Model.Grease Model.Padding Model.Marshal.
From UV Require Import Model.Ext Model.ExtSpec.

(* ---- a ClientHelloSpec as the translator renders it ---- *)

(* A spec extension: any built-in TLSExtension value as extcoq.ExtTerm renders
   it, except GREASE ECH, which in a spec still carries its candidate lists
   (CandidateCipherSuites (KdfId, AeadId), CandidateConfigIds, EncapsulatedKey,
   CandidatePayloadLens) and is only fixed by init() at the first Len(). *)
Inductive sext :=
| SExt (e : ext)
| SGreaseECH (suites : list (N * N)) (cfgids enc : bytes) (plens : list N).

Record spec := {
  sp_min : N;              (* TLSVersMin *)
  sp_max : N;              (* TLSVersMax *)
  sp_suites : list N;      (* CipherSuites *)
  sp_comp : bytes;         (* CompressionMethods *)
  sp_exts : list sext      (* Extensions *)
}.

(* One predefined ClientHelloID: its name (without "Hello"), the spec UTLSIdToSpec
   returns, and whether the 16 calls of the translator returned different
   extension orders (ShuffleChromeTLSExtensions). For a shuffling id the
   extension list is in the translator's canonical order: GREASE / padding /
   pre_shared_key in their slots, the rest sorted by extension type. *)
Record parrot := {
  p_name : bytes;
  p_spec : spec;
  p_shuffles : bool
}.

(* What ApplyPreset reads from the Config. [c_sni] is hostnameInSNI(Config.ServerName)
   (handshake_client.go:1345: "" for IP literals, trailing dots removed). *)
Record cfg := {
  c_sni : bytes;
  c_omit_psk : bool;       (* Config.OmitEmptyPsk *)
  (* Fields of the caller's Config that the ClientHello must NOT depend on. They are part of the
     model's input so that the correspondence runs vary them; [apply_preset] never reads them:
     SetTLSVers OVERWRITES Config.MinVersion/MaxVersion with the spec's range (u_conn.go:749-752) before
     makeClientHelloForApplyPreset derives hello.vers from them, and the ALPN extension's
     writeToUConn overwrites Config.NextProtos (the wire bytes come from the extension object). *)
  c_min_version : N;       (* Config.MinVersion as the caller set it (0 = unset) *)
  c_max_version : N;       (* Config.MaxVersion as the caller set it *)
  c_next_protos : list bytes   (* Config.NextProtos as the caller set it *)
}.

(* what GREASEEncryptedClientHelloExtension.init() draws *)
Record ech_draw := {
  ed_cfg_idx : nat;        (* rand.Int(len(CandidateConfigIds)) *)
  ed_cfg_byte : N;         (* rand.Read(1 byte) when there are no candidates *)
  ed_suite_idx : nat;      (* rand.Int(len(CandidateCipherSuites)) *)
  ed_enc : bytes;          (* hpke.SetupSender's encapsulated key (X25519: 32 bytes) *)
  ed_plen_idx : nat;       (* rand.Int(len(CandidatePayloadLens)) *)
  ed_payload : bytes       (* rand.Read(payload) *)
}.

Record fresh := {
  f_random : bytes;        (* io.ReadFull(rand, hello.random), 32 *)
  f_grease : bytes;        (* grease_bytes, 10 *)
  f_sid : bytes;           (* sessionID, 32 *)
  f_keys : list bytes;     (* PublicKey().Bytes() of each generated share, in order *)
  f_ech : list ech_draw    (* one per GREASE ECH extension, in order *)
}.

(* ---- error / panic codes ---- *)
Definition E_VERS_EXT : N := 50.     (* SetTLSVers: invalid / several SupportedVersions extensions *)
Definition E_VERS_RANGE : N := 51.   (* SetTLSVers: "uTLS does not support 0x.. as min/max version" *)
Definition E_NO_VERSIONS : N := 52.  (* "tls: no supported versions satisfy MinVersion and MaxVersion" *)
Definition E_SHORT_RAND : N := 53.   (* "tls: short read from Rand" *)
Definition E_TOO_MANY_GREASE : N := 54.
Definition E_CURVE : N := 55.        (* "unsupported Curve in KeyShareExtension" *)
Definition E_FRESH : N := 56.        (* the [fresh] record does not have the shape the code's draws have *)
Definition E_PAD_POLICY : N := 57.   (* padding functor the model does not know (PadOther) *)
Definition P_ASSERT : N := 41.       (* uAssert in syncSessionExts *)
Definition P_AEAD : N := 42.         (* cipherLen: "hpke: invalid AEAD identifier" *)

Definition VersionTLS10 : N := 769.
Definition VersionTLS12 : N := 771.
Definition VersionTLS13 : N := 772.

(* ---- SetTLSVers, u_conn.go:696-755 ---- *)

(* findVersionsInSupportedVersionsExtensions, :703-719: (minVers, maxVers) *)
Definition find_versions (vs : list N) : N * N :=
  fold_left (fun '(mn, mx) v =>
    if Grease.is_grease v then (mn, mx) else
    ((if (v <? mn) || (mn =? 0) then v else mn), (if (mx <? v) || (mx =? 0) then v else mx)))
    vs (0, 0).

(* the loop :700-727 over specExtensions: (count, min, max), or the error *)
Fixpoint scan_versions (es : list sext) (acc : nat * N * N) : res (nat * N * N) :=
  match es with
  | [] => Ok acc
  | SExt (ESupportedVersions vs) :: r =>
      let '(cnt, _, _) := acc in
      let '(mn, mx) := find_versions vs in
      if (mn =? 0) && (mx =? 0) then Err E_VERS_EXT else scan_versions r (S cnt, mn, mx)
  | _ :: r => scan_versions r acc
  end.

Definition set_tls_vers (sp : spec) : res (N * N) :=
  do mm <- (if (sp_min sp =? 0) && (sp_max sp =? 0) then
              do r <- scan_versions (sp_exts sp) (O, 0, 0);
              let '(cnt, mn, mx) := r in
              match cnt with
              | O => Ok (VersionTLS10, VersionTLS12)
              | S O => Ok (mn, mx)
              | _ => Err E_VERS_EXT
              end
            else Ok (sp_min sp, sp_max sp));
  let '(mn, mx) := mm in
  if (mn <? VersionTLS10) || (VersionTLS13 <? mn) then Err E_VERS_RANGE
  else if (mx <? VersionTLS10) || (VersionTLS13 <? mx) then Err E_VERS_RANGE
  else Ok (mn, mx).

(* makeClientHelloForApplyPreset :201-226: config.supportedVersions is empty when
   MaxVersion < MinVersion; vers = min(maxSupportedVersion, TLS 1.2) *)
Definition hello_vers (mn mx : N) : res N :=
  if mx <? mn then Err E_NO_VERSIONS
  else Ok (if VersionTLS12 <? mx then VersionTLS12 else mx).

(* ---- key shares, u_parrots.go:2876-2924 ---- *)

Definition X25519 : N := 29.
Definition CurveP256 : N := 23.
Definition CurveP384 : N := 24.
Definition CurveP521 : N := 25.
Definition X25519MLKEM768 : N := 4588.
Definition X25519Kyber768Draft00 : N := 25497.  (* 0x6399 *)

(* size of the public share the code generates for a group; None: generateECDHEKey fails *)
Definition key_size (g : N) : option N :=
  if g =? X25519 then Some 32
  else if g =? CurveP256 then Some 65
  else if g =? CurveP384 then Some 97
  else if g =? CurveP521 then Some 133
  else if (g =? X25519MLKEM768) || (g =? X25519Kyber768Draft00) then Some 1216  (* 1184 + 32 *)
  else None.

Fixpoint preset_shares (sd : list N) (keys : list bytes) (ks : list (N * bytes))
  : res (list (N * bytes) * list bytes) :=
  match ks with
  | [] => Ok ([], keys)
  | (g, d) :: r =>
      if Grease.is_grease g then
        do g' <- Grease.boring_grease sd Grease.ssl_grease_group;
        do rk <- preset_shares sd keys r;
        Ok ((g', d) :: fst rk, snd rk)
      else if 1 <? blen d then                     (* len(Data) > 1: continue *)
        do rk <- preset_shares sd keys r; Ok ((g, d) :: fst rk, snd rk)
      else
        match key_size g with
        | None => Err E_CURVE
        | Some n =>
          match keys with
          | [] => Err E_FRESH
          | k :: keys' =>
              if negb (blen k =? n) then Err E_FRESH else
              do rk <- preset_shares sd keys' r; Ok ((g, k) :: fst rk, snd rk)
          end
        end
  end.

(* ---- GREASE ECH init(), u_ech.go:65-148 ---- *)
Definition ech_init (suites : list (N * N)) (cfgids enc : bytes) (plens : list N) (d : ech_draw) : res ext :=
  do cfgid <- match cfgids with
              | [] => Ok (ed_cfg_byte d)
              | _ => of_opt E_FRESH (nth_error cfgids (ed_cfg_idx d))
              end;
  do suite <- match suites with
              | [] => Ok (1, 1)                            (* defaultHpkeKdf, defaultHpkeAead *)
              | _ => of_opt E_FRESH (nth_error suites (ed_suite_idx d))
              end;
  let '(kdf, aead) := suite in
  let enc' := if empty enc then ed_enc d else enc in
  do plen <- match plens with
             | [] => Ok 128
             | _ => of_opt E_FRESH (nth_error plens (ed_plen_idx d))
             end;
  if negb (ech_aead_ok aead) then Panic P_AEAD           (* cipherLen *)
  else if negb (blen (ed_payload d) =? plen + ECH_TAG_LEN) then Err E_FRESH
  else if empty enc && negb (blen (ed_enc d) =? 32) then Err E_FRESH
  else Ok (EGREASEECH kdf aead cfgid enc' (ed_payload d)).

(* ---- the loop over uconn.Extensions, u_parrots.go:2847-2931 ---- *)
Fixpoint preset_exts (sd : list N) (c : cfg) (seen : nat) (keys : list bytes) (echs : list ech_draw)
                     (es : list sext) : res (list ext) :=
  match es with
  | [] => Ok []
  | SGreaseECH su ci en pl :: r =>
      match echs with
      | [] => Err E_FRESH
      | d :: echs' =>
          do e <- ech_init su ci en pl d;
          do r' <- preset_exts sd c seen keys echs' r; Ok (e :: r')
      end
  | SExt e :: r =>
      match e with
      | ESNI host =>                                              (* :2850-2856 *)
          do r' <- preset_exts sd c seen keys echs r;
          Ok ((if empty host then ESNI (c_sni c) else e) :: r')
      | EGREASE _ b =>                                            (* :2857-2868 *)
          match seen with
          | O => do x <- Grease.boring_grease sd Grease.ssl_grease_extension1;
                 do r' <- preset_exts sd c 1 keys echs r; Ok (EGREASE x b :: r')
          | S O => do x <- Grease.boring_grease sd Grease.ssl_grease_extension2;
                   do r' <- preset_exts sd c 2 keys echs r; Ok (EGREASE x [0] :: r')
          | _ => Err E_TOO_MANY_GREASE
          end
      | ESupportedCurves cs =>                                    (* :2869-2874 *)
          do cs' <- Grease.map_res (Grease.regrease sd Grease.ssl_grease_group) cs;
          do r' <- preset_exts sd c seen keys echs r; Ok (ESupportedCurves cs' :: r')
      | EKeyShare ks =>                                           (* :2875-2924 *)
          do sk <- preset_shares sd keys ks;
          do r' <- preset_exts sd c seen (snd sk) echs r; Ok (EKeyShare (fst sk) :: r')
      | ESupportedVersions vs =>                                  (* :2925-2930 *)
          do vs' <- Grease.map_res (Grease.regrease sd Grease.ssl_grease_version) vs;
          do r' <- preset_exts sd c seen keys echs r; Ok (ESupportedVersions vs' :: r')
      | EUtlsPreSharedKey s cl _ ids bs =>      (* syncSessionExts: SetOmitEmptyPsk(config.OmitEmptyPsk) *)
          do r' <- preset_exts sd c seen keys echs r; Ok (EUtlsPreSharedKey s cl (c_omit_psk c) ids bs :: r')
      | EFakePreSharedKey _ ids bs =>
          do r' <- preset_exts sd c seen keys echs r; Ok (EFakePreSharedKey (c_omit_psk c) ids bs :: r')
      | _ => do r' <- preset_exts sd c seen keys echs r; Ok (e :: r')
      end
  end.

Definition is_psk (e : ext) : bool :=
  match e with EUtlsPreSharedKey _ _ _ _ _ | EFakePreSharedKey _ _ _ => true | _ => false end.
Definition is_ticket (e : ext) : bool :=
  match e with ESessionTicket _ => true | _ => false end.

(* syncSessionExts: at most one ISessionTicketExtension, a PreSharedKeyExtension only last *)
Fixpoint psk_only_last (es : list ext) : bool :=
  match es with
  | [] => true
  | [_] => true
  | e :: r => negb (is_psk e) && psk_only_last r
  end.
Definition sync_session_exts (es : list ext) : res unit :=
  if (1 <? N.of_nat (length (filter is_ticket es))) || negb (psk_only_last es) then Panic P_ASSERT else Ok tt.

(* ---- ApplyPreset ---- *)
Definition apply_preset (sp : spec) (c : cfg) (fr : fresh) : res (Marshal.hello_hdr * list ext) :=
  do mm <- set_tls_vers sp;                                        (* :2769 *)
  do vers <- hello_vers (fst mm) (snd mm);                         (* :2774 *)
  if negb (blen (f_random fr) =? 32) then Err E_SHORT_RAND else    (* :2787-2799 *)
  do sd <- Grease.grease_seed (f_grease fr);                       (* :2805-2817 *)
  do suites <- Grease.map_res (Grease.regrease sd Grease.ssl_grease_cipher) (sp_suites sp);   (* :2819-2825 *)
  if negb (blen (f_sid fr) =? 32) then Err E_SHORT_RAND else       (* :2832-2839 *)
  do es <- preset_exts sd c 0 (f_keys fr) (f_ech fr) (sp_exts sp); (* :2841-2931 *)
  do _ <- sync_session_exts es;                                    (* :2937 *)
  Ok ({| Marshal.h_vers := vers; Marshal.h_random := f_random fr; Marshal.h_sid := f_sid fr;
         Marshal.h_suites := suites;
         Marshal.h_comp := [0] |},          (* :2801-2803: makeClientHello's {compressionNone}; p.CompressionMethods is NOT copied *)
      es).

(* ---- the extension objects as MarshalClientHelloNoECH sees them ---- *)
Definition pad_other (e : ext) : bool :=
  match e with EPadding _ _ PadOther => true | _ => false end.

Definition to_aext (e : ext) : Marshal.aext :=
  match e with
  | EPadding l w pol =>
      Marshal.APad (match pol with PadNone => Padding.PolNone | _ => Padding.PolBoring end)
                   {| Padding.p_len := l; Padding.p_will := w |}
  | _ => Marshal.AExt (is_psk e) (ext_len e) (fun b => ext_read e (Padding.len b))
  end.

(* spare capacity of the bytes.Buffer after grow(MinRead) *)
Definition bbs512 : N -> N := fun _ => 512.

(* BuildHandshakeState for a spec: ApplyPreset; ApplyConfig (writeToUConn changes no extension);
   uLoadSession (no cache: nothing); MarshalClientHello *)
Definition build (sp : spec) (c : cfg) (fr : fresh) : res bytes :=
  do he <- apply_preset sp c fr;
  if existsb pad_other (snd he) then Err E_PAD_POLICY
  else Marshal.marshal_client_hello bbs512 (fst he) (map to_aext (snd he)).

(* Model of compressed-certificate handling (RFC 8879) in /repo:
     utlsCompressedCertificateMsg.marshal / unmarshal      u_handshake_messages.go:23-54
     clientHandshakeStateTLS13.decompressCert           u_handshake_client.go:51-120
   [decompress_cert_top] is decompressCert as it is in /repo after commit 4697a7d as well: the zstd reader is
   opened with WithDecoderMaxWindow(8 MiB), so a zstd frame whose header declares a larger Window_Size is
   refused when the decoder reaches it ([zstd_effective]); brotli and zlib readers are unaffected.
   STATE OF THIS FILE: [decompress_cert] models the code AFTER fixes/C21-decompress-readfull.diff
   (length cap, io.ReadFull, one-byte probe for trailing output).  [decompress_cert_v0] is the code
   as found (single Read, no probe, no cap); it is kept so that the defects F-21a/F-21b stay
   machine-checked refutations (Props/C21.v) and the runner keeps their witnesses as corpus cases.

   The decompressor (brotli / zlib / zstd reader over the compressed bytes) is an adversarial
   reader: it will deliver [r_out] in the chunking [r_chunks] — each Read(p) returns the next chunk,
   truncated to len p (the remainder of the chunk stays for the next Read) — and after the last
   chunk it reports [r_end]: clean end of stream (io.EOF) or a decoding error.  Every block/flush/
   frame structure of a real encoder is an instance.  certificateMsgTLS13.unmarshal is the
   Section variable parse_cert.  Local big-endian helpers on purpose (no dependency on Model/Wire.v). *)
From UV Require Export Base.Common.

Definition typeCertificate : N := 11.
Definition utlsTypeCompressedCertificate : N := 25.
Definition alertBadCertificate : N := 42.
Definition alertUnexpectedMessage : N := 10.
Definition maxHandshakeCertificateMsg : N := 262144.   (* common.go:69 *)
Definition CertCompressionZlib : N := 1.
Definition CertCompressionBrotli : N := 2.
Definition CertCompressionZstd : N := 3.

Definition dbe16 (x : N) : bytes := [u8 (x / 256); u8 x].
Definition dbe24 (x : N) : bytes := [u8 (x / 65536); u8 (x / 256); u8 x].
Definition dlen (b : bytes) : N := N.of_nat (length b).

(* ---------- utlsCompressedCertificateMsg ---------- *)
Record ccmsg := mkCC { cc_alg : N; cc_ulen : N; cc_data : bytes }.   (* algorithm uint16; uncompressedLength uint32 holding a uint24 *)

Definition E_BUILD : N := 1.
(* u_handshake_messages.go:23 (raw == nil).  AddUint24(uint32) keeps the low 24 bits. *)
Definition cc_marshal (m : ccmsg) : res bytes :=
  if negb (dlen (cc_data m) <? 16777216) then Err E_BUILD else
  let body := dbe16 (cc_alg m) ++ dbe24 (cc_ulen m) ++ dbe24 (dlen (cc_data m)) ++ cc_data m in
  if negb (dlen body <? 16777216) then Err E_BUILD else
  Ok (utlsTypeCompressedCertificate :: dbe24 (dlen body) ++ body).

(* u_handshake_messages.go:43: Skip(4), ReadUint16, ReadUint24, uint24-prefixed bytes; trailing bytes are ignored *)
Definition cc_unmarshal (data : bytes) : option ccmsg :=
  match data with
  | _ :: _ :: _ :: _ :: a1 :: a0 :: u2 :: u1 :: u0 :: l2 :: l1 :: l0 :: rest =>
      let n := l2 * 65536 + l1 * 256 + l0 in
      if n <=? dlen rest
      then Some (mkCC (a1 * 256 + a0) (u2 * 65536 + u1 * 256 + u0) (firstn (N.to_nat n) rest))
      else None
  | _ => None
  end.

(* ---------- the decompressor as a reader ---------- *)
Inductive rend := REof | RErr.      (* what the reader reports once its chunks are exhausted *)
Record reader := mkR { r_out : bytes; r_chunks : list nat; r_end : rend }.

Inductive rerr := ENone | EEOF | EOther.   (* nil, io.EOF, any other error *)

(* one Read(p) with len p = want.  Go readers may return n>0 together with io.EOF on the last chunk;
   [eof_early] says whether this reader does (both behaviours occur in practice). *)
Definition read1 (eof_early : bool) (r : reader) (want : nat) : (bytes * rerr * reader) :=
  match want with
  | O => ([], ENone, r)
  | _ =>
    match r_chunks r with
    | [] => ([], match r_end r with REof => EEOF | RErr => EOther end, r)
    | c :: cs =>
        let n := Nat.min c want in
        let rest := if (c <=? want)%nat then cs else (c - want)%nat :: cs in
        let r' := mkR (skipn n (r_out r)) rest (r_end r) in
        let e := match rest, r_end r with
                 | [], REof => if eof_early then EEOF else ENone
                 | _, _ => ENone
                 end in
        (firstn n (r_out r), e, r')
    end
  end.

(* io.ReadFull(r, buf) with len buf = want: Read until full or an error; fuel bounds the loop *)
Fixpoint read_full (eof_early : bool) (fuel : nat) (r : reader) (want : nat) : (bytes * rerr * reader) :=
  match want with
  | O => ([], ENone, r)
  | _ =>
    match fuel with
    | O => ([], EOther, r)
    | S f =>
      let '(d, e, r') := read1 eof_early r want in
      let got := length d in
      if (want <=? got)%nat then (d, ENone, r')            (* full: ReadAtLeast drops the error *)
      else match e with
           | ENone => let '(d2, e2, r2) := read_full eof_early f r' (want - got) in (d ++ d2, e2, r2)
           | EEOF => (d, if (0 <? got)%nat then EOther (* io.ErrUnexpectedEOF *) else EEOF, r')
           | EOther => (d, EOther, r')
           end
    end
  end.

Section Cert.
Variable C : Type.
Variable parse_cert : bytes -> option C.      (* certificateMsgTLS13.unmarshal on the reconstructed message *)

Definition E_ALERT (a : N) : N := a.          (* Err code = alert sent *)

Definition header (declared : N) : bytes := typeCertificate :: dbe24 declared.

Definition known_alg (alg : N) : bool :=
  (alg =? CertCompressionBrotli) || (alg =? CertCompressionZlib) || (alg =? CertCompressionZstd).

(* common prefix, u_handshake_client.go:58-95: advertised?  known?  (opening the reader may fail: open_ok) *)
Definition pre_checks (advertised : list N) (alg : N) (open_ok : bool) : res unit :=
  if negb (existsb (N.eqb alg) advertised) then Err alertBadCertificate
  else if negb (known_alg alg) then Err alertBadCertificate
  else if negb open_ok then Err alertBadCertificate
  else Ok tt.

(* THE CODE AS FOUND, u_handshake_client.go:97-119 *)
Definition decompress_cert_v0 (eof_early : bool) (advertised : list N) (alg declared : N) (open_ok : bool) (r : reader) : res C :=
  do _ <- pre_checks advertised alg open_ok;
  let want := N.to_nat declared in
  let '(d, e, _) := read1 eof_early r want in                      (* ONE Read into rawMsg[4:] *)
  match e with
  | EOther => Err alertBadCertificate
  | _ =>
    if (length d <? want)%nat then Err alertBadCertificate          (* n < len(rawMsg)-4 *)
    else match parse_cert (header declared ++ d) with
         | Some c => Ok c
         | None => Err alertUnexpectedMessage
         end
  end.

(* THE FIXED CODE: cap, io.ReadFull, probe *)
Definition decompress_cert (eof_early : bool) (advertised : list N) (alg declared : N) (open_ok : bool) (r : reader) : res C :=
  do _ <- pre_checks advertised alg open_ok;
  if maxHandshakeCertificateMsg <? declared then Err alertBadCertificate else
  let want := N.to_nat declared in
  let fuel := S (length (r_chunks r)) in
  let '(d, e, r1) := read_full eof_early fuel r want in
  match e with
  | ENone =>
      (* probe: io.ReadFull(decompressed, one[:]) must report io.EOF with no byte *)
      let '(p, pe, _) := read_full eof_early (S (length (r_chunks r1))) r1 1 in
      match p, pe with
      | [], EEOF =>
          match parse_cert (header declared ++ d) with
          | Some c => Ok c
          | None => Err alertUnexpectedMessage
          end
      | _, _ => Err alertBadCertificate                              (* trailing output, or the stream does not end cleanly *)
      end
  | _ => Err alertBadCertificate                                     (* short (io.ErrUnexpectedEOF / io.EOF) or decoding error *)
  end.

End Cert.

(* ---------- zstd: the declared Window_Size of every frame is an input (u_handshake_client.go:50,86-94) ---------- *)
Definition maxCompressedCertZstdWindow : N := 8388608.      (* 8 << 20 *)

(* frames of the stream in order: (Window_Size declared by the frame header — Window_Descriptor, or
   Frame_Content_Size for a Single_Segment frame —, number of bytes the frame decompresses to) *)
Definition zframes := list (N * N).

(* offset in the decompressed output at which the first frame over the cap starts *)
Fixpoint first_over (cap : N) (fs : zframes) (acc : nat) : option nat :=
  match fs with
  | [] => None
  | (w, n) :: r => if cap <? w then Some acc else first_over cap r (acc + N.to_nat n)
  end.

(* the chunks that are delivered before offset off *)
Fixpoint cut_chunks (off : nat) (cs : list nat) : list nat :=
  match cs with
  | [] => []
  | c :: r =>
      match off with
      | O => []
      | _ => if (c <=? off)%nat then c :: cut_chunks (off - c) r else [off]
      end
  end.

(* klauspost frameDec.reset: ErrWindowSizeExceeded when the header of the next frame is read; everything the
   earlier frames decode to has been delivered *)
Definition zstd_effective (cap : N) (fs : zframes) (r : reader) : reader :=
  match first_over cap fs O with
  | None => r
  | Some off => mkR (firstn off (r_out r)) (cut_chunks off (r_chunks r)) RErr
  end.

Definition effective (alg : N) (fs : zframes) (r : reader) : reader :=
  if alg =? CertCompressionZstd then zstd_effective maxCompressedCertZstdWindow fs r else r.

Section Top.
Variable C : Type.
Variable parse_cert : bytes -> option C.
(* r = what the compressed stream validly encodes (any chunking); fs = its zstd frame headers (ignored for brotli/zlib) *)
Definition decompress_cert_top (eof_early : bool) (advertised : list N) (alg declared : N) (open_ok : bool)
           (fs : zframes) (r : reader) : res C :=
  decompress_cert C parse_cert eof_early advertised alg declared open_ok (effective alg fs r).
End Top.

(* ---------- the certificate flight and the transcript (handshake_client_tls13.go:784-829, u_handshake_client.go:24-48) ----------
   After EncryptedExtensions the server sends [CertificateRequest] (Certificate | CompressedCertificate) ... .
   readServerCertificate reads each of these with a nil transcript and writes them itself: the CertificateRequest as
   soon as it is recognised, a CompressedCertificate inside utlsReadServerCertificate (as received, NOT the decompressed
   Certificate), a plain Certificate after it has been parsed.  The transcript is the list of writes in program order. *)
Inductive fmsg := FCertReq | FCert | FCompressed.

(* [cc_ok]: the client uses a compress_certificate extension and decompressCert succeeds *)
Definition client_cert_flight (received : list fmsg) (cc_ok : bool) : res (list fmsg) :=
  match received with
  | [] => Err alertUnexpectedMessage
  | m0 :: rest0 =>
      let '(t1, m, rest) :=
        match m0 with
        | FCertReq => match rest0 with m1 :: r => ([FCertReq], Some m1, r) | [] => ([FCertReq], None, []) end   (* :792-803 *)
        | _ => ([], Some m0, rest0)
        end in
      match m with
      | None => Err alertUnexpectedMessage
      | Some FCompressed => if cc_ok then Ok (t1 ++ [FCompressed]) else Err alertBadCertificate   (* transcriptMsg in utlsReadServerCertificate *)
      | Some FCert => Ok (t1 ++ [FCert])                                                        (* :826 *)
      | Some FCertReq => Err alertUnexpectedMessage
      end
  end.

(* Model of generateRandomizedSpec (u_parrots.go:2949-3157) and its helpers
   removeRandomCiphers (3159), shuffledCiphers (3180), sortableCiphers.Less (3204),
   removeRC4Ciphers (3226), makeSupportedVersions (u_conn.go:817), plus
   math/rand (Go 1.24) Rand.Shuffle (rand.go:247) and the Lemire int31n it uses
   (rand.go:161). Builds on Model/Prng.v (stream, int63, intn, perm, flip_with).

   Randomness is an input: [s] stands for SHAKE256(seed) (u_prng.go:84) and
   [salted] for SHAKE256(HKDF-SHA3-256(seed, "ALPS")) (u_prng.go:49,102).
   A float64 weight is Prng.fw; float rounding is the parameter [rnd]
   (Prng.rne in the correspondence check; any function with the IEEE laws in
   the theorems). Executable definitions only. *)
From UV Require Import Base.Common Model.Prng.
From Coq Require Import QArith.
Open Scope N_scope.

(* ---- state monad over the stream, Go outcome in [res] ---- *)
Definition M (A : Type) := stream -> res (A * stream).
Definition ret {A} (a : A) : M A := fun s => Ok (a, s).
Definition bindM {A B} (m : M A) (k : A -> M B) : M B :=
  fun s => match m s with Ok (a, s') => k a s' | Err c => Err c | Panic c => Panic c end.
Notation "'mdo' x <~ m ;; k" := (bindM m (fun x => k))
  (at level 200, x pattern, m at level 100, k at level 200, right associativity).
(* error codes *)
Definition err_out_of_stream : N := 99.   (* stream/fuel exhausted: excluded by the theorems, never reached by the harness *)
Definition err_not_randomized : N := 1.   (* u_parrots.go:2986 *)
Definition liftO {A} (f : stream -> option (A * stream)) : M A :=
  fun s => match f s with Some p => Ok p | None => Err err_out_of_stream end.

(* ---- math/rand pieces not in Prng.v ---- *)
(* rand.go:99 Uint32 = uint32(Int63() >> 31) *)
Definition uint32 (s : stream) : option (N * stream) :=
  match int63 s with Some (v, r) => Some (N.shiftr v 31, r) | None => None end.
Definition two32 : N := 4294967296.
(* rand.go:167 `for low < thresh { v = r.Uint32(); prod = uint64(v)*uint64(n); low = uint32(prod) }` *)
Fixpoint lemire_loop (fuel : nat) (n thresh prod : N) (s : stream) : option (N * stream) :=
  if (prod mod two32) <? thresh then
    match fuel with
    | O => None
    | S k => match uint32 s with Some (v, r) => lemire_loop k n thresh (v * n) r | None => None end
    end
  else Some (prod, s).
(* rand.go:161 int31n, 0 < n < 2^31 *)
Definition int31n_l (fuel : nat) (n : N) (s : stream) : option (N * stream) :=
  match uint32 s with
  | None => None
  | Some (v, r) =>
      let prod := v * n in
      if (prod mod two32) <? n then
        let thresh := (two32 - n) mod n in      (* uint32(-n) % uint32(n) *)
        match lemire_loop fuel n thresh prod r with
        | Some (p, r') => Some (N.shiftr p 32, r')
        | None => None
        end
      else Some (N.shiftr prod 32, r)
  end.

(* a[i], a[j] = a[j], a[i] *)
Definition swap {A} (d : A) (i j : nat) (l : list A) : list A :=
  set_nth i (nth j l d) (set_nth j (nth i l d) l).
(* rand.go:263 `for ; i > 0; i-- { j := int(r.int31n(int32(i+1))); swap(i, j) }`
   (the first loop, i > 2^31-2, never runs for the lengths used here) *)
Fixpoint shuffle_loop {A} (d : A) (fuel : nat) (i : nat) (l : list A) (s : stream) : option (list A * stream) :=
  match i with
  | O => Some (l, s)
  | S k =>
      match int31n_l fuel (N.of_nat (S i)) s with
      | None => None
      | Some (j, r) => shuffle_loop d fuel k (swap d i (N.to_nat j) l) r
      end
  end.
(* rand.go:247 Shuffle(len(l), swap) *)
Definition shuffle {A} (d : A) (fuel : nat) (l : list A) (s : stream) : option (list A * stream) :=
  shuffle_loop d fuel (length l - 1) l s.

(* ---- float64 helpers for removeRandomCiphers ---- *)
(* 2^1024 by shifting: Z.pow would redo 1024 big multiplications at every evaluation *)
Definition two1024 : Q := inject_Z (Z.shiftl 1 1024).
(* overflow of a rounded finite result to +-Inf *)
Definition ovf (q : Q) : fw :=
  if Qlt_le_dec q two1024 then (if Qlt_le_dec (- two1024) q then WFin q else WInf true) else WInf false.

(* ---- tables the function consults ---- *)
Record suite_row := { sr_id : N; sr_tls12 : bool }.   (* cipherSuite.id, flags&suiteTLS12 != 0 *)
Record table := { t_suites : list suite_row;          (* cipherSuites, cipher_suites.go:150 *)
                  t_tls13 : list N }.                 (* defaultCipherSuitesTLS13, defaults.go:80 *)

(* u_parrots.go:3192 *)
Record scipher := { sc_obsolete : bool; sc_tag : Z; sc_suite : N }.
(* u_parrots.go:3204 Less *)
Definition less (a b : scipher) : bool :=
  if sc_obsolete a && negb (sc_obsolete b) then false
  else if sc_obsolete b && negb (sc_obsolete a) then true
  else (sc_tag a <? sc_tag b)%Z.
(* sort.Sort modelled as stable insertion sort on Less. The tags are a permutation
   (pairwise distinct: Proofs.RandomizedP.perm_NoDup), so Less is a strict total order on
   the elements and every correct sort returns the same list (isort_unique). *)
Fixpoint insert (x : scipher) (l : list scipher) : list scipher :=
  match l with
  | [] => [x]
  | y :: t => if less y x then y :: insert x t else x :: l
  end.
Fixpoint isort (l : list scipher) : list scipher :=
  match l with [] => [] | x :: t => insert x (isort t) end.

(* u_parrots.go:3226: in-place deletion loop = filter *)
Definition TLS_RSA_WITH_RC4_128_SHA : N := 5.
Definition TLS_ECDHE_ECDSA_WITH_RC4_128_SHA : N := 49159.
Definition TLS_ECDHE_RSA_WITH_RC4_128_SHA : N := 49169.
Definition is_rc4 (c : N) : bool :=
  (c =? TLS_ECDHE_ECDSA_WITH_RC4_128_SHA) || (c =? TLS_ECDHE_RSA_WITH_RC4_128_SHA) || (c =? TLS_RSA_WITH_RC4_128_SHA).
Definition removeRC4Ciphers (s : list N) : list N := filter (fun c => negb (is_rc4 c)) s.

(* u_conn.go:817; uint16 subtraction wraps, make() panics on a huge length - neither
   arises for the (min,max) pairs the generator passes (0x0301|0x0303, 0x0304) *)
Definition makeSupportedVersions (minV maxV : N) : list N :=
  map (fun i => u16 (maxV + 65536 - N.of_nat i)) (seq 0 (N.to_nat (u16 (maxV + 65536 + 1 - minV)))).

(* ---- constants (checked against the Go values by a CConsts case) ---- *)
Definition VersionTLS10 : N := 769.  Definition VersionTLS12 : N := 771.  Definition VersionTLS13 : N := 772.
Definition ECDSAWithP256AndSHA256 : N := 1027.  Definition PKCS1WithSHA256 : N := 1025.
Definition ECDSAWithP384AndSHA384 : N := 1283.  Definition PKCS1WithSHA384 : N := 1281.
Definition PKCS1WithSHA1 : N := 513.            Definition PKCS1WithSHA512 : N := 1537.
Definition ECDSAWithSHA1 : N := 515.            Definition ECDSAWithP521AndSHA512 : N := 1539.
Definition PSSWithSHA256 : N := 2052.  Definition PSSWithSHA384 : N := 2053.  Definition PSSWithSHA512 : N := 2054.
Definition X25519MLKEM768 : N := 4588.  Definition X25519 : N := 29.
Definition CurveP256 : N := 23.  Definition CurveP384 : N := 24.  Definition CurveP521 : N := 25.
Definition pointFormatUncompressed : N := 0.
Definition RenegotiateOnceAsClient : N := 1.
Definition pskModeDHE : N := 1.
Definition proto_h2 : bytes := [104; 50].
Definition proto_http11 : bytes := [104; 116; 116; 112; 47; 49; 46; 49].

(* ---- inputs and output ---- *)
Inductive variant := VRandomized | VALPN | VNoALPN | VOther.   (* id.Client *)
Record weights := {                                             (* u_common.go:671 *)
  w_alpn : fw; w_tls13 : fw; w_rmciphers : fw; w_ecdsa_sha1 : fw; w_p521_sha512 : fw;
  w_pss256 : fw; w_pss384_512 : fw; w_x25519 : fw; w_p521 : fw; w_padding : fw; w_status : fw;
  w_sct : fw; w_reneg : fw; w_ems : fw; w_ks_p256 : fw; w_ks_random : fw; w_alps : fw }.

(* the fingerprint-relevant content of each TLSExtension the generator can emit *)
Inductive ext :=
| ESNI (name : bytes)
| ESessionTicket
| ESigAlgs (algs : list N)
| EPoints (fmts : list N)
| ECurves (groups : list N)
| EALPN (protos : list bytes)
| EPadding                      (* GetPaddingLen: BoringPaddingStyle *)
| EStatus
| ESCT
| EReneg (mode : N)
| EEMS
| EKeyShare (groups : list N)   (* key data is per-connection material, generated later *)
| EPSKModes (modes : list N)
| ESupportedVersions (vers : list N)
| EALPS (protos : list bytes).
Record spec := { sp_min : N; sp_max : N; sp_ciphers : list N; sp_exts : list ext }.

Definition opt {A} (b : bool) (x : A) : list A := if b then [x] else [].

Section Gen.
  Variable rnd : Q -> Q.       (* float64 rounding *)
  Variable fuel : nat.         (* bound on redraws in each rejection loop *)

  (* u_prng.go:139 FlipWeightedCoin *)
  Definition flipM (w : fw) : M bool :=
    liftO (fun s => match int63 s with Some (i, r) => Some (flip_with rnd w i, r) | None => None end).
  Definition intnM (n : Z) : M Z := liftO (intn fuel n).
  Definition permM (n : nat) : M (list Z) := liftO (perm fuel n).
  Definition shuffleM {A} (d : A) (l : list A) : M (list A) := liftO (shuffle d fuel l).

  (* w * float64(k), k a positive integer below 2^53 (exact conversion) *)
  Definition fmul_pos (w : fw) (k : Q) : fw :=
    match w with WNaN => WNaN | WInf neg => WInf neg | WFin q => ovf (rnd (q * k)) end.
  (* w / float64(k), k >= 1 *)
  Definition fdiv_pos (w : fw) (k : Q) : fw :=
    match w with WNaN => WNaN | WInf neg => WInf neg | WFin q => WFin (rnd (q / k)) end.

  (* u_parrots.go:3170-3176. The Go loop deletes s[i] in place and stays at i when the coin
     says remove, else advances; [rest] is s[i:], the result is the kept part of s[i:].
     Probability argument: maxRemovalProbability * float64(i) / floatLen, floatLen fixed. *)
  Fixpoint rm_loop (w : fw) (flen : Q) (i : N) (rest : list N) : M (list N) :=
    match rest with
    | [] => ret []
    | x :: t =>
        mdo b <~ flipM (fdiv_pos (fmul_pos w (inject_Z (Z.of_N i))) flen) ;;
        if b then rm_loop w flen i t
        else (mdo r <~ rm_loop w flen (i + 1) t ;; ret (x :: r))
    end.
  (* u_parrots.go:3159 *)
  Definition removeRandomCiphers (s : list N) (w : fw) : M (list N) :=
    match s with
    | [] => ret s
    | [_] => ret s                                   (* len(s) <= 1 *)
    | x :: t => mdo r <~ rm_loop w (inject_Z (Z.of_nat (length s))) 1 t ;; ret (x :: r)
    end.

  (* u_parrots.go:3180 *)
  Definition shuffledCiphers (tb : table) : M (list N) :=
    mdo pm <~ permM (length (t_suites tb)) ;;
    let ciphers := map (fun '(row, tag) => {| sc_obsolete := negb (sr_tls12 row); sc_tag := tag; sc_suite := sr_id row |})
                       (combine (t_suites tb) pm) in
    ret (map sc_suite (isort ciphers)).

  (* u_parrots.go:2949 *)
  Definition generate (tb : table) (v : variant) (w : weights) (serverName : bytes) (nextProtos : list bytes)
                      (s salted : stream) : res spec :=
    let body : M spec :=
      (* 2973-2987 *)
      mdo withALPN <~ match v with
                  | VALPN => ret true
                  | VNoALPN => ret false
                  | _ => flipM (w_alpn w)
                  end ;;
      (* 2990 *)
      mdo shuffledSuites <~ shuffledCiphers tb ;;
      (* 2995-3013 *)
      mdo is13 <~ flipM (w_tls13 w) ;;
      mdo (vmin, vmax, shuffledSuites) <~
        (if is13 : bool then
           mdo k <~ intnM 2 ;;
           mdo tls13ciphers <~ shuffleM 0 (t_tls13 tb) ;;
           ret (nth (Z.to_nat k) [VersionTLS10; VersionTLS12] 0, VersionTLS13,
                removeRC4Ciphers (tls13ciphers ++ shuffledSuites))
         else ret (VersionTLS10, VersionTLS12, shuffledSuites)) ;;
      (* 3015 *)
      mdo ciphers <~ removeRandomCiphers shuffledSuites (w_rmciphers w) ;;
      (* 3020-3048 *)
      let sig0 := [ECDSAWithP256AndSHA256; PKCS1WithSHA256; ECDSAWithP384AndSHA384; PKCS1WithSHA384; PKCS1WithSHA1; PKCS1WithSHA512] in
      mdo b1 <~ flipM (w_ecdsa_sha1 w) ;;
      mdo b2 <~ flipM (w_p521_sha512 w) ;;
      mdo b3 <~ flipM (w_pss256 w) ;;
      mdo sigAlgs <~ (if b3 || (vmax =? VersionTLS13) then
                    mdo b4 <~ flipM (w_pss384_512 w) ;;
                    ret (sig0 ++ opt b1 ECDSAWithSHA1 ++ opt b2 ECDSAWithP521AndSHA512 ++ [PSSWithSHA256]
                         ++ (if b4 : bool then [PSSWithSHA384; PSSWithSHA512] else []))
                  else ret (sig0 ++ opt b1 ECDSAWithSHA1 ++ opt b2 ECDSAWithP521AndSHA512)) ;;
      mdo sigAlgs <~ shuffleM 0 sigAlgs ;;
      (* 3055-3067 *)
      mdo c1 <~ flipM (w_x25519 w) ;;
      mdo c2 <~ flipM (w_x25519 w) ;;
      mdo c3 <~ flipM (w_p521 w) ;;
      let curveIDs := opt (c1 && (vmax =? VersionTLS13)) X25519MLKEM768 ++ opt (c2 || (vmax =? VersionTLS13)) X25519
                      ++ [CurveP256; CurveP384] ++ opt c3 CurveP521 in
      (* 3072-3087 *)
      let exts := [ESNI serverName; ESessionTicket; ESigAlgs sigAlgs; EPoints [pointFormatUncompressed]; ECurves curveIDs] in
      let protos := match nextProtos with [] => [proto_h2; proto_http11] | _ => nextProtos end in
      let exts := exts ++ opt withALPN (EALPN protos) in
      (* 3089-3105 *)
      mdo e1 <~ flipM (w_padding w) ;;
      let exts := exts ++ opt (e1 || (vmax =? VersionTLS13)) EPadding in
      mdo e2 <~ flipM (w_status w) ;;
      let exts := exts ++ opt e2 EStatus in
      mdo e3 <~ flipM (w_sct w) ;;
      let exts := exts ++ opt e3 ESCT in
      mdo e4 <~ flipM (w_reneg w) ;;
      let exts := exts ++ opt e4 (EReneg RenegotiateOnceAsClient) in
      mdo e5 <~ flipM (w_ems w) ;;
      let exts := exts ++ opt e5 EEMS in
      (* 3106-3151 *)
      mdo exts <~ (if vmax =? VersionTLS13 then
                 mdo k1 <~ flipM (w_ks_p256 w) ;;
                 mdo ks <~ (if k1 : bool then ret [CurveP256]
                        else
                          mdo k2 <~ flipM (w_ks_random w) ;;
                          mdo k3 <~ flipM (w_ks_random w) ;;
                          ret (opt k3 X25519MLKEM768 ++ [X25519] ++ opt k2 CurveP256)) ;;
                 let exts := exts ++ [EKeyShare ks; EPSKModes [pskModeDHE]; ESupportedVersions (makeSupportedVersions vmin vmax)] in
                 (* 3131-3147: a second PRNG on the salted seed, one draw *)
                 if withALPN : bool then
                   fun s => match flipM (w_alps w) salted with
                            | Ok (a, _) => Ok (exts ++ opt a (EALPS [proto_h2]), s)
                            | Err c => Err c
                            | Panic c => Panic c
                            end
                 else ret exts
               else ret exts) ;;
      (* 3152 *)
      mdo exts <~ shuffleM ESessionTicket exts ;;
      ret {| sp_min := vmin; sp_max := vmax; sp_ciphers := ciphers; sp_exts := exts |} in
    match v with
    | VOther => Err err_not_randomized        (* 2985 *)
    | _ => match body s with Ok (p, _) => Ok p | Err c => Err c | Panic c => Panic c end
    end.
End Gen.

(* snapshot of the two tables in /repo (compared with the code's tables by a CTable case on every run) *)
Definition mkrow (id : N) (t12 : bool) : suite_row := {| sr_id := id; sr_tls12 := t12 |}.
Definition utls_table : table := {|
  t_suites := [ mkrow 52392 true; mkrow 52393 true; mkrow 49199 true; mkrow 49195 true; mkrow 49200 true; mkrow 49196 true;
                mkrow 49191 true; mkrow 49171 false; mkrow 49187 true; mkrow 49161 false; mkrow 49172 false; mkrow 49162 false;
                mkrow 156 true; mkrow 157 true; mkrow 60 true; mkrow 47 false; mkrow 53 false; mkrow 49170 false;
                mkrow 10 false; mkrow 5 false; mkrow 49169 false; mkrow 49159 false ];
  t_tls13 := [4865; 4866; 4867] |}.

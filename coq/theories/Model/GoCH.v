(* C31 — upstream clientHelloMsg.unmarshal / marshalMsg / marshal (handshake_messages.go:108-711) and the
   public entry points UnmarshalClientHello / PubClientHelloMsg.Marshal (u_public.go:483-495), on byte lists.
   Executable definitions only.  Own cryptobyte helpers (Model/Wire.v is written concurrently by someone else).

   Shape of the model: every known extension is decoded independently of the others (in the Go switch each
   case writes only its own fields, and a repeated extension is rejected before the switch), so
   unmarshal = project (core fields, list of decoded extensions). marshalMsg emits the extensions whose presence
   test holds, in the fixed Go order.  Only echInner = false is modelled (the only mode reachable from Marshal). *)
From UV Require Export Base.Common Model.Public.
Open Scope N_scope.

(* ---------- cryptobyte.String readers ---------- *)
Definition obind {A B} (o : option A) (f : A -> option B) : option B := match o with Some a => f a | None => None end.
Notation "'let?' x := o 'in' k" := (obind o (fun x => k)) (at level 200, x pattern, o at level 100, k at level 200, right associativity).

Definition rd_u8 (s : bytes) : option (N * bytes) := match s with a :: r => Some (a, r) | _ => None end.
Definition rd_u16 (s : bytes) : option (N * bytes) := match s with a :: b :: r => Some (a * 256 + b, r) | _ => None end.
Definition rd_u32 (s : bytes) : option (N * bytes) :=
  match s with a :: b :: c :: d :: r => Some (((a * 256 + b) * 256 + c) * 256 + d, r) | _ => None end.
Definition rd_bytes (n : nat) (s : bytes) : option (bytes * bytes) :=           (* String.ReadBytes / Skip *)
  if (length s <? n)%nat then None else Some (firstn n s, skipn n s).
Definition rd_u8lp (s : bytes) : option (bytes * bytes) := let? (n, r) := rd_u8 s in rd_bytes (N.to_nat n) r.
Definition rd_u16lp (s : bytes) : option (bytes * bytes) := let? (n, r) := rd_u16 s in rd_bytes (N.to_nat n) r.
Definition is_nil {A} (l : list A) : bool := match l with [] => true | _ => false end.

(* for !s.Empty() { var x uint16; s.ReadUint16(&x); out = append(out, x) } *)
Fixpoint rd_u16s (s : bytes) : option (list N) :=
  match s with
  | [] => Some []
  | a :: b :: r => let? l := rd_u16s r in Some ((a * 256 + b) :: l)
  | _ => None
  end.

(* ---------- cryptobyte.Builder ---------- *)
Definition enc_u16 (x : N) : bytes := [(x / 256) mod 256; x mod 256].
Definition enc_u32 (x : N) : bytes := [(x / 16777216) mod 256; (x / 65536) mod 256; (x / 256) mod 256; x mod 256].
Definition enc_u24 (x : N) : bytes := [(x / 65536) mod 256; (x / 256) mod 256; x mod 256].
Definition len (l : bytes) : N := N.of_nat (length l).
(* AddUintNLengthPrefixed: a child longer than the prefix allows puts the builder in the error state *)
Definition enc_u8lp (d : bytes) : option bytes := if len d <? 256 then Some (len d :: d) else None.
Definition enc_u16lp (d : bytes) : option bytes := if len d <? 65536 then Some (enc_u16 (len d) ++ d) else None.
Definition enc_u24lp (d : bytes) : option bytes := if len d <? 16777216 then Some (enc_u24 (len d) ++ d) else None.
Definition enc_u16s (l : list N) : bytes := flat_map enc_u16 l.
Fixpoint cat_opt (l : list (option bytes)) : option bytes :=
  match l with [] => Some [] | x :: r => let? a := x in let? b := cat_opt r in Some (a ++ b) end.

(* ---------- extensions ---------- *)
Inductive ext :=
| XSni (name : bytes) | XStatus (ocsp : bool) | XCurves (l : list N) | XPoints (l : bytes) | XTicket (t : bytes)
| XSigAlgs (l : list N) | XSigAlgsCert (l : list N) | XReneg (d : bytes) | XEms | XAlpn (l : list bytes) | XSct
| XVersions (l : list N) | XCookie (c : bytes) | XKeyShares (l : list keyShare) | XEarly | XPskModes (l : bytes)
| XQuic (d : bytes) | XPsk (ids : list pskIdentity) (binders : list bytes) | XEch (d : bytes) | XUnknown (id : N).

Definition ext_id (x : ext) : N :=                                   (* common.go:110-132 *)
  match x with
  | XSni _ => 0 | XStatus _ => 5 | XCurves _ => 10 | XPoints _ => 11 | XTicket _ => 35 | XSigAlgs _ => 13
  | XSigAlgsCert _ => 50 | XReneg _ => 65281 | XEms => 23 | XAlpn _ => 16 | XSct => 18 | XVersions _ => 43
  | XCookie _ => 44 | XKeyShares _ => 51 | XEarly => 42 | XPskModes _ => 45 | XQuic _ => 57 | XPsk _ _ => 41
  | XEch _ => 65037 | XUnknown id => id
  end.

(* -- decoders: one per case of the switch (handshake_messages.go:505-703); None = `return false`.
      Each returns the decoded value and the unread rest of extData. -- *)
(* :512-532 server_name list; [cur] is m.serverName so far *)
Fixpoint dec_sni_names (fuel : nat) (s : bytes) (cur : bytes) : option bytes :=
  if is_nil s then Some cur else
  match fuel with O => None | S fuel =>
    let? (ty, r) := rd_u8 s in
    let? (name, r) := rd_u16lp r in
    if is_nil name then None else
    if negb (ty =? 0) then dec_sni_names fuel r cur else
    if negb (is_nil cur) then None else
    if last name 0 =? 46 then None else      (* strings.HasSuffix(m.serverName, ".") *)
    dec_sni_names fuel r name
  end.
(* :609-615 *)
Fixpoint dec_alpn (fuel : nat) (s : bytes) : option (list bytes) :=
  if is_nil s then Some [] else
  match fuel with O => None | S fuel =>
    let? (p, r) := rd_u8lp s in if is_nil p then None else let? l := dec_alpn fuel r in Some (p :: l)
  end.
(* :644-652 *)
Fixpoint dec_shares (fuel : nat) (s : bytes) : option (list keyShare) :=
  if is_nil s then Some [] else
  match fuel with O => None | S fuel =>
    let? (g, r) := rd_u16 s in let? (d, r) := rd_u16lp r in
    if is_nil d then None else let? l := dec_shares fuel r in Some ({| ks_group := g; ks_data := d |} :: l)
  end.
(* :675-683 *)
Fixpoint dec_ids (fuel : nat) (s : bytes) : option (list pskIdentity) :=
  if is_nil s then Some [] else
  match fuel with O => None | S fuel =>
    let? (lab, r) := rd_u16lp s in let? (age, r) := rd_u32 r in
    if is_nil lab then None else let? l := dec_ids fuel r in Some ({| pi_label := lab; pi_obfuscatedTicketAge := age |} :: l)
  end.
(* :688-695 *)
Fixpoint dec_binders (fuel : nat) (s : bytes) : option (list bytes) :=
  if is_nil s then Some [] else
  match fuel with O => None | S fuel =>
    let? (b, r) := rd_u8lp s in if is_nil b then None else let? l := dec_binders fuel r in Some (b :: l)
  end.

Definition nonempty_u16s (d : bytes) : option (list N * bytes) :=     (* `ReadUint16LengthPrefixed(&l) || l.Empty()` + loop *)
  let? (l, r) := rd_u16lp d in if is_nil l then None else let? xs := rd_u16s l in Some (xs, r).

(* the switch (:505-703) as a chain of comparisons, in the order of the Go cases *)
Definition dec_body (id : N) (d : bytes) : option (ext * bytes) :=
  if id =? 0 then (let? (nl, r) := rd_u16lp d in if is_nil nl then None else
                   let? n := dec_sni_names (length nl) nl [] in Some (XSni n, r))
  else if id =? 5 then (let? (ty, r) := rd_u8 d in let? (_, r) := rd_u16lp r in let? (_, r) := rd_u16lp r in Some (XStatus (ty =? 1), r))
  else if id =? 10 then (let? (xs, r) := nonempty_u16s d in Some (XCurves xs, r))
  else if id =? 11 then (let? (p, r) := rd_u8lp d in if is_nil p then None else Some (XPoints p, r))
  else if id =? 35 then Some (XTicket d, [])                            (* :564 ReadBytes(len(extData)) *)
  else if id =? 13 then (let? (xs, r) := nonempty_u16s d in Some (XSigAlgs xs, r))
  else if id =? 50 then (let? (xs, r) := nonempty_u16s d in Some (XSigAlgsCert xs, r))
  else if id =? 65281 then (let? (x, r) := rd_u8lp d in Some (XReneg x, r))
  else if id =? 23 then Some (XEms, d)
  else if id =? 16 then (let? (pl, r) := rd_u16lp d in if is_nil pl then None else let? l := dec_alpn (length pl) pl in Some (XAlpn l, r))
  else if id =? 18 then Some (XSct, d)
  else if id =? 43 then (let? (vl, r) := rd_u8lp d in if is_nil vl then None else let? xs := rd_u16s vl in Some (XVersions xs, r))
  else if id =? 44 then (let? (c, r) := rd_u16lp d in if is_nil c then None else Some (XCookie c, r))
  else if id =? 51 then (let? (cs, r) := rd_u16lp d in let? l := dec_shares (length cs) cs in Some (XKeyShares l, r))
  else if id =? 42 then Some (XEarly, d)
  else if id =? 45 then (let? (x, r) := rd_u8lp d in Some (XPskModes x, r))
  else if id =? 57 then Some (XQuic d, [])                              (* :662 CopyBytes *)
  else if id =? 41 then (let? (il, r) := rd_u16lp d in if is_nil il then None else
                         let? ids := dec_ids (length il) il in
                         let? (bl, r) := rd_u16lp r in if is_nil bl then None else
                         let? bs := dec_binders (length bl) bl in Some (XPsk ids bs, r))
  else if id =? 65037 then Some (XEch d, [])                            (* :697 ReadBytes(len(extData)) *)
  else Some (XUnknown id, []).                                          (* default: continue (no trailing check) *)
Definition dec_ext (id : N) (d : bytes) : option ext :=
  let? (x, r) := dec_body id d in if is_nil r then Some x else None.   (* :705 !extData.Empty() *)

(* :491-708 the extensions loop; [seen] is seenExts *)
Fixpoint parse_exts (fuel : nat) (s : bytes) (seen : list N) : option (list ext) :=
  if is_nil s then Some [] else
  match fuel with O => None | S fuel =>
    let? (id, r) := rd_u16 s in
    let? (d, r) := rd_u16lp r in
    if existsb (N.eqb id) seen then None else
    if (id =? 41) && negb (is_nil r) then None else                    (* :668 pre_shared_key must be last *)
    let? x := dec_ext id d in
    let? l := parse_exts fuel r (id :: seen) in Some (x :: l)
  end.

(* -- projection of the decoded extensions onto the struct fields -- *)
Definition find_map {A B} (f : A -> option B) (l : list A) : option B :=
  fold_right (fun x acc => match f x with Some b => Some b | None => acc end) None l.
Definition g_sni l := match find_map (fun x => match x with XSni n => Some n | _ => None end) l with Some n => n | None => [] end.
Definition g_status l := match find_map (fun x => match x with XStatus b => Some b | _ => None end) l with Some b => b | None => false end.
Definition g_curves l := match find_map (fun x => match x with XCurves n => Some n | _ => None end) l with Some n => n | None => [] end.
Definition g_points l := match find_map (fun x => match x with XPoints n => Some n | _ => None end) l with Some n => n | None => [] end.
Definition g_ticket l := find_map (fun x => match x with XTicket n => Some n | _ => None end) l.
Definition g_sigalgs l := match find_map (fun x => match x with XSigAlgs n => Some n | _ => None end) l with Some n => n | None => [] end.
Definition g_sigalgscert l := match find_map (fun x => match x with XSigAlgsCert n => Some n | _ => None end) l with Some n => n | None => [] end.
Definition g_reneg l := find_map (fun x => match x with XReneg n => Some n | _ => None end) l.
Definition g_ems l := match find_map (fun x => match x with XEms => Some tt | _ => None end) l with Some _ => true | None => false end.
Definition g_alpn l := match find_map (fun x => match x with XAlpn n => Some n | _ => None end) l with Some n => n | None => [] end.
Definition g_sct l := match find_map (fun x => match x with XSct => Some tt | _ => None end) l with Some _ => true | None => false end.
Definition g_versions l := match find_map (fun x => match x with XVersions n => Some n | _ => None end) l with Some n => n | None => [] end.
Definition g_cookie l := match find_map (fun x => match x with XCookie n => Some n | _ => None end) l with Some n => n | None => [] end.
Definition g_shares l := match find_map (fun x => match x with XKeyShares n => Some n | _ => None end) l with Some n => n | None => [] end.
Definition g_early l := match find_map (fun x => match x with XEarly => Some tt | _ => None end) l with Some _ => true | None => false end.
Definition g_pskmodes l := match find_map (fun x => match x with XPskModes n => Some n | _ => None end) l with Some n => n | None => [] end.
Definition g_quic l := find_map (fun x => match x with XQuic n => Some n | _ => None end) l.
Definition g_psk l := match find_map (fun x => match x with XPsk a b => Some (a, b) | _ => None end) l with Some p => p | None => ([], []) end.
Definition g_ech l := match find_map (fun x => match x with XEch n => Some n | _ => None end) l with Some n => n | None => [] end.
Definition slice_of {A} (l : list A) : slice A := match l with [] => None | _ => Some l end.  (* append onto nil *)

Definition scsv : N := 255.
Definition project (data : bytes) (vers : N) (random sid : bytes) (suites : list N) (comp : bytes) (l : list ext) : clientHelloMsg :=
  {| ch_original := Some data; ch_vers := vers; ch_random := random; ch_sessionId := sid; ch_cipherSuites := suites;
     ch_compressionMethods := comp; ch_serverName := g_sni l; ch_ocspStapling := g_status l; ch_supportedCurves := g_curves l;
     ch_supportedPoints := g_points l; ch_ticketSupported := match g_ticket l with Some _ => true | None => false end;
     ch_sessionTicket := match g_ticket l with Some t => t | None => [] end;
     ch_supportedSignatureAlgorithms := g_sigalgs l; ch_supportedSignatureAlgorithmsCert := g_sigalgscert l;
     ch_secureRenegotiationSupported := existsb (N.eqb scsv) suites || match g_reneg l with Some _ => true | None => false end;
     ch_secureRenegotiation := match g_reneg l with Some d => d | None => [] end;
     ch_extendedMasterSecret := g_ems l; ch_alpnProtocols := g_alpn l; ch_scts := g_sct l; ch_supportedVersions := g_versions l;
     ch_cookie := g_cookie l; ch_keyShares := slice_of (g_shares l); ch_earlyData := g_early l; ch_pskModes := g_pskmodes l;
     ch_pskIdentities := slice_of (fst (g_psk l)); ch_pskBinders := snd (g_psk l); ch_quicTransportParameters := g_quic l;
     ch_encryptedClientHello := g_ech l; ch_extensions := map ext_id l; ch_nextProtoNeg := false |}.

(* clientHelloMsg.unmarshal (:449-711); None = false *)
Definition unmarshal (data : bytes) : option clientHelloMsg :=
  let? (_, s) := rd_bytes 4 data in                                    (* :453 Skip(4): type and length are NOT checked *)
  let? (vers, s) := rd_u16 s in
  let? (random, s) := rd_bytes 32 s in
  let? (sid, s) := rd_u8lp s in
  let? (cs, s) := rd_u16lp s in
  let? suites := rd_u16s cs in
  let? (comp, s) := rd_u8lp s in
  if is_nil s then Some (project data vers random sid suites comp [])  (* :480 *)
  else
    let? (exts, s) := rd_u16lp s in
    if negb (is_nil s) then None else
    let? l := parse_exts (length exts) exts [] in
    Some (project data vers random sid suites comp l).

(* -- marshalMsg(false) (:113-398) -- *)
Definition hdr (id : N) (body : option bytes) : option bytes :=       (* AddUint16(id); AddUint16LengthPrefixed(body) *)
  let? b := body in let? lp := enc_u16lp b in Some (enc_u16 id ++ lp).
Definition enc_share (k : keyShare) : option bytes := let? d := enc_u16lp (ks_data k) in Some (enc_u16 (ks_group k) ++ d).
Definition enc_id (p : pskIdentity) : option bytes :=
  let? d := enc_u16lp (pi_label p) in Some (d ++ enc_u32 (pi_obfuscatedTicketAge p)).
Definition enc_ext (x : ext) : option bytes :=
  match x with
  | XSni n => hdr 0 (let? a := enc_u16lp n in enc_u16lp (0 :: a))                                          (* :118-126 *)
  | XPoints p => hdr 11 (enc_u8lp p)
  | XTicket t => hdr 35 (Some t)
  | XReneg d => hdr 65281 (enc_u8lp d)
  | XEms => hdr 23 (Some [])
  | XSct => hdr 18 (Some [])
  | XEarly => hdr 42 (Some [])
  | XQuic d => hdr 57 (Some d)
  | XEch d => hdr 65037 (Some d)
  | XStatus _ => hdr 5 (Some [1; 0; 0; 0; 0])                                                               (* :191-196 *)
  | XCurves l => hdr 10 (enc_u16lp (enc_u16s l))
  | XSigAlgs l => hdr 13 (enc_u16lp (enc_u16s l))
  | XSigAlgsCert l => hdr 50 (enc_u16lp (enc_u16s l))
  | XAlpn l => hdr 16 (let? a := cat_opt (map enc_u8lp l) in enc_u16lp a)
  | XVersions l => hdr 43 (enc_u8lp (enc_u16s l))
  | XCookie c => hdr 44 (enc_u16lp c)
  | XKeyShares l => hdr 51 (let? a := cat_opt (map enc_share l) in enc_u16lp a)
  | XPskModes l => hdr 45 (enc_u8lp l)
  | XPsk ids bs => hdr 41 (let? a := cat_opt (map enc_id ids) in let? a := enc_u16lp a in
                           let? b := cat_opt (map enc_u8lp bs) in let? b := enc_u16lp b in Some (a ++ b))
  | XUnknown _ => None      (* marshalMsg never emits one *)
  end.

(* the extensions marshalMsg emits for m, in its order, each with its presence test *)
Definition slots (m : clientHelloMsg) : list (bool * ext) :=
  [ (negb (is_nil (ch_serverName m)), XSni (ch_serverName m));                       (* :116 *)
    (negb (is_nil (ch_supportedPoints m)), XPoints (ch_supportedPoints m));          (* :128 *)
    (ch_ticketSupported m, XTicket (ch_sessionTicket m));                            (* :137 *)
    (ch_secureRenegotiationSupported m, XReneg (ch_secureRenegotiation m));          (* :144 *)
    (ch_extendedMasterSecret m, XEms);                                               (* :153 *)
    (ch_scts m, XSct);                                                               (* :158 *)
    (ch_earlyData m, XEarly);                                                        (* :163 *)
    (match ch_quicTransportParameters m with Some _ => true | None => false end,     (* :168 != nil *)
      XQuic (match ch_quicTransportParameters m with Some d => d | None => [] end));
    (negb (is_nil (ch_encryptedClientHello m)), XEch (ch_encryptedClientHello m));   (* :175 *)
    (ch_ocspStapling m, XStatus true);                                               (* :186 *)
    (negb (is_nil (ch_supportedCurves m)), XCurves (ch_supportedCurves m));          (* :199 *)
    (negb (is_nil (ch_supportedSignatureAlgorithms m)), XSigAlgs (ch_supportedSignatureAlgorithms m));            (* :214 *)
    (negb (is_nil (ch_supportedSignatureAlgorithmsCert m)), XSigAlgsCert (ch_supportedSignatureAlgorithmsCert m)); (* :229 *)
    (negb (is_nil (ch_alpnProtocols m)), XAlpn (ch_alpnProtocols m));                (* :244 *)
    (negb (is_nil (ch_supportedVersions m)), XVersions (ch_supportedVersions m));    (* :261 *)
    (negb (is_nil (ch_cookie m)), XCookie (ch_cookie m));                            (* :276 *)
    (negb (is_nil (elems (ch_keyShares m))), XKeyShares (elems (ch_keyShares m)));   (* :289 *)
    (negb (is_nil (ch_pskModes m)), XPskModes (ch_pskModes m));                      (* :307 *)
    (negb (is_nil (elems (ch_pskIdentities m))), XPsk (elems (ch_pskIdentities m)) (ch_pskBinders m)) ].  (* :345 last *)
Definition present (m : clientHelloMsg) : list ext := map snd (filter fst (slots m)).

Definition marshalMsg_opt (m : clientHelloMsg) : option bytes :=
    let? extBytes := cat_opt (map enc_ext (present m)) in                            (* :366 *)
    let? r := (if (length (ch_random m) =? 32)%nat then Some (ch_random m) else None) in   (* :375 addBytesWithLength *)
    let? sid := enc_u8lp (ch_sessionId m) in
    let? cs := enc_u16lp (enc_u16s (ch_cipherSuites m)) in
    let? comp := enc_u8lp (ch_compressionMethods m) in
    let? eb := (if is_nil extBytes then Some [] else enc_u16lp extBytes) in          (* :390 *)
    let? body := enc_u24lp (enc_u16 (ch_vers m) ++ r ++ sid ++ cs ++ comp ++ eb) in
    Some (1 :: body).
Definition marshalMsg (m : clientHelloMsg) : res bytes :=
  match marshalMsg_opt m with Some b => Ok b | None => Err 1 end.

(* clientHelloMsg.marshal (:400-408) *)
Definition marshal (m : clientHelloMsg) : res bytes :=
  match ch_original m with Some o => Ok o | None => marshalMsg m end.

(* u_public.go:483-495 *)
Definition UnmarshalClientHello (data : bytes) : option PubClientHelloMsg := ch_getPublicPtr (unmarshal data).
Definition Marshal (c : PubClientHelloMsg) : res bytes := marshal (CH_private_of c).
Definition CH_clear_raw (c : PubClientHelloMsg) : PubClientHelloMsg :=
  {| CH_Raw := None; CH_Vers := CH_Vers c; CH_Random := CH_Random c; CH_SessionId := CH_SessionId c;
     CH_CipherSuites := CH_CipherSuites c; CH_CompressionMethods := CH_CompressionMethods c; CH_NextProtoNeg := CH_NextProtoNeg c;
     CH_ServerName := CH_ServerName c; CH_OcspStapling := CH_OcspStapling c; CH_Scts := CH_Scts c; CH_Ems := CH_Ems c;
     CH_SupportedCurves := CH_SupportedCurves c; CH_SupportedPoints := CH_SupportedPoints c;
     CH_TicketSupported := CH_TicketSupported c; CH_SessionTicket := CH_SessionTicket c;
     CH_SupportedSignatureAlgorithms := CH_SupportedSignatureAlgorithms c; CH_SecureRenegotiation := CH_SecureRenegotiation c;
     CH_SecureRenegotiationSupported := CH_SecureRenegotiationSupported c; CH_AlpnProtocols := CH_AlpnProtocols c;
     CH_SupportedSignatureAlgorithmsCert := CH_SupportedSignatureAlgorithmsCert c; CH_SupportedVersions := CH_SupportedVersions c;
     CH_Cookie := CH_Cookie c; CH_KeyShares := CH_KeyShares c; CH_EarlyData := CH_EarlyData c; CH_PskModes := CH_PskModes c;
     CH_PskIdentities := CH_PskIdentities c; CH_PskBinders := CH_PskBinders c;
     CH_QuicTransportParameters := CH_QuicTransportParameters c; CH_cachedPrivateHello := CH_cachedPrivateHello c;
     CH_encryptedClientHello := CH_encryptedClientHello c |}.

(* the field values the property compares after the second parse: every public field but Raw and the cache pointer *)
Definition CH_values (c : PubClientHelloMsg) :=
  (CH_Vers c, CH_Random c, CH_SessionId c, CH_CipherSuites c, CH_CompressionMethods c, CH_NextProtoNeg c,
   CH_ServerName c, CH_OcspStapling c, CH_Scts c, CH_Ems c, CH_SupportedCurves c, CH_SupportedPoints c, CH_TicketSupported c,
   CH_SessionTicket c, CH_SupportedSignatureAlgorithms c, CH_SecureRenegotiation c, CH_SecureRenegotiationSupported c,
   CH_AlpnProtocols c, CH_SupportedSignatureAlgorithmsCert c, CH_SupportedVersions c, CH_Cookie c, elems (CH_KeyShares c),
   CH_EarlyData c, CH_PskModes c, elems (CH_PskIdentities c), CH_PskBinders c, CH_QuicTransportParameters c,
   CH_encryptedClientHello c).

(* ---------- decidable well-formedness of field values (premise of the marshal -> parse theorem); the
   correspondence check evaluates it on the result of every accepted parse ---------- *)
Definition nonnilb {A} (l : list A) : bool := negb (is_nil l).
Definition u16_okb (x : N) : bool := x <? 65536.
Definition share_okb (k : keyShare) : bool := (ks_group k <? 65536) && nonnilb (ks_data k).
Definition id_okb (p : pskIdentity) : bool := (pi_obfuscatedTicketAge p <? 4294967296) && nonnilb (pi_label p).
Definition wf_extb (x : ext) : bool :=
  match x with
  | XSni n => nonnilb n && negb (last n 0 =? 46)
  | XStatus b => b
  | XCurves l | XSigAlgs l | XSigAlgsCert l | XVersions l => nonnilb l && forallb u16_okb l
  | XPoints p => nonnilb p
  | XCookie c => nonnilb c
  | XAlpn l => nonnilb l && forallb nonnilb l
  | XKeyShares l => forallb share_okb l
  | XPsk ids bs => nonnilb ids && forallb id_okb ids && nonnilb bs && forallb nonnilb bs
  | XUnknown _ => false
  | _ => true
  end.
(* what each decoder guarantees about its result (weaker than wf_extb: emptiness is allowed where the decoder allows it) *)
Definition sni_pre (n : bytes) : bool := is_nil n || negb (last n 0 =? 46).
Definition pre_wfb (x : ext) : bool :=
  match x with
  | XSni n => sni_pre n
  | XCurves l | XSigAlgs l | XSigAlgsCert l | XVersions l => nonnilb l && forallb u16_okb l
  | XPoints p => nonnilb p
  | XCookie c => nonnilb c
  | XAlpn l => nonnilb l && forallb nonnilb l
  | XKeyShares l => forallb share_okb l
  | XPsk ids bs => nonnilb ids && forallb id_okb ids && nonnilb bs && forallb nonnilb bs
  | _ => true
  end.
Definition is_some_nil {A} (s : slice A) : bool := match s with Some [] => true | _ => false end.
Definition canonb (m : clientHelloMsg) : bool :=
  (ch_ticketSupported m || is_nil (ch_sessionTicket m)) &&
  (ch_secureRenegotiationSupported m || is_nil (ch_secureRenegotiation m)) &&
  (negb (existsb (N.eqb scsv) (ch_cipherSuites m)) || ch_secureRenegotiationSupported m) &&
  (nonnilb (elems (ch_pskIdentities m)) || is_nil (ch_pskBinders m)) &&
  negb (is_some_nil (ch_keyShares m)) && negb (is_some_nil (ch_pskIdentities m)) && negb (ch_nextProtoNeg m).
Definition wf_msgb (m : clientHelloMsg) : bool :=
  canonb m && forallb wf_extb (present m) && (ch_vers m <? 65536) && forallb u16_okb (ch_cipherSuites m).

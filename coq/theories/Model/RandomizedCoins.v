(* The table of coin-flip sites of generateRandomizedSpec (u_parrots.go:2949-3157): one row per
   `FlipWeightedCoin(id.Weights.X)` site (plus the removeRandomCiphers call, whose coins are a
   family), in source order. Definitions only; the statement about the rows ([coin_ok]) and its
   proofs are in Proofs/RandomizedC.v and RandomizedT.v. Kept free of proof libraries so that the
   correspondence checker (CCoins case) loads quickly. *)
From UV Require Import Base.Common Model.Prng Model.Randomized.
Open Scope N_scope.

(* weights field by struct index (u_common.go:671) *)
Definition wfield (i : N) (w : weights) : fw :=
  match i with
  | 0 => w_alpn w | 1 => w_tls13 w | 2 => w_rmciphers w | 3 => w_ecdsa_sha1 w | 4 => w_p521_sha512 w
  | 5 => w_pss256 w | 6 => w_pss384_512 w | 7 => w_x25519 w | 8 => w_p521 w | 9 => w_padding w
  | 10 => w_status w | 11 => w_sct w | 12 => w_reneg w | 13 => w_ems w | 14 => w_ks_p256 w
  | 15 => w_ks_random w | _ => w_alps w
  end.

Definition is13 (p : spec) : Prop := sp_max p = VersionTLS13.
Definition sig_has (x : N) (p : spec) : Prop := exists a, In (ESigAlgs a) (sp_exts p) /\ In x a.
Definition grp_has (x : N) (p : spec) : Prop := exists g, In (ECurves g) (sp_exts p) /\ In x g.
Definition x25519_share (p : spec) : Prop := exists k, In (EKeyShare k) (sp_exts p) /\ In X25519 k.
(* number of suites when removeRandomCiphers removes nothing *)
Definition full_len (tb : table) (p : spec) : nat :=
  if sp_max p =? VersionTLS13 then length (removeRC4Ciphers (t_tls13 tb ++ map sr_id (t_suites tb)))
  else length (t_suites tb).

Record coin := {
  c_line : N;                                     (* u_parrots.go line of the FlipWeightedCoin call *)
  c_field : N;                                    (* index of id.Weights.X *)
  c_feature : table -> variant -> spec -> Prop;   (* what the coin switches on, read off the generated spec *)
  c_forced : variant -> spec -> Prop;             (* when the feature is present whatever the coin says *)
  c_app : variant -> spec -> Prop }.              (* when a true coin makes the feature present *)

Definition coin_alpn := {| c_line := 2980; c_field := 0;
  c_feature := fun _ _ p => exists q, In (EALPN q) (sp_exts p);
  c_forced := fun v _ => v = VALPN; c_app := fun v _ => v = VRandomized |}.
Definition coin_tls13 := {| c_line := 2995; c_field := 1;
  c_feature := fun _ _ p => is13 p; c_forced := fun _ _ => False; c_app := fun _ _ => True |}.
Definition coin_rm := {| c_line := 3171; c_field := 2;     (* one coin per suite after the first, weight w*i/len: never certain *)
  c_feature := fun tb _ p => length (sp_ciphers p) <> full_len tb p;
  c_forced := fun _ _ => False; c_app := fun _ _ => False |}.
Definition coin_ecdsa_sha1 := {| c_line := 3029; c_field := 3;
  c_feature := fun _ _ p => sig_has ECDSAWithSHA1 p; c_forced := fun _ _ => False; c_app := fun _ _ => True |}.
Definition coin_p521_sha512 := {| c_line := 3032; c_field := 4;
  c_feature := fun _ _ p => sig_has ECDSAWithP521AndSHA512 p; c_forced := fun _ _ => False; c_app := fun _ _ => True |}.
Definition coin_pss256 := {| c_line := 3035; c_field := 5;
  c_feature := fun _ _ p => sig_has PSSWithSHA256 p; c_forced := fun _ p => is13 p; c_app := fun _ _ => True |}.
Definition coin_pss384_512 := {| c_line := 3038; c_field := 6;   (* flipped only when PSSWithSHA256 was appended *)
  c_feature := fun _ _ p => sig_has PSSWithSHA384 p /\ sig_has PSSWithSHA512 p;
  c_forced := fun _ _ => False; c_app := fun _ p => sig_has PSSWithSHA256 p |}.
Definition coin_mlkem_group := {| c_line := 3056; c_field := 7;   (* `&& TLSVersMax == VersionTLS13` *)
  c_feature := fun _ _ p => grp_has X25519MLKEM768 p; c_forced := fun _ _ => False; c_app := fun _ p => is13 p |}.
Definition coin_x25519 := {| c_line := 3059; c_field := 7;
  c_feature := fun _ _ p => grp_has X25519 p; c_forced := fun _ p => is13 p; c_app := fun _ _ => True |}.
Definition coin_p521 := {| c_line := 3063; c_field := 8;
  c_feature := fun _ _ p => grp_has CurveP521 p; c_forced := fun _ _ => False; c_app := fun _ _ => True |}.
Definition coin_padding := {| c_line := 3089; c_field := 9;
  c_feature := fun _ _ p => In EPadding (sp_exts p); c_forced := fun _ p => is13 p; c_app := fun _ _ => True |}.
Definition coin_status := {| c_line := 3094; c_field := 10;
  c_feature := fun _ _ p => In EStatus (sp_exts p); c_forced := fun _ _ => False; c_app := fun _ _ => True |}.
Definition coin_sct := {| c_line := 3097; c_field := 11;
  c_feature := fun _ _ p => In ESCT (sp_exts p); c_forced := fun _ _ => False; c_app := fun _ _ => True |}.
Definition coin_reneg := {| c_line := 3100; c_field := 12;
  c_feature := fun _ _ p => exists m, In (EReneg m) (sp_exts p); c_forced := fun _ _ => False; c_app := fun _ _ => True |}.
Definition coin_ems := {| c_line := 3103; c_field := 13;
  c_feature := fun _ _ p => In EEMS (sp_exts p); c_forced := fun _ _ => False; c_app := fun _ _ => True |}.
Definition coin_ks_p256 := {| c_line := 3110; c_field := 14;      (* TLS 1.3 only *)
  c_feature := fun _ _ p => In (EKeyShare [CurveP256]) (sp_exts p); c_forced := fun _ _ => False; c_app := fun _ p => is13 p |}.
Definition coin_ks_extra_p256 := {| c_line := 3113; c_field := 15;   (* only when the first share stayed X25519 *)
  c_feature := fun _ _ p => exists k, In (EKeyShare k) (sp_exts p) /\ In X25519 k /\ In CurveP256 k;
  c_forced := fun _ _ => False; c_app := fun _ p => x25519_share p |}.
Definition coin_ks_mlkem := {| c_line := 3116; c_field := 15;
  c_feature := fun _ _ p => exists k, In (EKeyShare k) (sp_exts p) /\ In X25519MLKEM768 k;
  c_forced := fun _ _ => False; c_app := fun _ p => x25519_share p |}.
Definition coin_alps := {| c_line := 3141; c_field := 16;         (* salted PRNG; TLS 1.3 with ALPN only *)
  c_feature := fun _ _ p => exists q, In (EALPS q) (sp_exts p);
  c_forced := fun _ _ => False; c_app := fun _ p => is13 p /\ exists q, In (EALPN q) (sp_exts p) |}.

(* in the order the source mentions id.Weights.X *)
Definition coins : list coin :=
  [coin_alpn; coin_tls13; coin_rm; coin_ecdsa_sha1; coin_p521_sha512; coin_pss256; coin_pss384_512;
   coin_mlkem_group; coin_x25519; coin_p521; coin_padding; coin_status; coin_sct; coin_reneg; coin_ems;
   coin_ks_p256; coin_ks_extra_p256; coin_ks_mlkem; coin_alps].


(* Model of the session-ticket machinery of /repo:
     SessionState.Bytes            ticket.go:107-172   (state_bytes)
     marshalCertificate            handshake_messages.go:1525-1560 (marshal_certificate)
     unmarshalCertificate          handshake_messages.go:1580-1638 (unmarshal_certificate)
     ParseSessionState             ticket.go:183-291   (parse_state)
     Config.EncryptTicket/encryptTicket   ticket.go:311-347
     Config.DecryptTicket/decryptTicket   ticket.go:353-401
     Config.ticketKeyFromBytes     common.go:958-968
     Config.initLegacySessionTicketKeyRLocked / ticketKeys / SetSessionTicketKeys  common.go:1032-1151
     TicketKeyFromBytes, TicketKey.ToPrivate/ToPublic   u_public.go:814-840
     MakeClientSessionState and setters                 u_public.go:681-801
   Certificates are opaque byte strings (x509.ParseCertificate is the Section
   variable x509ok; a parsed certificate is identified with its Raw bytes, which
   is what globalCertCache.newCert keys on).  nil and empty []byte are
   identified except where the code tests for nil (ocspResponse, scts: option).
   HMAC-SHA256, AES-CTR and SHA-512 are Section variables.
   Executable definitions only; proofs are in Proofs/TicketP.v.
   The big-endian / length-prefix helpers are local to this file on purpose
   (Model/Wire.v belongs to another property and is not depended on). *)
From UV Require Export Base.Common.

(* ---------- error / panic codes ---------- *)
Definition E_BUILD : N := 1.    (* cryptobyte.Builder: child length exceeds its prefix *)
Definition E_CHAIN : N := 2.    (* "tls: internal error: empty verified chain" *)
Definition E_PARSE : N := 3.    (* "tls: invalid session encoding" *)
Definition E_X509 : N := 4.     (* x509.ParseCertificate error out of globalCertCache.newCert *)
Definition E_NOCERT : N := 5.   (* "tls: no server certificates in client session" *)
Definition E_NOKEYS : N := 6.   (* "tls: internal error: session ticket keys unavailable" *)
Definition E_RAND : N := 7.     (* io.ReadFull(c.rand(), ..) failed *)
Definition P_NOKEYS : N := 1.   (* panic("tls: keys must have at least one key") *)
Definition P_RAND : N := 2.     (* panic("... unable to generate random session ticket key") *)

(* ---------- cryptobyte.Builder side ---------- *)
Definition be16 (x : N) : bytes := [u8 (x / 256); u8 x].
Definition be24 (x : N) : bytes := [u8 (x / 65536); u8 (x / 256); u8 x].
Definition be32 (x : N) : bytes := [u8 (x / 16777216); u8 (x / 65536); u8 (x / 256); u8 x].
(* addUint64, handshake_messages.go:37: AddUint32(uint32(v>>32)); AddUint32(uint32(v)) *)
Definition be64 (x : N) : bytes := be32 (u32 (x / 4294967296)) ++ be32 (u32 x).

Definition blen (b : bytes) : N := N.of_nat (length b).

(* AddUintNLengthPrefixed: the child is built first, then its length is checked against the prefix width *)
Definition lp8 (body : res bytes) : res bytes :=
  do b <- body; if blen b <? 256 then Ok (u8 (blen b) :: b) else Err E_BUILD.
Definition lp16 (body : res bytes) : res bytes :=
  do b <- body; if blen b <? 65536 then Ok (be16 (blen b) ++ b) else Err E_BUILD.
Definition lp24 (body : res bytes) : res bytes :=
  do b <- body; if blen b <? 16777216 then Ok (be24 (blen b) ++ b) else Err E_BUILD.

(* for _, x := range l { f(x) } appending to one builder *)
Fixpoint cat_map {A} (f : A -> res bytes) (l : list A) : res bytes :=
  match l with
  | [] => Ok []
  | x :: r => do a <- f x; do b <- cat_map f r; Ok (a ++ b)
  end.

Definition b2n (b : bool) : N := if b then 1 else 0.

(* ---------- cryptobyte.String side ---------- *)
Definition rd_u8 (s : bytes) : option (N * bytes) :=
  match s with b :: r => Some (b, r) | _ => None end.
Definition rd_u16 (s : bytes) : option (N * bytes) :=
  match s with a :: b :: r => Some (a * 256 + b, r) | _ => None end.
Definition rd_u24 (s : bytes) : option (N * bytes) :=
  match s with a :: b :: c :: r => Some (a * 65536 + b * 256 + c, r) | _ => None end.
Definition rd_u32 (s : bytes) : option (N * bytes) :=
  match s with a :: b :: c :: d :: r => Some (a * 16777216 + b * 65536 + c * 256 + d, r) | _ => None end.
(* readUint64, handshake_messages.go:44 *)
Definition rd_u64 (s : bytes) : option (N * bytes) :=
  match rd_u32 s with
  | Some (hi, s1) => match rd_u32 s1 with Some (lo, s2) => Some (hi * 4294967296 + lo, s2) | None => None end
  | None => None
  end.
(* ReadBytes(n): the length is compared in N so that a hostile 24-bit length is never turned into a nat *)
Definition rd_n (n : N) (s : bytes) : option (bytes * bytes) :=
  if n <=? blen s then Some (firstn (N.to_nat n) s, skipn (N.to_nat n) s) else None.
Definition rd_lp8 (s : bytes) : option (bytes * bytes) :=
  match rd_u8 s with Some (n, r) => rd_n n r | None => None end.
Definition rd_lp16 (s : bytes) : option (bytes * bytes) :=
  match rd_u16 s with Some (n, r) => rd_n n r | None => None end.
Definition rd_lp24 (s : bytes) : option (bytes * bytes) :=
  match rd_u24 s with Some (n, r) => rd_n n r | None => None end.

Definition is_nil {A} (l : list A) : bool := match l with [] => true | _ => false end.

(* for !s.Empty() { item := rd(&s) ... append }.  Every rd consumes at least one byte, so
   fuel = length s always suffices (proved); running out of fuel is reported as None. *)
Fixpoint rd_many {A} (rd : bytes -> option (A * bytes)) (fuel : nat) (s : bytes) : option (list A) :=
  match s with
  | [] => Some []
  | _ =>
    match fuel with
    | O => None
    | S f =>
      match rd s with
      | None => None
      | Some (a, r) => match rd_many rd f r with Some l => Some (a :: l) | None => None end
      end
    end
  end.

(* ---------- SessionState ---------- *)
Record state := mkState {
  s_version : N;               (* version uint16 *)
  s_isClient : bool;
  s_suite : N;                 (* cipherSuite uint16 *)
  s_createdAt : N;             (* uint64 *)
  s_secret : bytes;
  s_extra : list bytes;        (* Extra [][]byte *)
  s_ems : bool;                (* extMasterSecret *)
  s_early : bool;              (* EarlyData *)
  s_certs : list bytes;        (* peerCertificates[i].Raw *)
  s_ocsp : option bytes;       (* ocspResponse; None = nil *)
  s_scts : option (list bytes);(* scts; None = nil *)
  s_chains : list (list bytes);(* verifiedChains[i][j].Raw, leaf included *)
  s_alpn : bytes;              (* alpnProtocol *)
  s_useBy : N;                 (* uint64 *)
  s_ageAdd : N                 (* uint32 *)
}.

Definition extensionStatusRequest : N := 5.
Definition extensionSCT : N := 18.
Definition statusTypeOCSP : N := 1.
Definition VersionTLS13 : N := 772.

(* handshake_messages.go:1531-1557: the extensions block of the leaf entry *)
Definition leaf_exts (ocsp : option bytes) (scts : option (list bytes)) : res bytes :=
  do a <- match ocsp with
          | None => Ok []
          | Some o => do st <- lp24 (Ok o);
                      do body <- lp16 (Ok (statusTypeOCSP :: st));
                      Ok (be16 extensionStatusRequest ++ body)
          end;
  do b <- match scts with
          | None => Ok []
          | Some l => do body <- lp16 (lp16 (cat_map (fun sct => lp16 (Ok sct)) l));
                      Ok (be16 extensionSCT ++ body)
          end;
  Ok (a ++ b).

Definition cert_entry (cert : bytes) (exts : res bytes) : res bytes :=
  do a <- lp24 (Ok cert); do b <- lp16 exts; Ok (a ++ b).

(* handshake_messages.go:1525 *)
Definition marshal_certificate (certs : list bytes) (ocsp : option bytes) (scts : option (list bytes)) : res bytes :=
  lp24 (match certs with
        | [] => Ok []
        | c0 :: rest =>
            do a <- cert_entry c0 (leaf_exts ocsp scts);
            do b <- cat_map (fun c => cert_entry c (Ok [])) rest;   (* i > 0: empty extensions *)
            Ok (a ++ b)
        end).

(* ticket.go:144-159: one verified chain, leaf elided *)
Definition chain_bytes (chain : list bytes) : res bytes :=
  lp24 (match chain with
        | [] => Err E_CHAIN
        | _ :: tl => cat_map (fun c => lp24 (Ok c)) tl
        end).

(* ticket.go:107 SessionState.Bytes *)
Definition state_bytes (s : state) : res bytes :=
  do secret <- lp8 (Ok (s_secret s));
  do extra <- lp24 (cat_map (fun e => lp24 (Ok e)) (s_extra s));
  do cert <- marshal_certificate (s_certs s) (s_ocsp s) (s_scts s);
  do chains <- lp24 (cat_map chain_bytes (s_chains s));
  do alpn <- (if s_early s then lp8 (Ok (s_alpn s)) else Ok []);
  Ok (be16 (s_version s) ++ [if s_isClient s then 2 else 1] ++ be16 (s_suite s) ++ be64 (s_createdAt s)
      ++ secret ++ extra ++ [b2n (s_ems s)] ++ [b2n (s_early s)] ++ cert ++ chains ++ alpn
      ++ (if s_isClient s && (VersionTLS13 <=? s_version s)
          then be64 (s_useBy s) ++ be32 (s_ageAdd s) else [])).

(* ----- unmarshalCertificate, handshake_messages.go:1580 ----- *)
(* the SCT list loop, :1618-1626: items must be non-empty *)
Definition rd_sct (s : bytes) : option (bytes * bytes) :=
  match rd_lp16 s with
  | Some (sct, r) => if is_nil sct then None else Some (sct, r)
  | None => None
  end.

(* the extensions loop of one entry, :1593-1635.  leaf = (len(certificate.Certificate) <= 1).
   A repeated status_request overwrites OCSPStaple; repeated SCT extensions append. *)
Fixpoint rd_exts (fuel : nat) (leaf : bool) (s : bytes) (ocsp : option bytes) (scts : option (list bytes))
  : option (option bytes * option (list bytes)) :=
  match s with
  | [] => Some (ocsp, scts)
  | _ =>
    match fuel with
    | O => None
    | S f =>
      match rd_u16 s with
      | None => None
      | Some (ext, s1) =>
        match rd_lp16 s1 with
        | None => None
        | Some (data, s2) =>
          if negb leaf then rd_exts f leaf s2 ocsp scts
          else if ext =? extensionStatusRequest then
            match rd_u8 data with
            | None => None
            | Some (st, d1) =>
              if negb (st =? statusTypeOCSP) then None else
              match rd_lp24 d1 with
              | None => None
              | Some (o, d2) =>
                if is_nil o then None
                else if is_nil d2 then rd_exts f leaf s2 (Some o) scts else None
              end
            end
          else if ext =? extensionSCT then
            match rd_lp16 data with
            | None => None
            | Some (lst, d1) =>
              if is_nil lst then None else
              match rd_many rd_sct (length lst) lst with
              | None => None
              | Some l =>
                if is_nil d1
                then rd_exts f leaf s2 ocsp (Some (match scts with Some l0 => l0 ++ l | None => l end))
                else None
              end
            end
          else rd_exts f leaf s2 ocsp scts
        end
      end
    end
  end.

Fixpoint rd_entries (fuel : nat) (s : bytes) (certs : list bytes) (ocsp : option bytes) (scts : option (list bytes))
  : option (list bytes * option bytes * option (list bytes)) :=
  match s with
  | [] => Some (certs, ocsp, scts)
  | _ =>
    match fuel with
    | O => None
    | S f =>
      match rd_lp24 s with
      | None => None
      | Some (cert, s1) =>
        match rd_lp16 s1 with
        | None => None
        | Some (exts, s2) =>
          let certs' := certs ++ [cert] in
          match rd_exts (length exts) (Nat.leb (length certs') 1) exts ocsp scts with
          | None => None
          | Some (ocsp', scts') => rd_entries f s2 certs' ocsp' scts'
          end
        end
      end
    end
  end.

Definition unmarshal_certificate (s : bytes) : option ((list bytes * option bytes * option (list bytes)) * bytes) :=
  match rd_lp24 s with
  | None => None
  | Some (lst, r) =>
    match rd_entries (length lst) lst [] None None with
    | Some c => Some (c, r)
    | None => None
    end
  end.

Section X509.
Variable x509ok : bytes -> bool.     (* x509.ParseCertificate succeeds *)

(* ticket.go:245-271: the verified-chains loop *)
Definition rd_cert24 (s : bytes) : option (bytes * bytes) := rd_lp24 s.

(* result: Ok chain-tail, Err E_PARSE, Err E_X509 (first failure in order) *)
Fixpoint chain_tail (fuel : nat) (s : bytes) : res (list bytes) :=
  match s with
  | [] => Ok []
  | _ =>
    match fuel with
    | O => Err E_PARSE
    | S f =>
      match rd_lp24 s with
      | None => Err E_PARSE
      | Some (c, r) =>
        if x509ok c then (do l <- chain_tail f r; Ok (c :: l)) else Err E_X509
      end
    end
  end.

Fixpoint rd_chains (fuel : nat) (certs : list bytes) (s : bytes) : res (list (list bytes)) :=
  match s with
  | [] => Ok []
  | _ =>
    match fuel with
    | O => Err E_PARSE
    | S f =>
      match rd_lp24 s with
      | None => Err E_PARSE
      | Some (cl, r) =>
        match certs with
        | [] => Err E_PARSE                       (* len(ss.peerCertificates) == 0 *)
        | leaf :: _ =>
          do tl <- chain_tail (length cl) cl;
          do rest <- rd_chains f certs r;
          Ok ((leaf :: tl) :: rest)
        end
      end
    end
  end.

Definition opt_res {A} (o : option A) : res A := match o with Some a => Ok a | None => Err E_PARSE end.
Definition guard (b : bool) (code : N) : res unit := if b then Ok tt else Err code.

(* ticket.go:183 ParseSessionState *)
Definition parse_state (data : bytes) : res state :=
  do (version, s) <- opt_res (rd_u16 data);
  do (typ, s) <- opt_res (rd_u8 s);
  do _ <- guard ((typ =? 1) || (typ =? 2)) E_PARSE;
  do (suite, s) <- opt_res (rd_u16 s);
  do (createdAt, s) <- opt_res (rd_u64 s);
  do (secret, s) <- opt_res (rd_lp8 s);
  do (extra, s) <- opt_res (rd_lp24 s);
  do (ems, s) <- opt_res (rd_u8 s);
  do (early, s) <- opt_res (rd_u8 s);
  do _ <- guard (negb (is_nil secret)) E_PARSE;
  do ((certs, ocsp, scts), s) <- opt_res (unmarshal_certificate s);
  do extras <- opt_res (rd_many rd_lp24 (length extra) extra);
  do _ <- guard ((ems =? 0) || (ems =? 1)) E_PARSE;
  do _ <- guard ((early =? 0) || (early =? 1)) E_PARSE;
  do _ <- guard (forallb x509ok certs) E_X509;
  do (chainList, s) <- opt_res (rd_lp24 s);
  do chains <- rd_chains (length chainList) certs chainList;
  do (alpn, s) <- (if early =? 1 then opt_res (rd_lp8 s) else Ok ([], s));
  let mk isClient useBy ageAdd :=
    mkState version isClient suite createdAt secret extras (ems =? 1) (early =? 1) certs ocsp scts chains alpn useBy ageAdd in
  if negb (typ =? 2) then
    (do _ <- guard (is_nil s) E_PARSE; Ok (mk false 0 0))
  else
    do _ <- guard (negb (is_nil certs)) E_NOCERT;
    if version <? VersionTLS13 then
      (do _ <- guard (is_nil s) E_PARSE; Ok (mk true 0 0))
    else
      do (useBy, s) <- opt_res (rd_u64 s);
      do (ageAdd, s) <- opt_res (rd_u32 s);
      do _ <- guard (is_nil s) E_PARSE;
      Ok (mk true useBy ageAdd).

(* The states SessionState.Bytes / ParseSessionState round-trip on (besides the length limits,
   which are expressed by state_bytes succeeding). *)
Definition chain_okb (certs : list bytes) (ch : list bytes) : bool :=
  match certs, ch with
  | leaf :: _, c0 :: tl => bytes_eqb leaf c0 && forallb x509ok tl
  | _, _ => false
  end.

Definition wf_stateb (s : state) : bool :=
  (s_version s <? 65536) && (s_suite s <? 65536) && (s_createdAt s <? 18446744073709551616)
  && negb (is_nil (s_secret s))
  && match s_ocsp s with Some o => negb (is_nil o) | None => true end
  && match s_scts s with Some l => negb (is_nil l) && forallb (fun x => negb (is_nil x)) l | None => true end
  && (if is_nil (s_certs s) then match s_ocsp s, s_scts s with None, None => true | _, _ => false end else true)
  && forallb x509ok (s_certs s)
  && forallb (chain_okb (s_certs s)) (s_chains s)
  && (s_early s || is_nil (s_alpn s))
  && (negb (s_isClient s) || negb (is_nil (s_certs s)))
  && (if s_isClient s && (VersionTLS13 <=? s_version s)
      then (s_useBy s <? 18446744073709551616) && (s_ageAdd s <? 4294967296)
      else (s_useBy s =? 0) && (s_ageAdd s =? 0)).
Definition wf_state (s : state) : Prop := wf_stateb s = true.

End X509.

(* ---------- ticket sealing ---------- *)
Record tkey := mkKey { k_aes : bytes; k_hmac : bytes }.   (* ticketKey.aesKey / hmacKey; created handled in config *)

Section Crypto.
Variable hmac : bytes -> bytes -> bytes.           (* HMAC-SHA256 key msg *)
Variable ctr : bytes -> bytes -> bytes -> bytes.   (* AES-128-CTR key iv data (XORKeyStream) *)
Variable sha512 : bytes -> bytes.
Variable x509ok : bytes -> bool.

Definition ivLen : nat := 16.    (* aes.BlockSize *)
Definition macLen : nat := 32.   (* sha256.Size *)

(* ticket.go:321 encryptTicket; iv = the 16 bytes read from c.rand() *)
Definition encrypt_ticket (keys : list tkey) (iv : bytes) (st : bytes) : res bytes :=
  match keys with
  | [] => Err E_NOKEYS
  | key :: _ =>
      let ciphertext := ctr (k_aes key) iv st in
      let authenticated := iv ++ ciphertext in
      Ok (authenticated ++ hmac (k_hmac key) authenticated)
  end.

(* ticket.go:367 decryptTicket; None = nil *)
Fixpoint try_keys (keys : list tkey) (iv ciphertext authenticated macBytes : bytes) : option bytes :=
  match keys with
  | [] => None
  | key :: rest =>
      if bytes_eqb macBytes (hmac (k_hmac key) authenticated)      (* subtle.ConstantTimeCompare == 1 *)
      then Some (ctr (k_aes key) iv ciphertext)
      else try_keys rest iv ciphertext authenticated macBytes
  end.

Definition decrypt_ticket (keys : list tkey) (encrypted : bytes) : option bytes :=
  if (length encrypted <? ivLen + macLen)%nat then None else
  let n := length encrypted in
  let iv := firstn ivLen encrypted in
  let ciphertext := skipn ivLen (firstn (n - macLen) encrypted) in
  let authenticated := firstn (n - macLen) encrypted in
  let macBytes := skipn (n - macLen) encrypted in
  try_keys keys iv ciphertext authenticated macBytes.

(* ticket.go:311 / :353 with the key list already selected *)
Definition EncryptTicket (keys : list tkey) (iv : bytes) (s : state) : res bytes :=
  do b <- state_bytes s; encrypt_ticket keys iv b.

Definition DecryptTicket (keys : list tkey) (t : bytes) : option state :=
  match decrypt_ticket keys t with
  | None => None
  | Some pt => match parse_state x509ok pt with Ok s => Some s | _ => None end
  end.

(* common.go:958 ticketKeyFromBytes *)
Definition ticket_key_from_bytes (b : bytes) : tkey :=
  let hashed := sha512 b in
  mkKey (firstn 16 (skipn 16 hashed)) (firstn 16 (skipn 32 hashed)).

(* u_public.go:814-840 *)
Record TicketKey := mkTK { AesKey : bytes; HmacKey : bytes }.
Definition to_public (k : tkey) : TicketKey := mkTK (k_aes k) (k_hmac k).
Definition to_private (K : TicketKey) : tkey := mkKey (AesKey K) (HmacKey K).
Definition TicketKeyFromBytes (b : bytes) : TicketKey := to_public (ticket_key_from_bytes b).

(* ---------- Config: which keys are in force ---------- *)
(* time in seconds; created kept next to each key *)
Record config := mkCfg {
  c_disabled : bool;                 (* SessionTicketsDisabled *)
  c_stk : bytes;                     (* SessionTicketKey [32]byte *)
  c_keys : list (tkey * Z);          (* sessionTicketKeys *)
  c_auto : list (tkey * Z)           (* autoSessionTicketKeys *)
}.
Definition zero32 : bytes := repeat 0 32.
Definition deprecated : bytes := [68;69;80;82;69;67;65;84;69;68].   (* "DEPRECATED" *)
Definition new_config : config := mkCfg false zero32 [] [].
Definition ticketKeyLifetime : Z := 604800.    (* 7 days *)
Definition ticketKeyRotation : Z := 86400.     (* 24 h *)

Definition has_prefix (p s : bytes) : bool := bytes_eqb (firstn (length p) s) p.
Definition take_rand (n : nat) (rnd : bytes) : option (bytes * bytes) :=
  if (n <=? length rnd)%nat then Some (firstn n rnd, skipn n rnd) else None.

(* common.go:1137 *)
Definition set_session_ticket_keys (c : config) (now : Z) (keys : list bytes) : res config :=
  match keys with
  | [] => Panic P_NOKEYS
  | _ => Ok (mkCfg (c_disabled c) (c_stk c) (map (fun b => (ticket_key_from_bytes b, now)) keys) (c_auto c))
  end.

(* common.go:1032 initLegacySessionTicketKeyRLocked; rnd = bytes c.rand() will deliver *)
Definition init_legacy (c : config) (now : Z) (rnd : bytes) : res (config * bytes) :=
  if negb (bytes_eqb (c_stk c) zero32) && (has_prefix deprecated (c_stk c) || negb (is_nil (c_keys c)))
  then Ok (c, rnd)
  else if bytes_eqb (c_stk c) zero32 then
    match take_rand 32 rnd with
    | None => Panic P_RAND
    | Some (k, rnd') => Ok (mkCfg (c_disabled c) (deprecated ++ skipn (length deprecated) k) (c_keys c) (c_auto c), rnd')
    end
  else if negb (has_prefix deprecated (c_stk c)) && is_nil (c_keys c)
  then Ok (mkCfg (c_disabled c) (c_stk c) [(ticket_key_from_bytes (c_stk c), now)] (c_auto c), rnd)
  else Ok (c, rnd).

(* common.go:1069 ticketKeys(nil) *)
Definition ticket_keys (c : config) (now : Z) (rnd : bytes) : res (list tkey * config * bytes) :=
  if c_disabled c then Ok ([], c, rnd) else
  do (c, rnd) <- init_legacy c now rnd;
  if negb (is_nil (c_keys c)) then Ok (map fst (c_keys c), c, rnd) else
  let fresh := match c_auto c with (_, created) :: _ => (now - created <? ticketKeyRotation)%Z | [] => false end in
  if fresh then Ok (map fst (c_auto c), c, rnd) else
  match take_rand 32 rnd with
  | None => Panic P_RAND
  | Some (newKey, rnd') =>
      let valid := (ticket_key_from_bytes newKey, now)
                   :: filter (fun k => (now - snd k <? ticketKeyLifetime)%Z) (c_auto c) in
      Ok (map fst valid, mkCfg (c_disabled c) (c_stk c) (c_keys c) valid, rnd')
  end.

(* Config.EncryptTicket / Config.DecryptTicket as called on a Config (public API) *)
Definition cfg_encrypt (c : config) (now : Z) (rnd : bytes) (s : state) : res (res bytes * config * bytes) :=
  do (keys, c, rnd) <- ticket_keys c now rnd;      (* may panic; its side effects on c persist *)
  match state_bytes s with
  | Ok b =>
    match keys with
    | [] => Ok (Err E_NOKEYS, c, rnd)
    | _ =>
      match take_rand ivLen rnd with
      | None => Ok (Err E_RAND, c, [])
      | Some (iv, rnd') => Ok (encrypt_ticket keys iv b, c, rnd')
      end
    end
  | Err e => Ok (Err e, c, rnd)
  | Panic p => Panic p
  end.

Definition cfg_decrypt (c : config) (now : Z) (rnd : bytes) (t : bytes) : res (option state * config * bytes) :=
  do (keys, c, rnd) <- ticket_keys c now rnd;
  Ok (DecryptTicket keys t, c, rnd).

(* key rotation by the application: a history of SetSessionTicketKeys calls *)
Fixpoint rotate (c : config) (now : Z) (hist : list (list bytes)) : res config :=
  match hist with
  | [] => Ok c
  | ks :: r => do c' <- set_session_ticket_keys c now ks; rotate c' now r
  end.

(* ---------- a family of Configs: Config.Clone (common.go:976) ----------
   Clone copies SessionTicketsDisabled, SessionTicketKey, sessionTicketKeys and autoSessionTicketKeys; the
   slices are never written through afterwards (SetSessionTicketKeys and ticketKeys allocate fresh ones), so
   a clone is an independent VALUE: the store is a list of configs and Clone appends a copy. *)
Definition store := list config.
Fixpoint upd {A} (l : list A) (i : nat) (x : A) : list A :=
  match l, i with
  | [], _ => []
  | _ :: r, O => x :: r
  | y :: r, S i' => y :: upd r i' x
  end.
Inductive sop := SSet (i : nat) (ks : list bytes) | SClone (i : nat).
Definition E_NOCFG : N := 8.
Definition sstep (now : Z) (st : store) (op : sop) : res store :=
  match op with
  | SSet i ks =>
      match nth_error st i with
      | None => Err E_NOCFG
      | Some c => do c' <- set_session_ticket_keys c now ks; Ok (upd st i c')
      end
  | SClone i =>
      match nth_error st i with
      | None => Err E_NOCFG
      | Some c => Ok (st ++ [c])
      end
  end.
Fixpoint srun (now : Z) (st : store) (ops : list sop) : res store :=
  match ops with
  | [] => Ok st
  | op :: r => do st' <- sstep now st op; srun now st' r
  end.

End Crypto.

(* ---------- forged ClientSessionState, u_public.go:681-801 ---------- *)
Definition make_client_session_state (vers suite : N) (secret : bytes) (certs : list bytes) (chains : list (list bytes)) : state :=
  mkState vers false suite 0 secret [] false false certs None None chains [] 0 0.
Definition set_vers (s : state) (v : N) : state :=
  mkState v (s_isClient s) (s_suite s) (s_createdAt s) (s_secret s) (s_extra s) (s_ems s) (s_early s)
          (s_certs s) (s_ocsp s) (s_scts s) (s_chains s) (s_alpn s) (s_useBy s) (s_ageAdd s).
Definition set_cipher_suite (s : state) (v : N) : state :=
  mkState (s_version s) (s_isClient s) v (s_createdAt s) (s_secret s) (s_extra s) (s_ems s) (s_early s)
          (s_certs s) (s_ocsp s) (s_scts s) (s_chains s) (s_alpn s) (s_useBy s) (s_ageAdd s).
Definition set_master_secret (s : state) (v : bytes) : state :=
  mkState (s_version s) (s_isClient s) (s_suite s) (s_createdAt s) v (s_extra s) (s_ems s) (s_early s)
          (s_certs s) (s_ocsp s) (s_scts s) (s_chains s) (s_alpn s) (s_useBy s) (s_ageAdd s).
Definition set_created_at (s : state) (v : N) : state :=
  mkState (s_version s) (s_isClient s) (s_suite s) v (s_secret s) (s_extra s) (s_ems s) (s_early s)
          (s_certs s) (s_ocsp s) (s_scts s) (s_chains s) (s_alpn s) (s_useBy s) (s_ageAdd s).
Definition set_ems (s : state) (v : bool) : state :=
  mkState (s_version s) (s_isClient s) (s_suite s) (s_createdAt s) (s_secret s) (s_extra s) v (s_early s)
          (s_certs s) (s_ocsp s) (s_scts s) (s_chains s) (s_alpn s) (s_useBy s) (s_ageAdd s).
Definition set_use_by (s : state) (v : N) : state :=
  mkState (s_version s) (s_isClient s) (s_suite s) (s_createdAt s) (s_secret s) (s_extra s) (s_ems s) (s_early s)
          (s_certs s) (s_ocsp s) (s_scts s) (s_chains s) (s_alpn s) v (s_ageAdd s).
Definition set_age_add (s : state) (v : N) : state :=
  mkState (s_version s) (s_isClient s) (s_suite s) (s_createdAt s) (s_secret s) (s_extra s) (s_ems s) (s_early s)
          (s_certs s) (s_ocsp s) (s_scts s) (s_chains s) (s_alpn s) (s_useBy s) v.

(* Objects whose exported fields are edited after they were encoded once. Most
   extension types recompute everything from their fields on every call; what a
   type freezes on first use is modelled here:
     - QUICTransportParametersExtension keeps marshalResult, the encoding made by
       its first Len() (u_tls_extensions.go:1346-1350, Read goes through Len()):
       later edits of TransportParameters are not served;
     - UtlsPreSharedKeyExtension kept *cachedLength until fix C08-psk-len-after-edit;
       it now recomputes its length, like every other type, from its current fields;
     - GREASEEncryptedClientHelloExtension keeps cipherSuite/configId/payload of
       init(): EGREASEECH is that state, EncapsulatedKey stays a live field.
   Executable definitions only. *)
From UV Require Import Base.Common Model.Wire Model.Varint Model.Ext.

(* first: the value as it was when the object was first encoded; cur: its fields now *)
Definition obj_view (first cur : ext) : ext :=
  match first, cur with
  (* an empty parameter list marshals to a nil slice, which `marshalResult == nil` takes for "not yet marshalled" *)
  | EQUICTransportParameters (_ :: _), EQUICTransportParameters _ => first
  | _, _ => cur
  end.
Definition obj_len (first cur : ext) : N := ext_len (obj_view first cur).
Definition obj_read (first cur : ext) (n : N) : res bytes := ext_read (obj_view first cur) n.

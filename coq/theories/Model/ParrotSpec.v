(* Specification side of C03, written from the property text: a strict
   ClientHello parser (RFC 8446 4.1.2 framing, every length prefix exact, no
   trailing bytes, extensions as (type, body) pairs) and the boolean oracle
   [ast_matches_specb]: does a parsed hello carry what the parrot's spec
   describes, up to the per-connection material the property allows to differ?
   Executable definitions only (sext_eq_dec is derived by `decide equality`). *)
From UV Require Import Base.Common Model.Wire.
From UV Require Model.Grease Model.Marshal.
From UV Require Import Model.Ext Model.ExtSpec Model.Preset.

(* ---- strict parser ---- *)
Record ast := {
  a_vers : N;
  a_random : bytes;
  a_sid : bytes;
  a_suites : list N;
  a_comp : bytes;
  a_exts : list (N * bytes)        (* (extension_type, extension_data) in wire order *)
}.

Fixpoint parse_exts (fuel : nat) (s : bytes) : option (list (N * bytes)) :=
  match s with
  | [] => Some []
  | _ =>
    match fuel with
    | O => None
    | S k =>
      match read_u16 s with
      | None => None
      | Some (id, s1) =>
        match read_u16lp s1 with
        | None => None
        | Some (body, s2) =>
          match parse_exts k s2 with Some l => Some ((id, body) :: l) | None => None end
        end
      end
    end
  end.

Definition parse_hello (raw : bytes) : option ast :=
  obind (read_u8 raw) (fun '(t, s0) => if negb (t =? 1) then None else
  obind (read_u24lp s0) (fun '(body, rest) => if negb (empty rest) then None else
  obind (read_u16 body) (fun '(vers, s1) =>
  obind (read_bytes 32 s1) (fun '(random, s2) =>
  obind (read_u8lp s2) (fun '(sid, s3) =>
  obind (read_u16lp s3) (fun '(sb, s4) =>
  obind (read_u16s sb) (fun suites =>
  obind (read_u8lp s4) (fun '(comp, s5) =>
  let mk exts := {| a_vers := vers; a_random := random; a_sid := sid; a_suites := suites;
                    a_comp := comp; a_exts := exts |} in
  if empty s5 then Some (mk []) else
  obind (read_u16lp s5) (fun '(eb, s6) => if negb (empty s6) then None else
  obind (parse_exts (length eb) eb) (fun exts => Some (mk exts))))))))))).

(* ---- the oracle ---- *)

Fixpoint list_match {A B} (f : A -> B -> bool) (l1 : list A) (l2 : list B) : bool :=
  match l1, l2 with
  | [], [] => true
  | x :: r1, y :: r2 => f x y && list_match f r1 r2
  | _, _ => false
  end.

(* a GREASE slot of the spec carries some GREASE value; anything else is carried verbatim *)
Definition gmatch (s w : N) : bool := if Grease.is_grease s then Grease.is_grease w else s =? w.

(* "spec maximum": TLSVersMax, or when the spec leaves both bounds 0 the highest
   non-GREASE entry of its supported_versions extension (TLS 1.2 without one) *)
Definition spec_versions (es : list sext) : option (list N) :=
  match find (fun s => match s with SExt (ESupportedVersions _) => true | _ => false end) es with
  | Some (SExt (ESupportedVersions vs)) => Some vs
  | _ => None
  end.
Definition spec_max (sp : spec) : N :=
  if (sp_min sp =? 0) && (sp_max sp =? 0) then
    match spec_versions (sp_exts sp) with
    | Some vs => fold_right N.max 0 (filter (fun v => negb (Grease.is_grease v)) vs)
    | None => 771
    end
  else sp_max sp.

(* length of the public share of a group (RFC 8446 4.2.8.2, RFC 7748, draft-kwiatkowski-tls-ecdhe-mlkem) *)
Definition group_share_len (g : N) : option N :=
  if g =? 29 then Some 32 else if g =? 23 then Some 65 else if g =? 24 then Some 97
  else if g =? 25 then Some 133 else if (g =? 4588) || (g =? 25497) then Some 1216 else None.

Fixpoint parse_shares (fuel : nat) (s : bytes) : option (list (N * bytes)) :=
  match s with
  | [] => Some []
  | _ =>
    match fuel with
    | O => None
    | S k =>
      match read_u16 s with
      | None => None
      | Some (g, s1) =>
        match read_u16lp s1 with
        | None => None
        | Some (d, s2) =>
          match parse_shares k s2 with Some l => Some ((g, d) :: l) | None => None end
        end
      end
    end
  end.

(* key-share entry: GREASE group <-> GREASE group with the spec's dummy data; a real group keeps key
   data the spec fixes (more than one byte) and otherwise carries a fresh key of the group's size *)
Definition share_match (s w : N * bytes) : bool :=
  let '(g, d) := s in let '(g', d') := w in
  if Grease.is_grease g then Grease.is_grease g' && bytes_eqb d d'
  else (g =? g') &&
       (if 1 <? blen d then bytes_eqb d d'
        else match group_share_len g with Some n => blen d' =? n | None => false end).

Definition mem_N (x : N) (l : list N) : bool := existsb (N.eqb x) l.

(* GREASE ECH body (draft-ietf-tls-esni): type outer, suite among the candidates, config id among
   the candidates (any byte when there are none), the spec's encapsulated key or a fresh 32-byte one,
   payload of a candidate length plus the 16-byte AEAD tag *)
Definition ech_body_ok (suites : list (N * N)) (cfgids enc : bytes) (plens : list N) (body : bytes) : bool :=
  match body with
  | 0 :: r =>
    match obind (read_u16 r) (fun '(kdf, r1) => obind (read_u16 r1) (fun '(aead, r2) =>
          obind (read_u8 r2) (fun '(cfgid, r3) => obind (read_u16lp r3) (fun '(e, r4) =>
          obind (read_u16lp r4) (fun '(p, r5) => Some (kdf, aead, cfgid, e, p, r5)))))) with
    | Some (kdf, aead, cfgid, e, p, r5) =>
        empty r5
        && (match suites with
            | [] => (kdf =? 1) && (aead =? 1)
            | _ => existsb (fun s => (fst s =? kdf) && (snd s =? aead)) suites
            end)
        && (match cfgids with [] => true | _ => mem_N cfgid cfgids end)
        && (if empty enc then blen e =? 32 else bytes_eqb e enc)
        && (16 <=? blen p)
        && (match plens with [] => blen p - 16 =? 128 | _ => mem_N (blen p - 16) plens end)
    | None => false
    end
  | _ => false
  end.

Definition u16_list_of (body : bytes) : option (list N) :=
  match read_u16lp body with Some (v, []) => read_u16s v | _ => None end.
Definition u16_list8_of (body : bytes) : option (list N) :=
  match read_u8lp body with Some (v, []) => read_u16s v | _ => None end.
Definition shares_of (body : bytes) : option (list (N * bytes)) :=
  match read_u16lp body with Some (v, []) => parse_shares (length v) v | _ => None end.

(* one wire extension against one spec extension. The reference rendering of a spec
   extension's fields is ExtSpec.ext_body (the RFC layouts in length-prefix combinators). *)
Definition ext_matches (c : cfg) (s : sext) (w : N * bytes) : bool :=
  let '(id, body) := w in
  match s with
  | SGreaseECH su ci en pl => (id =? ID_ECH) && ech_body_ok su ci en pl body
  | SExt e =>
    match e with
    | EGREASE _ b => Grease.is_grease id && bytes_eqb body b             (* code point: per connection *)
    | ESNI host =>                                                      (* value: the configured name *)
        (id =? ID_SNI) && bytes_eqb body (ext_body (ESNI (if empty host then c_sni c else host)))
    | ESupportedCurves cs =>
        (id =? ID_CURVES) && match u16_list_of body with Some l => list_match gmatch cs l | None => false end
    | ESupportedVersions vs =>
        (id =? ID_VERSIONS) && match u16_list8_of body with Some l => list_match gmatch vs l | None => false end
    | EKeyShare ks =>
        (id =? ID_KEY_SHARE) && match shares_of body with Some l => list_match share_match ks l | None => false end
    | EPadding _ _ _ => (id =? ID_PADDING) && forallb (N.eqb 0) body   (* length: per connection *)
    | EUtlsPreSharedKey _ _ _ _ _ | EFakePreSharedKey _ _ _ => id =? ID_PSK   (* identities/binders: per connection *)
    | _ => (id =? ext_id e) && bytes_eqb body (ext_body e)
    end
  end.

(* must the extension be on the wire? SNI is left out when there is no DNS name to
   send; padding depends on the length; pre_shared_key needs a session *)
Inductive presence := Must | MustNot | May.
Definition presence_of (c : cfg) (s : sext) : presence :=
  match s with
  | SExt (ESNI host) => if empty host && empty (c_sni c) then MustNot else Must
  | SExt (EPadding _ _ _) => May
  | SExt (EUtlsPreSharedKey _ _ _ _ _) | SExt (EFakePreSharedKey _ _ _) => May
  | _ => Must
  end.

(* GREASE extensions: ApplyPreset (u_parrots.go:2862, as BoringSSL does) gives the SECOND one a
   one-byte body 0x00 whatever the spec's placeholder holds; the first keeps the spec's body *)
Fixpoint expect_exts (seen : nat) (es : list sext) : list sext :=
  match es with
  | [] => []
  | SExt (EGREASE v b) :: r =>
      SExt (EGREASE v (match seen with S O => [0] | _ => b end)) :: expect_exts (S seen) r
  | s :: r => s :: expect_exts seen r
  end.

(* the wire sequence against the spec sequence *)
Fixpoint seq_match (c : cfg) (ss : list sext) (ws : list (N * bytes)) : bool :=
  match ss with
  | [] => match ws with [] => true | _ => false end
  | s :: ss' =>
    match presence_of c s with
    | MustNot => seq_match c ss' ws
    | Must => match ws with w :: ws' => ext_matches c s w && seq_match c ss' ws' | [] => false end
    | May => match ws with
             | w :: ws' => (ext_matches c s w && seq_match c ss' ws') || seq_match c ss' ws
             | [] => seq_match c ss' []
             end
    end
  end.

(* ---- shuffling parrots: same multiset, GREASE / padding / pre_shared_key at their spec positions ---- *)
Definition fixedb (s : sext) : bool :=
  match s with
  | SExt (EGREASE _ _) | SExt (EPadding _ _ _)
  | SExt (EUtlsPreSharedKey _ _ _ _ _) | SExt (EFakePreSharedKey _ _ _) => true
  | _ => false
  end.
Definition sext_id (s : sext) : N :=
  match s with SExt e => ext_id e | SGreaseECH _ _ _ _ => ID_ECH end.

(* put [pool] into the non-fixed slots of [l], in order *)
Fixpoint refill (l pool : list sext) : list sext :=
  match l with
  | [] => []
  | s :: r =>
    if fixedb s then s :: refill r pool
    else match pool with x :: pool' => x :: refill r pool' | [] => s :: refill r [] end
  end.

Fixpoint nodup_N (l : list N) : bool :=
  match l with [] => true | x :: r => negb (mem_N x r) && nodup_N r end.

(* the rearrangement of the spec list (non-fixed entries only) that follows the wire order;
   entries absent from the wire go last *)
Definition arrange (l : list sext) (ws : list (N * bytes)) : list sext :=
  let nf := filter (fun s => negb (fixedb s)) l in
  let seen := flat_map (fun w => filter (fun s => sext_id s =? fst w) nf) ws in
  let missing := filter (fun s => negb (mem_N (sext_id s) (map fst ws))) nf in
  refill l (seen ++ missing).

Definition shuffle_match (c : cfg) (l : list sext) (ws : list (N * bytes)) : bool :=
  let nf := filter (fun s => negb (fixedb s)) l in
  nodup_N (map sext_id nf) &&
  nodup_N (filter (fun i => negb (Grease.is_grease i)) (map fst ws)) &&
  seq_match c (expect_exts 0 (arrange l ws)) ws.

Definition ast_matches_specb (a : ast) (p : parrot) (c : cfg) : bool :=
  let sp := p_spec p in
  (a_vers a =? N.min (spec_max sp) 771)                       (* legacy_version = min(spec maximum, TLS 1.2) *)
  && (blen (a_random a) =? 32)                                 (* client random: per connection *)
  && (blen (a_sid a) =? 32)                                    (* session id: per connection *)
  && list_match gmatch (sp_suites sp) (a_suites a)             (* the spec's cipher suites, GREASE slots *)
  && bytes_eqb (a_comp a) (sp_comp sp)                         (* the spec's compression methods *)
  && (if p_shuffles p then shuffle_match c (sp_exts sp) (a_exts a)
      else seq_match c (expect_exts 0 (sp_exts sp)) (a_exts a)).

(* ---- well-formed regenerated table entry ---- *)
Definition sext_eq_dec : forall a b : sext, {a = b} + {a <> b}.
Proof.
  assert (HN : forall a b : N, {a = b} + {a <> b}) by exact N.eq_dec.
  assert (HB : forall a b : bytes, {a = b} + {a <> b}) by (apply list_eq_dec; exact HN).
  assert (Hb : forall a b : bool, {a = b} + {a <> b}) by exact Bool.bool_dec.
  assert (HLN : forall a b : list N, {a = b} + {a <> b}) by exact HB.
  assert (HLB : forall a b : list bytes, {a = b} + {a <> b}) by (apply list_eq_dec; exact HB).
  assert (HNB : forall a b : N * bytes, {a = b} + {a <> b}) by (decide equality).
  assert (HNN : forall a b : N * N, {a = b} + {a <> b}) by (decide equality).
  assert (HLNB : forall a b : list (N * bytes), {a = b} + {a <> b}) by (apply list_eq_dec; exact HNB).
  assert (HLNN : forall a b : list (N * N), {a = b} + {a <> b}) by (apply list_eq_dec; exact HNN).
  assert (HBN : forall a b : bytes * N, {a = b} + {a <> b}) by (decide equality).
  assert (HLBN : forall a b : list (bytes * N), {a = b} + {a <> b}) by (apply list_eq_dec; exact HBN).
  assert (HO : forall a b : option N, {a = b} + {a <> b}) by (decide equality).
  assert (HP : forall a b : pad_policy, {a = b} + {a <> b}) by (decide equality).
  assert (HE : forall a b : ext, {a = b} + {a <> b}).
  { decide equality; try apply HLNB; try apply HLBN; try apply HLB; try apply HB; try apply HN; try apply Hb; try apply HO; try apply HP. }
  decide equality.
Defined.
Definition sext_eqb (a b : sext) : bool := if sext_eq_dec a b then true else false.

(* a later UTLSIdToSpec call [d] against the first one [l]: same length, the fixed entries in
   place and identical, every other entry of [l] somewhere in [d] *)
Definition draw_ok (l d : list sext) : bool :=
  (length l =? length d)%nat
  && list_match (fun a b => if fixedb a || fixedb b then sext_eqb a b else true) l d
  && forallb (fun s => fixedb s || existsb (sext_eqb s) d) l
  && nodup_N (map sext_id (filter (fun s => negb (fixedb s)) d)).

Definition count_grease (es : list sext) : nat :=
  length (filter (fun s => match s with SExt (EGREASE _ _) => true | _ => false end) es).

Definition wf_sext (s : sext) : bool :=
  match s with
  | SExt e =>
      (* the OmitEmptyPsk flag of the spec value is overwritten from the Config (syncSessionExts) *)
      wf_ext (match e with
              | EUtlsPreSharedKey s cl _ ids bs => EUtlsPreSharedKey s cl true ids bs
              | EFakePreSharedKey _ ids bs => EFakePreSharedKey true ids bs
              | _ => e end)
      && negb (pad_other e) &&
      match e with
      | ESNI host => (blen host <? 256) && negb (last host 0 =? 46)
      | EGREASE _ b => blen b <? 1024                  (* Value is overwritten by ApplyPreset *)
      | EKeyShare ks =>
          forallb (fun k => Grease.is_grease (fst k) || (1 <? blen (snd k))
                            || match key_size (fst k) with Some _ => true | None => false end) ks
      | EPadding _ w _ => negb w
      | EQUICTransportParameters _ => false
      | _ => true
      end
  | SGreaseECH su ci en pl =>
      forallb (fun s => (fst s <? 65536) && ech_aead_ok (snd s)) su
      && forallb (fun b => b <? 256) ci && (blen en <? 1024) && forallb (fun l => l <? 1024) pl
  end.

(* static size of the extension block without SNI value, padding and key material *)
Definition static_len (s : sext) : N :=
  match s with
  | SExt (EPadding _ _ _) => 0
  | SExt e => ext_len e
  | SGreaseECH _ _ en pl => 14 + blen en + 32 + fold_right N.max 128 pl + 16
  end.

Definition wf_spec (sp : spec) : bool :=
  is_ok (do mm <- set_tls_vers sp; hello_vers (fst mm) (snd mm))
  && bytes_eqb (sp_comp sp) [0]
  && forallb (fun x => x <? 65536) (sp_suites sp) && (blen (sp_suites sp) <? 1000)
  && forallb wf_sext (sp_exts sp)
  && (count_grease (sp_exts sp) <=? 2)%nat
  && nodup_N (map sext_id (filter (fun s => negb (fixedb s)) (sp_exts sp)))
  && (length (filter (fun s => match s with SExt (EPadding _ _ _) => true | _ => false end) (sp_exts sp)) <=? 1)%nat
  && is_ok (sync_session_exts (flat_map (fun s => match s with SExt e => [e] | _ => [] end) (sp_exts sp)))
  && (sum_map static_len (sp_exts sp) <? 20000).

Definition wf_parrot (p : parrot) : bool := wf_spec (p_spec p).

(* ---- the (type, body) list an extension list puts on the wire, by the reference layouts ---- *)
(* (Proofs/ExtP.read_layout: this is what ext_read emits for every wf_ext value) *)
Definition wire_pair (e : ext) : option (N * bytes) :=
  if ext_absent e then None else Some (ext_id e, ext_body e).
Definition wire_of (es : list ext) : list (N * bytes) :=
  flat_map (fun e => match wire_pair e with Some w => [w] | None => [] end) es.
(* the padding extension after Update(..) of MarshalClientHelloNoECH: any state *)
Definition set_pad (l : N) (w : bool) (e : ext) : ext :=
  match e with EPadding _ _ pol => EPadding l w pol | _ => e end.
(* the hello the codecs put on the wire: header fields of [h], extensions [es] as (type, body) pairs *)
Definition ast_of (h : Marshal.hello_hdr) (es : list ext) : ast :=
  {| a_vers := Marshal.h_vers h; a_random := Marshal.h_random h; a_sid := Marshal.h_sid h;
     a_suites := Marshal.h_suites h; a_comp := Marshal.h_comp h; a_exts := wire_of es |}.

(* What every TLSExtension's writeToUConn stores in the UConn, UConn.ApplyConfig, the client's view
   after it, and the offered sets read back from the marshalled ClientHello.  This is the glue
   between the marshal side (Model/Ext.v, ChMarshal.v: what the extensions put on the wire) and the
   negotiation side (Model/Negotiate.v: what the handshake later compares the server's choices
   against): both are functions of the same extension list.  Executable definitions only; the
   theorem "view = wire" is in Proofs/ComposeP.v.

   Mirrored code (/repo):
     u_tls_extensions.go   writeToUConn of SNI :201, StatusRequest :257, SupportedCurves :332,
                           SupportedPoints :394, SignatureAlgorithms :470, StatusRequestV2 :479,
                           SignatureAlgorithmsCert :603, ALPN :613, applicationSettings :696, SCT :840,
                           Generic :876, ExtendedMasterSecret :927, UtlsGREASE :974, UtlsPadding :1054,
                           UtlsCompressCert :1150, KeyShare :1297, QUICTransportParameters :1368,
                           PSKKeyExchangeModes :1422, SupportedVersions :1450, Cookie :1539, NPN :1596,
                           RenegotiationInfo :1686, FakeChannelID :1712, FakeRecordSizeLimit :1749,
                           FakeTokenBinding :1802, FakeDelegatedCredentials :1877
     u_session_ticket.go:27   SessionTicketExtension.writeToUConn
     u_pre_shared_key.go:157  UtlsPreSharedKeyExtension.writeToUConn, :346 FakePreSharedKeyExtension.writeToUConn
     u_ech.go:165             GREASEEncryptedClientHelloExtension.writeToUConn (calls MarshalClientHelloNoECH)
     u_conn.go:513-557        UConn.ApplyConfig
     u_session_controller.go:196-213  sessionController.setPskToUConn
     common.go:1202-1233      Config.supportedVersions(roleClient)
     u_public.go:395-430      PubClientHelloMsg.getPrivatePtr (field-by-field copy into the clientHelloMsg the handshake uses)
     hooks/verif_c12.go       VerifClientViewOf (which of these fields make up the client_view)
     harness/hs/wire.go       ParseClientHello (which wire values make up the wire_view)

   STATE: [apply_config] models ApplyConfig WITH fixes 2c9eb37 (ServerName reset), 918f58c (AlpnProtocols,
   SupportedCurves, KeyShares, certCompressionAlgs reset) and fixes/C13-no-supported-versions-extension.diff
   (Hello.SupportedVersions recomputed when no SupportedVersionsExtension is present).  The function as it
   was before the last fix is [apply_config_before]; Proofs/ComposeP.v keeps the input on which the view and
   the wire disagreed (a TLS 1.3 handshake completed on a hello that did not advertise TLS 1.3).

   Not modelled: Config.ServerName (SNIExtension copies the caller's raw ServerName string, Ext.ESNI only
   carries hostnameInSNI of it), RenegotiationInfoExtension's write-back of clientFinished into the
   extension on a renegotiation handshake (uc.handshakes > 0; the model describes the first handshake),
   the side effects of the MarshalClientHelloNoECH call inside the GREASE ECH extension's writeToUConn
   (Hello.Raw, the padding extension's Update - recomputed identically by the final marshal). *)
From UV Require Import Base.Common Model.Wire Model.Varint Model.Ext Model.ExtSpec Model.Strict.
From UV Require Import Model.Padding Model.Marshal Model.ChMarshal.
From UV Require Model.Negotiate.

Record uconn_state := mkUS {
  us_hdr : hello_hdr;   (* Hello.Vers, Random, SessionId, CipherSuites, CompressionMethods (what the marshaller reads; no writeToUConn touches them) *)
  us_server_name : bytes;   (* Hello.ServerName *)
  us_ocsp : bool;   (* Hello.OcspStapling *)
  us_curves : list N;   (* Hello.SupportedCurves *)
  us_points : bytes;   (* Hello.SupportedPoints *)
  us_ticket : bool;   (* Hello.TicketSupported *)
  us_sigalgs : list N;   (* Hello.SupportedSignatureAlgorithms *)
  us_reneg : bool;   (* Hello.SecureRenegotiationSupported *)
  us_ems : bool;   (* Hello.Ems *)
  us_alpn : list bytes;   (* Hello.AlpnProtocols *)
  us_scts : bool;   (* Hello.Scts *)
  us_versions : list N;   (* Hello.SupportedVersions *)
  us_shares : list (N * bytes);   (* Hello.KeyShares (Group, Data) *)
  us_psk_modes : bytes;   (* Hello.PskModes *)
  us_psk_ids : list psk_identity;   (* Hello.PskIdentities *)
  us_psk_binders : list bytes;   (* Hello.PskBinders *)
  us_npn : bool;   (* Hello.NextProtoNeg *)
  us_ccalgs : list N;   (* UConn.certCompressionAlgs *)
  us_ech_ext : bool;   (* UConn.ech != nil *)
  us_cfg_curves : list N;   (* Config.CurvePreferences *)
  us_cfg_protos : list bytes;   (* Config.NextProtos *)
  us_cfg_reneg : N;   (* Config.Renegotiation *)
  us_cfg_min : N;   (* Config.MinVersion *)
  us_cfg_max : N;   (* Config.MaxVersion *)
  us_cfg_ech : bool   (* Config.EncryptedClientHelloConfigList != nil *)
}.

Definition set_server_name (x : bytes) (s : uconn_state) : uconn_state :=
  mkUS (us_hdr s) x (us_ocsp s) (us_curves s) (us_points s) (us_ticket s) (us_sigalgs s) (us_reneg s) (us_ems s) (us_alpn s) (us_scts s) (us_versions s) (us_shares s) (us_psk_modes s) (us_psk_ids s) (us_psk_binders s) (us_npn s) (us_ccalgs s) (us_ech_ext s) (us_cfg_curves s) (us_cfg_protos s) (us_cfg_reneg s) (us_cfg_min s) (us_cfg_max s) (us_cfg_ech s).
Definition set_ocsp (x : bool) (s : uconn_state) : uconn_state :=
  mkUS (us_hdr s) (us_server_name s) x (us_curves s) (us_points s) (us_ticket s) (us_sigalgs s) (us_reneg s) (us_ems s) (us_alpn s) (us_scts s) (us_versions s) (us_shares s) (us_psk_modes s) (us_psk_ids s) (us_psk_binders s) (us_npn s) (us_ccalgs s) (us_ech_ext s) (us_cfg_curves s) (us_cfg_protos s) (us_cfg_reneg s) (us_cfg_min s) (us_cfg_max s) (us_cfg_ech s).
Definition set_curves (x : list N) (s : uconn_state) : uconn_state :=
  mkUS (us_hdr s) (us_server_name s) (us_ocsp s) x (us_points s) (us_ticket s) (us_sigalgs s) (us_reneg s) (us_ems s) (us_alpn s) (us_scts s) (us_versions s) (us_shares s) (us_psk_modes s) (us_psk_ids s) (us_psk_binders s) (us_npn s) (us_ccalgs s) (us_ech_ext s) (us_cfg_curves s) (us_cfg_protos s) (us_cfg_reneg s) (us_cfg_min s) (us_cfg_max s) (us_cfg_ech s).
Definition set_points (x : bytes) (s : uconn_state) : uconn_state :=
  mkUS (us_hdr s) (us_server_name s) (us_ocsp s) (us_curves s) x (us_ticket s) (us_sigalgs s) (us_reneg s) (us_ems s) (us_alpn s) (us_scts s) (us_versions s) (us_shares s) (us_psk_modes s) (us_psk_ids s) (us_psk_binders s) (us_npn s) (us_ccalgs s) (us_ech_ext s) (us_cfg_curves s) (us_cfg_protos s) (us_cfg_reneg s) (us_cfg_min s) (us_cfg_max s) (us_cfg_ech s).
Definition set_ticket (x : bool) (s : uconn_state) : uconn_state :=
  mkUS (us_hdr s) (us_server_name s) (us_ocsp s) (us_curves s) (us_points s) x (us_sigalgs s) (us_reneg s) (us_ems s) (us_alpn s) (us_scts s) (us_versions s) (us_shares s) (us_psk_modes s) (us_psk_ids s) (us_psk_binders s) (us_npn s) (us_ccalgs s) (us_ech_ext s) (us_cfg_curves s) (us_cfg_protos s) (us_cfg_reneg s) (us_cfg_min s) (us_cfg_max s) (us_cfg_ech s).
Definition set_sigalgs (x : list N) (s : uconn_state) : uconn_state :=
  mkUS (us_hdr s) (us_server_name s) (us_ocsp s) (us_curves s) (us_points s) (us_ticket s) x (us_reneg s) (us_ems s) (us_alpn s) (us_scts s) (us_versions s) (us_shares s) (us_psk_modes s) (us_psk_ids s) (us_psk_binders s) (us_npn s) (us_ccalgs s) (us_ech_ext s) (us_cfg_curves s) (us_cfg_protos s) (us_cfg_reneg s) (us_cfg_min s) (us_cfg_max s) (us_cfg_ech s).
Definition set_reneg (x : bool) (s : uconn_state) : uconn_state :=
  mkUS (us_hdr s) (us_server_name s) (us_ocsp s) (us_curves s) (us_points s) (us_ticket s) (us_sigalgs s) x (us_ems s) (us_alpn s) (us_scts s) (us_versions s) (us_shares s) (us_psk_modes s) (us_psk_ids s) (us_psk_binders s) (us_npn s) (us_ccalgs s) (us_ech_ext s) (us_cfg_curves s) (us_cfg_protos s) (us_cfg_reneg s) (us_cfg_min s) (us_cfg_max s) (us_cfg_ech s).
Definition set_ems (x : bool) (s : uconn_state) : uconn_state :=
  mkUS (us_hdr s) (us_server_name s) (us_ocsp s) (us_curves s) (us_points s) (us_ticket s) (us_sigalgs s) (us_reneg s) x (us_alpn s) (us_scts s) (us_versions s) (us_shares s) (us_psk_modes s) (us_psk_ids s) (us_psk_binders s) (us_npn s) (us_ccalgs s) (us_ech_ext s) (us_cfg_curves s) (us_cfg_protos s) (us_cfg_reneg s) (us_cfg_min s) (us_cfg_max s) (us_cfg_ech s).
Definition set_alpn (x : list bytes) (s : uconn_state) : uconn_state :=
  mkUS (us_hdr s) (us_server_name s) (us_ocsp s) (us_curves s) (us_points s) (us_ticket s) (us_sigalgs s) (us_reneg s) (us_ems s) x (us_scts s) (us_versions s) (us_shares s) (us_psk_modes s) (us_psk_ids s) (us_psk_binders s) (us_npn s) (us_ccalgs s) (us_ech_ext s) (us_cfg_curves s) (us_cfg_protos s) (us_cfg_reneg s) (us_cfg_min s) (us_cfg_max s) (us_cfg_ech s).
Definition set_scts (x : bool) (s : uconn_state) : uconn_state :=
  mkUS (us_hdr s) (us_server_name s) (us_ocsp s) (us_curves s) (us_points s) (us_ticket s) (us_sigalgs s) (us_reneg s) (us_ems s) (us_alpn s) x (us_versions s) (us_shares s) (us_psk_modes s) (us_psk_ids s) (us_psk_binders s) (us_npn s) (us_ccalgs s) (us_ech_ext s) (us_cfg_curves s) (us_cfg_protos s) (us_cfg_reneg s) (us_cfg_min s) (us_cfg_max s) (us_cfg_ech s).
Definition set_versions (x : list N) (s : uconn_state) : uconn_state :=
  mkUS (us_hdr s) (us_server_name s) (us_ocsp s) (us_curves s) (us_points s) (us_ticket s) (us_sigalgs s) (us_reneg s) (us_ems s) (us_alpn s) (us_scts s) x (us_shares s) (us_psk_modes s) (us_psk_ids s) (us_psk_binders s) (us_npn s) (us_ccalgs s) (us_ech_ext s) (us_cfg_curves s) (us_cfg_protos s) (us_cfg_reneg s) (us_cfg_min s) (us_cfg_max s) (us_cfg_ech s).
Definition set_shares (x : list (N * bytes)) (s : uconn_state) : uconn_state :=
  mkUS (us_hdr s) (us_server_name s) (us_ocsp s) (us_curves s) (us_points s) (us_ticket s) (us_sigalgs s) (us_reneg s) (us_ems s) (us_alpn s) (us_scts s) (us_versions s) x (us_psk_modes s) (us_psk_ids s) (us_psk_binders s) (us_npn s) (us_ccalgs s) (us_ech_ext s) (us_cfg_curves s) (us_cfg_protos s) (us_cfg_reneg s) (us_cfg_min s) (us_cfg_max s) (us_cfg_ech s).
Definition set_psk_modes (x : bytes) (s : uconn_state) : uconn_state :=
  mkUS (us_hdr s) (us_server_name s) (us_ocsp s) (us_curves s) (us_points s) (us_ticket s) (us_sigalgs s) (us_reneg s) (us_ems s) (us_alpn s) (us_scts s) (us_versions s) (us_shares s) x (us_psk_ids s) (us_psk_binders s) (us_npn s) (us_ccalgs s) (us_ech_ext s) (us_cfg_curves s) (us_cfg_protos s) (us_cfg_reneg s) (us_cfg_min s) (us_cfg_max s) (us_cfg_ech s).
Definition set_psk_ids (x : list psk_identity) (s : uconn_state) : uconn_state :=
  mkUS (us_hdr s) (us_server_name s) (us_ocsp s) (us_curves s) (us_points s) (us_ticket s) (us_sigalgs s) (us_reneg s) (us_ems s) (us_alpn s) (us_scts s) (us_versions s) (us_shares s) (us_psk_modes s) x (us_psk_binders s) (us_npn s) (us_ccalgs s) (us_ech_ext s) (us_cfg_curves s) (us_cfg_protos s) (us_cfg_reneg s) (us_cfg_min s) (us_cfg_max s) (us_cfg_ech s).
Definition set_psk_binders (x : list bytes) (s : uconn_state) : uconn_state :=
  mkUS (us_hdr s) (us_server_name s) (us_ocsp s) (us_curves s) (us_points s) (us_ticket s) (us_sigalgs s) (us_reneg s) (us_ems s) (us_alpn s) (us_scts s) (us_versions s) (us_shares s) (us_psk_modes s) (us_psk_ids s) x (us_npn s) (us_ccalgs s) (us_ech_ext s) (us_cfg_curves s) (us_cfg_protos s) (us_cfg_reneg s) (us_cfg_min s) (us_cfg_max s) (us_cfg_ech s).
Definition set_npn (x : bool) (s : uconn_state) : uconn_state :=
  mkUS (us_hdr s) (us_server_name s) (us_ocsp s) (us_curves s) (us_points s) (us_ticket s) (us_sigalgs s) (us_reneg s) (us_ems s) (us_alpn s) (us_scts s) (us_versions s) (us_shares s) (us_psk_modes s) (us_psk_ids s) (us_psk_binders s) x (us_ccalgs s) (us_ech_ext s) (us_cfg_curves s) (us_cfg_protos s) (us_cfg_reneg s) (us_cfg_min s) (us_cfg_max s) (us_cfg_ech s).
Definition set_ccalgs (x : list N) (s : uconn_state) : uconn_state :=
  mkUS (us_hdr s) (us_server_name s) (us_ocsp s) (us_curves s) (us_points s) (us_ticket s) (us_sigalgs s) (us_reneg s) (us_ems s) (us_alpn s) (us_scts s) (us_versions s) (us_shares s) (us_psk_modes s) (us_psk_ids s) (us_psk_binders s) (us_npn s) x (us_ech_ext s) (us_cfg_curves s) (us_cfg_protos s) (us_cfg_reneg s) (us_cfg_min s) (us_cfg_max s) (us_cfg_ech s).
Definition set_ech_ext (x : bool) (s : uconn_state) : uconn_state :=
  mkUS (us_hdr s) (us_server_name s) (us_ocsp s) (us_curves s) (us_points s) (us_ticket s) (us_sigalgs s) (us_reneg s) (us_ems s) (us_alpn s) (us_scts s) (us_versions s) (us_shares s) (us_psk_modes s) (us_psk_ids s) (us_psk_binders s) (us_npn s) (us_ccalgs s) x (us_cfg_curves s) (us_cfg_protos s) (us_cfg_reneg s) (us_cfg_min s) (us_cfg_max s) (us_cfg_ech s).
Definition set_cfg_curves (x : list N) (s : uconn_state) : uconn_state :=
  mkUS (us_hdr s) (us_server_name s) (us_ocsp s) (us_curves s) (us_points s) (us_ticket s) (us_sigalgs s) (us_reneg s) (us_ems s) (us_alpn s) (us_scts s) (us_versions s) (us_shares s) (us_psk_modes s) (us_psk_ids s) (us_psk_binders s) (us_npn s) (us_ccalgs s) (us_ech_ext s) x (us_cfg_protos s) (us_cfg_reneg s) (us_cfg_min s) (us_cfg_max s) (us_cfg_ech s).
Definition set_cfg_protos (x : list bytes) (s : uconn_state) : uconn_state :=
  mkUS (us_hdr s) (us_server_name s) (us_ocsp s) (us_curves s) (us_points s) (us_ticket s) (us_sigalgs s) (us_reneg s) (us_ems s) (us_alpn s) (us_scts s) (us_versions s) (us_shares s) (us_psk_modes s) (us_psk_ids s) (us_psk_binders s) (us_npn s) (us_ccalgs s) (us_ech_ext s) (us_cfg_curves s) x (us_cfg_reneg s) (us_cfg_min s) (us_cfg_max s) (us_cfg_ech s).
Definition set_cfg_reneg (x : N) (s : uconn_state) : uconn_state :=
  mkUS (us_hdr s) (us_server_name s) (us_ocsp s) (us_curves s) (us_points s) (us_ticket s) (us_sigalgs s) (us_reneg s) (us_ems s) (us_alpn s) (us_scts s) (us_versions s) (us_shares s) (us_psk_modes s) (us_psk_ids s) (us_psk_binders s) (us_npn s) (us_ccalgs s) (us_ech_ext s) (us_cfg_curves s) (us_cfg_protos s) x (us_cfg_min s) (us_cfg_max s) (us_cfg_ech s).

(* what writeToUConn reads besides the extension and the UConn fields above *)
Record wenv := mkEnvW {
  we_cache_session : bool   (* Config.ClientSessionCache != nil and it holds a session under clientSessionCacheKey() *)
}.

(* ---- TLSExtension.writeToUConn ----
   [marsh] is the result of uconn.MarshalClientHelloNoECH() at that moment: it reads the header fields, which
   no writeToUConn changes, and uconn.Extensions, so it is the same value wherever in the loop it is called. *)
Definition write_to_uconn (env : wenv) (marsh : res bytes) (e : ext) (s : uconn_state) : res uconn_state :=
  match e with
  | ESNI host =>                         (* :201 Hello.ServerName = hostnameInSNI(e.ServerName) *)
      Ok (set_server_name host s)
  | EStatusRequest | EStatusRequestV2 => Ok (set_ocsp true s)                      (* :257, :479 *)
  | ESupportedCurves l => Ok (set_curves l (set_cfg_curves l s))                  (* :332 *)
  | ESupportedPoints p => Ok (set_points p s)                                      (* :394 *)
  | ESignatureAlgorithms l => Ok (set_sigalgs l s)                                 (* :470 *)
  | ESignatureAlgorithmsCert l => Ok (set_sigalgs l s)   (* :603 writes SupportedSignatureAlgorithms, not ...Cert *)
  | EALPN ps => Ok (set_alpn ps (set_cfg_protos ps s))                             (* :613 *)
  | EApplicationSettings _ | EApplicationSettingsNew _ => Ok s                     (* :696 *)
  | ESCT => Ok (set_scts true s)                                                   (* :840 *)
  | EGeneric _ _ => Ok s                                                           (* :876 *)
  | EExtendedMasterSecret => Ok (set_ems true s)                                   (* :927 *)
  | EGREASE _ _ => Ok s                                                            (* :974 *)
  | EPadding _ _ _ => Ok s                                                         (* :1054 *)
  | ECompressCert l => Ok (set_ccalgs l s)                                         (* :1150 *)
  | EKeyShare ks => Ok (set_shares ks s)                                           (* :1297 *)
  | EQUICTransportParameters _ => Ok s                                             (* :1368 *)
  | EPSKKeyExchangeModes m => Ok (set_psk_modes m s)                               (* :1422 *)
  | ESupportedVersions l => Ok (set_versions l s)                                  (* :1450 *)
  | ECookie _ => Ok s                                                              (* :1539 *)
  | ENPN ps => Ok (set_npn true (set_cfg_protos ps s))                             (* :1596 *)
  | ERenegotiationInfo r _ =>                                                      (* :1686 *)
      let s1 := set_cfg_reneg r s in
      Ok (if (r =? 1) || (r =? 2) then set_reneg true s1 else s1)   (* RenegotiateOnceAsClient / FreelyAsClient *)
  | EFakeChannelID _ | EFakeRecordSizeLimit _ | EFakeTokenBinding _ _ _ | EFakeDelegatedCredentials _ => Ok s
  | ESessionTicket _ => Ok (set_ticket true s)                                     (* u_session_ticket.go:27 *)
  | EUtlsPreSharedKey _ _ _ _ _ => Ok (set_ticket true s)                          (* u_pre_shared_key.go:157 *)
  | EFakePreSharedKey _ ids bs =>                                                  (* u_pre_shared_key.go:346 *)
      if we_cache_session env then Ok (set_psk_binders bs (set_psk_ids ids s)) else Ok s
  | EGREASEECH _ _ _ _ _ =>                                                        (* u_ech.go:165 *)
      do _ <- marsh; Ok (set_ech_ext true s)
  end.

(* the loop of ApplyConfig: stops at the first error *)
Fixpoint write_all (env : wenv) (marsh : res bytes) (es : list ext) (s : uconn_state) : res uconn_state :=
  match es with
  | [] => Ok s
  | e :: r => do s1 <- write_to_uconn env marsh e s; write_all env marsh r s1
  end.

(* u_conn.go:517-528 *)
Definition clear_offers (s : uconn_state) : uconn_state :=
  set_ccalgs [] (set_shares [] (set_curves [] (set_alpn [] (set_server_name [] s)))).

(* common.go:1202-1233 Config.supportedVersions(roleClient) *)
Definition cfg_versions (mn mx : N) (ech : bool) : list N :=
  filter (fun x => negb ((mn =? 0) && (x <? 771)) && negb (ech && (x <? 772))
                   && negb (negb (mn =? 0) && (x <? mn)) && negb (negb (mx =? 0) && (mx <? x)))
         [772; 771; 770; 769].

Definition is_versions_ext (e : ext) : bool := match e with ESupportedVersions _ => true | _ => false end.
Definition is_ccert_ext (e : ext) : bool := match e with ECompressCert _ => true | _ => false end.

Definition E_NO_OFFERED_VERSION : N := 60.   (* "tls: the ClientHello has no supported_versions extension and ..." *)

(* ApplyConfig before fixes/C13-no-supported-versions-extension.diff *)
Definition apply_config_before (env : wenv) (marsh : res bytes) (s : uconn_state) (es : list ext) : res uconn_state :=
  write_all env marsh es (clear_offers s).

(* ApplyConfig as it is with that fix: [if !sendsSupportedVersions { offered = config.supportedVersions(roleClient)
   restricted to v <= hello.Vers; error if empty; hello.SupportedVersions = offered }] *)
Definition apply_config (env : wenv) (marsh : res bytes) (s : uconn_state) (es : list ext) : res uconn_state :=
  do s1 <- write_all env marsh es (clear_offers s);
  if existsb is_versions_ext es then Ok s1
  else
    match filter (fun v => v <=? h_vers (us_hdr s1)) (cfg_versions (us_cfg_min s1) (us_cfg_max s1) (us_cfg_ech s1)) with
    | [] => Err E_NO_OFFERED_VERSION
    | offered => Ok (set_versions offered s1)
    end.

(* sessionController.setPskToUConn in state PskExtInitialized (u_session_controller.go:196-205), run by uLoadSession between
   ApplyConfig and the marshal when the controller holds an initialized pre_shared_key extension - which is then the
   PreSharedKeyExtension of uconn.Extensions (syncSessionExts): Hello.PskIdentities/PskBinders = its Identities/Binders *)
Definition set_psk_to_uconn (es : list ext) (s : uconn_state) : uconn_state :=
  match find is_psk_ext es with
  | Some (EUtlsPreSharedKey _ _ _ ids bs) | Some (EFakePreSharedKey _ ids bs) => set_psk_binders bs (set_psk_ids ids s)
  | _ => s
  end.

(* ---- the client's view (hooks/verif_c12.go VerifClientViewOf + harness/hs/coq.go ViewTerm) ----
   ecdhe / mlkem / session: the retained key-share private keys and the offered PSK session's suite; they are not
   written by any extension and not part of the view/wire comparison. *)
Definition view_of (s : uconn_state) (es : list ext) (ecdhe : N) (mlkem : bool) (session : N) : Negotiate.client_view :=
  Negotiate.mkView (h_suites (us_hdr s)) (us_curves s) (map fst (us_shares s)) (us_alpn s) (h_sid (us_hdr s))
    (N.of_nat (length (us_psk_ids s))) (us_ccalgs s) (existsb is_ccert_ext es)
    (us_cfg_min s) (us_cfg_max s) (us_cfg_ech s) ecdhe mlkem (us_versions s) session.

(* ---- the offered sets of a parsed ClientHello (harness/hs/wire.go ParseClientHello, over Strict.ch_ast) ---- *)
Definition lookup (id : N) (l : list (N * bytes)) : option bytes :=
  match find (fun x => fst x =? id) l with Some x => Some (snd x) | None => None end.

Definition or_nil {A} (o : option (list A)) : list A := match o with Some l => l | None => [] end.

(* case 10 / 13: l := body.vec16(); for len(l.b) > 0 { l.u16() } *)
Definition u16s_of_u16lp (b : bytes) : list N := or_nil (obind (exact (read_u16lp b)) read_u16s).
(* case 27 / 43: l := body.vec8(); ... l.u16() *)
Definition u16s_of_u8lp (b : bytes) : list N := or_nil (obind (exact (read_u8lp b)) read_u16s).
(* case 16: l := body.vec16(); for ... { l.vec8() } *)
Definition protos_of (b : bytes) : list bytes :=
  or_nil (obind (exact (read_u16lp b)) (fun v => read_u8lps false (length v) v)).
(* case 51: g := l.u16(); d := l.vec16() *)
Definition share_item (s : bytes) : option (N * bytes) :=
  obind (read_u16 s) (fun '(g, s1) => obind (read_u16lp s1) (fun '(_, s2) => Some (g, s2))).
Definition share_groups_of (b : bytes) : list N :=
  or_nil (obind (exact (read_u16lp b)) (fun v => items share_item (length v) v)).
(* case 41: ids := body.vec16(); for ... { ids.vec16(); ids.take(4); PSKIdentities++ } *)
Definition psk_id_item (s : bytes) : option (unit * bytes) :=
  obind (read_u16lp s) (fun '(_, s1) => obind (read_u32 s1) (fun '(_, s2) => Some (tt, s2))).
Definition psk_count_of (b : bytes) : N :=
  match read_u16lp b with
  | Some (ids, _) => N.of_nat (length (or_nil (items psk_id_item (length ids) ids)))
  | None => 0
  end.

Definition via {A} (id : N) (exts : list (N * bytes)) (dec : bytes -> A) (dflt : A) : A :=
  match lookup id exts with Some b => dec b | None => dflt end.

Definition wire_of_ast (a : ch_ast) : Negotiate.wire_view :=
  let x := c_exts a in
  Negotiate.mkWire (c_vers a) (c_suites a) (c_comp a)
    (via ID_CURVES x u16s_of_u16lp []) (via ID_KEY_SHARE x share_groups_of []) (via ID_ALPN x protos_of [])
    (c_sid a) (via ID_PSK x psk_count_of 0) (via ID_COMPRESS_CERT x u16s_of_u8lp [])
    (match lookup ID_VERSIONS x with Some _ => true | None => false end) (via ID_VERSIONS x u16s_of_u8lp []).

(* the wire_view of the bytes of a ClientHello handshake message; None: not a (strictly) well-formed ClientHello *)
Definition wire_of (raw : bytes) : option Negotiate.wire_view := option_map wire_of_ast (strict_parse raw).

(* ---- preconditions of the composition theorem that are about the extension list ---- *)

(* The extension types whose content the handshake later consults are sent through their typed extension, not
   through a GenericExtension / UtlsGREASEExtension carrying the same extension_type (those have an empty
   writeToUConn: the wire would offer what the client does not know it offered). *)
Definition tracked_ids : list N := [ID_CURVES; ID_ALPN; ID_COMPRESS_CERT; ID_PSK; ID_VERSIONS; ID_KEY_SHARE].
Definition typed_ext (e : ext) : bool :=
  match e with
  | EGeneric id _ | EGREASE id _ => negb (existsb (N.eqb id) tracked_ids)
  | _ => true
  end.

(* number of PSK identities the extension list puts on the wire *)
Definition psk_sent (es : list ext) : N :=
  match find is_psk_ext es with
  | Some (EUtlsPreSharedKey s c o ids bs) =>
      if ext_absent (EUtlsPreSharedKey s c o ids bs) then 0 else N.of_nat (length ids)
  | Some (EFakePreSharedKey o ids bs) =>
      if ext_absent (EFakePreSharedKey o ids bs) then 0 else N.of_nat (length ids)
  | _ => 0
  end.
(* Hello.PskIdentities agrees with it.  NOT a consequence of ApplyConfig: UtlsPreSharedKeyExtension.writeToUConn does
   not write the field (setPskToUConn does, later), FakePreSharedKeyExtension.writeToUConn writes it only when the
   session cache holds a session while its Read sends the identities regardless. *)
Definition psk_agree (s : uconn_state) (es : list ext) : bool :=
  N.of_nat (length (us_psk_ids s)) =? psk_sent es.

(* the hello state at marshal time: ApplyConfig, then uLoadSession; [load] = the session controller holds an
   initialized pre_shared_key extension (state PskExtInitialized: SetPskExtension, or a session found in the cache) *)
Definition finish (load : bool) (es : list ext) (s : uconn_state) : uconn_state :=
  if load then set_psk_to_uconn es s else s.

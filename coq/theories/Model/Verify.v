(* C14 — model of the certificate-verification decisions of the utls client.
   Mirrors, statement by statement,
     Conn.verifyServerCertificate          handshake_client.go:1122-1250  (with fixes/C14-ech-rejected-public-name applied)
     the cached-leaf re-check of loadSession handshake_client.go:450-480
     where c.serverName comes from         handshake_client.go:82,310,327; u_handshake_client.go:204,474,491;
                                           u_tls_extensions.go:201-207; u_parrots.go:2850-2856;
                                           handshake_client_tls13.go:114,293 (ECH accepted)
     the ECH-rejected exit                 handshake_client_tls13.go:170-173
     the "some name must be configured" check handshake_client.go:49-51, u_handshake_client.go:404-406.
   Definitions only.  crypto/x509 is not modelled: Certificate.Verify, VerifyHostname, NotAfter and the
   pre-checks on the raw chain are Section variables; the name that went into SNI is a free input (they become explicit parameters when the section closes). *)
From UV Require Import Base.Common.
Open Scope Z_scope.

Definition name := bytes.                      (* a Go string, as bytes *)
Definition is_empty (s : name) : bool := match s with [] => true | _ => false end.   (* len(s) == 0 *)
Definition is_star (s : name) : bool := bytes_eqb s [42%N].                          (* s == "*" *)

(* error codes of this model (res.Err) *)
Definition E_parse : N := 1.        (* parse failure / oversized RSA key / unsupported key type *)
Definition E_cert_verify : N := 2.  (* *CertificateVerificationError *)
Definition E_callback : N := 3.     (* a user callback returned an error *)
Definition P_index : N := 1.        (* certs[0] on an empty chain: index out of range *)

Section Verify.
  Variable cert : Type.                              (* *x509.Certificate *)
  Variable pool : Type.                              (* *x509.CertPool *)
  (* certs[0].Verify(VerifyOptions{Roots, CurrentTime, DNSName, Intermediates: certs[1:]}) succeeded
     (and fipsAllowedChains kept a chain) *)
  Variable x509_verify : pool -> Z -> name -> list cert -> bool.
  Variable verify_hostname : cert -> name -> bool.   (* cert.VerifyHostname(name) == nil *)
  Variable not_after : cert -> Z.                    (* cert.NotAfter, seconds *)
  Variable chain_parses : list cert -> bool.         (* every DER parses and RSA keys are <= 8192 bits (1125-1140) *)
  Variable leaf_key_supported : cert -> bool.        (* RSA / ECDSA / Ed25519 public key (1220-1226) *)

  (* the Config fields the decisions read *)
  Record config := mkConfig {
    ServerName : name;
    InsecureServerNameToVerify : name;
    InsecureSkipVerify : bool;
    InsecureSkipTimeVerify : bool;
    RootCAs : pool;
    cfg_time : Z;                                    (* c.config.time() *)
    ech_config_list : bool;                          (* EncryptedClientHelloConfigList != nil *)
    ech_rejection_verify : option bool;              (* EncryptedClientHelloRejectionVerify: None = nil, Some b = returns nil iff b *)
    verify_callbacks_ok : bool                       (* VerifyPeerCertificate / VerifyConnection unset or returning nil *)
  }.

  (* the Conn fields the decisions read *)
  Record conn := mkConn {
    c_server_name : name;                            (* c.serverName *)
    c_ech_accepted : bool                            (* c.echAccepted *)
  }.

  (* ---- how c.serverName gets its value before the certificate arrives ---- *)
  (* Both entry points do the same thing: Conn.clientHandshake (tls.Client; handshake_client.go) and
     UConn.clientHandshake (UClient; u_handshake_client.go).
     hello.serverName = hostnameInSNI(config.ServerName) (handshake_client.go:82 / u_handshake_client.go:204);
     with an ECH config the outer hello's name is overwritten with the public name (handshake_client.go:310,
     u_handshake_client.go:474, for parrots SNIExtension: u_parrots.go:2854 + u_tls_extensions.go:205);
     c.serverName = hello.serverName (handshake_client.go:327 / u_handshake_client.go:491). *)
  (* [sni] is whatever the hello building left in hello.serverName without ECH: hostnameInSNI(ServerName) — EMPTY for an
     IP literal, stripped of trailing dots — or what a parrot's SNIExtension / its absence left there. It is an
     independent input: nothing below may assume that it equals Config.ServerName. *)
  Definition conn_after_hello (sni : name) (cfg : config) (public_name : name) : conn :=
    mkConn (if ech_config_list cfg then public_name else sni) false.
  (* server hello / HRR carries the ECH acceptance signal: handshake_client_tls13.go:112-116, 291-296 *)
  Definition conn_ech_accepted (cfg : config) (c : conn) : conn :=
    mkConn (ServerName cfg) true.
  (* the connection state when verifyServerCertificate runs; [accepted] only meaningful with an ECH config *)
  Definition conn_at_verify (sni : name) (cfg : config) (public_name : name) (accepted : bool) : conn :=
    let c := conn_after_hello sni cfg public_name in
    if ech_config_list cfg && accepted then conn_ech_accepted cfg c else c.

  (* ---- verifyServerCertificate ---- *)
  (* 1142 *)
  Definition ech_rejected (cfg : config) (c : conn) : bool :=
    ech_config_list cfg && negb (c_ech_accepted c).

  (* 1197-1201 (and 469-473 in loadSession): the uTLS choice of opts.DNSName; "" is the zero value (no name check) *)
  Definition dns_name (cfg : config) : name :=
    if is_empty (InsecureServerNameToVerify cfg) then ServerName cfg
    else if negb (is_star (InsecureServerNameToVerify cfg)) then InsecureServerNameToVerify cfg
    else [].

  (* 1152/1188 + 1158-1160/1193-1195 *)
  Definition current_time (cfg : config) (leaf : cert) : Z :=
    if InsecureSkipTimeVerify cfg then not_after leaf else cfg_time cfg.

  Record verify_options := mkOpts { o_roots : pool; o_time : Z; o_dns_name : name }.

  (* the options handed to certs[0].Verify in the branch that verifies *)
  Definition verify_opts (cfg : config) (c : conn) (leaf : cert) : verify_options :=
    if ech_rejected cfg c
    then mkOpts (RootCAs cfg) (current_time cfg leaf) (c_server_name c)        (* 1150-1165: DNSName: c.serverName *)
    else mkOpts (RootCAs cfg) (current_time cfg leaf) (dns_name cfg).          (* 1186-1202 *)

  (* the same branch before the fix (the uTLS section overwrote DNSName exactly as in the other branch) *)
  Definition verify_opts_unfixed (cfg : config) (c : conn) (leaf : cert) : verify_options :=
    mkOpts (RootCAs cfg) (current_time cfg leaf) (dns_name cfg).

  Definition run_x509 (o : verify_options) (chain : list cert) : bool :=
    x509_verify (o_roots o) (o_time o) (o_dns_name o) chain.

  Definition verify_server_certificate (cfg : config) (c : conn) (chain : list cert) : res unit :=
    if negb (chain_parses chain) then Err E_parse else                         (* 1125-1140 *)
    match chain with
    | [] => Panic P_index                                                     (* certs[0], 1159/1194/1220; callers reject empty chains earlier *)
    | leaf :: _ =>
      let rejected := ech_rejected cfg c in                                   (* 1142 *)
      do _ <- (if rejected then                                                (* 1143 *)
                 match ech_rejection_verify cfg with
                 | Some ok => if ok then Ok tt else Err E_callback             (* 1144-1148 *)
                 | None => if run_x509 (verify_opts cfg c leaf) chain then Ok tt else Err E_cert_verify   (* 1149-1183 *)
                 end
               else if negb (InsecureSkipVerify cfg) then                      (* 1184 *)
                 if run_x509 (verify_opts cfg c leaf) chain then Ok tt else Err E_cert_verify             (* 1185-1217 *)
               else Ok tt);
      do _ <- (if leaf_key_supported leaf then Ok tt else Err E_parse);       (* 1220-1226 *)
      (* 1231-1243: VerifyPeerCertificate / VerifyConnection run only when ECH was not rejected *)
      if negb rejected && negb (verify_callbacks_ok cfg) then Err E_callback else Ok tt
    end.

  (* ---- what the client handshake returns as far as the certificate is concerned ---- *)
  Inductive hs_result := HsOk | HsCertError | HsOtherError | HsEchRejected | HsPanic.
  (* handshake_client_tls13.go:170-173: after a complete handshake on the outer hello the client
     sends ech_required and returns ECHRejectionError{retryConfigs} *)
  Definition client_result (cfg : config) (c : conn) (chain : list cert) : hs_result :=
    match verify_server_certificate cfg c chain with
    | Ok _ => if ech_rejected cfg c then HsEchRejected else HsOk
    | Err e => if (e =? E_cert_verify)%N then HsCertError else HsOtherError
    | Panic _ => HsPanic
    end.

  (* ---- loadSession: the checks on the cached leaf (450-480). true = the session is offered for resumption *)
  Record session := mkSession { s_leaf : cert; s_has_verified_chains : bool }.   (* peerCertificates[0], len(verifiedChains) != 0 *)

  Definition load_session_cert_checks (cfg : config) (s : session) : bool :=
    if negb (InsecureSkipTimeVerify cfg) && (cfg_time cfg >? not_after (s_leaf s)) then false   (* 454-460: time().After(NotAfter) *)
    else if negb (InsecureSkipVerify cfg) then                                                  (* 462 *)
      if negb (s_has_verified_chains s) then false                                              (* 463-466 *)
      else let d := dns_name cfg in                                                             (* 468-473 *)
           if negb (is_empty d) then verify_hostname (s_leaf s) d else true                     (* 474-478 *)
    else true.

  (* ---- makeClientHello precondition (handshake_client.go:49-51, u_handshake_client.go:404-406) ---- *)
  Definition config_accepted (cfg : config) : bool :=
    negb (is_empty (ServerName cfg)) || InsecureSkipVerify cfg || negb (is_empty (InsecureServerNameToVerify cfg)).

  (* ================= specification, written from the property text ================= *)
  (* "That name is ServerName by default and InsecureServerNameToVerify when set; the name check is skipped
     when that field is "*" ... a rejected ECH offer is verified against the ECH public name."
     None = no name check. *)
  Definition expected_name (cfg : config) (c : conn) (ech_public_name : name) : option name :=
    if ech_rejected cfg c then Some ech_public_name
    else if is_empty (InsecureServerNameToVerify cfg) then Some (ServerName cfg)
    else if is_star (InsecureServerNameToVerify cfg) then None
    else Some (InsecureServerNameToVerify cfg).

  (* "at the configured time ... InsecureSkipTimeVerify relaxes only the validity period": the code's reading
     of "relaxed" is "evaluated at the leaf's own NotAfter". *)
  Definition expected_time (cfg : config) (leaf : cert) : Z :=
    if InsecureSkipTimeVerify cfg then not_after leaf else cfg_time cfg.

  (* crypto/x509 convention: an empty VerifyOptions.DNSName means "do not check the name" *)
  Definition name_of_dns (d : name) : option name := if is_empty d then None else Some d.
  Definition dns_of_name (n : option name) : name := match n with Some d => d | None => [] end.

  (* the name the code evidently verifies against *)
  Definition used_name (cfg : config) (c : conn) (leaf : cert) : option name :=
    name_of_dns (o_dns_name (verify_opts cfg c leaf)).
  Definition used_name_unfixed (cfg : config) (c : conn) (leaf : cert) : option name :=
    name_of_dns (o_dns_name (verify_opts_unfixed cfg c leaf)).
  Definition used_time (cfg : config) (c : conn) (leaf : cert) : Z := o_time (verify_opts cfg c leaf).

  Definition set_skip_time (b : bool) (cfg : config) : config :=
    mkConfig (ServerName cfg) (InsecureServerNameToVerify cfg) (InsecureSkipVerify cfg) b (RootCAs cfg)
             (cfg_time cfg) (ech_config_list cfg) (ech_rejection_verify cfg) (verify_callbacks_ok cfg).
End Verify.

Arguments mkConfig {pool}.
Arguments ServerName {pool}.
Arguments InsecureServerNameToVerify {pool}.
Arguments InsecureSkipVerify {pool}.
Arguments InsecureSkipTimeVerify {pool}.
Arguments RootCAs {pool}.
Arguments cfg_time {pool}.
Arguments ech_config_list {pool}.
Arguments ech_rejection_verify {pool}.
Arguments verify_callbacks_ok {pool}.
Arguments mkOpts {pool}.
Arguments o_roots {pool}.
Arguments o_time {pool}.
Arguments o_dns_name {pool}.
Arguments mkSession {cert}.
Arguments s_leaf {cert}.
Arguments s_has_verified_chains {cert}.
Arguments ech_rejected {pool}.
Arguments dns_name {pool}.
Arguments config_accepted {pool}.
Arguments expected_name {pool}.
Arguments conn_after_hello {pool}.
Arguments conn_ech_accepted {pool}.
Arguments conn_at_verify {pool}.
Arguments set_skip_time {pool}.

(* ================= a small concrete X.509 =================
   Used (a) by the correspondence cases: the runner's generated certificates (leaves and intermediates) differ only in names, validity
   window, subject and issuer, which is exactly what these records hold, and every (leaf, name, time) triple the
   runner uses is compared with crypto/x509's own Certificate.Verify (case CX509);
   (b) as the witness that the Section hypotheses of the C14 theorems are satisfiable. *)
Record tcert := TCert { t_names : list name; t_nb : Z; t_na : Z; t_issuer : N; t_id : N }.   (* t_id: subject id of a CA certificate, 0 for a leaf *)
Record troot := TRoot { r_id : N; r_nb : Z; r_na : Z }.
Definition tpool := list troot.

Definition within (t nb na : Z) : bool := (nb <=? t) && (t <=? na).      (* !now.Before(NotBefore) && !now.After(NotAfter) *)
(* Certificate.VerifyHostname: a bracketed host is an IP literal without the brackets; a trailing dot of a DNS name is
   ignored; then exact match against the SANs (the runner uses no wildcards and writes IP SANs in canonical text) *)
Fixpoint strip_dots (r : name) : name := match r with 46%N :: r' => strip_dots r' | _ => r end.
Definition norm_host (n : name) : name :=
  match n with
  | 91%N :: r => match rev r with 93%N :: m => rev m | _ => n end
  | _ => rev (strip_dots (rev n))
  end.
Definition toy_verify_hostname (c : tcert) (n : name) : bool := existsb (bytes_eqb (norm_host n)) (t_names c).
(* the issuer [id] is a root valid at t, or one of the presented intermediates (certs[1:]) valid at t whose own
   issuer is trusted in the same sense; fuel bounds the path length *)
Fixpoint toy_trusted (fuel : nat) (roots : tpool) (t : Z) (inter : list tcert) (id : N) : bool :=
  match fuel with
  | O => false
  | S k =>
    existsb (fun r => (r_id r =? id)%N && within t (r_nb r) (r_na r)) roots ||
    existsb (fun c => (t_id c =? id)%N && within t (t_nb c) (t_na c) && toy_trusted k roots t inter (t_issuer c)) inter
  end.
Definition toy_chain_verify (roots : tpool) (t : Z) (chain : list tcert) : bool :=
  match chain with
  | [] => false
  | leaf :: inter => within t (t_nb leaf) (t_na leaf) && toy_trusted 4 roots t inter (t_issuer leaf)
  end.
Definition toy_x509_verify (roots : tpool) (t : Z) (n : name) (chain : list tcert) : bool :=
  match chain with
  | [] => false
  | leaf :: _ => toy_chain_verify roots t chain && (is_empty n || toy_verify_hostname leaf n)
  end.
Definition toy_parses (chain : list tcert) : bool := true.
Definition toy_key_ok (c : tcert) : bool := true.

Definition t_verify := verify_server_certificate tcert tpool toy_x509_verify t_na toy_parses toy_key_ok.
Definition t_result := client_result tcert tpool toy_x509_verify t_na toy_parses toy_key_ok.
Definition t_load_session := load_session_cert_checks tcert tpool toy_verify_hostname t_na.
Definition t_conn := @conn_at_verify tpool.

(* A STATIC precondition on a ClientHelloSpec (and the two things of the Config that ApplyPreset copies into the hello)
   under which everything ApplyPreset produces is inside the precondition of C02 - so that the theorems of C02, C03,
   C12 and C13 that carry a premise on the model's OUTPUT (wf_specb / spec_fitsb / typed_ext of the header and extension
   values) hold for the spec itself.  Executable definitions only; proofs in Proofs/PresetOkP.v, PresetOkS.v.

   [preset_ok sp snimax omit] is decidable from the spec alone: no randomness, no connection.  It is written against
   Model/Preset.v (apply_preset / preset_exts) and says, per extension of the spec, that the value ApplyPreset will leave
   there is within its wire limits (ExtSpec.wf_ext), RFC minimum sizes (ChMarshal.rfc_ok) and typed (WriteToUConn.typed_ext)
   WHATEVER the per-connection material is:
     - GREASE code points (extension type, supported_groups / key_share / supported_versions / cipher-suite slots) are
       replaced by some GREASE value: lengths unchanged, the value is a uint16 that is no known extension type;
     - an unset SNI is filled with hostnameInSNI(Config.ServerName): at most [snimax] bytes (253 for a DNS name);
     - key shares without data get a generated public key of the group's size (Preset.key_size);
     - GREASE ECH draws its suite / config id / payload length among the spec's candidates;
     - the pre_shared_key extension gets OmitEmptyPsk = [omit] from the Config (without a session and without
       OmitEmptyPsk its Read returns ErrEmptyPsk: such a hello cannot be built, preset_ok is false for omit = false);
   and globally: extension types pairwise distinct once the (at most two) GREASE extensions have their distinct GREASE
   types, pre_shared_key last, at most one session_ticket, padding policy nil or BoringPaddingStyle with WillPad unset,
   and the total of the maximal extension lengths plus the largest Boring padding (516) fits the uint16 extensions length. *)
From UV Require Import Base.Common Model.Wire Model.Varint Model.Ext Model.ExtSpec Model.Strict.
From UV Require Import Model.Padding Model.Marshal Model.ChMarshal Model.WriteToUConn.
From UV Require Model.Grease.
From UV Require Import Model.Preset.

Definition is_sgrease (s : sext) : bool := match s with SExt (EGREASE _ _) => true | _ => false end.
Definition is_spsk (s : sext) : bool := match s with SExt e => is_psk_ext e | _ => false end.
Definition is_sticket (s : sext) : bool := match s with SExt (ESessionTicket _) => true | _ => false end.

(* the extension type a spec entry will carry (GREASE entries: decided per connection) *)
Definition sid (s : sext) : N := match s with SExt e => ext_id e | SGreaseECH _ _ _ _ => ID_ECH end.
(* 41 for a pre_shared_key entry, 0 otherwise: all that "pre_shared_key last" looks at *)
Definition pid (s : sext) : N := if is_spsk s then ID_PSK else 0.

(* one key share as ApplyPreset leaves it: GREASE group or data of more than one byte: kept; else a generated key *)
Definition share_ok (k : N * bytes) : bool :=
  (fst k <? 65536) &&
  if Grease.is_grease (fst k) || (1 <? blen (snd k)) then nonempty (snd k)
  else match key_size (fst k) with Some _ => true | None => false end.
Definition share_len (k : N * bytes) : N :=
  if Grease.is_grease (fst k) || (1 <? blen (snd k)) then blen (snd k)
  else match key_size (fst k) with Some n => n | None => 0 end.

Definition max_list (l : list N) (d : N) : N := fold_right N.max d l.

(* an upper bound of Len() of what ApplyPreset leaves for this entry *)
Definition max_len (snimax : N) (s : sext) : N :=
  match s with
  | SExt (ESNI host) => 9 + (if empty host then snimax else blen host)
  | SExt (EGREASE _ b) => 4 + N.max (blen b) 1
  | SExt (EKeyShare ks) => 6 + sum_map (fun k => 4 + share_len k) ks
  | SExt e => ext_len e
  | SGreaseECH _ _ en pl => 14 + (if empty en then 32 else blen en) + (max_list pl 128 + 16)
  end.

Definition sext_ok (snimax : N) (omit : bool) (s : sext) : bool :=
  match s with
  | SExt (ESNI host) => (if empty host then snimax else blen host) <? 65000
  | SExt (EGREASE _ b) => blen b <? 65000
  | SExt (EKeyShare ks) => forallb share_ok ks && (6 + sum_map (fun k => 4 + share_len k) ks <=? 65539)
  | SExt (EUtlsPreSharedKey se cl _ ids bs) =>
      let e := EUtlsPreSharedKey se cl omit ids bs in wf_ext e && rfc_ok e
  | SExt (EFakePreSharedKey _ ids bs) =>
      let e := EFakePreSharedKey omit ids bs in wf_ext e && rfc_ok e
  | SExt (EPadding l w pol) => negb w && negb (pad_other (EPadding l w pol))
  | SExt e => wf_ext e && rfc_ok e && typed_ext e     (* curves / versions: lengths and non-GREASE values are kept *)
  | SGreaseECH su ci en pl =>
      forallb (fun x => (fst x <? 65536) && ech_aead_ok (snd x)) su
      && (blen en <? 30000) && forallb (fun l => l <? 30000) pl
  end.

Definition preset_ok (sp : spec) (snimax : N) (omit : bool) : bool :=
  nonempty (sp_suites sp) && forallb (fun x => x <? 65536) (sp_suites sp) && (blen (sp_suites sp) <? 30000)
  && forallb (sext_ok snimax omit) (sp_exts sp)
  && (N.of_nat (length (filter is_sgrease (sp_exts sp))) <=? 2)
  && nodupb (map sid (filter (fun s => negb (is_sgrease s)) (sp_exts sp)))
  && forallb (fun s => is_sgrease s || negb (Grease.is_grease (sid s))) (sp_exts sp)
  && psk_lastb (map pid (sp_exts sp))
  && (N.of_nat (length (filter is_sticket (sp_exts sp))) <=? 1)
  && (sum_map (max_len snimax) (sp_exts sp) + 516 <=? 65535).

(* the Configs the theorems are stated for *)
Definition cfg_in_class (c : cfg) (snimax : N) (omit : bool) : Prop :=
  blen (c_sni c) <= snimax /\ c_omit_psk c = omit.

(* randomness of the shape the code's draws have; everything else makes apply_preset return an error *)
Definition with_exts (sp : spec) (es : list sext) : spec :=
  {| sp_min := sp_min sp; sp_max := sp_max sp; sp_suites := sp_suites sp; sp_comp := sp_comp sp; sp_exts := es |}.

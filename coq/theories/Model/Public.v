(* C31 — public views of handshake messages (u_public.go) and the private structs
   they are converted to/from, field by field, exactly as the Go code copies them.
   Executable definitions only; proofs are in Proofs/PublicP.v.

   Conventions: uintN fields are N; []byte / string are [bytes]; [][]byte and []string are
   [list bytes]; func values, hash.Hash objects, *ecdh.PrivateKey, *mlkem keys, time.Time are
   opaque identities ([N]; a nil pointer / nil func is [None]).  A Go slice that is
   *assigned* (same backing array, nil stays nil) is a plain list; the three slices that are
   *rebuilt* by an append loop (KeyShares, PskIdentities, TicketKeys) carry nil-ness
   ([option (list _)], None = nil) because the loop turns an empty non-nil slice into nil. *)
From UV Require Export Base.Common.
From Coq Require Import String.
Open Scope N_scope.

Definition slice (A : Type) := option (list A).
(* `var out []T; for _, x := range in { out = append(out, f x) }`  (u_public.go:637-676, 838-852) *)
Definition append_loop {A B} (f : A -> B) (l : list A) : slice B :=
  fold_left (fun acc x => match acc with None => Some [f x] | Some o => Some (o ++ [f x]) end) l None.
Definition rebuild {A B} (f : A -> B) (s : slice A) : slice B :=
  match s with None => None | Some l => append_loop f l end.
Definition elems {A} (s : slice A) : list A := match s with None => [] | Some l => l end.

(* ---- key shares (u_public.go:629-650, common.go:166) ---- *)
Record KeyShare := { KS_Group : N; KS_Data : bytes }.
Record keyShare := { ks_group : N; ks_data : bytes }.
Definition ks_to_public (k : keyShare) : KeyShare := {| KS_Data := ks_data k; KS_Group := ks_group k |}.   (* :640 *)
Definition ks_to_private (K : KeyShare) : keyShare := {| ks_data := KS_Data K; ks_group := KS_Group K |}.  (* :647 *)
Definition keyShares_ToPublic (kss : slice keyShare) : slice KeyShare := rebuild ks_to_public kss.
Definition KeyShares_ToPrivate (KSS : slice KeyShare) : slice keyShare := rebuild ks_to_private KSS.

(* ---- PSK identities (u_public.go:654-676, common.go:179) ---- *)
Record PskIdentity := { PI_Label : bytes; PI_ObfuscatedTicketAge : N }.
Record pskIdentity := { pi_label : bytes; pi_obfuscatedTicketAge : N }.
Definition pi_to_public (p : pskIdentity) : PskIdentity :=
  {| PI_Label := pi_label p; PI_ObfuscatedTicketAge := pi_obfuscatedTicketAge p |}.                       (* :665 *)
Definition pi_to_private (P : PskIdentity) : pskIdentity :=
  {| pi_label := PI_Label P; pi_obfuscatedTicketAge := PI_ObfuscatedTicketAge P |}.                       (* :673 *)
Definition pskIdentities_ToPublic (s : slice pskIdentity) : slice PskIdentity := rebuild pi_to_public s.
Definition PskIdentities_ToPrivate (s : slice PskIdentity) : slice pskIdentity := rebuild pi_to_private s.

(* ---- ticket keys (u_public.go:804-852, common.go:948) ---- *)
Record TicketKey := { TK_AesKey : bytes; TK_HmacKey : bytes; TK_Created : N }.
Record ticketKey := { tk_aesKey : bytes; tk_hmacKey : bytes; tk_created : N }.
Definition tk_ToPublic (t : ticketKey) : TicketKey :=
  {| TK_AesKey := tk_aesKey t; TK_HmacKey := tk_hmacKey t; TK_Created := tk_created t |}.                 (* :822 *)
Definition TK_ToPrivate (T : TicketKey) : ticketKey :=
  {| tk_aesKey := TK_AesKey T; tk_hmacKey := TK_HmacKey T; tk_created := TK_Created T |}.                 (* :830 *)
Definition ticketKeys_ToPublic (s : slice ticketKey) : slice TicketKey := rebuild tk_ToPublic s.          (* :838 *)
Definition TicketKeys_ToPrivate (s : slice TicketKey) : slice ticketKey := rebuild TK_ToPrivate s.        (* :846 *)

(* ---- key-share private keys (u_public.go:888-924, key_schedule.go:53-60) ---- *)
(* ExtraEcdhe / extraEcdhe ([]*ecdh.PrivateKey, added by the C18 fix): the slice is assigned as is, so a plain list of key identities *)
Record KeySharePrivateKeys := { KP_CurveID : N; KP_Ecdhe : option N; KP_Mlkem : option N; KP_MlkemEcdhe : option N;
  KP_ExtraEcdhe : list (option N) }.
Record keySharePrivateKeys := { kp_curveID : N; kp_ecdhe : option N; kp_mlkem : option N; kp_mlkemEcdhe : option N;
  kp_extraEcdhe : list (option N) }.
Definition KP_ToPrivate (k : option KeySharePrivateKeys) : option keySharePrivateKeys :=                   (* :895 *)
  match k with None => None | Some k =>
    Some {| kp_curveID := KP_CurveID k; kp_ecdhe := KP_Ecdhe k; kp_mlkem := KP_Mlkem k; kp_mlkemEcdhe := KP_MlkemEcdhe k;
            kp_extraEcdhe := KP_ExtraEcdhe k |} end.
Definition kp_ToPublic (k : option keySharePrivateKeys) : option KeySharePrivateKeys :=                   (* :907 *)
  match k with None => None | Some k =>
    Some {| KP_CurveID := kp_curveID k; KP_Ecdhe := kp_ecdhe k; KP_Mlkem := kp_mlkem k; KP_MlkemEcdhe := kp_mlkemEcdhe k;
            KP_ExtraEcdhe := kp_extraEcdhe k |} end.

(* ---- deprecated KEM key view (u_public.go:854-886) ---- *)
Record KemPrivateKey := { KM_SecretKey : option N; KM_CurveID : N }.
Record kemPrivateKey := { km_secretKey : option N; km_curveID : N }.
Definition KM_ToPrivate (k : option KemPrivateKey) : option kemPrivateKey :=
  match k with None => None | Some k => Some {| km_secretKey := KM_SecretKey k; km_curveID := KM_CurveID k |} end.
Definition km_ToPublic (k : option kemPrivateKey) : option KemPrivateKey :=
  match k with None => None | Some k => Some {| KM_SecretKey := km_secretKey k; KM_CurveID := km_curveID k |} end.

(* ---- TLS 1.3 cipher-suite view (u_public.go:235-266, cipher_suites.go:195) ---- *)
Record PubCipherSuiteTLS13 := { C3_Id : N; C3_KeyLen : Z; C3_Aead : option N; C3_Hash : N }.
Record cipherSuiteTLS13 := { c3_id : N; c3_keyLen : Z; c3_aead : option N; c3_hash : N }.
Definition c3_toPublic (c : option cipherSuiteTLS13) : option PubCipherSuiteTLS13 :=                      (* :242 *)
  match c with None => None | Some c =>
    Some {| C3_Id := c3_id c; C3_KeyLen := c3_keyLen c; C3_Aead := c3_aead c; C3_Hash := c3_hash c |} end.
Definition C3_toPrivate (c : option PubCipherSuiteTLS13) : option cipherSuiteTLS13 :=                     (* :255 *)
  match c with None => None | Some c =>
    Some {| c3_id := C3_Id c; c3_keyLen := C3_KeyLen c; c3_aead := C3_Aead c; c3_hash := C3_Hash c |} end.

(* ---- TLS <=1.2 cipher-suite view (u_public.go:499-547, cipher_suites.go:136) ---- *)
Record PubCipherSuite := { CS_Id : N; CS_KeyLen : Z; CS_MacLen : Z; CS_IvLen : Z; CS_Ka : option N;
  CS_Flags : Z; CS_Cipher : option N; CS_Mac : option N; CS_Aead : option N }.
Record cipherSuite := { cs_id : N; cs_keyLen : Z; cs_macLen : Z; cs_ivLen : Z; cs_ka : option N;
  cs_flags : Z; cs_cipher : option N; cs_mac : option N; cs_aead : option N }.
Definition CS_zero : PubCipherSuite := {| CS_Id := 0; CS_KeyLen := 0; CS_MacLen := 0; CS_IvLen := 0; CS_Ka := None;
  CS_Flags := 0; CS_Cipher := None; CS_Mac := None; CS_Aead := None |}.
Definition CS_getPrivatePtr (c : option PubCipherSuite) : option cipherSuite :=                            (* :513 *)
  match c with None => None | Some c =>
    Some {| cs_id := CS_Id c; cs_keyLen := CS_KeyLen c; cs_macLen := CS_MacLen c; cs_ivLen := CS_IvLen c; cs_ka := CS_Ka c;
            cs_flags := CS_Flags c; cs_cipher := CS_Cipher c; cs_mac := CS_Mac c; cs_aead := CS_Aead c |} end.
Definition cs_getPublicObj (c : option cipherSuite) : PubCipherSuite :=                                    (* :531 nil -> zero object *)
  match c with None => CS_zero | Some c =>
    {| CS_Id := cs_id c; CS_KeyLen := cs_keyLen c; CS_MacLen := cs_macLen c; CS_IvLen := cs_ivLen c; CS_Ka := cs_ka c;
       CS_Flags := cs_flags c; CS_Cipher := cs_cipher c; CS_Mac := cs_mac c; CS_Aead := cs_aead c |} end.

(* ---- FinishedHash view (u_public.go:551-626, prf.go:172).  prf functions are identities; the
   wrappers prfFuncV1ToV2 / prfFuncV2ToV1 build a NEW closure, written as a tagged identity. ---- *)
Inductive prf_id := PrfNative (f : N) | PrfWrapV1 (old : old_id)      (* prfFunc values *)
with old_id := OldNative (f : N) | OldWrapV2 (p : prf_id).            (* prfFuncOld values *)
Record FinishedHash := { FH_Client : option N; FH_Server : option N; FH_ClientMD5 : option N; FH_ServerMD5 : option N;
  FH_Buffer : bytes; FH_Version : N; FH_Prfv2 : option prf_id; FH_Prf : option old_id }.
Record finishedHash := { fh_client : option N; fh_server : option N; fh_clientMD5 : option N; fh_serverMD5 : option N;
  fh_buffer : bytes; fh_version : N; fh_prf : option prf_id }.
Definition FH_getPrivateObj (f : FinishedHash) : finishedHash :=                                           (* :585 *)
  {| fh_client := FH_Client f; fh_server := FH_Server f; fh_clientMD5 := FH_ClientMD5 f; fh_serverMD5 := FH_ServerMD5 f;
     fh_buffer := FH_Buffer f; fh_version := FH_Version f;
     fh_prf := match FH_Prfv2 f with
               | Some p => Some p                                                                          (* :598 *)
               | None => match FH_Prf f with Some o => Some (PrfWrapV1 o) | None => None end end |}.       (* :600 *)
Definition fh_getPublicObj (f : finishedHash) : FinishedHash :=                                            (* :608 *)
  {| FH_Client := fh_client f; FH_Server := fh_server f; FH_ClientMD5 := fh_clientMD5 f; FH_ServerMD5 := fh_serverMD5 f;
     FH_Buffer := fh_buffer f; FH_Version := fh_version f;
     FH_Prfv2 := fh_prf f;                                                                                 (* :621 *)
     FH_Prf := match fh_prf f with Some p => Some (OldWrapV2 p) | None => Some (OldWrapV2 (PrfNative 0)) end |}.
     (* :622 prfFuncV2ToV1(fh.prf) is a non-nil closure even when fh.prf is nil; it is never equal to the Prf given *)

(* ---- CertificateRequestMsgTLS13 (u_public.go:189-233, handshake_messages.go:1278) ---- *)
Record CertificateRequestMsgTLS13 := { CR_Raw : bytes; CR_OcspStapling : bool; CR_Scts : bool;
  CR_SupportedSignatureAlgorithms : list N; CR_SupportedSignatureAlgorithmsCert : list N;
  CR_CertificateAuthorities : list bytes }.
Record certificateRequestMsgTLS13 := { cr_original : option bytes; cr_ocspStapling : bool; cr_scts : bool;
  cr_supportedSignatureAlgorithms : list N; cr_supportedSignatureAlgorithmsCert : list N;
  cr_certificateAuthorities : list bytes }.
Section CertReq.
  (* certificateRequestMsgTLS13.marshal (handshake_messages.go:1287): never looks at [original];
     None = builder error, then Raw is the empty slice (u_public.go:205-208). *)
  Variable crm_marshal : bool -> bool -> list N -> list N -> list bytes -> option bytes.
  Definition cr_toPublic (c : option certificateRequestMsgTLS13) : option CertificateRequestMsgTLS13 :=   (* :201 *)
    match c with None => None | Some c =>
      Some {| CR_Raw := match crm_marshal (cr_ocspStapling c) (cr_scts c) (cr_supportedSignatureAlgorithms c)
                                         (cr_supportedSignatureAlgorithmsCert c) (cr_certificateAuthorities c)
                        with Some raw => raw | None => [] end;
              CR_OcspStapling := cr_ocspStapling c; CR_Scts := cr_scts c;
              CR_SupportedSignatureAlgorithms := cr_supportedSignatureAlgorithms c;
              CR_SupportedSignatureAlgorithmsCert := cr_supportedSignatureAlgorithmsCert c;
              CR_CertificateAuthorities := cr_certificateAuthorities c |} end.
End CertReq.
Definition CR_toPrivate (c : option CertificateRequestMsgTLS13) : option certificateRequestMsgTLS13 :=    (* :221 Raw NOT copied *)
  match c with None => None | Some c =>
    Some {| cr_original := None;
            cr_ocspStapling := CR_OcspStapling c; cr_scts := CR_Scts c;
            cr_supportedSignatureAlgorithms := CR_SupportedSignatureAlgorithms c;
            cr_supportedSignatureAlgorithmsCert := CR_SupportedSignatureAlgorithmsCert c;
            cr_certificateAuthorities := CR_CertificateAuthorities c |} end.

(* ---- ServerHello (u_public.go:268-353, handshake_messages.go:750) ---- *)
Record PubServerHelloMsg := { SH_Raw : option bytes; SH_Vers : N; SH_Random : bytes; SH_SessionId : bytes; SH_CipherSuite : N;
  SH_CompressionMethod : N; SH_NextProtoNeg : bool; SH_NextProtos : list bytes; SH_OcspStapling : bool; SH_Scts : list bytes;
  SH_ExtendedMasterSecret : bool; SH_TicketSupported : bool; SH_SecureRenegotiation : bytes;
  SH_SecureRenegotiationSupported : bool; SH_AlpnProtocol : bytes; SH_SupportedVersion : N; SH_ServerShare : keyShare;
  SH_SelectedIdentityPresent : bool; SH_SelectedIdentity : N; SH_Cookie : bytes; SH_SelectedGroup : N }.
Record serverHelloMsg := { sh_original : option bytes; sh_vers : N; sh_random : bytes; sh_sessionId : bytes; sh_cipherSuite : N;
  sh_compressionMethod : N; sh_ocspStapling : bool; sh_ticketSupported : bool; sh_secureRenegotiationSupported : bool;
  sh_secureRenegotiation : bytes; sh_extendedMasterSecret : bool; sh_alpnProtocol : bytes; sh_scts : list bytes;
  sh_supportedVersion : N; sh_serverShare : keyShare; sh_selectedIdentityPresent : bool; sh_selectedIdentity : N;
  sh_supportedPoints : bytes; sh_encryptedClientHello : bytes; sh_serverNameAck : bool;
  sh_cookie : bytes; sh_selectedGroup : N; sh_nextProtoNeg : bool; sh_nextProtos : list bytes }.
Definition SH_getPrivatePtr (s : option PubServerHelloMsg) : option serverHelloMsg :=                      (* :295 *)
  match s with None => None | Some s =>
    Some {| sh_original := SH_Raw s; sh_vers := SH_Vers s; sh_random := SH_Random s; sh_sessionId := SH_SessionId s;
            sh_cipherSuite := SH_CipherSuite s; sh_compressionMethod := SH_CompressionMethod s;
            sh_nextProtoNeg := SH_NextProtoNeg s; sh_nextProtos := SH_NextProtos s; sh_ocspStapling := SH_OcspStapling s;
            sh_scts := SH_Scts s; sh_extendedMasterSecret := SH_ExtendedMasterSecret s;
            sh_ticketSupported := SH_TicketSupported s; sh_secureRenegotiation := SH_SecureRenegotiation s;
            sh_secureRenegotiationSupported := SH_SecureRenegotiationSupported s; sh_alpnProtocol := SH_AlpnProtocol s;
            sh_supportedVersion := SH_SupportedVersion s; sh_serverShare := SH_ServerShare s;
            sh_selectedIdentityPresent := SH_SelectedIdentityPresent s; sh_selectedIdentity := SH_SelectedIdentity s;
            sh_cookie := SH_Cookie s; sh_selectedGroup := SH_SelectedGroup s;
            (* not set by the composite literal: zero values *)
            sh_supportedPoints := []; sh_encryptedClientHello := []; sh_serverNameAck := false |} end.
Definition sh_getPublicPtr (s : option serverHelloMsg) : option PubServerHelloMsg :=                       (* :325 *)
  match s with None => None | Some s =>
    Some {| SH_Raw := sh_original s; SH_Vers := sh_vers s; SH_Random := sh_random s; SH_SessionId := sh_sessionId s;
            SH_CipherSuite := sh_cipherSuite s; SH_CompressionMethod := sh_compressionMethod s;
            SH_NextProtoNeg := sh_nextProtoNeg s; SH_NextProtos := sh_nextProtos s; SH_OcspStapling := sh_ocspStapling s;
            SH_Scts := sh_scts s; SH_ExtendedMasterSecret := sh_extendedMasterSecret s;
            SH_TicketSupported := sh_ticketSupported s; SH_SecureRenegotiation := sh_secureRenegotiation s;
            SH_SecureRenegotiationSupported := sh_secureRenegotiationSupported s; SH_AlpnProtocol := sh_alpnProtocol s;
            SH_SupportedVersion := sh_supportedVersion s; SH_ServerShare := sh_serverShare s;
            SH_SelectedIdentityPresent := sh_selectedIdentityPresent s; SH_SelectedIdentity := sh_selectedIdentity s;
            SH_Cookie := sh_cookie s; SH_SelectedGroup := sh_selectedGroup s |} end.

(* ---- ClientHello (u_public.go:355-479, handshake_messages.go:71) ---- *)
Record clientHelloMsg := { ch_original : option bytes; ch_vers : N; ch_random : bytes; ch_sessionId : bytes;
  ch_cipherSuites : list N; ch_compressionMethods : bytes; ch_serverName : bytes; ch_ocspStapling : bool;
  ch_supportedCurves : list N; ch_supportedPoints : bytes; ch_ticketSupported : bool; ch_sessionTicket : bytes;
  ch_supportedSignatureAlgorithms : list N; ch_supportedSignatureAlgorithmsCert : list N;
  ch_secureRenegotiationSupported : bool; ch_secureRenegotiation : bytes; ch_extendedMasterSecret : bool;
  ch_alpnProtocols : list bytes; ch_scts : bool; ch_supportedVersions : list N; ch_cookie : bytes;
  ch_keyShares : slice keyShare; ch_earlyData : bool; ch_pskModes : bytes; ch_pskIdentities : slice pskIdentity;
  ch_pskBinders : list bytes; ch_quicTransportParameters : option bytes; ch_encryptedClientHello : bytes;
  ch_extensions : list N; ch_nextProtoNeg : bool }.
Record PubClientHelloMsg := { CH_Raw : option bytes; CH_Vers : N; CH_Random : bytes; CH_SessionId : bytes;
  CH_CipherSuites : list N; CH_CompressionMethods : bytes; CH_NextProtoNeg : bool; CH_ServerName : bytes;
  CH_OcspStapling : bool; CH_Scts : bool; CH_Ems : bool; CH_SupportedCurves : list N; CH_SupportedPoints : bytes;
  CH_TicketSupported : bool; CH_SessionTicket : bytes; CH_SupportedSignatureAlgorithms : list N;
  CH_SecureRenegotiation : bytes; CH_SecureRenegotiationSupported : bool; CH_AlpnProtocols : list bytes;
  CH_SupportedSignatureAlgorithmsCert : list N; CH_SupportedVersions : list N; CH_Cookie : bytes;
  CH_KeyShares : slice KeyShare; CH_EarlyData : bool; CH_PskModes : bytes; CH_PskIdentities : slice PskIdentity;
  CH_PskBinders : list bytes; CH_QuicTransportParameters : option bytes;
  CH_cachedPrivateHello : option clientHelloMsg;      (* pointer to the private struct it was made from / last made *)
  CH_encryptedClientHello : bytes }.
(* getPrivatePtr builds the private struct AND stores it in chm.cachedPrivateHello (:428). *)
Definition CH_private_of (c : PubClientHelloMsg) : clientHelloMsg :=                                        (* :395-427 *)
  {| ch_original := CH_Raw c; ch_vers := CH_Vers c; ch_random := CH_Random c; ch_sessionId := CH_SessionId c;
     ch_cipherSuites := CH_CipherSuites c; ch_compressionMethods := CH_CompressionMethods c;
     ch_serverName := CH_ServerName c; ch_ocspStapling := CH_OcspStapling c; ch_supportedCurves := CH_SupportedCurves c;
     ch_supportedPoints := CH_SupportedPoints c; ch_ticketSupported := CH_TicketSupported c;
     ch_sessionTicket := CH_SessionTicket c; ch_supportedSignatureAlgorithms := CH_SupportedSignatureAlgorithms c;
     ch_supportedSignatureAlgorithmsCert := CH_SupportedSignatureAlgorithmsCert c;
     ch_secureRenegotiationSupported := CH_SecureRenegotiationSupported c; ch_secureRenegotiation := CH_SecureRenegotiation c;
     ch_extendedMasterSecret := CH_Ems c; ch_alpnProtocols := CH_AlpnProtocols c; ch_scts := CH_Scts c;
     ch_supportedVersions := CH_SupportedVersions c; ch_cookie := CH_Cookie c;
     ch_keyShares := KeyShares_ToPrivate (CH_KeyShares c); ch_earlyData := CH_EarlyData c; ch_pskModes := CH_PskModes c;
     ch_pskIdentities := PskIdentities_ToPrivate (CH_PskIdentities c); ch_pskBinders := CH_PskBinders c;
     ch_quicTransportParameters := CH_QuicTransportParameters c; ch_encryptedClientHello := CH_encryptedClientHello c;
     ch_nextProtoNeg := CH_NextProtoNeg c;
     ch_extensions := [] (* not set: zero value *) |}.
Definition CH_set_cached (c : PubClientHelloMsg) (p : option clientHelloMsg) : PubClientHelloMsg :=
  {| CH_Raw := CH_Raw c; CH_Vers := CH_Vers c; CH_Random := CH_Random c; CH_SessionId := CH_SessionId c;
     CH_CipherSuites := CH_CipherSuites c; CH_CompressionMethods := CH_CompressionMethods c; CH_NextProtoNeg := CH_NextProtoNeg c;
     CH_ServerName := CH_ServerName c; CH_OcspStapling := CH_OcspStapling c; CH_Scts := CH_Scts c; CH_Ems := CH_Ems c;
     CH_SupportedCurves := CH_SupportedCurves c; CH_SupportedPoints := CH_SupportedPoints c;
     CH_TicketSupported := CH_TicketSupported c; CH_SessionTicket := CH_SessionTicket c;
     CH_SupportedSignatureAlgorithms := CH_SupportedSignatureAlgorithms c; CH_SecureRenegotiation := CH_SecureRenegotiation c;
     CH_SecureRenegotiationSupported := CH_SecureRenegotiationSupported c; CH_AlpnProtocols := CH_AlpnProtocols c;
     CH_SupportedSignatureAlgorithmsCert := CH_SupportedSignatureAlgorithmsCert c; CH_SupportedVersions := CH_SupportedVersions c;
     CH_Cookie := CH_Cookie c; CH_KeyShares := CH_KeyShares c; CH_EarlyData := CH_EarlyData c; CH_PskModes := CH_PskModes c;
     CH_PskIdentities := CH_PskIdentities c; CH_PskBinders := CH_PskBinders c;
     CH_QuicTransportParameters := CH_QuicTransportParameters c; CH_cachedPrivateHello := p;
     CH_encryptedClientHello := CH_encryptedClientHello c |}.
(* returns (private struct, receiver after the call) *)
Definition CH_getPrivatePtr (c : option PubClientHelloMsg) : option (clientHelloMsg * PubClientHelloMsg) :=  (* :391 *)
  match c with None => None | Some c => let p := CH_private_of c in Some (p, CH_set_cached c (Some p)) end.
Definition ch_getPublicPtr (m : option clientHelloMsg) : option PubClientHelloMsg :=                        (* :441 *)
  match m with None => None | Some m =>
    Some {| CH_Raw := ch_original m; CH_Vers := ch_vers m; CH_Random := ch_random m; CH_SessionId := ch_sessionId m;
            CH_CipherSuites := ch_cipherSuites m; CH_CompressionMethods := ch_compressionMethods m;
            CH_NextProtoNeg := ch_nextProtoNeg m; CH_ServerName := ch_serverName m; CH_OcspStapling := ch_ocspStapling m;
            CH_Scts := ch_scts m; CH_Ems := ch_extendedMasterSecret m; CH_SupportedCurves := ch_supportedCurves m;
            CH_SupportedPoints := ch_supportedPoints m; CH_TicketSupported := ch_ticketSupported m;
            CH_SessionTicket := ch_sessionTicket m; CH_SupportedSignatureAlgorithms := ch_supportedSignatureAlgorithms m;
            CH_SecureRenegotiation := ch_secureRenegotiation m;
            CH_SecureRenegotiationSupported := ch_secureRenegotiationSupported m; CH_AlpnProtocols := ch_alpnProtocols m;
            CH_SupportedSignatureAlgorithmsCert := ch_supportedSignatureAlgorithmsCert m;
            CH_SupportedVersions := ch_supportedVersions m; CH_Cookie := ch_cookie m;
            CH_KeyShares := keyShares_ToPublic (ch_keyShares m); CH_EarlyData := ch_earlyData m; CH_PskModes := ch_pskModes m;
            CH_PskIdentities := pskIdentities_ToPublic (ch_pskIdentities m); CH_PskBinders := ch_pskBinders m;
            CH_QuicTransportParameters := ch_quicTransportParameters m; CH_cachedPrivateHello := Some m;
            CH_encryptedClientHello := ch_encryptedClientHello m |} end.

(* ---- the field tables the runner compares with reflect on every run ----
   pair name, public struct fields in declaration order, private struct fields in declaration order,
   (public field, private field) for every field the conversions copy, in either direction. *)
Record pair_info := { pi_pub : list string; pi_priv : list string; pi_copied : list (string * string) }.
Local Open Scope string_scope.
Definition info_ClientHello : pair_info := {|
  pi_pub := ["Raw";"Vers";"Random";"SessionId";"CipherSuites";"CompressionMethods";"NextProtoNeg";"ServerName";"OcspStapling";
    "Scts";"Ems";"SupportedCurves";"SupportedPoints";"TicketSupported";"SessionTicket";"SupportedSignatureAlgorithms";
    "SecureRenegotiation";"SecureRenegotiationSupported";"AlpnProtocols";"SupportedSignatureAlgorithmsCert";"SupportedVersions";
    "Cookie";"KeyShares";"EarlyData";"PskModes";"PskIdentities";"PskBinders";"QuicTransportParameters";"cachedPrivateHello";
    "encryptedClientHello"];
  pi_priv := ["original";"vers";"random";"sessionId";"cipherSuites";"compressionMethods";"serverName";"ocspStapling";
    "supportedCurves";"supportedPoints";"ticketSupported";"sessionTicket";"supportedSignatureAlgorithms";
    "supportedSignatureAlgorithmsCert";"secureRenegotiationSupported";"secureRenegotiation";"extendedMasterSecret";
    "alpnProtocols";"scts";"supportedVersions";"cookie";"keyShares";"earlyData";"pskModes";"pskIdentities";"pskBinders";
    "quicTransportParameters";"encryptedClientHello";"extensions";"nextProtoNeg"];
  pi_copied := [("Raw","original");("Vers","vers");("Random","random");("SessionId","sessionId");("CipherSuites","cipherSuites");
    ("CompressionMethods","compressionMethods");("NextProtoNeg","nextProtoNeg");("ServerName","serverName");
    ("OcspStapling","ocspStapling");("Scts","scts");("Ems","extendedMasterSecret");("SupportedCurves","supportedCurves");
    ("SupportedPoints","supportedPoints");("TicketSupported","ticketSupported");("SessionTicket","sessionTicket");
    ("SupportedSignatureAlgorithms","supportedSignatureAlgorithms");("SecureRenegotiation","secureRenegotiation");
    ("SecureRenegotiationSupported","secureRenegotiationSupported");("AlpnProtocols","alpnProtocols");
    ("SupportedSignatureAlgorithmsCert","supportedSignatureAlgorithmsCert");("SupportedVersions","supportedVersions");
    ("Cookie","cookie");("KeyShares","keyShares");("EarlyData","earlyData");("PskModes","pskModes");
    ("PskIdentities","pskIdentities");("PskBinders","pskBinders");("QuicTransportParameters","quicTransportParameters");
    ("encryptedClientHello","encryptedClientHello")] |}.
Definition info_ServerHello : pair_info := {|
  pi_pub := ["Raw";"Vers";"Random";"SessionId";"CipherSuite";"CompressionMethod";"NextProtoNeg";"NextProtos";"OcspStapling";
    "Scts";"ExtendedMasterSecret";"TicketSupported";"SecureRenegotiation";"SecureRenegotiationSupported";"AlpnProtocol";
    "SupportedVersion";"ServerShare";"SelectedIdentityPresent";"SelectedIdentity";"Cookie";"SelectedGroup"];
  pi_priv := ["original";"vers";"random";"sessionId";"cipherSuite";"compressionMethod";"ocspStapling";"ticketSupported";
    "secureRenegotiationSupported";"secureRenegotiation";"extendedMasterSecret";"alpnProtocol";"scts";"supportedVersion";
    "serverShare";"selectedIdentityPresent";"selectedIdentity";"supportedPoints";"encryptedClientHello";"serverNameAck";
    "cookie";"selectedGroup";"nextProtoNeg";"nextProtos"];
  pi_copied := [("Raw","original");("Vers","vers");("Random","random");("SessionId","sessionId");("CipherSuite","cipherSuite");
    ("CompressionMethod","compressionMethod");("NextProtoNeg","nextProtoNeg");("NextProtos","nextProtos");
    ("OcspStapling","ocspStapling");("Scts","scts");("ExtendedMasterSecret","extendedMasterSecret");
    ("TicketSupported","ticketSupported");("SecureRenegotiation","secureRenegotiation");
    ("SecureRenegotiationSupported","secureRenegotiationSupported");("AlpnProtocol","alpnProtocol");
    ("SupportedVersion","supportedVersion");("ServerShare","serverShare");("SelectedIdentityPresent","selectedIdentityPresent");
    ("SelectedIdentity","selectedIdentity");("Cookie","cookie");("SelectedGroup","selectedGroup")] |}.
Definition info_CertReq13 : pair_info := {|
  pi_pub := ["Raw";"OcspStapling";"Scts";"SupportedSignatureAlgorithms";"SupportedSignatureAlgorithmsCert";"CertificateAuthorities"];
  pi_priv := ["original";"ocspStapling";"scts";"supportedSignatureAlgorithms";"supportedSignatureAlgorithmsCert";"certificateAuthorities"];
  pi_copied := [("OcspStapling","ocspStapling");("Scts","scts");("SupportedSignatureAlgorithms","supportedSignatureAlgorithms");
    ("SupportedSignatureAlgorithmsCert","supportedSignatureAlgorithmsCert");("CertificateAuthorities","certificateAuthorities")] |}.
Definition info_KeyShare : pair_info := {| pi_pub := ["Group";"Data"]; pi_priv := ["group";"data"];
  pi_copied := [("Group","group");("Data","data")] |}.
Definition info_PskIdentity : pair_info := {| pi_pub := ["Label";"ObfuscatedTicketAge"]; pi_priv := ["label";"obfuscatedTicketAge"];
  pi_copied := [("Label","label");("ObfuscatedTicketAge","obfuscatedTicketAge")] |}.
Definition info_TicketKey : pair_info := {| pi_pub := ["AesKey";"HmacKey";"Created"]; pi_priv := ["aesKey";"hmacKey";"created"];
  pi_copied := [("AesKey","aesKey");("HmacKey","hmacKey");("Created","created")] |}.
Definition info_KeySharePrivateKeys : pair_info := {| pi_pub := ["CurveID";"Ecdhe";"Mlkem";"MlkemEcdhe";"ExtraEcdhe"];
  pi_priv := ["curveID";"ecdhe";"mlkem";"mlkemEcdhe";"extraEcdhe"];
  pi_copied := [("CurveID","curveID");("Ecdhe","ecdhe");("Mlkem","mlkem");("MlkemEcdhe","mlkemEcdhe");("ExtraEcdhe","extraEcdhe")] |}.
Definition info_KemPrivateKey : pair_info := {| pi_pub := ["SecretKey";"CurveID"]; pi_priv := ["secretKey";"curveID"];
  pi_copied := [("SecretKey","secretKey");("CurveID","curveID")] |}.
Definition info_CipherSuiteTLS13 : pair_info := {| pi_pub := ["Id";"KeyLen";"Aead";"Hash"]; pi_priv := ["id";"keyLen";"aead";"hash"];
  pi_copied := [("Id","id");("KeyLen","keyLen");("Aead","aead");("Hash","hash")] |}.
Definition info_CipherSuite : pair_info := {|
  pi_pub := ["Id";"KeyLen";"MacLen";"IvLen";"Ka";"Flags";"Cipher";"Mac";"Aead"];
  pi_priv := ["id";"keyLen";"macLen";"ivLen";"ka";"flags";"cipher";"mac";"aead"];
  pi_copied := [("Id","id");("KeyLen","keyLen");("MacLen","macLen");("IvLen","ivLen");("Ka","ka");("Flags","flags");
    ("Cipher","cipher");("Mac","mac");("Aead","aead")] |}.
Definition info_FinishedHash : pair_info := {|
  pi_pub := ["Client";"Server";"ClientMD5";"ServerMD5";"Buffer";"Version";"Prfv2";"Prf"];
  pi_priv := ["client";"server";"clientMD5";"serverMD5";"buffer";"version";"prf"];
  pi_copied := [("Client","client");("Server","server");("ClientMD5","clientMD5");("ServerMD5","serverMD5");("Buffer","buffer");
    ("Version","version");("Prfv2","prf")] |}.

Definition pair_table : list (string * pair_info) :=
  [("ClientHello", info_ClientHello); ("ServerHello", info_ServerHello); ("CertReq13", info_CertReq13);
   ("KeyShare", info_KeyShare); ("PskIdentity", info_PskIdentity); ("TicketKey", info_TicketKey);
   ("KeySharePrivateKeys", info_KeySharePrivateKeys); ("KemPrivateKey", info_KemPrivateKey);
   ("CipherSuiteTLS13", info_CipherSuiteTLS13); ("CipherSuite", info_CipherSuite); ("FinishedHash", info_FinishedHash)].

(* Fields WITHOUT a counterpart = declared fields that no conversion copies. *)
Definition str_mem (s : string) (l : list string) : bool := existsb (String.eqb s) l.
Definition pub_without (i : pair_info) : list string := filter (fun f => negb (str_mem f (map fst (pi_copied i)))) (pi_pub i).
Definition priv_without (i : pair_info) : list string := filter (fun f => negb (str_mem f (map snd (pi_copied i)))) (pi_priv i).
Definition without_counterpart : list (string * (list string * list string)) :=
  filter (fun e => match snd e with ([], []) => false | _ => true end)
         (map (fun e => (fst e, (pub_without (snd e), priv_without (snd e)))) pair_table).

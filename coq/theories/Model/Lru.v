(* Model of lruSessionCache (common.go:1647-1720). Keys are N (identities of
   session-key strings), values are option N (None = nil *ClientSessionState).
   The recency list q is front-first. The Go map c.m indexes list elements by
   key; the model looks elements up in q directly (lookup), the agreement of
   map and list being the invariant proved in Proofs/LruP.v. *)
From UV Require Import Base.Common.

Notation entry := (N * option N)%type (only parsing).
Record lru := mkLru { cap : nat; q : list entry }.

Definition lookup (k : N) (l : list entry) : option entry := find (fun e => fst e =? k) l.
Definition remove (k : N) (l : list entry) : list entry := filter (fun e => negb (fst e =? k)) l.

(* common.go:1663 *)
Definition new_lru (capacity : Z) : lru :=
  mkLru (if (capacity <? 1)%Z then 64%nat else Z.to_nat capacity) [].

(* common.go:1680 *)
Definition put (c : lru) (k : N) (v : option N) : lru :=
  match lookup k (q c) with
  | Some _ =>
      match v with
      | None => mkLru (cap c) (remove k (q c))            (* q.Remove; delete(m,k) *)
      | Some _ => mkLru (cap c) ((k, v) :: remove k (q c)) (* entry.state = cs; MoveToFront *)
      end
  | None =>
      match v with
      | None => c                                          (* absent key, nil state: no-op *)
      | Some _ =>
        if (length (q c) <? cap c)%nat then mkLru (cap c) ((k, v) :: q c)   (* PushFront *)
        else mkLru (cap c) ((k, v) :: removelast (q c))                      (* reuse Back() *)
      end
  end.

(* common.go:1711: returns (state, ok) *)
Definition get (c : lru) (k : N) : lru * option (option N) :=
  match lookup k (q c) with
  | Some e => (mkLru (cap c) (e :: remove k (q c)), Some (snd e))
  | None => (c, None)
  end.

Inductive op := Put (k : N) (v : option N) | Get (k : N).

(* run a history, collecting the result of every Get *)
Fixpoint run (c : lru) (ops : list op) : list (option (option N)) :=
  match ops with
  | [] => []
  | Put k v :: r => run (put c k v) r
  | Get k :: r => let (c', o) := get c k in o :: run c' r
  end.

Fixpoint final (c : lru) (ops : list op) : lru :=
  match ops with
  | [] => c
  | Put k v :: r => final (put c k v) r
  | Get k :: r => final (fst (get c k)) r
  end.

(* ---- abstract specification: a bounded LRU map ---- *)
(* state: list of (key, value), most recently used first, at most n entries,
   keys distinct. Put k None deletes; Put k (Some v) inserts or updates and makes
   k most recent, evicting the least recently used entry when over capacity;
   Get k returns the value and makes k most recent. *)
Definition spec := list (N * N).
Definition s_lookup (k : N) (s : spec) : option N :=
  match find (fun e => fst e =? k) s with Some e => Some (snd e) | None => None end.
Definition s_remove (k : N) (s : spec) : spec := filter (fun e => negb (fst e =? k)) s.
Definition s_put (n : nat) (s : spec) (k : N) (v : option N) : spec :=
  match v with
  | None => s_remove k s
  | Some x => firstn n ((k, x) :: s_remove k s)
  end.
Definition s_get (s : spec) (k : N) : spec * option N :=
  match s_lookup k s with
  | Some x => ((k, x) :: s_remove k s, Some x)
  | None => (s, None)
  end.
Fixpoint s_run (n : nat) (s : spec) (ops : list op) : list (option N) :=
  match ops with
  | [] => []
  | Put k v :: r => s_run n (s_put n s k v) r
  | Get k :: r => let (s', o) := s_get s k in o :: s_run n s' r
  end.

(* What a caller observes from Get: found?, and the state pointer. The spec
   never stores nil, so (nil,true) has no spec counterpart. *)
Definition obs_of_spec (o : option N) : option (option N) :=
  match o with Some x => Some (Some x) | None => None end.

(* C02, code side: UConn.MarshalClientHelloNoECH (u_conn.go:598-690) over the
   CONCRETE extension types of Model/Ext.v, i.e. the generic marshal model of
   Model/Marshal.v instantiated with every extension's own Len()/Read(), plus the
   length check added by fixes/C02-clienthello-length-fields.diff; and, spec side,
   the boolean precondition of the property ("each extension type at most once,
   field values within their RFC limits").  Executable definitions only; proofs in
   Proofs/ChMarshalP.v.

   STATE: [marshal_hello] models the FIXED code.  The unfixed function is
   [marshal_hello_unchecked] (= Marshal.marshal_client_hello on the same
   extensions); Props/C02.v keeps the input on which it emitted malformed bytes. *)
From UV Require Import Base.Common Model.Wire Model.Varint Model.Ext Model.ExtSpec Model.Strict.
From UV Require Import Model.Padding Model.Marshal.

Definition is_psk_ext (e : ext) : bool :=
  match e with EUtlsPreSharedKey _ _ _ _ _ | EFakePreSharedKey _ _ _ => true | _ => false end.

(* The TLSExtension object as MarshalClientHelloNoECH sees it.  A padding extension is
   recognised by its Go type and handled through Update/Len/Read of Model/Padding.v; [padto]
   is the argument of AlwaysPadToLen when the functor is neither nil nor BoringPaddingStyle.
   Every other extension: Len() and Read(b) depend on len(b) only. *)
Definition to_aext (padto : Z) (e : ext) : aext :=
  match e with
  | EPadding l w pol =>
      APad (match pol with PadNone => PolNone | PadBoring => PolBoring | PadOther => PolAlways padto end)
           {| p_len := l; p_will := w |}
  | _ => AExt (is_psk_ext e) (ext_len e) (fun b => ext_read e (len b))
  end.

(* u_conn.go:598-675 as it was: no check that the lengths fit their fields *)
Definition marshal_hello_unchecked (bbs : N -> N) (padto : Z) (h : hello_hdr) (es : list ext) : res bytes :=
  marshal_client_hello bbs h (map (to_aext padto) es).

Definition E_TOO_LARGE : N := 4.   (* "utls: ClientHello too large: ..." *)

(* [fix C02-clienthello-length-fields], inserted after helloLen is computed (u_conn.go:629):
     if len(hello.SessionId) > 0xff || len(hello.CipherSuites)*2 > 0xffff ||
        len(hello.CompressionMethods) > 0xff || extensionsLen > 0xffff {
        return errors.New("utls: ClientHello too large: ...") }
   (the uint24 handshake length then fits as well: Proofs/ChMarshalP.fits_hello_len) *)
Definition fits (h : hello_hdr) (p : prepared) : bool :=
  (len (h_sid h) <=? 255) && (len (h_suites h) * 2 <=? 65535) && (len (h_comp h) <=? 255)
  && (pr_extensions_len p <=? 65535).

(* MarshalClientHelloNoECH with the fix: lengths, the padding Update, the check, then the
   unchanged writes. *)
Definition marshal_hello (bbs : N -> N) (padto : Z) (h : hello_hdr) (es : list ext) : res bytes :=
  do p <- marshal_prepare h (map (to_aext padto) es);
  if negb (fits h p) then Err E_TOO_LARGE
  else marshal_client_hello bbs h (map (to_aext padto) es).

(* ---- the precondition of the property ---- *)

(* PskIdentity identities<7..>: at least one, each identity<1..>; PskBinderEntry<32..255>;
   one binder per identity *)
Definition psk_rfc (ids : list psk_identity) (bs : list bytes) : bool :=
  nonempty ids && forallb (fun i => nonempty (fst i)) ids
  && forallb (fun b => 32 <=? blen b) bs && Nat.eqb (length ids) (length bs).

(* Field values respect the MINIMUM sizes of the RFC grammars (the maxima are wf_ext).  A
   GenericExtension / GREASE extension carries raw extension_data for whatever type it
   names: its data must be in that type's grammar.  An extension that writes nothing
   (Len() = 0) has no constraint. *)
Definition rfc_ok (e : ext) : bool :=
  ext_absent e ||
  match e with
  | ESupportedCurves l | ESignatureAlgorithms l | ESignatureAlgorithmsCert l
  | EFakeDelegatedCredentials l | ESupportedVersions l | ECompressCert l => nonempty l
  | ESupportedPoints p | EPSKKeyExchangeModes p | ECookie p => nonempty p
  | EALPN ps | EApplicationSettings ps | EApplicationSettingsNew ps =>
      nonempty ps && forallb (fun p => nonempty p) ps
  | EGeneric id d => body_okb id d
  | EGREASE v b => body_okb v b
  | EKeyShare ks => forallb (fun k => nonempty (snd k)) ks
  | EUtlsPreSharedKey _ _ _ ids bs | EFakePreSharedKey _ ids bs => psk_rfc ids bs
  | EGREASEECH _ _ _ _ p => nonempty p
  | _ => true
  end.

(* legacy_version a uint16, 32-byte random, session id <0..32>, cipher_suites<2..>,
   compression_methods<1..> *)
Definition hdr_wfb (h : hello_hdr) : bool :=
  (h_vers h <? 65536) && (len (h_random h) =? 32) && (len (h_sid h) <=? 32)
  && nonempty (h_suites h) && forallb (fun s => s <? 65536) (h_suites h) && nonempty (h_comp h).

(* each extension type at most once, pre_shared_key only last, every extension within its
   wire limits (wf_ext) and RFC minimum sizes (rfc_ok) *)
Definition wf_specb (h : hello_hdr) (es : list ext) : bool :=
  hdr_wfb h && forallb (fun e => wf_ext e && rfc_ok e) es
  && nodupb (map ext_id es) && psk_lastb (map ext_id es).

(* the total sizes fit the length fields (decidable from the spec: no bytes are produced) *)
Definition spec_fitsb (padto : Z) (h : hello_hdr) (es : list ext) : bool :=
  match marshal_prepare h (map (to_aext padto) es) with Ok p => fits h p | _ => false end.

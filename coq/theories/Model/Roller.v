(* Model of Roller.Dial (u_roller.go:57-110) as a pure function of: the
   configured ids, the shuffled copy (any permutation; the shuffle's randomness
   is an input), the remembered working id, whether each TCP dial succeeds, and
   which ids the server lets complete a handshake. *)
From UV Require Import Base.Common.
From Coq Require Import Permutation.

Definition id := N.

(* lines 67-83: move the working id to the front (swap with slot 0), or prepend it *)
Fixpoint index_of (w : id) (l : list id) : option nat :=
  match l with
  | [] => None
  | x :: r => if x =? w then Some O else match index_of w r with Some i => Some (S i) | None => None end
  end.
Fixpoint set_nth (i : nat) (x : id) (l : list id) : list id :=
  match l, i with
  | [], _ => []
  | _ :: t, O => x :: t
  | h :: t, S k => h :: set_nth k x t
  end.
Definition prioritise (sh : list id) (working : option id) : list id :=
  match working with
  | None => sh
  | Some w =>
    match index_of w sh with
    | Some i => set_nth 0 w (set_nth i (hd w sh) sh)   (* helloIDs[i] = helloIDs[0]; helloIDs[0] = w *)
    | None => w :: sh
    end
  end.

Inductive outcome := Connected (i : id) | TcpError (attempt : nat) | AllFailed | NoIds.

(* lines 87-109; k = number of TCP dials made so far *)
Fixpoint attempt_loop (order : list id) (k : nat) (tcp_ok : nat -> bool) (accepts : id -> bool)
  : list id * outcome :=
  match order with
  | [] => ([], if (k =? 0)%nat then NoIds else AllFailed)
  | x :: r =>
    if negb (tcp_ok k) then ([], TcpError k)
    else if accepts x then ([x], Connected x)
    else let (tr, o) := attempt_loop r (S k) tcp_ok accepts in (x :: tr, o)
  end.

Record dial_result := { attempts : list id; result : outcome; working' : option id }.

Definition dial (sh : list id) (working : option id) (tcp_ok : nat -> bool) (accepts : id -> bool) : dial_result :=
  let (tr, o) := attempt_loop (prioritise sh working) 0 tcp_ok accepts in
  {| attempts := tr; result := o;
     working' := match o with Connected i => Some i | _ => working end |}.

(* ---- what a caller/observer can check about one Dial (decidable) ---- *)
Fixpoint nodupb (l : list id) : bool :=
  match l with [] => true | x :: r => negb (existsb (N.eqb x) r) && nodupb r end.
Definition subsetb (a b : list id) : bool := forallb (fun x => existsb (N.eqb x) b) a.

(* the ids one Dial may try: the configured ones plus the remembered working id *)
Definition pool (ids : list id) (working : option id) : list id :=
  match working with
  | Some w => if existsb (N.eqb w) ids then ids else w :: ids
  | None => ids
  end.

(* tr: ids whose ClientHello reached the server, in order; connected: the id Dial
   returned a connection for; tcp_err: whether Dial returned a TCP dial error *)
Definition trace_ok (ids : list id) (working : option id) (accepts : id -> bool)
           (tr : list id) (connected : option id) (tcp_err : bool) : bool :=
  nodupb tr && subsetb tr (pool ids working) &&
  match working, tr with Some w, x :: _ => x =? w | _, _ => true end &&
  match connected with
  | Some i => (* the last attempt is the first accepted one *)
      negb tcp_err &&
      match rev tr with
      | l :: before => (l =? i) && accepts i && forallb (fun x => negb (accepts x)) before
      | [] => false
      end
  | None =>
      forallb (fun x => negb (accepts x)) tr &&
      (tcp_err || (length tr =? length (pool ids working))%nat)
  end.

Definition conn_of (o : outcome) : option id := match o with Connected i => Some i | _ => None end.
Definition is_tcp_err (o : outcome) : bool := match o with TcpError _ => true | _ => false end.

(* Model of Roller.Dial (u_roller.go:73-121, sameHelloID :49-64) as a pure
   function of: the configured ids, the shuffled copy (any permutation; the
   shuffle's randomness is an input), the remembered working id, how long each
   TCP connect takes (or that it is refused), the TCP dial timeout, the seeds the library generates for unseeded randomized
   ids, the handshake timeout, and how the peer treats each fingerprint it
   sees (serves it after some delay, refuses it after some delay, or reads the
   ClientHello and stays silent). *)
From UV Require Import Base.Common.
From Coq Require Import Permutation.

(* ClientHelloID (u_common.go:140-154).  [base] stands for the triple
   (Client, Version, Weights by value - nil counts as DefaultWeights, as in
   sameHelloID); [rnd] says that Client is one of the three "Randomized*"
   names; [seed] is the Seed pointer (None = nil). *)
Record hid := mkHid { rnd : bool; base : N; seed : option N }.

Definition oN_eqb (a b : option N) : bool :=
  match a, b with Some x, Some y => x =? y | None, None => true | _, _ => false end.

(* sameHelloID, u_roller.go:49-64 *)
Definition hid_eqb (a b : hid) : bool :=
  Bool.eqb (rnd a) (rnd b) && (base a =? base b) && oN_eqb (seed a) (seed b).

(* A randomized id whose Seed is nil: each connection made with it draws a
   fresh seed, i.e. shows a fresh fingerprint. *)
Definition unseeded (x : hid) : bool :=
  rnd x && match seed x with None => true | Some _ => false end.

(* The ClientHelloID the connection ends up with (UClient stores the id,
   u_conn.go:75; ApplyPreset -> generateRandomizedSpec fills in a generated
   Seed when it is nil, u_parrots.go:2739-2744, 2963-2969).  It determines the
   fingerprint on the wire.  [gen k] is the seed generated in attempt [k]. *)
Definition conn_id (gen : nat -> N) (k : nat) (x : hid) : hid :=
  if unseeded x then mkHid true (base x) (Some (gen k)) else x.

(* lines 80-96: move the working id to the front (swap with slot 0), or prepend it *)
Fixpoint index_of (w : hid) (l : list hid) : option nat :=
  match l with
  | [] => None
  | x :: r => if hid_eqb x w then Some O else match index_of w r with Some i => Some (S i) | None => None end
  end.
Fixpoint set_nth (i : nat) (x : hid) (l : list hid) : list hid :=
  match l, i with
  | [], _ => []
  | _ :: t, O => x :: t
  | h :: t, S k => h :: set_nth k x t
  end.
Definition prioritise (sh : list hid) (working : option hid) : list hid :=
  match working with
  | None => sh
  | Some w =>
    match index_of w sh with
    | Some i => set_nth 0 w (set_nth i (hd w sh) sh)   (* helloIDs[i] = helloIDs[0]; helloIDs[0] = w *)
    | None => w :: sh
    end
  end.

(* What the peer does with a ClientHello of a given fingerprint; delays in
   the same unit as the timeout. *)
Inductive peer_beh := Serve (d : N) | Refuse (d : N) | Silent.
Inductive hsres := HsOk | HsRejected | HsTimeout.

(* lines 108-109: SetDeadline(time.Now().Add(TlsHandshakeTimeout)); Handshake().
   Returns how the handshake ends and the time at which it ends. *)
Definition handshake (now T : N) (b : peer_beh) : hsres * N :=
  let deadline := now + T in
  match b with
  | Serve d => if now + d <? deadline then (HsOk, now + d) else (HsTimeout, deadline)
  | Refuse d => if now + d <? deadline then (HsRejected, now + d) else (HsTimeout, deadline)
  | Silent => (HsTimeout, deadline)
  end.

(* the outcome of one attempt in isolation *)
Definition hs_outcome (T : N) (b : peer_beh) : hsres :=
  match b with
  | Serve d => if d <? T then HsOk else HsTimeout
  | Refuse d => if d <? T then HsRejected else HsTimeout
  | Silent => HsTimeout
  end.
Definition would_succeed (T : N) (b : peer_beh) : bool :=
  match hs_outcome T b with HsOk => true | _ => false end.

Inductive outcome := Connected (i : hid) | TcpError (attempt : nat) | AllFailed | NoIds.

(* What the network does with the k-th TCP connect: completes after d, or fails at once. *)
Inductive tcp_beh := Connects (d : N) | Refused.

(* line 101: net.DialTimeout(network, addr, c.TcpDialTimeout) - the timeout runs from the start of THIS
   dial.  Returns whether a connection was made and the time at which the call returns. *)
Definition tcp_dial (now Dt : N) (b : tcp_beh) : bool * N :=
  let deadline := now + Dt in
  match b with
  | Connects d => if now + d <? deadline then (true, now + d) else (false, deadline)
  | Refused => (false, now)
  end.
(* the outcome of one TCP dial in isolation *)
Definition tcp_connects (Dt : N) (b : tcp_beh) : bool :=
  match b with Connects d => d <? Dt | Refused => false end.

Section Loop.
  Variables (tcpd : nat -> tcp_beh) (Dt : N) (gen : nat -> N) (T : N) (peer : hid -> peer_beh).

  (* lines 98-120; k = number of TCP dials made so far, now = current time.
     Result: the configured ids tried, the fingerprints sent with the way
     their handshake ended, how the call ends, and when. *)
  Fixpoint attempt_loop (order : list hid) (k : nat) (now : N)
    : list hid * list (hid * hsres) * outcome * N :=
    match order with
    | [] => ([], [], if (k =? 0)%nat then NoIds else AllFailed, now)
    | x :: r =>
      match tcp_dial now Dt (tcpd k) with
      | (false, t1) => ([], [], TcpError k, t1)                 (* line 103: return nil, err *)
      | (true, t1) =>
        let f := conn_id gen k x in
        match handshake t1 T (peer f) with
        | (HsOk, t2) => ([x], [(f, HsOk)], Connected f, t2)     (* line 116: WorkingHelloID = &client.ClientHelloID *)
        | (o, t2) =>
          match attempt_loop r (S k) t2 with
          | (tr, wi, res, te) => (x :: tr, (f, o) :: wi, res, te)
          end
        end
      end
    end.
End Loop.

Record dial_result := {
  tried : list hid;              (* configured ids used, in order *)
  wire : list (hid * hsres);     (* fingerprint of each ClientHello sent, and how that handshake ended *)
  result : outcome;
  working' : option hid;
  t_end : N }.                   (* time at which Dial returns *)

Definition dial (sh : list hid) (working : option hid) (tcpd : nat -> tcp_beh) (Dt : N) (gen : nat -> N)
           (T : N) (peer : hid -> peer_beh) (now : N) : dial_result :=
  match attempt_loop tcpd Dt gen T peer (prioritise sh working) 0 now with
  | (tr, wi, o, te) =>
    {| tried := tr; wire := wi; result := o;
       working' := match o with Connected i => Some i | _ => working end; t_end := te |}
  end.

(* fingerprints of a list of configured ids tried in attempts k, k+1, ... *)
Fixpoint fps (gen : nat -> N) (k : nat) (l : list hid) : list hid :=
  match l with [] => [] | x :: r => conn_id gen k x :: fps gen (S k) r end.

(* ---- what a caller/observer can check about one Dial (decidable) ---- *)
Definition memb (x : hid) (l : list hid) : bool := existsb (hid_eqb x) l.
Fixpoint nodupb (l : list hid) : bool :=
  match l with [] => true | x :: r => negb (memb x r) && nodupb r end.
Definition subsetb (a b : list hid) : bool := forallb (fun x => memb x b) a.

(* the ids one Dial may try: the configured ones plus the remembered working id *)
Definition pool (ids : list hid) (working : option hid) : list hid :=
  match working with
  | Some w => if memb w ids then ids else w :: ids
  | None => ids
  end.

(* The configured id a fingerprint seen on the wire is attributed to: itself
   when that exact id is in the pool, otherwise the unseeded randomized id of
   the same base. *)
Definition unseed (f : hid) : hid := if rnd f then mkHid true (base f) None else f.
Definition attr (p : list hid) (f : hid) : hid := if memb f p then f else unseed f.

(* tr: fingerprint of each ClientHello that reached the peer, in order, with what the
   peer did with it; connected: the fingerprint (id with seed) of the connection Dial
   returned; tcp_err: whether Dial returned a TCP dial error *)
Definition trace_ok (ids : list hid) (working : option hid) (T : N)
           (tr : list (hid * peer_beh)) (connected : option hid) (tcp_err : bool) : bool :=
  let p := pool ids working in
  let cfg := map (fun a => attr p (fst a)) tr in
  forallb (fun a => negb (unseeded (fst a))) tr &&
  nodupb cfg && subsetb cfg p &&
  match working, cfg with Some w, x :: _ => hid_eqb x w | _, _ => true end &&
  match connected with
  | Some i => (* the last attempt is the first one whose handshake succeeds *)
      negb tcp_err &&
      match rev tr with
      | l :: before => hid_eqb (fst l) i && would_succeed T (snd l) &&
                       forallb (fun a => negb (would_succeed T (snd a))) before
      | [] => false
      end
  | None =>
      forallb (fun a => negb (would_succeed T (snd a))) tr &&
      (tcp_err || (length tr =? length p)%nat)
  end.

(* A TCP dial error while the peer accepts every connection can only be a dial that used up its whole
   TcpDialTimeout, after every timed-out handshake used up its whole TlsHandshakeTimeout: the call must
   have lasted at least that long.  (elapsed, T, Dt in the same unit.) *)
Definition timed_out (T : N) (b : peer_beh) : bool :=
  match hs_outcome T b with HsTimeout => true | _ => false end.
Fixpoint n_timeouts (wi : list (hid * hsres)) : N :=
  match wi with
  | [] => 0
  | a :: r => (match snd a with HsTimeout => 1 | _ => 0 end) + n_timeouts r
  end.
Definition time_ok (T Dt : N) (tr : list (hid * peer_beh)) (tcp_err listening : bool) (elapsed : N) : bool :=
  if tcp_err && listening
  then T * N.of_nat (length (filter (fun a => timed_out T (snd a)) tr)) + Dt <=? elapsed
  else true.

Definition conn_of (o : outcome) : option hid := match o with Connected i => Some i | _ => None end.
Definition is_tcp_err (o : outcome) : bool := match o with TcpError _ => true | _ => false end.

(* Specification side of C02 (also used by C01): an INDEPENDENT strict grammar of
   the TLS ClientHello handshake message, written from the RFCs and not from the
   Go code:

     RFC 8446 s4 / s4.1.2   Handshake header (type 1, uint24 length), ClientHello
     RFC 8446 s4.2          Extension framing, and the bodies of supported_versions,
                            cookie, signature_algorithms(_cert), supported_groups,
                            key_share, psk_key_exchange_modes, pre_shared_key
     RFC 6066 s3, s8        server_name, status_request       RFC 6961 status_request_v2
     RFC 8422 s5.1.2        ec_point_formats                  RFC 7301 ALPN
     RFC 6962 s3.3.1        signed_certificate_timestamp (empty in a ClientHello)
     RFC 7627               extended_master_secret (empty)    RFC 5077 session_ticket (opaque)
     RFC 7685               padding (all zero)                RFC 8879 compress_certificate
     RFC 8449               record_size_limit                 RFC 9345 delegated_credential
     RFC 5746               renegotiation_info                RFC 9000 s18 transport parameters
     draft-ietf-tls-esni    encrypted_client_hello (outer / inner form)
     draft-vvv-tls-alps     application_settings (17513 and 17613)
     RFC 8472               token_binding; NPN and channel_id are empty in a ClientHello

   Every length prefix must be exact ("no trailing bytes" at every level), every
   vector must respect the minimum size its RFC gives; extension types without a
   grammar here are opaque.  The readers of Model/Wire.v (cryptobyte-style:
   value and rest, or None) are the only shared vocabulary.
   Executable definitions only; lemmas in Proofs/StrictP.v. *)
From UV Require Import Base.Common Model.Wire Model.Varint.

Record ch_ast := {
  c_vers : N;                 (* legacy_version *)
  c_random : bytes;           (* 32 bytes *)
  c_sid : bytes;              (* legacy_session_id<0..32> *)
  c_suites : list N;          (* cipher_suites<2..2^16-2> *)
  c_comp : bytes;             (* legacy_compression_methods<1..2^8-1> *)
  c_has_exts : bool;          (* the extensions vector is present (it may be absent in a TLS 1.2 hello) *)
  c_exts : list (N * bytes)   (* (extension_type, extension_data) in wire order *)
}.

(* ---- combinators ---- *)

(* the reader must consume its input completely *)
Definition exact {A} (o : option (A * bytes)) : option A :=
  match o with Some (a, []) => Some a | _ => None end.

(* T list: items until the input is exhausted. fuel >= length s suffices when
   every item consumes at least one byte; an item consuming nothing runs out of fuel. *)
Fixpoint items {A} (item : bytes -> option (A * bytes)) (fuel : nat) (s : bytes) : option (list A) :=
  match s with
  | [] => Some []
  | _ =>
    match fuel with
    | O => None
    | S k =>
      match item s with
      | None => None
      | Some (a, r) => match items item k r with Some l => Some (a :: l) | None => None end
      end
    end
  end.

Definition is_some {A} (o : option A) : bool := match o with Some _ => true | None => false end.
Definition nonempty {A} (l : list A) : bool := match l with [] => false | _ => true end.
Definition evenb (n : N) : bool := n mod 2 =? 0.

Fixpoint nodupb (l : list N) : bool :=
  match l with [] => true | x :: r => negb (existsb (N.eqb x) r) && nodupb r end.

(* ---- extension body grammars ---- *)

(* T v<2..2^16-2> with 2-byte T: NamedGroup, SignatureScheme *)
Definition u16vec_okb (b : bytes) : bool :=
  match exact (read_u16lp b) with Some v => nonempty v && evenb (blen v) | None => false end.
(* T v<2..254> with 2-byte T: ProtocolVersion, CertificateCompressionAlgorithm *)
Definition u8_u16vec_okb (b : bytes) : bool :=
  match exact (read_u8lp b) with Some v => nonempty v && evenb (blen v) | None => false end.
(* opaque/enum v<1..2^8-1> *)
Definition u8vec_ne_okb (b : bytes) : bool :=
  match exact (read_u8lp b) with Some v => nonempty v | None => false end.

(* opaque ProtocolName<1..2^8-1> *)
Definition name_item (s : bytes) : option (bytes * bytes) :=
  match read_u8lp s with Some (v, r) => if empty v then None else Some (v, r) | None => None end.
(* ProtocolName protocol_name_list<2..2^16-1> *)
Definition names_okb (b : bytes) : bool :=
  match exact (read_u16lp b) with
  | Some v => nonempty v && is_some (items name_item (length v) v)
  | None => false
  end.

(* ServerName: name_type, HostName<1..2^16-1> (other name types: opaque<1..2^16-1> too) *)
Definition sni_item (s : bytes) : option (N * bytes) :=
  obind (read_u8 s) (fun '(t, s1) => obind (read_u16lp s1) (fun '(name, s2) =>
    if empty name then None else Some (t, s2))).
(* ServerName server_name_list<1..2^16-1>, at most one name per type *)
Definition sni_okb (b : bytes) : bool :=
  match exact (read_u16lp b) with
  | Some v => nonempty v && match items sni_item (length v) v with Some ts => nodupb ts | None => false end
  | None => false
  end.

(* CertificateStatusRequest: status_type ocsp(1), ResponderID list<0..2^16-1>, Extensions<0..2^16-1> *)
Definition status_okb (b : bytes) : bool :=
  match read_u8 b with
  | Some (t, s1) =>
      (t =? 1) && match read_u16lp s1 with Some (_, s2) => is_some (exact (read_u16lp s2)) | None => false end
  | None => false
  end.
(* CertificateStatusRequestItemV2 list<1..2^16-1>: status_type, uint16 request_length, request *)
Definition status_v2_item (s : bytes) : option (N * bytes) :=
  obind (read_u8 s) (fun '(t, s1) => obind (read_u16lp s1) (fun '(_, s2) => Some (t, s2))).
Definition status_v2_okb (b : bytes) : bool :=
  match exact (read_u16lp b) with
  | Some v => nonempty v && is_some (items status_v2_item (length v) v)
  | None => false
  end.

(* KeyShareEntry: NamedGroup group, opaque key_exchange<1..2^16-1>; client_shares<0..2^16-1> *)
Definition ks_item (s : bytes) : option (N * bytes) :=
  obind (read_u16 s) (fun '(g, s1) => obind (read_u16lp s1) (fun '(k, s2) =>
    if empty k then None else Some (g, s2))).
Definition key_share_okb (b : bytes) : bool :=
  match exact (read_u16lp b) with Some v => is_some (items ks_item (length v) v) | None => false end.

(* opaque cookie<1..2^16-1> *)
Definition cookie_okb (b : bytes) : bool :=
  match exact (read_u16lp b) with Some v => nonempty v | None => false end.

(* PskIdentity: opaque identity<1..2^16-1>, uint32 obfuscated_ticket_age *)
Definition psk_id_item (s : bytes) : option (unit * bytes) :=
  obind (read_u16lp s) (fun '(id, s1) => if empty id then None else
    obind (read_u32 s1) (fun '(_, s2) => Some (tt, s2))).
(* opaque PskBinderEntry<32..255> *)
Definition psk_binder_item (s : bytes) : option (unit * bytes) :=
  obind (read_u8lp s) (fun '(b, s1) => if blen b <? 32 then None else Some (tt, s1)).
(* OfferedPsks: identities<7..2^16-1>, binders<33..2^16-1>, one binder per identity *)
Definition psk_okb (b : bytes) : bool :=
  match read_u16lp b with
  | Some (ids, s1) =>
    match exact (read_u16lp s1) with
    | Some bs =>
      match items psk_id_item (length ids) ids, items psk_binder_item (length bs) bs with
      | Some l1, Some l2 => nonempty l1 && Nat.eqb (length l1) (length l2)
      | _, _ => false
      end
    | None => false
    end
  | None => false
  end.

(* ECHClientHello: type outer(0): HpkeSymmetricCipherSuite (kdf, aead), uint8 config_id,
   opaque enc<0..2^16-1>, opaque payload<1..2^16-1>; type inner(1): empty *)
Definition ech_okb (b : bytes) : bool :=
  match read_u8 b with
  | Some (t, s1) =>
    if t =? 1 then empty s1
    else if t =? 0 then
      is_some (obind (read_u16 s1) (fun '(_, s2) => obind (read_u16 s2) (fun '(_, s3) =>
               obind (read_u8 s3) (fun '(_, s4) => obind (read_u16lp s4) (fun '(_, s5) =>
               obind (exact (read_u16lp s5)) (fun p => if empty p then None else Some tt))))))
    else false
  | None => false
  end.

(* TokenBindingParameters: major, minor, key_parameters_list<1..2^8-1> (utls also sends it empty) *)
Definition token_binding_okb (b : bytes) : bool :=
  match read_u8 b with
  | Some (_, s1) => match read_u8 s1 with Some (_, s2) => is_some (exact (read_u8lp s2)) | None => false end
  | None => false
  end.

Definition all_zero (b : bytes) : bool := forallb (fun x => x =? 0) b.

(* the grammar of extension_data, by extension_type (IANA numbers) *)
Definition body_okb (id : N) (b : bytes) : bool :=
  if id =? 0 then sni_okb b                                   (* server_name *)
  else if id =? 5 then status_okb b                            (* status_request *)
  else if id =? 10 then u16vec_okb b                           (* supported_groups *)
  else if id =? 11 then u8vec_ne_okb b                         (* ec_point_formats *)
  else if id =? 13 then u16vec_okb b                           (* signature_algorithms *)
  else if id =? 16 then names_okb b                            (* application_layer_protocol_negotiation *)
  else if id =? 17 then status_v2_okb b                        (* status_request_v2 *)
  else if id =? 18 then empty b                                (* signed_certificate_timestamp *)
  else if id =? 21 then all_zero b                             (* padding *)
  else if id =? 23 then empty b                                (* extended_master_secret *)
  else if id =? 24 then token_binding_okb b                    (* token_binding *)
  else if id =? 27 then u8_u16vec_okb b                        (* compress_certificate *)
  else if id =? 28 then blen b =? 2                            (* record_size_limit *)
  else if id =? 34 then u16vec_okb b                           (* delegated_credential *)
  else if id =? 35 then true                                   (* session_ticket: opaque *)
  else if id =? 41 then psk_okb b                              (* pre_shared_key *)
  else if id =? 43 then u8_u16vec_okb b                        (* supported_versions *)
  else if id =? 44 then cookie_okb b                           (* cookie *)
  else if id =? 45 then u8vec_ne_okb b                         (* psk_key_exchange_modes *)
  else if id =? 50 then u16vec_okb b                           (* signature_algorithms_cert *)
  else if id =? 51 then key_share_okb b                        (* key_share *)
  else if id =? 57 then is_some (parse_tps (length b) b)       (* quic_transport_parameters *)
  else if id =? 13172 then empty b                             (* next_protocol_negotiation *)
  else if id =? 17513 then names_okb b                         (* application_settings *)
  else if id =? 17613 then names_okb b
  else if id =? 30031 then empty b                             (* channel_id (old) *)
  else if id =? 30032 then empty b                             (* channel_id *)
  else if id =? 65037 then ech_okb b                           (* encrypted_client_hello *)
  else if id =? 65281 then is_some (exact (read_u8lp b))       (* renegotiation_info *)
  else true.                                                   (* GREASE and unknown types: opaque *)

(* Extension: ExtensionType extension_type, opaque extension_data<0..2^16-1> *)
Definition ext_item (s : bytes) : option ((N * bytes) * bytes) :=
  obind (read_u16 s) (fun '(id, s1) => obind (read_u16lp s1) (fun '(body, s2) => Some ((id, body), s2))).

(* ---- the handshake message ---- *)
Definition strict_parse (raw : bytes) : option ch_ast :=
  obind (read_u8 raw) (fun '(t, s0) => if negb (t =? 1) then None else      (* HandshakeType client_hello(1) *)
  obind (exact (read_u24lp s0)) (fun body =>                                   (* uint24 length, exact *)
  obind (read_u16 body) (fun '(vers, s1) =>
  obind (read_bytes 32 s1) (fun '(random, s2) =>
  obind (read_u8lp s2) (fun '(sid, s3) => if 32 <? blen sid then None else
  obind (read_u16lp s3) (fun '(sb, s4) => if negb (nonempty sb) then None else
  obind (read_u16s sb) (fun suites =>                                          (* None when the length is odd *)
  obind (read_u8lp s4) (fun '(comp, s5) => if negb (nonempty comp) then None else
  let mk has exts := {| c_vers := vers; c_random := random; c_sid := sid; c_suites := suites;
                        c_comp := comp; c_has_exts := has; c_exts := exts |} in
  if empty s5 then Some (mk false []) else
  obind (exact (read_u16lp s5)) (fun eb =>
  obind (items ext_item (length eb) eb) (fun exts =>
  if forallb (fun x => body_okb (fst x) (snd x)) exts then Some (mk true exts) else None)))))))))).

Definition ext_types (a : ch_ast) : list N := map fst (c_exts a).

(* The same message written with the length-prefix combinators of Model/Wire.v, where a
   prefix is by construction the length of what follows it (used to state what the parser
   accepts, Props/C02.v C02_strict_sound, and what the marshaller emits). *)
Definition enc_ext (x : N * bytes) : bytes := enc_u16 (fst x) ++ enc_u16lp (snd x).
Definition hello_layout (a : ch_ast) : bytes :=
  [1] ++ enc_u24lp (enc_u16 (c_vers a) ++ c_random a ++ enc_u8lp (c_sid a)
                    ++ enc_u16lp (flat_map enc_u16 (c_suites a)) ++ enc_u8lp (c_comp a)
                    ++ (if c_has_exts a then enc_u16lp (flat_map enc_ext (c_exts a)) else [])).

(* pre_shared_key (41), when present, is the last extension (RFC 8446 s4.2.11) *)
Fixpoint psk_lastb (types : list N) : bool :=
  match types with
  | [] => true
  | x :: r => match r with [] => true | _ => negb (x =? 41) && psk_lastb r end
  end.

(* THE property-level predicate: the bytes are a syntactically valid ClientHello *)
Definition valid_ch (b : bytes) : Prop :=
  exists a, strict_parse b = Some a /\ NoDup (ext_types a) /\ psk_lastb (ext_types a) = true.

(* ... and its decision procedure, the runner's oracle *)
Definition valid_chb (b : bytes) : bool :=
  match strict_parse b with
  | Some a => nodupb (ext_types a) && psk_lastb (ext_types a)
  | None => false
  end.

(* Why a hello is rejected (for the replay text): 0 accepted, 1 framing/length prefixes or a body
   grammar, 2 duplicate extension type, 3 pre_shared_key not last. *)
Definition verdict (b : bytes) : N :=
  match strict_parse b with
  | None => 1
  | Some a => if negb (nodupb (ext_types a)) then 2 else if negb (psk_lastb (ext_types a)) then 3 else 0
  end.

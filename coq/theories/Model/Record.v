(* Model of the TLS record layer of /repo/conn.go (halfConn and the Conn/UConn
   Read/Write paths after the handshake). Executable definitions only.

   The cryptographic primitives are NOT modelled: they are the fields of a
   record [prims] over which every definition is parameterised (a Section
   variable). The laws the proofs need are stated in Proofs/RecordP.v as
   Section hypotheses. Corr files instantiate [prims] with a toy instance that
   has the right lengths; only lengths, nonces and sequence numbers are
   compared with the Go code there (the AEAD itself is opaque).

   Conventions: byte strings are [list N]; Go ints are N with the narrowing
   [byte(x)] written as [mod 256]; Go panics are [Panic]; a Go error is [Err]
   with the alert number (or a code >= 1000 for non-alert errors). *)
From UV Require Import Base.Common.
Open Scope N_scope.

(* ---- constants (common.go:30-70, conn.go) ---- *)
Definition V10 : N := 769.
Definition V11 : N := 770.
Definition V12 : N := 771.
Definition V13 : N := 772.
Definition rtCCS : N := 20.
Definition rtAlert : N := 21.
Definition rtHandshake : N := 22.
Definition rtAppData : N := 23.
Definition maxPlaintext : N := 16384.
Definition maxCiphertext : N := 18432.        (* 16384 + 2048 *)
Definition maxCiphertextTLS13 : N := 16640.   (* 16384 + 256 *)
Definition maxHandshake : N := 65536.
Definition maxUselessRecords : N := 32.
Definition tcpMSSEstimate : N := 1208.
Definition recordSizeBoostThreshold : N := 131072.
Definition recordHeaderLen : nat := 5.
Definition typeNewSessionTicket : N := 4.
Definition typeKeyUpdate : N := 24.

(* alerts (alert.go) and other error codes *)
Definition a_unexpected_message : N := 10.
Definition a_bad_record_mac : N := 20.
Definition a_record_overflow : N := 22.
Definition a_decode_error : N := 50.
Definition a_protocol_version : N := 70.
Definition a_internal_error : N := 80.
Definition a_no_renegotiation : N := 100.
Definition e_rand : N := 1001.          (* io.ReadFull(rand) failed *)
Definition e_out_of_fuel : N := 1002.   (* model artefact, proved unreachable *)
Definition e_too_many : N := 1003.      (* "too many ignored records" / "non-advancing records" *)
Definition e_eof : N := 1004.           (* close_notify *)
Definition e_remote : N := 1005.        (* remote error alert *)
Definition e_hs_too_long : N := 1006.
Definition p_range : N := 1.            (* slice bounds out of range *)
Definition p_nil : N := 2.              (* nil dereference *)
Definition p_seqwrap : N := 3.          (* "TLS: sequence number wraparound" *)
Definition p_cipher : N := 4.           (* "unknown cipher type" / cipher constructor panic *)

(* ---- bytes ---- *)
Definition len (b : bytes) : N := N.of_nat (length b).
Definition be16 (n : N) : bytes := [(n / 256) mod 256; n mod 256].      (* byte(n>>8), byte(n) *)
Fixpoint be (k : nat) (n : N) : bytes :=
  match k with O => [] | S k' => be k' (n / 256) ++ [n mod 256] end.
Definition seq8 (s : N) : bytes := be 8 s.                              (* hc.seq[:] *)
Fixpoint de (b : bytes) (acc : N) : N :=
  match b with [] => acc | x :: r => de r (acc * 256 + x) end.
Fixpoint bxor (a b : bytes) : bytes :=                                   (* subtle/XOR over min length *)
  match a, b with x :: a', y :: b' => N.lxor x y :: bxor a' b' | _, _ => [] end.
Definition slice (b : bytes) (lo hi : nat) : bytes := firstn (hi - lo) (skipn lo b).
Definition zeros (n : nat) : bytes := repeat 0 n.

(* ---- primitives (crypto/aes, crypto/cipher, x/crypto/chacha20poly1305, crypto/rc4,
        crypto/hmac, tls13.ExpandLabel, prf.go pHash): uninterpreted ---- *)
Record prims := mkPrims {
  aead_seal : N -> bytes -> bytes -> bytes -> bytes -> bytes;          (* alg key nonce12 ad plaintext *)
  aead_open : N -> bytes -> bytes -> bytes -> bytes -> option bytes;   (* alg key nonce12 ad ciphertext *)
  aead_ks   : N -> bytes -> bytes -> nat -> bytes;                     (* keystream of the AEAD's stream part *)
  aead_tag  : N -> bytes -> bytes -> bytes -> bytes -> bytes;          (* alg key nonce ad plaintext *)
  cbc_enc   : N -> bytes -> bytes -> bytes -> bytes;                   (* alg key iv plaintext *)
  cbc_dec   : N -> bytes -> bytes -> bytes -> bytes;                   (* alg key iv ciphertext *)
  stream_ks : N -> bytes -> N -> nat -> bytes;                         (* alg key position length *)
  hmac      : N -> bytes -> bytes -> bytes;                            (* alg key message *)
  next_secret : N -> bytes -> bytes;                                   (* suite, secret: nextTrafficSecret *)
  traffic_key : N -> bytes -> bytes * bytes;                           (* suite, secret: trafficKey -> key, iv *)
  prf       : N -> N -> bytes -> bytes -> nat -> bytes                 (* version suite secret seed n: key expansion *)
}.

(* algorithm tags (only used to index the primitives) *)
Definition algRC4 : N := 1.
Definition alg3DES : N := 2.
Definition algAES : N := 3.
Definition algGCM : N := 4.
Definition algCHACHA : N := 5.
Definition macSHA1 : N := 1.
Definition macSHA256 : N := 2.
Definition macSHA384 : N := 3.
Definition mac_len (a : N) : nat :=
  if a =? macSHA1 then 20%nat else if a =? macSHA256 then 32%nat else if a =? macSHA384 then 48%nat else 0%nat.
Definition aead_overhead : nat := 16.

(* ---- cipher states held by a halfConn ---- *)
(* cipher.Stream (RC4) | prefixNonceAEAD | xorNonceAEAD | cbcMode *)
Inductive ckind := KStream | KAeadPrefix | KAeadXor | KCbc.
Record cipher := mkCipher {
  c_kind : ckind;
  c_alg : N;
  c_key : bytes;
  c_iv : bytes;      (* AEAD: fixed nonce part (4 resp. 12 bytes); CBC: current chaining IV *)
  c_read : bool;     (* CBC only: built with cipher.NewCBCDecrypter (isRead = true) *)
  c_pos : N;         (* stream only: keystream position *)
  c_bs : nat         (* CBC only: block size *)
}.
Record macst := mkMac { m_alg : N; m_key : bytes }.
Definition m_size (m : macst) : nat := mac_len (m_alg m).

(* conn.go:171-187 *)
Record half := mkHalf {
  h_vers : N;
  h_cipher : option cipher;
  h_mac : option macst;
  h_seq : N;
  h_next_cipher : option cipher;
  h_next_mac : option macst;
  h_secret : bytes
}.
Definition half0 : half := mkHalf 0 None None 0 None None [].
Definition set_seq (hc : half) (s : N) : half :=
  mkHalf (h_vers hc) (h_cipher hc) (h_mac hc) s (h_next_cipher hc) (h_next_mac hc) (h_secret hc).
Definition set_cipher (hc : half) (c : option cipher) : half :=
  mkHalf (h_vers hc) c (h_mac hc) (h_seq hc) (h_next_cipher hc) (h_next_mac hc) (h_secret hc).

(* conn.go:207 *)
Definition prepare_cipher_spec (hc : half) (version : N) (c : option cipher) (m : option macst) : half :=
  mkHalf version (h_cipher hc) (h_mac hc) (h_seq hc) c m (h_secret hc).

(* conn.go:215 *)
Definition change_cipher_spec (hc : half) : res half :=
  match h_next_cipher hc with
  | None => Err a_internal_error
  | Some c =>
    if h_vers hc =? V13 then Err a_internal_error
    else Ok (mkHalf (h_vers hc) (Some c) (h_next_mac hc) 0 None None (h_secret hc))
  end.

(* conn.go:240 incSeq: panics instead of wrapping *)
Definition inc_seq (hc : half) : res half :=
  if h_seq hc + 1 =? 18446744073709551616 then Panic p_seqwrap else Ok (set_seq hc (h_seq hc + 1)).

(* conn.go:258 explicitNonceLen *)
Definition explicit_nonce_len (hc : half) : nat :=
  match h_cipher hc with
  | None => 0
  | Some c =>
    match c_kind c with
    | KStream => 0
    | KAeadPrefix => 8            (* prefixNonceAEAD.explicitNonceLen = NonceSize = 12 - 4 *)
    | KAeadXor => 0
    | KCbc => if (V11 <=? h_vers hc)%N then c_bs c else 0
    end
  end%nat.

(* conn.go:283 extractPadding, written without the constant-time bit tricks:
   good iff the last byte pl satisfies pl+1 <= len and the last pl+1 bytes all equal pl
   (the loop inspects min(256,len) bytes and only those with i <= pl count);
   on failure paddingLen is zeroed, so toRemove = 1. *)
Definition extract_padding (payload : bytes) : nat * bool :=
  if (length payload <? 1)%nat then (0%nat, false) else
  let pl := last payload 0 in                                            (* payload[len(payload)-1] *)
  let k := S (N.to_nat pl) in
  if (k <=? length payload)%nat && forallb (N.eqb pl) (firstn k (rev payload))
  then (k, true) else (1%nat, false).

(* conn.go:330 *)
Definition round_up (a b : nat) : nat := (a + (b - a mod b) mod b)%nat.

Definition set_len (record : bytes) (n : N) : bytes :=                  (* record[3] = byte(n>>8); record[4] = byte(n) *)
  firstn 3 record ++ be16 n ++ skipn 5 record.

Section WithPrims.
Variable P : prims.

(* cipher_suites.go:619 tls10MAC (the `extra` bytes are written after Sum and do not affect the result) *)
Definition tls10mac (m : macst) (s : N) (hdr data : bytes) : bytes :=
  hmac P (m_alg m) (m_key m) (seq8 s ++ hdr ++ data).

(* nonce handed to the underlying 12-byte-nonce AEAD: cipher_suites.go:466 (prefix) and :487 (xor) *)
Definition aead_nonce (c : cipher) (nonce : bytes) : bytes :=
  match c_kind c with
  | KAeadPrefix => firstn 4 (c_iv c) ++ nonce                                   (* copy(f.nonce[4:], nonce) *)
  | _ => firstn 4 (c_iv c) ++ bxor (skipn 4 (c_iv c)) nonce                     (* nonceMask[4+i] ^= b *)
  end.

(* cipher.BlockMode.CryptBlocks of a CBC encrypter / decrypter; the chaining IV becomes the last
   ciphertext block (dst for the encrypter, src for the decrypter). Go panics on partial blocks. *)
Definition last_block (bs : nat) (iv ct : bytes) : bytes :=
  if (length ct <? bs)%nat then iv else skipn (length ct - bs) ct.
Definition crypt_blocks (c : cipher) (data : bytes) : res (bytes * cipher) :=
  if negb (length data mod c_bs c =? 0)%nat then Panic p_cipher else
  if c_read c then
    Ok (cbc_dec P (c_alg c) (c_key c) (c_iv c) data,
        mkCipher (c_kind c) (c_alg c) (c_key c) (last_block (c_bs c) (c_iv c) data) (c_read c) (c_pos c) (c_bs c))
  else
    let out := cbc_enc P (c_alg c) (c_key c) (c_iv c) data in
    Ok (out, mkCipher (c_kind c) (c_alg c) (c_key c) (last_block (c_bs c) (c_iv c) out) (c_read c) (c_pos c) (c_bs c)).
Definition set_iv (c : cipher) (iv : bytes) : cipher :=
  mkCipher (c_kind c) (c_alg c) (c_key c) iv (c_read c) (c_pos c) (c_bs c).
(* cipher.Stream.XORKeyStream *)
Definition xor_key_stream (c : cipher) (data : bytes) : bytes * cipher :=
  (bxor data (stream_ks P (c_alg c) (c_key c) (c_pos c) (length data)),
   mkCipher (c_kind c) (c_alg c) (c_key c) (c_iv c) (c_read c) (c_pos c + len data) (c_bs c)).

(* ---- conn.go:483-560 encrypt. [hdr] is the 5-byte header already in `record`;
   [rnd] is what io.ReadFull(rand, explicitNonce) would deliver. ---- *)
Definition is_cbc (c : cipher) : bool := match c_kind c with KCbc => true | _ => false end.

(* conn.go:489-507: the explicit nonce / IV *)
Definition enc_explicit (hc : half) (c : cipher) (rnd : bytes) : res bytes :=
  let enl := explicit_nonce_len hc in
  if (0 <? enl)%nat then
    if negb (is_cbc c) && (enl <? 16)%nat
    then Ok (firstn enl (seq8 (h_seq hc) ++ zeros (enl - 8)))            (* copy(explicitNonce, hc.seq[:]) *)
    else if (length rnd <? enl)%nat then Err e_rand else Ok (firstn enl rnd)
  else Ok [].

(* conn.go:509-553: the switch over the cipher type; [record] = header ++ explicit nonce *)
Definition enc_cipher (hc : half) (c : cipher) (record explicit payload : bytes) : res (bytes * cipher) :=
  match c_kind c with
  | KStream =>
    match h_mac hc with
    | None => Panic p_nil
    | Some m =>
      let mac := tls10mac m (h_seq hc) (firstn recordHeaderLen record) payload in
      let (d1, c1) := xor_key_stream c payload in
      let (d2, c2) := xor_key_stream c1 mac in
      Ok (record ++ d1 ++ d2, c2)
    end
  | KAeadPrefix | KAeadXor =>
    let nonce := match explicit with [] => seq8 (h_seq hc) | _ => explicit end in
    if h_vers hc =? V13 then
      let n := len payload + 1 + N.of_nat aead_overhead in
      let hdr13 := [rtAppData] ++ firstn 2 (skipn 1 record) ++ be16 n in       (* record[0] = 23; record[3:5] = n *)
      let inner := skipn recordHeaderLen record ++ payload ++ firstn 1 record in
      Ok (hdr13 ++ aead_seal P (c_alg c) (c_key c) (aead_nonce c nonce) hdr13 inner, c)
    else
      let ad := seq8 (h_seq hc) ++ firstn recordHeaderLen record in
      Ok (record ++ aead_seal P (c_alg c) (c_key c) (aead_nonce c nonce) ad payload, c)
  | KCbc =>
    match h_mac hc with
    | None => Panic p_nil
    | Some m =>
      let mac := tls10mac m (h_seq hc) (firstn recordHeaderLen record) payload in
      let bs := c_bs c in
      if (bs =? 0)%nat then Panic p_cipher else
      let plaintextLen := (length payload + length mac)%nat in
      let paddingLen := (bs - plaintextLen mod bs)%nat in
      let dst := payload ++ mac ++ repeat ((N.of_nat paddingLen - 1) mod 256) paddingLen in
      let c1 := match explicit with [] => c | _ => set_iv c explicit end in
      do r <- crypt_blocks c1 dst;
      Ok (record ++ fst r, snd r)
    end
  end.

Definition encrypt (hc : half) (hdr payload rnd : bytes) : res (bytes * half) :=
  match h_cipher hc with
  | None => Ok (hdr ++ payload, hc)                                       (* conn.go:484: returns before incSeq *)
  | Some c =>
    do explicit <- enc_explicit hc c rnd;
    do rc <- enc_cipher hc c (hdr ++ explicit) explicit payload;
    let n := len (fst rc) - N.of_nat recordHeaderLen in                   (* conn.go:555-559 *)
    do hc' <- inc_seq (set_cipher hc (Some (snd rc)));
    Ok (set_len (fst rc) n, hc')
  end.

(* TLS 1.3 inner plaintext: scan from the end for the first non-zero byte (conn.go:424-434).
   Argument is the reversed plaintext. *)
Fixpoint strip13 (rp : bytes) : option (N * bytes) :=
  match rp with
  | [] => None
  | b :: r => if b =? 0 then strip13 r else Some (b, rev r)
  end.

(* ---- conn.go:343-475 decrypt ---- *)
(* conn.go:362-414: the switch over the cipher type. Result: plaintext (AEAD), payload after in-place
   decryption, paddingLen, paddingGood, cipher state *)
Definition dec_cipher (hc : half) (c : cipher) (record : bytes) : res (bytes * bytes * nat * bool * cipher) :=
  let hdr := firstn recordHeaderLen record in
  let payload := skipn recordHeaderLen record in
  let enl := explicit_nonce_len hc in
  match c_kind c with
  | KStream =>
    let (d, c1) := xor_key_stream c payload in Ok ([], d, 0%nat, true, c1)
  | KAeadPrefix | KAeadXor =>
    if (length payload <? enl)%nat then Err a_bad_record_mac else
    let nonce := match firstn enl payload with [] => seq8 (h_seq hc) | e => e end in
    let body := skipn enl payload in
    let ad :=
      if h_vers hc =? V13 then hdr
      else seq8 (h_seq hc) ++ firstn 3 record
           ++ be16 (N.of_nat (length body - aead_overhead)) in             (* n := len(payload) - c.Overhead() *)
    match aead_open P (c_alg c) (c_key c) (aead_nonce c nonce) ad body with
    | None => Err a_bad_record_mac
    | Some pt => Ok (pt, body, 0%nat, true, c)
    end
  | KCbc =>
    match h_mac hc with
    | None => Panic p_nil
    | Some m =>
      let bs := c_bs c in
      if (bs =? 0)%nat then Panic p_cipher else
      let minPayload := (enl + round_up (m_size m + 1) bs)%nat in
      if negb (length payload mod bs =? 0)%nat || (length payload <? minPayload)%nat
      then Err a_bad_record_mac else
      let c1 := if (0 <? enl)%nat then set_iv c (firstn enl payload) else c in
      let body := if (0 <? enl)%nat then skipn enl payload else payload in
      do r <- crypt_blocks c1 body;
      let (pl, good) := extract_padding (fst r) in
      Ok ([], fst r, pl, good, snd r)
    end
  end.

(* conn.go:416-435: TLS 1.3 inner content type *)
Definition dec_inner13 (hc : half) (typ : N) (pt : bytes) : res (bytes * N) :=
  if h_vers hc =? V13 then
    if negb (typ =? rtAppData) then Err a_unexpected_message else
    if maxPlaintext + 1 <? len pt then Err a_record_overflow else
    match strip13 (rev pt) with
    | None => Err a_unexpected_message
    | Some (t, p) => Ok (p, t)
    end
  else Ok (pt, typ).

(* conn.go:440-468: MAC-then-encrypt verification *)
Definition dec_mac (hc : half) (record pt pay : bytes) (pl : nat) (good : bool) : res bytes :=
  match h_mac hc with
  | None => Ok pt
  | Some m =>
    let macSize := m_size m in
    if (length pay <? macSize)%nat then Err a_bad_record_mac else
    let n := (length pay - macSize - pl)%nat in                          (* negative -> 0: nat subtraction *)
    let hdr2 := firstn 3 record ++ be16 (N.of_nat n) in
    let remoteMAC := slice pay n (n + macSize) in
    let localMAC := tls10mac m (h_seq hc) hdr2 (firstn n pay) in
    if bytes_eqb localMAC remoteMAC && good then Ok (firstn n pay) else Err a_bad_record_mac
  end.

Definition decrypt (hc : half) (record : bytes) : res (bytes * N * half) :=
  if (length record <? recordHeaderLen)%nat then Panic p_range else
  let typ := nth 0 record 0 in
  let payload := skipn recordHeaderLen record in
  if (h_vers hc =? V13) && (typ =? rtCCS) then Ok (payload, typ, hc) else
  match h_cipher hc with
  | None =>
    do pt2 <- dec_mac hc record payload payload 0 true;
    do hc' <- inc_seq hc;
    Ok (pt2, typ, hc')
  | Some c =>
    do r <- dec_cipher hc c record;
    let '(pt, pay, pl, good, c1) := r in
    do pt1 <- dec_inner13 hc typ pt;
    do pt2 <- dec_mac hc record (fst pt1) pay pl good;
    do hc' <- inc_seq (set_cipher hc (Some c1));
    Ok (pt2, snd pt1, hc')
  end.

(* ---- the connection ---- *)
Record conn := mkConn {
  cn_vers : N;
  cn_uconn : bool;          (* UConn.Write (u_conn.go:427) vs Conn.Write (conn.go:1206) *)
  cn_suite : N;             (* c.cipherSuite *)
  cn_in : half;
  cn_out : half;
  cn_input : bytes;         (* c.input: decrypted application data not yet returned *)
  cn_hand : bytes;          (* c.hand *)
  cn_retry : N;             (* c.retryCount *)
  cn_bytesSent : N;
  cn_packetsSent : N;
  cn_dynoff : bool          (* config.DynamicRecordSizingDisabled *)
}.
Definition with_out (c : conn) (o : half) (bs ps : N) : conn :=
  mkConn (cn_vers c) (cn_uconn c) (cn_suite c) (cn_in c) o (cn_input c) (cn_hand c) (cn_retry c) bs ps (cn_dynoff c).
Definition with_in (c : conn) (i : half) (inp hand : bytes) (retry : N) : conn :=
  mkConn (cn_vers c) (cn_uconn c) (cn_suite c) i (cn_out c) inp hand retry (cn_bytesSent c) (cn_packetsSent c) (cn_dynoff c).

(* conn.go:897 maxPayloadSizeForWrite; returns the size and the new packetsSent *)
Definition max_payload_size_for_write (c : conn) (typ : N) : N * N :=
  if cn_dynoff c || negb (typ =? rtAppData) then (maxPlaintext, cn_packetsSent c) else
  if recordSizeBoostThreshold <=? cn_bytesSent c then (maxPlaintext, cn_packetsSent c) else
  let o := cn_out c in
  let pb0 := tcpMSSEstimate - N.of_nat recordHeaderLen - N.of_nat (explicit_nonce_len o) in
  let pb1 :=
    match h_cipher o with
    | None => pb0
    | Some ci =>
      match c_kind ci with
      | KStream => pb0 - N.of_nat (match h_mac o with Some m => m_size m | None => 0 end)
      | KAeadPrefix | KAeadXor => pb0 - N.of_nat aead_overhead
      | KCbc =>
        (* (payloadBytes & ^(blockSize-1)) - 1 - macSize *)
        N.ldiff pb0 (N.of_nat (c_bs ci) - 1) - 1 - N.of_nat (match h_mac o with Some m => m_size m | None => 0 end)
      end
    end in
  let pb := if cn_vers c =? V13 then pb1 - 1 else pb1 in
  let pkt := cn_packetsSent c in
  if 1000 <? pkt then (maxPlaintext, pkt + 1) else
  let n := pb * (pkt + 1) in
  (if maxPlaintext <? n then maxPlaintext else n, pkt + 1).

Definition wire_vers (v : N) : N := if v =? 0 then V10 else if v =? V13 then V12 else v.

(* conn.go:977-1040 writeRecordLocked (non-QUIC, not buffering). [rnd s] is the output of config.rand()
   while the record with sequence number s is being sealed. Fuel = len(data) suffices since every
   iteration consumes at least one byte. Returns bytes put on the wire, n, connection. *)
Fixpoint write_loop (fuel : nat) (c : conn) (typ : N) (data : bytes) (rnd : N -> bytes) (wire : bytes) (n : N)
  : res (bytes * N * conn) :=
  match data with
  | [] => Ok (wire, n, c)
  | _ =>
    match fuel with
    | O => Err e_out_of_fuel
    | S f =>
      let (maxPayload, ps) := max_payload_size_for_write c typ in
      let m := if maxPayload <? len data then maxPayload else len data in
      let v := wire_vers (cn_vers c) in
      let hdr := [typ; (v / 256) mod 256; v mod 256] ++ be16 m in
      do r <- encrypt (cn_out c) hdr (firstn (N.to_nat m) data) (rnd (h_seq (cn_out c)));
      let (rec, o) := r in
      write_loop f (with_out c o (cn_bytesSent c + len rec) ps) typ (skipn (N.to_nat m) data) rnd (wire ++ rec) (n + m)
    end
  end.

Definition write_record_locked (c : conn) (typ : N) (data : bytes) (rnd : N -> bytes) : res (bytes * N * conn) :=
  do r <- write_loop (length data) c typ data rnd [] 0;
  let '(wire, n, c1) := r in
  if (typ =? rtCCS) && negb (cn_vers c1 =? V13) then
    do o <- change_cipher_spec (cn_out c1);
    Ok (wire, n, with_out c1 o (cn_bytesSent c1) (cn_packetsSent c1))
  else Ok (wire, n, c1).

Definition is_block_mode (hc : half) : bool :=
  match h_cipher hc with Some ci => match c_kind ci with KCbc => true | _ => false end | None => false end.

(* conn.go:1206-1260 Conn.Write / u_conn.go:427-481 UConn.Write (handshake complete, no error pending).
   Returns bytes put on the wire, n, connection. *)
Definition conn_write (c : conn) (b : bytes) (rnd : N -> bytes) : res (bytes * N * conn) :=
  let split_vers := if cn_uconn c then cn_vers c <=? V10 else cn_vers c =? V10 in
  if (1 <? len b) && split_vers && is_block_mode (cn_out c) then
    do r1 <- write_record_locked c rtAppData (firstn 1 b) rnd;
    let '(w1, _, c1) := r1 in
    do r2 <- write_record_locked c1 rtAppData (skipn 1 b) rnd;
    let '(w2, n, c2) := r2 in
    Ok (w1 ++ w2, n + 1, c2)
  else write_record_locked c rtAppData b rnd.

(* conn.go:228 setTrafficSecret; the AEAD algorithm is that of the TLS 1.3 suite *)
Definition is_suite13 (id : N) : bool := (id =? 4865) || (id =? 4866) || (id =? 4867).
Definition alg13 (id : N) : N := if id =? 4867 then algCHACHA else algGCM.
Definition set_traffic_secret (hc : half) (suite : N) (secret : bytes) : half :=
  let (key, iv) := traffic_key P suite secret in
  mkHalf (h_vers hc) (Some (mkCipher KAeadXor (alg13 suite) key iv false 0 0)) (h_mac hc) 0
         (h_next_cipher hc) (h_next_mac hc) secret.

Definition key_update_msg (req : bool) : bytes := [typeKeyUpdate; 0; 0; 1; if req then 1 else 0].

(* Sending a KeyUpdate: the tail of handleKeyUpdate (conn.go:1356-1369), also what the verif hook does
   to start an update. *)
Definition send_key_update (c : conn) (req : bool) (rnd : N -> bytes) : res (bytes * conn) :=
  if negb (is_suite13 (cn_suite c)) then Err a_internal_error else
  do r <- write_record_locked c rtHandshake (key_update_msg req) rnd;
  let '(wire, _, c1) := r in
  let o := set_traffic_secret (cn_out c1) (cn_suite c1) (next_secret P (cn_suite c1) (h_secret (cn_out c1))) in
  Ok (wire, with_out c1 o (cn_bytesSent c1) (cn_packetsSent c1)).

(* ---- reading ---- *)
(* Outcome of trying to take one record off the wire (conn.go:612-780, handshake complete,
   expectChangeCipherSpec = false). [wire] is rawInput followed by whatever the network will deliver
   before the call returns; when it is too short the call blocks ([RBlock]). *)
Inductive rr (A : Type) := RDone (a : A) | RBlock | RErr (e : N) | RPanic (e : N).
Arguments RDone {A} a. Arguments RBlock {A}. Arguments RErr {A} e. Arguments RPanic {A} e.

Fixpoint read_record (fuel : nat) (c : conn) (wire : bytes) : rr (conn * bytes) :=
  match fuel with
  | O => RErr e_out_of_fuel
  | S f =>
    if (length wire <? recordHeaderLen)%nat then RBlock else
    let typ := nth 0 wire 0 in
    let vers := nth 1 wire 0 * 256 + nth 2 wire 0 in
    let expected := if cn_vers c =? V13 then V12 else cn_vers c in
    let n := nth 3 wire 0 * 256 + nth 4 wire 0 in
    if negb (vers =? expected) then RErr a_protocol_version else
    if ((cn_vers c =? V13) && (maxCiphertextTLS13 <? n)) || (maxCiphertext <? n) then RErr a_record_overflow else
    if (length wire <? recordHeaderLen + N.to_nat n)%nat then RBlock else
    let record := firstn (recordHeaderLen + N.to_nat n) wire in
    let rest := skipn (recordHeaderLen + N.to_nat n) wire in
    match decrypt (cn_in c) record with
    | Err e => RErr e
    | Panic e => RPanic e
    | Ok (data, typ1, hin) =>
      if maxPlaintext <? len data then RErr a_record_overflow else
      if (match h_cipher hin with None => true | _ => false end) && (typ1 =? rtAppData) then RErr a_unexpected_message else
      let retry := if negb (typ1 =? rtAlert) && negb (typ1 =? rtCCS) && (0 <? len data) then 0 else cn_retry c in
      if (cn_vers c =? V13) && negb (typ1 =? rtHandshake) && (0 <? len (cn_hand c)) then RErr a_unexpected_message else
      let retry_read (c' : conn) :=                                       (* conn.go:789 retryReadRecord *)
        if maxUselessRecords <? cn_retry c' + 1 then RErr e_too_many
        else read_record f (with_in c' (cn_in c') (cn_input c') (cn_hand c') (cn_retry c' + 1)) rest in
      let c1 := with_in c hin (cn_input c) (cn_hand c) retry in
      if typ1 =? rtAlert then
        if negb (len data =? 2) then RErr a_unexpected_message else
        if nth 1 data 0 =? 0 then RErr e_eof else
        if cn_vers c =? V13 then RErr e_remote else
        if nth 0 data 0 =? 1 then retry_read c1 else
        if nth 0 data 0 =? 2 then RErr e_remote else RErr a_unexpected_message
      else if typ1 =? rtCCS then
        if negb (len data =? 1) || negb (nth 0 data 0 =? 1) then RErr a_decode_error else
        if 0 <? len (cn_hand c) then RErr a_unexpected_message else
        RErr a_unexpected_message                                         (* !expectChangeCipherSpec *)
      else if typ1 =? rtAppData then
        if len data =? 0 then retry_read c1 else
        RDone (with_in c hin data (cn_hand c) retry, rest)
      else if typ1 =? rtHandshake then
        if len data =? 0 then RErr a_unexpected_message else
        RDone (with_in c hin (cn_input c) (cn_hand c ++ data) retry, rest)
      else RErr a_unexpected_message
    end
  end.
Definition read_record_fuel : nat := 34.

(* conn.go:1338 handleKeyUpdate; returns the connection and the bytes it put on the wire *)
Definition handle_key_update (c : conn) (req : bool) (rnd : N -> bytes) : res (bytes * conn) :=
  if negb (is_suite13 (cn_suite c)) then Err a_internal_error else
  let i := set_traffic_secret (cn_in c) (cn_suite c) (next_secret P (cn_suite c) (h_secret (cn_in c))) in
  let c1 := with_in c i (cn_input c) (cn_hand c) (cn_retry c) in
  if req then
    match send_key_update c1 false rnd with
    | Ok r => Ok r
    | Err _ => Ok ([], c1)              (* conn.go:1362: c.out.setErrorLocked(err); return nil *)
    | Panic e => Panic e
    end
  else Ok ([], c1).

(* conn.go:1309 handlePostHandshakeMessage on a complete message taken from c.hand
   (TLS 1.3: NewSessionTicket is consumed, KeyUpdate handled, anything else refused;
   TLS <= 1.2: handleRenegotiation, which never accepts) *)
Definition handle_post (c : conn) (msg : bytes) (rnd : N -> bytes) : res (bytes * conn) :=
  if negb (cn_vers c =? V13) then Err a_no_renegotiation else
  let c1 := with_in c (cn_in c) (cn_input c) (cn_hand c) (cn_retry c + 1) in
  if maxUselessRecords <? cn_retry c1 then Err e_too_many else
  let t := nth 0 msg 0 in
  if t =? typeNewSessionTicket then Ok ([], c1)
  else if t =? typeKeyUpdate then
    match skipn 4 msg with
    | [b] => if b =? 0 then handle_key_update c1 false rnd
             else if b =? 1 then handle_key_update c1 true rnd else Err a_decode_error
    | _ => Err a_decode_error
    end
  else Err a_unexpected_message.

(* conn.go:1381 Conn.Read / u_conn.go:861 UConn.Read with a buffer of [n] bytes. The Go code is
     for input.Len()==0 { readRecord; for hand.Len()>0 { handlePostHandshakeMessage } }
   where handlePostHandshakeMessage -> readHandshake reads further records until the message is
   complete. The model flattens the nesting into one loop over the same steps (identical on the states
   the Go loop can be in: hand is non-empty only between readRecord and the message handler).
   Result: data (None = the call is blocked waiting for the network, state advanced), connection,
   rest of the wire, bytes written in response (KeyUpdate replies). *)
Fixpoint read_loop (fuel : nat) (c : conn) (wire resp : bytes) (rnd : N -> bytes)
  : res (bool * conn * bytes * bytes) :=
  match fuel with
  | O => Err e_out_of_fuel
  | S f =>
    let more (k : conn -> bytes -> res (bool * conn * bytes * bytes)) :=
      match read_record read_record_fuel c wire with
      | RDone (c1, w1) => k c1 w1
      | RBlock => Ok (false, c, wire, resp)
      | RErr e => Err e
      | RPanic e => Panic e
      end in
    if (0 <? length (cn_hand c))%nat then
      let h := cn_hand c in
      if (length h <? 4)%nat then more (fun c1 w1 => read_loop f c1 w1 resp rnd) else
      let n := (nth 1 h 0 * 256 + nth 2 h 0) * 256 + nth 3 h 0 in
      if maxHandshake <? n then Err e_hs_too_long else
      if (length h <? 4 + N.to_nat n)%nat then more (fun c1 w1 => read_loop f c1 w1 resp rnd) else
      let msg := firstn (4 + N.to_nat n) h in
      let c0 := with_in c (cn_in c) (cn_input c) (skipn (4 + N.to_nat n) h) (cn_retry c) in
      do r <- handle_post c0 msg rnd;
      read_loop f (snd r) wire (resp ++ fst r) rnd
    else if (0 <? length (cn_input c))%nat then Ok (true, c, wire, resp)
    else more (fun c1 w1 => read_loop f c1 w1 resp rnd)
  end.

Definition conn_read (c : conn) (wire : bytes) (n : nat) (rnd : N -> bytes)
  : res (option bytes * conn * bytes * bytes) :=
  if (n =? 0)%nat then Ok (Some [], c, wire, []) else
  do r <- read_loop (2 + length wire + length (cn_hand c)) c wire [] rnd;
  let '(ready, c1, w1, resp) := r in
  if ready then
    Ok (Some (firstn n (cn_input c1)),
        with_in c1 (cn_in c1) (skipn n (cn_input c1)) (cn_hand c1) (cn_retry c1), w1, resp)
  else Ok (None, c1, w1, resp).

End WithPrims.

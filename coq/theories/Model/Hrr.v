(* C17: the effect of a HelloRetryRequest on the uTLS ClientHello.
   Executable definitions only; proofs in Proofs/HrrP.v.

   Mirrored code (line numbers of /repo at the time of writing):
     handshake_client_tls13.go:258-505  processHelloRetryRequest
        310-352  crypto/tls part: "unnecessary HRR", cookie copy, group checks, fresh key
                 (decision function: Negotiate.process_hrr, re-used here)
        388-437  [uTLS SECTION]: PSK refusal, key-share replacement in every
                 *KeyShareExtension of uconn.Extensions, cookie update / insertion at
                 newPRNG().Intn(len(uconn.Extensions)-2), MarshalClientHelloNoECH
     u_prng.go:155-160                  prng.Intn (0 for n <= 0)          = Prng.intn
     u_conn.go:598-675                  MarshalClientHelloNoECH           = Marshal.marshal_client_hello
     u_tls_extensions.go:1230-1262      KeyShareExtension.Len/Read        = Ext.ext_len/ext_read (EKeyShare)
     u_tls_extensions.go:1543-1578      CookieExtension.Len/Read          = Ext.ext_len/ext_read (ECookie)

   uconn.Extensions is modelled as a list of [hext]: the three kinds the HRR code
   touches or that the marshaller treats specially, and "any other extension",
   characterised by the bytes its Read emits (Len() = their number; none = the
   extension is in the list but not on the wire, e.g. an SNIExtension with an IP
   literal or an empty UtlsPreSharedKeyExtension).  That an extension other than
   key_share / cookie / padding emits the same bytes in both marshals is what the
   correspondence run observes for every built-in type (GREASE ECH included).

   Scope: hs.echContext == nil (no real ECH), ClientHelloID != HelloGolang. *)
From UV Require Import Base.Common Model.Padding Model.Marshal Model.Prng.
From UV Require Model.Wire Model.Ext Model.Negotiate.
Open Scope N_scope.

Definition E_PSK_HRR : N := 40.       (* "uTLS does not support reprocessing of PSK key triggered by HelloRetryRequest" *)
Definition E_NO_KEYSHARE : N := 41.   (* "received HelloRetryRequest, but keyshare not found among client's uconn.Extensions" *)
Definition E_COOKIE_INDEX : N := 42.  (* "cookieIndex >= len(hs.uconn.Extensions)" *)
Definition E_PRNG : N := 43.          (* model only: PRNG stream / fuel exhausted *)

Inductive hext :=
| HKeyShare (ks : list (N * bytes))          (* *KeyShareExtension{KeyShares: (Group, Data)} *)
| HCookie (c : bytes)                        (* *CookieExtension{Cookie} *)
| HPad (pol : pad_policy) (st : pad_state)   (* *UtlsPaddingExtension *)
| HOther (psk : bool) (raw : bytes).         (* any other TLSExtension; raw = what Read emits *)

Definition is_key_share (e : hext) : bool := match e with HKeyShare _ => true | _ => false end.
Definition is_cookie (e : hext) : bool := match e with HCookie _ => true | _ => false end.
Definition is_hpad (e : hext) : bool := match e with HPad _ _ => true | _ => false end.

(* :401-413  for _, ext := range Extensions { if ks, ok := ext.(KeyShareExtension ptr); ok { ks.KeyShares = ... } } *)
Definition set_key_shares (ks : list (N * bytes)) (e : hext) : hext :=
  match e with HKeyShare _ => HKeyShare ks | _ => e end.
(* :418-424  for _, ext := range Extensions { if ks, ok := ext.(CookieExtension ptr); ok { ks.Cookie = cookie } } *)
Definition set_cookie (c : bytes) (e : hext) : hext :=
  match e with HCookie _ => HCookie c | _ => e end.

(* Go slice expressions s[:i] / s[i:] on a slice with len = cap = L (i is a Go int) *)
Definition slice_ok (i L : Z) : bool := ((0 <=? i) && (i <=? L))%Z.

(* :426-441
     p, err := newPRNG()
     cookieIndex := p.Intn(len(hs.uconn.Extensions) - 2)
     if cookieIndex >= len(hs.uconn.Extensions) { return fmt.Errorf(...) }
     hs.uconn.Extensions = append(Extensions[:cookieIndex],
         append([]TLSExtension{&CookieExtension{Cookie: cookie}}, Extensions[cookieIndex:]...)...)
   The inner append copies Extensions[cookieIndex:] into a fresh array before the outer append
   writes into the old one, so the result is prefix ++ [cookie] ++ suffix.
   (fuel, s): the freshly seeded PRNG's stream, an input. *)
Definition cookie_index (fuel : nat) (s : stream) (L : Z) : option Z :=
  match intn fuel (L - 2) s with Some (i, _) => Some i | None => None end.

Definition insert_cookie (fuel : nat) (s : stream) (c : bytes) (es : list hext) : res (list hext) :=
  let L := Z.of_nat (length es) in
  match cookie_index fuel s L with
  | None => Err E_PRNG
  | Some i =>
      if (i >=? L)%Z then Err E_COOKIE_INDEX
      else if negb (slice_ok i L) then Panic P_SLICE
      else Ok (firstn (Z.to_nat i) es ++ HCookie c :: skipn (Z.to_nat i) es)
  end.

(* :388-441, the part of the uTLS section before the re-marshal.
     npsk       len(hs.hello.pskIdentities)
     shares     hello.keyShares as left by the crypto/tls part (the fresh share, or the
                first flight's shares after a cookie-only HRR)
     cookie     hs.serverHello.cookie (nil and empty behave alike: len(...) > 0 is the test) *)
Definition hrr_exts (fuel : nat) (s : stream) (npsk : N) (shares : list (N * bytes)) (cookie : bytes)
           (es : list hext) : res (list hext) :=
  if 0 <? npsk then Err E_PSK_HRR
  else if negb (existsb is_key_share es) then Err E_NO_KEYSHARE
  else
    let es1 := map (set_key_shares shares) es in
    match cookie with
    | [] => Ok es1
    | _ => if existsb is_cookie es1 then Ok (map (set_cookie cookie) es1)
           else insert_cookie fuel s cookie es1
    end.

(* ---- the extensions as the marshaller sees them ---- *)
Definition emit_of (e : Ext.ext) : bytes :=
  match Ext.ext_read e (Ext.ext_len e) with Ok b => b | _ => [] end.
Definition key_share_bytes (ks : list (N * bytes)) : bytes := emit_of (Ext.EKeyShare ks).
Definition cookie_bytes (c : bytes) : bytes := emit_of (Ext.ECookie c).

Definition to_aext (e : hext) : aext :=
  match e with
  | HKeyShare ks => fixed_ext false (key_share_bytes ks)
  | HCookie c => fixed_ext false (cookie_bytes c)
  | HPad pol st => APad pol st
  | HOther psk raw => fixed_ext psk raw
  end.

(* uconn.Extensions after MarshalClientHelloNoECH: the padding extension's state is updated in place *)
Definition hupdate (u : N) (e : hext) : hext :=
  match e with HPad pol st => HPad pol (pad_update pol st u) | _ => e end.

(* what each extension contributes to a hello whose length without padding is u *)
Definition hemit (u : N) (e : hext) : bytes :=
  match e with
  | HKeyShare ks => key_share_bytes ks
  | HCookie c => cookie_bytes c
  | HPad pol st => pad_emit (pad_update pol st u)
  | HOther _ raw => raw
  end.

Definition hunpadded (h : hello_hdr) (es : list hext) : N := unpadded_len h (map to_aext es).

(* :443  hs.uconn.MarshalClientHelloNoECH() on the updated list *)
Definition marshal_hexts (bbs : N -> N) (h : hello_hdr) (es : list hext) : res bytes :=
  marshal_client_hello bbs h (map to_aext es).

(* the whole uTLS section: new uconn.Extensions (padding state updated) and the second hello's bytes *)
Definition hrr_second_hello (bbs : N -> N) (fuel : nat) (s : stream) (h : hello_hdr) (npsk : N)
           (shares : list (N * bytes)) (cookie : bytes) (es : list hext) : res (list hext * bytes) :=
  do es' <- hrr_exts fuel s npsk shares cookie es;
  do raw <- marshal_hexts bbs h es';
  Ok (map (hupdate (hunpadded h es')) es', raw).

(* ---- the client's whole reaction to a HelloRetryRequest (no ECH): the crypto/tls decision
        (Negotiate.process_hrr: alerts) followed by the uTLS section ---- *)
Inductive hrr_outcome :=
| HAlert (a : N)                         (* sendAlert(a) and the handshake error *)
| HError (code : N)                      (* error returned without an alert by the uTLS section *)
| HPanic (code : N)
| HSecond (es : list hext) (raw : bytes). (* second ClientHello sent *)

(* fresh: key.PublicKey().Bytes() of generateECDHEKey(rand, selectedGroup); old: the first flight's hello.keyShares *)
Definition client_hrr (bbs : N -> N) (fuel : nat) (s : stream) (h : hello_hdr)
           (v : Negotiate.client_view) (m : Negotiate.hello_msg) (cookie fresh : bytes)
           (old : list (N * bytes)) (es : list hext) : hrr_outcome :=
  match Negotiate.process_hrr v m with
  | inl a => if a =? Negotiate.a_none then HError E_PSK_HRR else HAlert a
  | inr _ =>
      let shares := if Negotiate.h_selgroup m =? 0 then old else [(Negotiate.h_selgroup m, fresh)] in
      match hrr_second_hello bbs fuel s h (Negotiate.cv_psk v) shares
              (if Negotiate.h_cookie m then cookie else []) es with
      | Ok (es', raw) => HSecond es' raw
      | Err c => HError c
      | Panic c => HPanic c
      end
  end.

(* ---- bridge from the codec model's extension values (harness/extcoq renders uconn.Extensions as these) ---- *)
Definition pol_of (p : Ext.pad_policy) : pad_policy :=
  match p with Ext.PadBoring => PolBoring | _ => PolNone end.   (* PadOther: functor unknown to the model *)

Definition hext_of_ext (e : Ext.ext) : hext :=
  match e with
  | Ext.EKeyShare ks => HKeyShare ks
  | Ext.ECookie c => HCookie c
  | Ext.EPadding l w p => HPad (pol_of p) {| p_len := l; p_will := w |}
  | Ext.EUtlsPreSharedKey _ _ _ _ _ | Ext.EFakePreSharedKey _ _ _ => HOther true (emit_of e)
  | _ => HOther false (emit_of e)
  end.

(* Shared negotiation core (C10-C13, C17, C18): what the uTLS client compares a
   server's choices against, and the client's accept/abort decision, mirrored
   from the Go code statement by statement. Executable definitions only.

   Mirrored code (line numbers of /repo at the time of writing):
     u_handshake_client.go:383-575   UConn.clientHandshake (pickTLSVersion call, the
                                     offered-version check added by fixes/C13-..., canary test)
     handshake_client.go:559-579     Conn.pickTLSVersion
     common.go:1202-1241             Config.supportedVersions(roleClient), maxSupportedVersion
     common.go:1288-1299             Config.mutualVersion
     u_conn.go:696-755               UConn.SetTLSVers (Config.Min/MaxVersion := spec min/max)
     handshake_client_tls13.go:52-178   clientHandshakeStateTLS13.handshake
     handshake_client_tls13.go:182-238  checkServerHelloOrHRR
     handshake_client_tls13.go:258-505  processHelloRetryRequest (no-ECH path, uTLS section)
     handshake_client_tls13.go:507-563  processServerHello
     handshake_client_tls13.go:583-676  establishHandshakeKeys (which private key is used)
     handshake_client_tls13.go:678-705  readServerParameters / checkALPN call
     handshake_client_tls13.go:760-800  readServerCertificate (compressed-certificate branch)
     u_handshake_client.go:24-68        utlsReadServerCertificate, decompressCert algorithm test
     handshake_client.go:665-683        clientHandshakeState.pickCipherSuite
     handshake_client.go:904-935        processServerHello (TLS <= 1.2)
     handshake_client.go:980-997        checkALPN
     handshake_client.go:745-760        doFullHandshake: ServerKeyExchange branch
     key_agreement.go:275-305           ecdheKeyAgreement.processServerKeyExchange (with the
                                        offered-curve check added by fixes/C12-...)
     cipher_suites.go:150-173, u_common.go:739-746  implemented TLS <= 1.2 suites

   Not modelled (abstracted into the flight's [f_crypto_ok]): certificate chain
   validation, CertificateVerify, Finished, record protection, the bytes of key
   shares. ECH, QUIC, renegotiation and TLS 1.2 session resumption are outside this
   model (the view describes a first handshake without ECH configured). *)
From UV Require Export Base.Common.

(* ---- alerts (alert.go) ---- *)
Definition a_unexpected_message : N := 10.
Definition a_bad_record_mac : N := 20.
Definition a_handshake_failure : N := 40.
Definition a_bad_certificate : N := 42.
Definition a_illegal_parameter : N := 47.
Definition a_decode_error : N := 50.
Definition a_protocol_version : N := 70.
Definition a_internal_error : N := 80.
Definition a_missing_extension : N := 109.
Definition a_unsupported_extension : N := 110.
Definition a_no_application_protocol : N := 120.
Definition a_none : N := 255. (* an error returned without sendAlert *)

Definition V10 : N := 769.
Definition V11 : N := 770.
Definition V12 : N := 771.
Definition V13 : N := 772.

Definition memN (x : N) (l : list N) : bool := existsb (N.eqb x) l.
Definition memB (x : bytes) (l : list bytes) : bool := existsb (bytes_eqb x) l.
Definition is_grease (v : N) : bool :=
  (N.land v 3855 =? 2570) && (N.shiftr v 8 =? N.land v 255).

(* ---- what the client checks against (populated by SetTLSVers, each extension's
        writeToUConn and ApplyPreset; read back by hooks/verif_c12.go) ---- *)
Record client_view := mkView {
  cv_suites : list N;        (* hello.cipherSuites *)
  cv_curves : list N;        (* hello.supportedCurves *)
  cv_shares : list N;        (* groups of hello.keyShares *)
  cv_alpn : list bytes;      (* hello.alpnProtocols *)
  cv_sid : bytes;            (* hello.sessionId *)
  cv_psk : N;                (* len(hello.pskIdentities) *)
  cv_ccalgs : list N;        (* UConn.certCompressionAlgs *)
  cv_ccext : bool;           (* a UtlsCompressCertExtension is among UConn.Extensions *)
  cv_vmin : N;               (* Config.MinVersion *)
  cv_vmax : N;               (* Config.MaxVersion *)
  cv_ech : bool;             (* Config.EncryptedClientHelloConfigList != nil *)
  cv_ecdhe : N;              (* curve of the retained keyShareKeys.ecdhe, 0 = nil *)
  cv_mlkem : bool;           (* keyShareKeys.mlkem != nil *)
  cv_sv : list N;            (* hello.supportedVersions *)
  cv_session : N             (* cipher suite of the offered PSK session, 0 = no session *)
}.

(* ---- the offered sets as parsed from the marshaled hello (harness/hs/wire.go) ---- *)
Record wire_view := mkWire {
  w_legacy : N;
  w_suites : list N;
  w_comps : list N;
  w_groups : list N;
  w_shares : list N;
  w_alpn : list bytes;
  w_sid : bytes;
  w_psk : N;
  w_ccalgs : list N;
  w_has_sv : bool;
  w_sv : list N
}.

(* ---- server messages ---- *)
Record hello_msg := mkHello {
  h_vers : N;            (* legacy_version *)
  h_sv : N;              (* supported_versions selected version, 0 = extension absent *)
  h_tail : N;            (* random[24:32]: 1 = DOWNGRD\x01, 2 = DOWNGRD\x00, 0 = anything else *)
  h_sid : bytes;
  h_suite : N;
  h_comp : N;
  h_share : N;           (* key_share server_share group, 0 = absent *)
  h_selgroup : N;        (* key_share selected_group (HRR form), 0 = absent *)
  h_cookie : bool;       (* cookie extension present and non-empty *)
  h_psk : option N;      (* pre_shared_key selected_identity *)
  h_alpn : bytes         (* ALPN in ServerHello (TLS <= 1.2; forbidden in 1.3) *)
}.

Record flight := mkFlight {
  f_hrr : option hello_msg;    (* a HelloRetryRequest sent first *)
  f_sh : hello_msg;            (* the ServerHello *)
  f_ee_alpn : bytes;           (* ALPN in EncryptedExtensions *)
  f_ccert : option N;          (* Some alg: certificate sent as CompressedCertificate *)
  f_skx : option N;            (* TLS <= 1.2 ServerKeyExchange named curve *)
  f_crypto_ok : bool           (* key-share bytes, signatures, Finished are valid *)
}.

Record conn_state := mkState {
  cs_vers : N; cs_suite : N; cs_group : N; cs_alpn : bytes; cs_hrr : bool; cs_psk : bool
}.

Inductive outcome := Complete (st : conn_state) | Abort (alert : N).

(* ---- environment: the implemented-suite tables and which repairs are in the tree ---- *)
Record env := mkEnv {
  e_impl12 : list N;     (* utlsSupportedCipherSuites ids *)
  e_ecdhe12 : list N;    (* those with suiteECDHE *)
  e_fix_curve12 : bool;  (* key_agreement.go: ServerKeyExchange curve must be in hello.supportedCurves *)
  e_fix_version : bool   (* u_handshake_client.go: negotiated version must be in hello.supportedVersions *)
}.

Definition impl12_default : list N :=
  [52392; 52393; 49199; 49195; 49200; 49196; 49191; 49171; 49187; 49161; 49172; 49162;
   156; 157; 60; 47; 53; 49170; 10; 5; 49169; 49159; 52243; 52244].
Definition ecdhe12_default : list N :=
  [52392; 52393; 49199; 49195; 49200; 49196; 49191; 49171; 49187; 49161; 49172; 49162;
   49170; 49169; 49159; 52243; 52244].
Definition tls13_suites : list N := [4865; 4866; 4867].

Definition env_fixed : env := mkEnv impl12_default ecdhe12_default true true.
Definition env_unfixed : env := mkEnv impl12_default ecdhe12_default false false.

(* ---- versions ---- *)
(* common.go:1202-1233 Config.supportedVersions(roleClient) *)
Definition client_versions (v : client_view) : list N :=
  filter (fun x =>
            negb ((cv_vmin v =? 0) && (x <? V12))
            && negb (cv_ech v && (x <? V13))
            && negb (negb (cv_vmin v =? 0) && (x <? cv_vmin v))
            && negb (negb (cv_vmax v =? 0) && (cv_vmax v <? x)))
         [V13; V12; V11; V10].

Definition max_version (v : client_view) : N := hd 0 (client_versions v).

(* handshake_client.go:559-579 + common.go:1288 *)
Definition pick_version (v : client_view) (h : hello_msg) : option N :=
  let peer := if h_sv h =? 0 then h_vers h else h_sv h in
  if memN peer (client_versions v) then Some peer else None.

(* u_handshake_client.go: offered-version check (fixes/C13) *)
Definition version_offered (e : env) (v : client_view) (vers : N) : bool :=
  if e_fix_version e then
    match cv_sv v with [] => true | _ => memN vers (cv_sv v) end
  else true.

(* u_handshake_client.go: maxVers of the canary test. Upstream: Config.maxSupportedVersion(roleClient);
   with fixes/C13 raised to TLS 1.3 / 1.2 when hello.supportedVersions lists them *)
Definition offered_max (e : env) (v : client_view) : N :=
  let m := max_version v in
  if e_fix_version e then
    if memN V13 (cv_sv v) then N.max m V13
    else if memN V12 (cv_sv v) then N.max m V12 else m
  else m.

(* u_handshake_client.go:526-533 (+ the uTLS section above it) *)
Definition canary_abort (e : env) (v : client_view) (vers : N) (h : hello_msg) : bool :=
  let m := offered_max e v in
  ((m =? V13) && (vers <=? V12) && ((h_tail h =? 1) || (h_tail h =? 2)))
  || ((m =? V12) && (vers <=? V11) && (h_tail h =? 2)).

(* ---- TLS 1.3 ---- *)
(* cipher_suites.go:665 mutualCipherSuiteTLS13 *)
Definition mutual13 (have : list N) (want : N) : bool := memN want have && memN want tls13_suites.

Definition suite_hash (s : N) : N := if s =? 4866 then 384 else 256.

(* handshake_client_tls13.go:182-238. prev = hs.suite (Some after a HRR). Returns the alert or the suite. *)
Definition check_hello13 (v : client_view) (prev : option N) (h : hello_msg) : N + N :=
  if h_sv h =? 0 then inl a_missing_extension
  else if negb (h_sv h =? V13) then inl a_illegal_parameter
  else if negb (h_vers h =? V12) then inl a_illegal_parameter
  else if negb (match h_alpn h with [] => true | _ => false end) then inl a_unsupported_extension
  else if negb (bytes_eqb (cv_sid v) (h_sid h)) then inl a_illegal_parameter
  else if negb (h_comp h =? 0) then inl a_illegal_parameter
  else
    let sel := mutual13 (cv_suites v) (h_suite h) in
    match prev with
    | Some p => if sel && (h_suite h =? p) then inr (h_suite h) else inl a_illegal_parameter
    | None => if sel then inr (h_suite h) else inl a_illegal_parameter
    end.

(* key_schedule.go:73 curveForCurveID *)
Definition classical_impl (g : N) : bool := memN g [29; 23; 24; 25].
Definition hybrid (g : N) : bool := (g =? 4588) || (g =? 25497).

(* handshake_client_tls13.go:258-505, no ECH. Returns the alert or the updated (shares, ecdhe). *)
Definition process_hrr (v : client_view) (h : hello_msg) : N + (list N * N) :=
  if (h_selgroup h =? 0) && negb (h_cookie h) then inl a_illegal_parameter
  else if negb (h_share h =? 0) then inl a_decode_error
  else
    let upd :=
      if h_selgroup h =? 0 then inr (cv_shares v, cv_ecdhe v)
      else if negb (memN (h_selgroup h) (cv_curves v)) then inl a_illegal_parameter
      else if memN (h_selgroup h) (cv_shares v) then inl a_illegal_parameter
      else if negb (classical_impl (h_selgroup h)) then inl a_internal_error
      else inr ([h_selgroup h], h_selgroup h) in
    match upd with
    | inl a => inl a
    | inr r => if 0 <? cv_psk v then inl a_none (* "uTLS does not support reprocessing of PSK" *) else inr r
    end.

(* handshake_client_tls13.go:507-563; shares = groups of hs.hello.keyShares at that point.
   Returns the alert or usingPSK. *)
Definition process_sh13 (v : client_view) (shares : list N) (suite : N) (h : hello_msg) : N + bool :=
  if h_cookie h then inl a_unsupported_extension
  else if negb (h_selgroup h =? 0) then inl a_decode_error
  else if h_share h =? 0 then inl a_illegal_parameter
  else if negb (memN (h_share h) shares) then inl a_illegal_parameter
  else match h_psk h with
       | None => inr false
       | Some i =>
           if cv_psk v <=? i then inl a_illegal_parameter
           else if negb (cv_psk v =? 1) || (cv_session v =? 0) then inl a_internal_error
           else if negb (memN (cv_session v) tls13_suites) then inl a_internal_error
           else if negb (suite_hash (cv_session v) =? suite_hash suite) then inl a_illegal_parameter
           else inr true
       end.

(* handshake_client_tls13.go:583-640: which private key meets the server share *)
Definition establish_keys (ecdhe : N) (mlkem : bool) (g : N) : option N :=
  if hybrid g then
    if negb (ecdhe =? 29) then Some a_illegal_parameter
    else if negb mlkem then Some a_internal_error else None
  else if g =? ecdhe then None else Some a_illegal_parameter.

(* handshake_client.go:980-997 *)
Definition check_alpn (client : list bytes) (server : bytes) : bool :=
  match server with
  | [] => true
  | _ => match client with [] => false | _ => memB server client end
  end.

(* handshake_client_tls13.go:780-790 + u_handshake_client.go:24-110 *)
Definition check_ccert (v : client_view) (cc : option N) : option N :=
  match cc with
  | None => None
  | Some alg =>
      if cv_ccext v && negb (match cv_ccalgs v with [] => true | _ => false end) then
        if negb (memN alg (cv_ccalgs v)) then Some a_bad_certificate
        else if negb (memN alg [1; 2; 3]) then Some a_bad_certificate
        else None
      else Some a_unexpected_message
  end.

Definition run13 (v : client_view) (fl : flight) : outcome :=
  (* handshake_client_tls13.go:64-66 *)
  if (cv_ecdhe v =? 0) || (match cv_shares v with [] => true | _ => false end) then Abort a_internal_error
  else
    let first := match f_hrr fl with Some h => h | None => f_sh fl end in
    match check_hello13 v None first with
    | inl a => Abort a
    | inr suite0 =>
        let after_hrr :=
          match f_hrr fl with
          | None => inr (cv_shares v, cv_ecdhe v, suite0, false)
          | Some h =>
              match process_hrr v h with
              | inl a => inl a
              | inr (shares, ecdhe) =>
                  match check_hello13 v (Some suite0) (f_sh fl) with
                  | inl a => inl a
                  | inr s => inr (shares, ecdhe, s, true)
                  end
              end
          end in
        match after_hrr with
        | inl a => Abort a
        | inr (shares, ecdhe, suite, hrr) =>
            match process_sh13 v shares suite (f_sh fl) with
            | inl a => Abort a
            | inr psk =>
                match establish_keys ecdhe (cv_mlkem v) (h_share (f_sh fl)) with
                | Some a => Abort a
                | None =>
                    if negb (f_crypto_ok fl) then Abort a_bad_record_mac
                    else if negb (check_alpn (cv_alpn v) (f_ee_alpn fl)) then Abort a_no_application_protocol
                    else
                      match (if psk then None else check_ccert v (f_ccert fl)) with
                      | Some a => Abort a
                      | None => Complete (mkState V13 suite (h_share (f_sh fl)) (f_ee_alpn fl) hrr psk)
                      end
                end
            end
        end
    end.

(* ---- TLS 1.0 - 1.2 ---- *)
(* key_agreement.go:275-305 (ECDHE) / rsaKeyAgreement.processServerKeyExchange *)
Definition process_skx (e : env) (v : client_view) (suite : N) (skx : option N) : option N :=
  if memN suite (e_ecdhe12 e) then
    match skx with
    | None => Some a_internal_error              (* "missing ServerKeyExchange message" *)
    | Some c =>
        if negb (classical_impl c) then Some a_illegal_parameter
        else if e_fix_curve12 e && negb (memN c (cv_curves v)) then Some a_illegal_parameter
        else None
    end
  else
    match skx with
    | None => None
    | Some _ => Some a_illegal_parameter        (* "unexpected ServerKeyExchange" *)
    end.

Definition run12 (e : env) (v : client_view) (vers : N) (h : hello_msg) (fl : flight) : outcome :=
  (* handshake_client.go:665-683 pickCipherSuite: mutualCipherSuite = offered and implemented *)
  if negb (memN (h_suite h) (cv_suites v) && memN (h_suite h) (e_impl12 e)) then Abort a_handshake_failure
  else if negb (h_comp h =? 0) then Abort a_unexpected_message
  else if negb (check_alpn (cv_alpn v) (h_alpn h)) then Abort a_unsupported_extension
  else
    match process_skx e v (h_suite h) (f_skx fl) with
    | Some a => Abort a
    | None =>
        if negb (f_crypto_ok fl) then Abort a_bad_record_mac
        else Complete (mkState vers (h_suite h) (match f_skx fl with Some c => c | None => 0 end) (h_alpn h) false false)
    end.

(* ---- the client's decision on a whole server flight ---- *)
Definition client_run_gen (e : env) (v : client_view) (fl : flight) : outcome :=
  let first := match f_hrr fl with Some h => h | None => f_sh fl end in
  match pick_version v first with
  | None => Abort a_protocol_version
  | Some vers =>
      if negb (version_offered e v vers) then Abort a_protocol_version
      else if canary_abort e v vers first then Abort a_illegal_parameter
      else if vers =? V13 then run13 v fl
      else run12 e v vers first fl
  end.

Definition client_run := client_run_gen env_fixed.

(* ---- view / wire synchronisation (checked on every run by Corr/C12Corr.v) ---- *)
Definition list_eqN := list_eqb N.eqb.
Definition list_eqB := list_eqb bytes_eqb.

Definition synced (v : client_view) (w : wire_view) : bool :=
  list_eqN (cv_suites v) (w_suites w)
  && list_eqN (cv_curves v) (w_groups w)
  && list_eqN (cv_shares v) (w_shares w)
  && list_eqB (cv_alpn v) (w_alpn w)
  && bytes_eqb (cv_sid v) (w_sid w)
  && (cv_psk v =? w_psk w)
  && list_eqN (cv_ccalgs v) (w_ccalgs w)
  && (implb (cv_ccext v) (negb (match w_ccalgs w with [] => true | _ => false end)))
  && memN 0 (w_comps w).

(* ---- versions advertised on the wire (C13) ---- *)
(* supported_versions list when present (GREASE entries are not versions), else [spec min .. legacy_version] *)
Definition advertised (specmin : N) (w : wire_view) : list N :=
  if w_has_sv w then filter (fun x => negb (is_grease x)) (w_sv w)
  else filter (fun x => (specmin <=? x) && (x <=? w_legacy w)) [V13; V12; V11; V10].

(* what the spec must satisfy for the pre-repair client (u_conn.go:696-755 copies the spec's
   TLSVersMin/Max into Config, the list on the wire comes from the extension) *)
Definition versions_consistent (v : client_view) (specmin : N) (w : wire_view) : bool :=
  forallb (fun x => memN x (advertised specmin w)) (client_versions v).

(* hello.supportedVersions is what went on the wire, when the extension is sent; without it the
   accepted range must not exceed [spec min .. legacy_version] *)
Definition versions_synced (v : client_view) (specmin : N) (w : wire_view) : bool :=
  if w_has_sv w then list_eqN (cv_sv v) (w_sv w) && negb (match w_sv w with [] => true | _ => false end)
  else versions_consistent v specmin w.

(* the wire offers TLS 1.3: only possible through supported_versions (RFC 8446 4.2.1) *)
Definition offers13 (w : wire_view) : bool := w_has_sv w && memN V13 (w_sv w).

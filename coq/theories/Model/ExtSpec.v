(* Specification-side definitions for the extension codec (used by C08 and the
   properties built on the codec core): which values are within wire limits,
   the RFC layout of each body written with length-prefix combinators (a
   prefix is by construction the length of what follows it), and the
   documented normalisation Write applies. Executable definitions only. *)
From UV Require Import Base.Common Model.Wire Model.Varint Model.Ext.

Definition all_lt (bound : N) (l : list N) : bool := forallb (fun x => x <? bound) l.

(* FakePreSharedKeyExtension only serialises binders of a TLS 1.3 hash size (Read refuses others
   whatever the buffer). No type has hidden state that Len and Read could disagree about
   (UtlsPreSharedKeyExtension's length cache is gone since fix C08-psk-len-after-edit). *)
Definition state_ok (e : ext) : bool :=
  match e with
  | EFakePreSharedKey _ _ bs => forallb (fun b => valid_binder_len (blen b)) bs
  | _ => true
  end.

(* Field values within wire limits: the whole extension fits a uint16 length,
   every inner vector fits its prefix, every integer fits its field. *)
Definition fields_ok (e : ext) : bool :=
  match e with
  | ESNI _ | EStatusRequest | EStatusRequestV2 | ESCT | EExtendedMasterSecret
  | ENPN _ | EFakeChannelID _ | ESessionTicket _ | ECookie _ | EPadding _ _ _ => true
  | ESupportedCurves l | ESignatureAlgorithms l | ESignatureAlgorithmsCert l
  | EFakeDelegatedCredentials l => all_lt 65536 l
  | ESupportedPoints p => blen p <? 256
  | EALPN ps | EApplicationSettings ps | EApplicationSettingsNew ps => forallb (fun p => blen p <? 256) ps
  | EGeneric id _ => id <? 65536
  | EGREASE v _ => v <? 65536
  | ECompressCert l => all_lt 65536 l && (2 * blen l <? 256)
  | EKeyShare ks => forallb (fun k => fst k <? 65536) ks
  | EQUICTransportParameters tps => is_ok (marshal_tps tps)
  | EPSKKeyExchangeModes m => blen m <? 256
  | ESupportedVersions l => all_lt 65536 l && (2 * blen l <? 256)
  | ERenegotiationInfo _ c => blen c <? 256
  | EFakeRecordSizeLimit l => l <? 65536
  | EFakeTokenBinding _ _ p => blen p <? 256
  | EUtlsPreSharedKey s c omit ids bs =>
      forallb (fun i => snd i <? 4294967296) ids && forallb (fun b => blen b <? 256) bs
      && (omit || negb (utls_psk_len s c ids bs =? 0))
  | EFakePreSharedKey omit ids bs =>
      forallb (fun i => snd i <? 4294967296) ids && forallb (fun b => blen b <? 256) bs
      && (omit || negb (psk_ext_len ids bs =? 0))
  | EGREASEECH kdf aead _ _ _ => (kdf <? 65536) && (aead <? 65536)
  end.

Definition wf_ext (e : ext) : bool := state_ok e && fields_ok e && (ext_len e <=? 65539).

(* ---- RFC layout of extension_data, in combinator form ---- *)
Definition u16s_body (l : list N) : bytes := enc_u16lp (flat_map enc_u16 l).
Definition protos_body (ps : list bytes) : bytes := enc_u16lp (flat_map enc_u8lp ps).
Definition psk_body (ids : list psk_identity) (bs : list bytes) : bytes :=
  enc_u16lp (flat_map (fun i => enc_u16lp (fst i) ++ enc_u32 (snd i)) ids)
  ++ enc_u16lp (flat_map enc_u8lp bs).

Definition ext_body (e : ext) : bytes :=
  match e with
  | ESNI host => enc_u16lp ([0] ++ enc_u16lp host)                      (* RFC 6066 s3: ServerNameList *)
  | EStatusRequest => [1] ++ enc_u16lp [] ++ enc_u16lp []               (* RFC 6066 s8 *)
  | EStatusRequestV2 => enc_u16lp ([2] ++ enc_u16lp (enc_u16lp [] ++ enc_u16lp []))  (* RFC 6961 s2.2 *)
  | ESupportedCurves l | ESignatureAlgorithms l | ESignatureAlgorithmsCert l
  | EFakeDelegatedCredentials l => u16s_body l
  | ESupportedPoints p => enc_u8lp p
  | EALPN ps | EApplicationSettings ps | EApplicationSettingsNew ps => protos_body ps
  | ESCT | EExtendedMasterSecret | ENPN _ | EFakeChannelID _ => []
  | EGeneric _ d => d
  | EGREASE _ b => b
  | EPadding l _ _ => zbytes (N.to_nat l)
  | ECompressCert l => enc_u8lp (flat_map enc_u16 l)
  | EKeyShare ks => enc_u16lp (flat_map (fun k => enc_u16 (fst k) ++ enc_u16lp (snd k)) ks)
  | EQUICTransportParameters tps => match marshal_tps tps with Ok m => m | _ => [] end
  | EPSKKeyExchangeModes m => enc_u8lp m
  | ESupportedVersions l => enc_u8lp (flat_map enc_u16 l)
  | ECookie c => enc_u16lp c
  | ERenegotiationInfo _ c => enc_u8lp c
  | EFakeRecordSizeLimit l => enc_u16 l
  | EFakeTokenBinding ma mi p => [ma; mi] ++ enc_u8lp p
  | ESessionTicket t => t
  | EUtlsPreSharedKey _ _ _ ids bs | EFakePreSharedKey _ ids bs => psk_body ids bs
  | EGREASEECH kdf aead cfg enc p =>
      [0] ++ enc_u16 kdf ++ enc_u16 aead ++ [cfg] ++ enc_u16lp enc ++ enc_u16lp p
  end.

(* Read writes nothing at all for these (Len() = 0, returns (0, io.EOF)). *)
Definition ext_absent (e : ext) : bool :=
  match e with
  | ESNI host => blen host =? 0
  | EPadding _ w _ => negb w
  | EUtlsPreSharedKey s c _ ids bs => utls_psk_len s c ids bs =? 0
  | EFakePreSharedKey _ ids bs => psk_ext_len ids bs =? 0
  | _ => false
  end.

(* ---- the documented normalisations of Write ---- *)
Definition norm_share (k : N * bytes) : N * bytes :=
  let g := ungrease (fst k) in (g, if g =? GREASE_PLACEHOLDER then snd k else []).

Definition ext_norm (e : ext) : ext :=
  match e with
  | ESNI _ => ESNI []                                        (* the name is not copied *)
  | ESupportedCurves l => ESupportedCurves (map ungrease l)  (* GREASE -> placeholder *)
  | ESupportedVersions l => ESupportedVersions (map ungrease l)
  | EGREASE _ b => EGREASE GREASE_PLACEHOLDER b
  | EKeyShare ks => EKeyShare (map norm_share ks)            (* non-GREASE key data dropped *)
  | EPadding _ _ _ => EPadding 0 false PadBoring             (* recomputed by policy *)
  | ENPN _ => ENPN []
  | ERenegotiationInfo _ _ => ERenegotiationInfo 1 []        (* body ignored *)
  | ESessionTicket _ => ESessionTicket []                    (* ticket dropped *)
  | EFakePreSharedKey _ ids bs => EFakePreSharedKey false ids bs
  | EUtlsPreSharedKey _ _ _ _ _ => EUtlsPreSharedKey false None false [] []   (* real PSK: body ignored *)
  | EGREASEECH _ _ _ _ _ => ech_mask e                       (* config id, key, payload regenerated, same sizes *)
  | _ => e
  end.

(* Values whose Read output the matching Write accepts: within wire limits,
   present on the wire, of a type ExtensionFromID knows and that has Write,
   and not below the minimum sizes the RFC grammars (hence the parsers) demand. *)
Definition rt_ok (e : ext) : bool :=
  wf_ext e && negb (ext_absent e) &&
  match e with
  | ESNI host => negb (last host 0 =? 46)
  | ESupportedCurves l | ESignatureAlgorithms l | ESignatureAlgorithmsCert l
  | EFakeDelegatedCredentials l | ESupportedVersions l => negb (empty l)
  | ESupportedPoints p => negb (empty p)
  | EALPN ps | EApplicationSettings ps | EApplicationSettingsNew ps =>
      negb (match ps with [] => true | _ => false end) && forallb (fun p => negb (empty p)) ps
  | EKeyShare ks => forallb (fun k => negb (empty (snd k))) ks
  | EGREASE v _ => is_grease v
  | EGeneric _ _ | ECookie _ | EQUICTransportParameters _ => false    (* no Write / not in ExtensionFromID *)
  | EUtlsPreSharedKey _ _ _ _ _ => false                               (* see ext_write_realpsk *)
  | EGREASEECH kdf aead _ enc p =>
      ech_kdf_ok kdf && ech_aead_ok aead && negb (empty enc) && (ECH_TAG_LEN <=? blen p)
  | _ => true
  end.

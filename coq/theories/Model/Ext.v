(* Shared codec core, part 2: one constructor per built-in TLSExtension type
   of /repo (u_tls_extensions.go, u_session_ticket.go, u_pre_shared_key.go,
   u_ech.go) and the three methods every type has, mirrored statement by
   statement:

     ext_len   e        = e.Len()
     ext_read  e n      = e.Read(b) with len(b) = n and b zero-initialised
                          (Ok bs: the method returned (len bs, io.EOF) and b[:len bs] = bs;
                           Err c: it returned (0, err) with err identified by c)
     ext_write id body  = x := ExtensionFromID(id); x.(TLSExtensionWriter).Write(body); x
                          (what ClientHelloSpec.ReadTLSExtensions / FromRaw does per extension;
                           id 41 gives FakePreSharedKeyExtension, ext_write_realpsk the other choice)

   Lengths are Go ints (N here, never negative in these methods); every
   byte(..)/uint16(..) narrowing is explicit (enc_u16 = [x/256 mod 256; x mod 256]).
   Executable definitions only. *)
From UV Require Import Base.Common Model.Wire Model.Varint.

(* ---- error / panic codes ---- *)
Definition E_SHORT : N := 1.            (* io.ErrShortBuffer *)
Definition E_EMPTY_PSK : N := 2.        (* ErrEmptyPsk *)
Definition E_MANY_COMPRESS : N := 3.    (* "too many certificate compression methods" *)
Definition E_MANY_PSKMODES : N := 4.    (* "too many PSK Key Exchange modes" *)
Definition E_MANY_VERSIONS : N := 5.    (* "too many supported versions" *)
Definition E_BAD_BINDER : N := 6.       (* "FakePreSharedKeyExtension.Read failed: invalid binder size" *)
Definition E_MANY_POINTS : N := 7.      (* "too many supported point formats"             [fix C08-one-byte-prefix-overflow] *)
Definition E_ALPS_NAME_LONG : N := 8.   (* "application settings protocol name too long"  [same fix] *)
Definition E_RENEG_LONG : N := 9.       (* "renegotiated connection too long"             [same fix] *)
Definition E_MANY_TB_PARAMS : N := 22.  (* "too many token binding key parameters"        [same fix] *)
Definition E_PARSE : N := 10.           (* Write: "unable to read ... extension data" / "invalid PSK extension" *)
Definition E_STATUS_TYPE : N := 11.     (* Write: status type is not OCSP *)
Definition E_SNI_MULTI : N := 12.       (* Write: multiple names of the same name_type *)
Definition E_SNI_DOT : N := 13.         (* Write: trailing dot *)
Definition E_ECH_TYPE : N := 14.        (* Write: bad Client Hello type *)
Definition E_ECH_SUITE : N := 15.       (* Write: bad cipher suite *)
Definition E_ECH_KDF : N := 16.
Definition E_ECH_AEAD : N := 17.
Definition E_ECH_CFG : N := 18.
Definition E_ECH_ENC : N := 19.
Definition E_ECH_PAYLOAD : N := 20.
Definition E_ECH_PAYLOAD_SHORT : N := 21. (* Write: payload shorter than the AEAD tag *)
Definition E_NO_EXT : N := 30.          (* ExtensionFromID returned nil *)
Definition E_NO_WRITER : N := 31.       (* the type has no Write method *)

(* ---- GREASE (u_common.go:715-729) ---- *)
Definition GREASE_PLACEHOLDER : N := 2570. (* 0x0a0a *)
(* ((v >> 8) == v&0xff) && v&0xf == 0xa, v a uint16 *)
Definition is_grease (v : N) : bool := (v / 256 =? v mod 256) && (v mod 16 =? 10).
Definition ungrease (v : N) : N := if is_grease v then GREASE_PLACEHOLDER else v.

(* ---- extension ids (common.go:110-132, u_common.go:35-51,105) ---- *)
Definition ID_SNI : N := 0.
Definition ID_STATUS : N := 5.
Definition ID_CURVES : N := 10.
Definition ID_POINTS : N := 11.
Definition ID_SIGALGS : N := 13.
Definition ID_ALPN : N := 16.
Definition ID_STATUS_V2 : N := 17.
Definition ID_SCT : N := 18.
Definition ID_PADDING : N := 21.
Definition ID_EMS : N := 23.
Definition ID_TOKEN_BINDING : N := 24.
Definition ID_COMPRESS_CERT : N := 27.
Definition ID_RECORD_SIZE_LIMIT : N := 28.
Definition ID_DELEGATED_CREDENTIALS : N := 34.
Definition ID_SESSION_TICKET : N := 35.
Definition ID_PSK : N := 41.
Definition ID_VERSIONS : N := 43.
Definition ID_COOKIE : N := 44.
Definition ID_PSK_MODES : N := 45.
Definition ID_SIGALGS_CERT : N := 50.
Definition ID_KEY_SHARE : N := 51.
Definition ID_QUIC_TP : N := 57.
Definition ID_NPN : N := 13172.
Definition ID_ALPS : N := 17513.
Definition ID_ALPS_NEW : N := 17613.
Definition ID_CHANNEL_ID_OLD : N := 30031.
Definition ID_CHANNEL_ID : N := 30032.
Definition ID_ECH : N := 65037.           (* 0xfe0d *)
Definition ID_RENEGOTIATION : N := 65281. (* 0xff01 *)

(* UtlsPaddingExtension.GetPaddingLen, identified by function identity *)
Inductive pad_policy := PadNone (* nil *) | PadBoring (* BoringPaddingStyle *) | PadOther.

(* PskIdentity{Label, ObfuscatedTicketAge} *)
Definition psk_identity := (bytes * N)%type.

Inductive ext :=
| ESNI (host : bytes)                    (* hostnameInSNI(e.ServerName): "" for IPs/empty, trailing dots stripped *)
| EStatusRequest
| EStatusRequestV2
| ESupportedCurves (curves : list N)
| ESupportedPoints (points : bytes)
| ESignatureAlgorithms (algs : list N)
| ESignatureAlgorithmsCert (algs : list N)
| EALPN (protos : list bytes)
| EApplicationSettings (protos : list bytes)      (* code point 17513 *)
| EApplicationSettingsNew (protos : list bytes)   (* code point 17613 *)
| ESCT
| EGeneric (id : N) (data : bytes)
| EExtendedMasterSecret
| EGREASE (value : N) (body : bytes)
| EPadding (padlen : N) (willpad : bool) (policy : pad_policy)
| ECompressCert (algs : list N)
| EKeyShare (shares : list (N * bytes))            (* (Group, Data) *)
| EQUICTransportParameters (tps : list tparam)     (* (ID(), Value()) of each parameter, as Marshal sees them *)
| EPSKKeyExchangeModes (modes : bytes)
| ESupportedVersions (versions : list N)
| ECookie (cookie : bytes)
| ENPN (protos : list bytes)
| ERenegotiationInfo (renegotiation : N) (conn : bytes)   (* RenegotiationSupport 0/1/2, RenegotiatedConnection *)
| EFakeChannelID (old : bool)
| EFakeRecordSizeLimit (limit : N)
| EFakeTokenBinding (major minor : N) (params : bytes)
| EFakeDelegatedCredentials (algs : list N)
| ESessionTicket (ticket : bytes)
(* Session != nil; (unused, formerly *cachedLength); OmitEmptyPsk; Identities; Binders *)
| EUtlsPreSharedKey (has_session : bool) (cached : option N) (omit : bool)
                    (ids : list psk_identity) (binders : list bytes)
| EFakePreSharedKey (omit : bool) (ids : list psk_identity) (binders : list bytes)
(* state after init(): cipherSuite.KdfId/AeadId, configId, EncapsulatedKey, payload *)
| EGREASEECH (kdf aead config_id : N) (enc payload : bytes).

(* the extension_type each value puts on the wire *)
Definition ext_id (e : ext) : N :=
  match e with
  | ESNI _ => ID_SNI | EStatusRequest => ID_STATUS | EStatusRequestV2 => ID_STATUS_V2
  | ESupportedCurves _ => ID_CURVES | ESupportedPoints _ => ID_POINTS
  | ESignatureAlgorithms _ => ID_SIGALGS | ESignatureAlgorithmsCert _ => ID_SIGALGS_CERT
  | EALPN _ => ID_ALPN | EApplicationSettings _ => ID_ALPS | EApplicationSettingsNew _ => ID_ALPS_NEW
  | ESCT => ID_SCT | EGeneric id _ => id | EExtendedMasterSecret => ID_EMS
  | EGREASE v _ => v | EPadding _ _ _ => ID_PADDING | ECompressCert _ => ID_COMPRESS_CERT
  | EKeyShare _ => ID_KEY_SHARE | EQUICTransportParameters _ => ID_QUIC_TP
  | EPSKKeyExchangeModes _ => ID_PSK_MODES | ESupportedVersions _ => ID_VERSIONS
  | ECookie _ => ID_COOKIE | ENPN _ => ID_NPN | ERenegotiationInfo _ _ => ID_RENEGOTIATION
  | EFakeChannelID old => if old then ID_CHANNEL_ID_OLD else ID_CHANNEL_ID
  | EFakeRecordSizeLimit _ => ID_RECORD_SIZE_LIMIT | EFakeTokenBinding _ _ _ => ID_TOKEN_BINDING
  | EFakeDelegatedCredentials _ => ID_DELEGATED_CREDENTIALS | ESessionTicket _ => ID_SESSION_TICKET
  | EUtlsPreSharedKey _ _ _ _ _ => ID_PSK | EFakePreSharedKey _ _ _ => ID_PSK
  | EGREASEECH _ _ _ _ _ => ID_ECH
  end.

(* ---- helpers shared by Len and Read ---- *)

(* ALPNExtension.Len / applicationSettingsExtension.Len loop: bLen += 1 + len(s) *)
Definition protos_len (ps : list bytes) : N := sum_map (fun s => 1 + blen s) ps.
(* the Read loop: b[0] = byte(l); copy(b[1:], s) *)
Definition protos_bytes (ps : list bytes) : bytes := flat_map (fun s => enc_u8 (blen s) ++ s) ps.

(* KeyShareExtension.keySharesLen, u_tls_extensions.go:1234 *)
Definition key_shares_len (ks : list (N * bytes)) : N := sum_map (fun k => 4 + blen (snd k)) ks.
Definition key_shares_bytes (ks : list (N * bytes)) : bytes :=
  flat_map (fun k => enc_u16 (fst k) ++ enc_u16 (blen (snd k)) ++ snd k) ks.

(* pskExtLen, u_pre_shared_key.go:163 *)
Definition psk_ids_len (ids : list psk_identity) : N := sum_map (fun i => 2 + blen (fst i) + 4) ids.
Definition psk_binders_len (bs : list bytes) : N := sum_map (fun b => blen b + 1) bs.
Definition psk_ext_len (ids : list psk_identity) (bs : list bytes) : N :=
  match ids, bs with
  | [], _ => 0
  | _, [] => 0
  | _, _ => 4 + 2 + psk_ids_len ids + 2 + psk_binders_len bs
  end.

(* readPskIntoBytes, u_pre_shared_key.go:195 *)
Definition read_psk (n : N) (ids : list psk_identity) (bs : list bytes) : res bytes :=
  let extLen := psk_ext_len ids bs in
  if extLen =? 0 then Ok []                       (* return 0, io.EOF *)
  else if n <? extLen then Err E_SHORT
  else Ok (enc_u16 ID_PSK ++ enc_u16 (extLen - 4)
           ++ enc_u16 (psk_ids_len ids)
           ++ flat_map (fun i => enc_u16 (blen (fst i)) ++ fst i ++ enc_u32 (snd i)) ids
           ++ enc_u16 (psk_binders_len bs)
           ++ protos_bytes bs).                 (* b[offset] = byte(len(binder)); copy(b[offset+1:], binder) *)

(* validHashLen = hash sizes of cipherSuitesTLS13 (SHA-256, SHA-256, SHA-384) *)
Definition valid_binder_len (l : N) : bool := (l =? 32) || (l =? 48).

(* UtlsPreSharedKeyExtension.Len, u_pre_shared_key.go:183. Since fix C08-psk-len-after-edit the
   length is recomputed on every call; the former *cachedLength (argument `cached`, kept so that
   the constructor keeps its shape; the harness passes None) no longer exists. *)
Definition utls_psk_len (has_session : bool) (cached : option N) (ids : list psk_identity) (bs : list bytes) : N :=
  if negb has_session then 0 else psk_ext_len ids bs.

(* ---- Len() ---- *)
Definition ext_len (e : ext) : N :=
  match e with
  | ESNI host => if blen host =? 0 then 0 else 4 + 2 + 1 + 2 + blen host        (* :127 *)
  | EStatusRequest => 9                                                          (* :215 *)
  | EStatusRequestV2 => 13                                                       (* :484 *)
  | ESupportedCurves cs => 6 + 2 * blen cs                                       (* :267 *)
  | ESupportedPoints ps => 5 + blen ps                                           (* :343 *)
  | ESignatureAlgorithms a => 6 + 2 * blen a                                     (* :404 *)
  | ESignatureAlgorithmsCert a => 6 + 2 * blen a                                 (* :533 *)
  | EALPN ps => 2 + 2 + 2 + protos_len ps                                        (* :619 *)
  | EApplicationSettings ps => 2 + 2 + 2 + protos_len ps                         (* :700 *)
  | EApplicationSettingsNew ps => 2 + 2 + 2 + protos_len ps
  | ESCT => 4                                                                    (* :845 *)
  | EGeneric _ d => 4 + blen d                                                   (* :880 *)
  | EExtendedMasterSecret => 4                                                   (* :932 *)
  | EGREASE _ b => 4 + blen b                                                    (* :989 *)
  | EPadding l w _ => if w then 4 + l else 0                                     (* :1058 *)
  | ECompressCert a => 4 + 1 + 2 * blen a                                        (* :1155 *)
  | EKeyShare ks => 4 + 2 + key_shares_len ks                                    (* :1230 *)
  | EQUICTransportParameters tps =>                                              (* :1346; Marshal may panic *)
      match marshal_tps tps with Ok m => 4 + blen m | _ => 0 end
  | EPSKKeyExchangeModes m => 4 + 1 + blen m                                     (* :1378 *)
  | ESupportedVersions v => 4 + 1 + 2 * blen v                                   (* :1455 *)
  | ECookie c => 6 + blen c                                                      (* :1543 *)
  | ENPN _ => 4                                                                  (* :1602 *)
  | ERenegotiationInfo _ c => 5 + blen c                                         (* :1644 *)
  | EFakeChannelID _ => 4                                                        (* :1716 *)
  | EFakeRecordSizeLimit _ => 6                                                  (* :1753 *)
  | EFakeTokenBinding _ _ p => 2 + 2 + 2 + 1 + blen p                            (* :1806 *)
  | EFakeDelegatedCredentials a => 6 + 2 * blen a                                (* :1881 *)
  | ESessionTicket t => 4 + blen t                                               (* u_session_ticket.go:34 *)
  | EUtlsPreSharedKey s c _ ids bs => utls_psk_len s c ids bs
  | EFakePreSharedKey _ ids bs => psk_ext_len ids bs                             (* u_pre_shared_key.go:353 *)
  | EGREASEECH _ _ _ enc p => 2 + 2 + 1 + 4 + 1 + 2 + blen enc + 2 + blen p      (* u_ech.go:171 *)
  end.

(* `if len(b) < e.Len() { return 0, io.ErrShortBuffer }` followed by the writes *)
Definition guarded (n len : N) (out : bytes) : res bytes :=
  if n <? len then Err E_SHORT else Ok out.

(* ---- Read(b), len(b) = n ---- *)
Definition ext_read (e : ext) (n : N) : res bytes :=
  match e with
  | ESNI host =>                                                                 (* :137 *)
      if blen host =? 0 then Ok []                 (* return 0, io.EOF *)
      else guarded n (ext_len e)
        (enc_u16 ID_SNI ++ enc_u16 (blen host + 5) ++ enc_u16 (blen host + 3) ++ [0]
         ++ enc_u16 (blen host) ++ host)
  | EStatusRequest =>                                                            (* :219 *)
      guarded n 9 (enc_u16 ID_STATUS ++ [0; 5; 1; 0; 0; 0; 0])
  | EStatusRequestV2 =>                                                          (* :488 *)
      guarded n 13 (enc_u16 ID_STATUS_V2 ++ [0; 9; 0; 7; 2; 0; 4; 0; 0; 0; 0])
  | ESupportedCurves cs =>                                                       (* :271 *)
      guarded n (ext_len e)
        (enc_u16 ID_CURVES ++ enc_u16 (2 + 2 * blen cs) ++ enc_u16 (2 * blen cs) ++ flat_map enc_u16 cs)
  | ESupportedPoints ps =>                                                       (* :347 *)
      if n <? ext_len e then Err E_SHORT
      else if 255 <? blen ps then Err E_MANY_POINTS
      else Ok (enc_u16 ID_POINTS ++ enc_u16 (1 + blen ps) ++ enc_u8 (blen ps) ++ ps)
  | ESignatureAlgorithms a =>                                                    (* :408 *)
      guarded n (ext_len e)
        (enc_u16 ID_SIGALGS ++ enc_u16 (2 + 2 * blen a) ++ enc_u16 (2 * blen a) ++ flat_map enc_u16 a)
  | ESignatureAlgorithmsCert a =>                                                (* :537 *)
      guarded n (ext_len e)
        (enc_u16 ID_SIGALGS_CERT ++ enc_u16 (2 + 2 * blen a) ++ enc_u16 (2 * blen a) ++ flat_map enc_u16 a)
  | EALPN ps =>                                                                  (* :627 *)
      guarded n (ext_len e)
        (enc_u16 ID_ALPN ++ enc_u16 (protos_len ps + 2) ++ enc_u16 (protos_len ps) ++ protos_bytes ps)
  | EApplicationSettings ps =>                                                   (* :708, :769 *)
      if n <? ext_len e then Err E_SHORT
      else if existsb (fun s => 255 <? blen s) ps then Err E_ALPS_NAME_LONG   (* for _, s := range ... { if len(s) > 255 } *)
      else Ok (enc_u16 ID_ALPS ++ enc_u16 (protos_len ps + 2) ++ enc_u16 (protos_len ps) ++ protos_bytes ps)
  | EApplicationSettingsNew ps =>                                                (* :708, :808 *)
      if n <? ext_len e then Err E_SHORT
      else if existsb (fun s => 255 <? blen s) ps then Err E_ALPS_NAME_LONG
      else Ok (enc_u16 ID_ALPS_NEW ++ enc_u16 (protos_len ps + 2) ++ enc_u16 (protos_len ps) ++ protos_bytes ps)
  | ESCT => guarded n 4 (enc_u16 ID_SCT ++ [0; 0])                               (* :849 *)
  | EGeneric id d =>                                                             (* :884 *)
      guarded n (ext_len e) (enc_u16 id ++ enc_u16 (blen d) ++ d)
  | EExtendedMasterSecret => guarded n 4 (enc_u16 ID_EMS ++ [0; 0])              (* :936 *)
  | EGREASE v b =>                                                               (* :993 *)
      guarded n (ext_len e) (enc_u16 v ++ enc_u16 (blen b) ++ b)
  | EPadding l w _ =>                                                            (* :1072 *)
      if negb w then Ok []                         (* return 0, io.EOF *)
      else guarded n (ext_len e)
        (enc_u16 ID_PADDING ++ enc_u16 l ++ zbytes (N.to_nat l))  (* body left as the buffer had it: zeros *)
  | ECompressCert a =>                                                           (* :1159 *)
      if n <? ext_len e then Err E_SHORT
      else if 255 <? 2 * blen a then Err E_MANY_COMPRESS
      else Ok (enc_u16 ID_COMPRESS_CERT ++ enc_u16 (2 * blen a + 1) ++ enc_u8 (2 * blen a) ++ flat_map enc_u16 a)
  | EKeyShare ks =>                                                              (* :1242 *)
      guarded n (ext_len e)
        (enc_u16 ID_KEY_SHARE ++ enc_u16 (key_shares_len ks + 2) ++ enc_u16 (key_shares_len ks)
         ++ key_shares_bytes ks)
  | EQUICTransportParameters tps =>                                              (* :1353 *)
      do m <- marshal_tps tps;                     (* e.Len() marshals first; a panic propagates *)
      guarded n (4 + blen m) (enc_u16 ID_QUIC_TP ++ enc_u16 (blen m) ++ m)
  | EPSKKeyExchangeModes m =>                                                    (* :1382 *)
      if n <? ext_len e then Err E_SHORT
      else if 255 <? blen m then Err E_MANY_PSKMODES
      else Ok (enc_u16 ID_PSK_MODES ++ enc_u16 (blen m + 1) ++ enc_u8 (blen m) ++ m)
  | ESupportedVersions v =>                                                      (* :1459 *)
      if n <? ext_len e then Err E_SHORT
      else if 255 <? 2 * blen v then Err E_MANY_VERSIONS
      else Ok (enc_u16 ID_VERSIONS ++ enc_u16 (2 * blen v + 1) ++ enc_u8 (2 * blen v) ++ flat_map enc_u16 v)
  | ECookie c =>                                                                 (* :1553 *)
      guarded n (ext_len e)
        (enc_u16 ID_COOKIE ++ enc_u16 (2 + blen c) ++ enc_u16 (blen c) ++ c)
  | ENPN _ => guarded n 4 (enc_u16 ID_NPN ++ [0; 0])                             (* :1606 *)
  | ERenegotiationInfo _ c =>                                                    (* :1648 *)
      if n <? ext_len e then Err E_SHORT
      else if 255 <? blen c then Err E_RENEG_LONG
      else Ok (enc_u16 ID_RENEGOTIATION ++ enc_u16 (1 + blen c) ++ enc_u8 (blen c) ++ c)
  | EFakeChannelID old =>                                                        (* :1720 *)
      guarded n 4 (enc_u16 (if old then ID_CHANNEL_ID_OLD else ID_CHANNEL_ID) ++ [0; 0])
  | EFakeRecordSizeLimit l =>                                                    (* :1757 *)
      guarded n 6 (enc_u16 ID_RECORD_SIZE_LIMIT ++ [0; 2] ++ enc_u16 l)
  | EFakeTokenBinding ma mi p =>                                                 (* :1811 *)
      if n <? ext_len e then Err E_SHORT
      else if 255 <? blen p then Err E_MANY_TB_PARAMS
      else Ok (enc_u16 ID_TOKEN_BINDING ++ enc_u16 (ext_len e - 4) ++ [ma; mi] ++ enc_u8 (blen p) ++ p)
  | EFakeDelegatedCredentials a =>                                               (* :1885 *)
      guarded n (ext_len e)
        (enc_u16 ID_DELEGATED_CREDENTIALS ++ enc_u16 (2 + 2 * blen a) ++ enc_u16 (2 * blen a)
         ++ flat_map enc_u16 a)
  | ESessionTicket t =>                                                          (* u_session_ticket.go:38 *)
      guarded n (ext_len e) (enc_u16 ID_SESSION_TICKET ++ enc_u16 (ext_len e - 4) ++ t)
  | EUtlsPreSharedKey s c omit ids bs =>                                         (* u_pre_shared_key.go:267 *)
      (* if e.Len() == 0 { if !e.OmitEmptyPsk { return 0, ErrEmptyPsk }; return 0, io.EOF }
         [fix C08-utls-psk-read-without-session] *)
      if utls_psk_len s c ids bs =? 0 then (if negb omit then Err E_EMPTY_PSK else Ok [])
      else read_psk n ids bs
  | EFakePreSharedKey omit ids bs =>                                             (* u_pre_shared_key.go:361 *)
      if negb omit && (psk_ext_len ids bs =? 0) then Err E_EMPTY_PSK
      else if negb (forallb (fun b => valid_binder_len (blen b)) bs) then Err E_BAD_BINDER
      else read_psk n ids bs
  | EGREASEECH kdf aead cfg enc p =>                                             (* u_ech.go:177 *)
      guarded n (ext_len e)
        (enc_u16 ID_ECH ++ enc_u16 (ext_len e - 4) ++ [0] ++ enc_u16 kdf ++ enc_u16 aead ++ [cfg]
         ++ enc_u16 (blen enc) ++ enc ++ enc_u16 (blen p) ++ p)
  end.

(* ---- Write(b) on a fresh value from ExtensionFromID ---- *)

(* SNIExtension.Write name loop, :176-194. acc = serverName so far. *)
Fixpoint sni_names (fuel : nat) (s : bytes) (acc : bytes) : res unit :=
  match s with
  | [] => Ok tt
  | _ =>
    match fuel with
    | O => Err E_PARSE
    | S k =>
      match read_u8 s with
      | None => Err E_PARSE
      | Some (nameType, s1) =>
        match read_u16lp s1 with
        | None => Err E_PARSE
        | Some (name, s2) =>
          if empty name then Err E_PARSE
          else if negb (nameType =? 0) then sni_names k s2 acc
          else if negb (empty acc) then Err E_SNI_MULTI
          else if last name 0 =? 46 then Err E_SNI_DOT     (* strings.HasSuffix(serverName, ".") *)
          else sni_names k s2 name
        end
      end
    end
  end.

(* KeyShareExtension.Write loop, :1277-1292 *)
Fixpoint key_shares_parse (fuel : nat) (s : bytes) : option (list (N * bytes)) :=
  match s with
  | [] => Some []
  | _ =>
    match fuel with
    | O => None
    | S k =>
      match read_u16 s with
      | None => None
      | Some (group, s1) =>
        match read_u16lp s1 with
        | None => None
        | Some (data, s2) =>
          if empty data then None else
          let g := ungrease group in
          let d := if g =? GREASE_PLACEHOLDER then data else [] in
          match key_shares_parse k s2 with Some l => Some ((g, d) :: l) | None => None end
        end
      end
    end
  end.

(* FakePreSharedKeyExtension.Write, u_pre_shared_key.go:391-460. The uint16
   counters wrap (mod 2^16) exactly as in the source. *)
Fixpoint psk_ids_parse (fuel : nat) (remaining : N) (s : bytes) : option (list psk_identity * bytes) :=
  if remaining =? 0 then Some ([], s) else
  match fuel with
  | O => None
  | S k =>
    match read_u16 s with
    | None => None
    | Some (idLen, s1) =>
      let rem1 := (remaining + 65536 - 2) mod 65536 in
      if rem1 <? idLen then None else
      match read_bytes idLen s1 with
      | None => None
      | Some (identity, s2) =>
        let rem2 := (rem1 + 65536 - idLen) mod 65536 in
        match read_u32 s2 with
        | None => None
        | Some (age, s3) =>
          let rem3 := (rem2 + 65536 - 4) mod 65536 in
          match psk_ids_parse k rem3 s3 with
          | Some (l, r) => Some ((identity, age) :: l, r)
          | None => None
          end
        end
      end
    end
  end.

Fixpoint psk_binders_parse (fuel : nat) (remaining : N) (s : bytes) : option (list bytes) :=
  if remaining =? 0 then Some [] else
  match fuel with
  | O => None
  | S k =>
    match read_u8 s with
    | None => None
    | Some (bLen, s1) =>
      let rem1 := (remaining + 65536 - 1) mod 65536 in
      if rem1 <? bLen then None else
      match read_bytes bLen s1 with
      | None => None
      | Some (binder, s2) =>
        let rem2 := (rem1 + 65536 - bLen) mod 65536 in
        match psk_binders_parse k rem2 s2 with
        | Some l => Some (binder :: l)
        | None => None
        end
      end
    end
  end.

Definition fake_psk_write (b : bytes) : res ext :=
  match read_u16 b with
  | None => Err E_PARSE
  | Some (idsLen, s1) =>
    match psk_ids_parse (S (length b)) idsLen s1 with
    | None => Err E_PARSE
    | Some (ids, s2) =>
      match read_u16 s2 with
      | None => Err E_PARSE
      | Some (bLen, s3) =>
        match psk_binders_parse (S (length b)) bLen s3 with
        | None => Err E_PARSE
        | Some bs => Ok (EFakePreSharedKey false ids bs)
        end
      end
    end
  end.

(* dicttls HKDF_SHA256/384/512 = 1,2,3; AEAD_AES_128_GCM/AES_256_GCM/CHACHA20_POLY1305 = 1,2,3 *)
Definition ech_kdf_ok (k : N) : bool := (k =? 1) || (k =? 2) || (k =? 3).
Definition ech_aead_ok (a : N) : bool := (a =? 1) || (a =? 2) || (a =? 3).
(* cipherLen(aead, 0), u_hpke.go:28 *)
Definition ECH_TAG_LEN : N := 16.

(* GREASEEncryptedClientHelloExtension.Write, u_ech.go:208-262, followed by the
   init() that the next Len()/Read() performs on the written object. The bytes
   the code draws from crypto/rand (config id, encapsulated key, payload) are
   rendered as zeros of the sizes the code uses: callers compare modulo those
   positions (ech_mask). An empty encapsulated key is replaced by init() with a
   fresh 32-byte X25519 one. *)
Definition ech_write (b : bytes) : res ext :=
  match read_u8 b with
  | None => Err E_ECH_TYPE
  | Some (chType, s1) =>
    if negb (chType =? 0) then Err E_ECH_TYPE else
    match obind (read_u16 s1) (fun '(kdf, s2) => obind (read_u16 s2) (fun '(aead, s3) => Some (kdf, aead, s3))) with
    | None => Err E_ECH_SUITE
    | Some (kdf, aead, s3) =>
      if negb (ech_kdf_ok kdf) then Err E_ECH_KDF
      else if negb (ech_aead_ok aead) then Err E_ECH_AEAD
      else match read_u8 s3 with
      | None => Err E_ECH_CFG
      | Some (_, s4) =>
        match read_u16lp s4 with
        | None => Err E_ECH_ENC
        | Some (enc, s5) =>
          match read_u16lp s5 with
          | None => Err E_ECH_PAYLOAD
          | Some (payload, _) =>
            (* if len(ignored) < tagLen { return fullLen, errors.New(...) }   [fix C08-ech-grease-short-payload] *)
            if blen payload <? ECH_TAG_LEN then Err E_ECH_PAYLOAD_SHORT else
            (* CandidatePayloadLens = []uint16{uint16(len(ignored) - tagLen)} *)
            let cand := (blen payload - ECH_TAG_LEN) mod 65536 in
            (* init(): len(payload) = cipherLen(aead, cand) = cand + 16 *)
            let plen := cand + ECH_TAG_LEN in
            let enclen := if blen enc =? 0 then 32 else blen enc in
            Ok (EGREASEECH kdf aead 0 (zbytes (N.to_nat enclen)) (zbytes (N.to_nat plen)))
          end
        end
      end
    end
  end.

Definition u16_list_write (code : N) (mk : list N -> ext) (norm : N -> N) (b : bytes) : res ext :=
  match read_u16lp b with
  | None => Err code
  | Some (v, _) =>
    if empty v then Err code else
    match read_u16s v with None => Err code | Some l => Ok (mk (map norm l)) end
  end.

Definition protos_write (mk : list bytes -> ext) (b : bytes) : res ext :=
  match read_u16lp b with
  | None => Err E_PARSE
  | Some (v, _) =>
    if empty v then Err E_PARSE else
    match read_u8lps true (length v) v with None => Err E_PARSE | Some l => Ok (mk l) end
  end.

Definition same (x : N) : N := x.

Definition ext_write (xid : N) (b : bytes) : res ext :=
  if xid =? ID_SNI then                                                          (* :167 *)
    match read_u16lp b with
    | None => Err E_PARSE
    | Some (names, _) =>
      if empty names then Err E_PARSE else
      do _ <- sni_names (length names) names []; Ok (ESNI [])
    end
  else if xid =? ID_STATUS then                                                  (* :238 *)
    match obind (read_u8 b) (fun '(t, s1) => obind (read_u16lp s1) (fun '(_, s2) =>
          obind (read_u16lp s2) (fun _ => Some t))) with
    | None => Err E_PARSE
    | Some t => if t =? 1 then Ok EStatusRequest else Err E_STATUS_TYPE
    end
  else if xid =? ID_CURVES then u16_list_write E_PARSE ESupportedCurves ungrease b       (* :312 *)
  else if xid =? ID_POINTS then                                                  (* :381 *)
    match read_u8lp b with
    | None => Err E_PARSE
    | Some (v, _) => if empty v then Err E_PARSE else Ok (ESupportedPoints v)
    end
  else if xid =? ID_SIGALGS then u16_list_write E_PARSE ESignatureAlgorithms same b        (* :449 *)
  else if xid =? ID_ALPN then protos_write EALPN b                               (* :668 *)
  else if xid =? ID_STATUS_V2 then                                               (* :507 *)
    match obind (read_u16lp b) (fun '(v, _) => read_u8 v) with
    | None => Err E_PARSE
    | Some (t, _) => if t =? 2 then Ok EStatusRequestV2 else Err E_STATUS_TYPE
    end
  else if xid =? ID_SCT then Ok ESCT                                             (* :864 *)
  else if xid =? ID_PADDING then Ok (EPadding 0 false PadBoring)                 (* :1105 *)
  else if xid =? ID_EMS then Ok EExtendedMasterSecret                            (* :951 *)
  else if xid =? ID_TOKEN_BINDING then                                           (* :1829 *)
    match obind (read_u8 b) (fun '(ma, s1) => obind (read_u8 s1) (fun '(mi, s2) =>
          obind (read_u8lp s2) (fun '(p, _) => Some (ma, mi, p)))) with
    | None => Err E_PARSE
    | Some (ma, mi, p) => Ok (EFakeTokenBinding ma mi p)
    end
  else if xid =? ID_COMPRESS_CERT then                                           (* :1187 *)
    match read_u8lp b with
    | None => Err E_PARSE
    | Some (v, _) => match read_u16s v with None => Err E_PARSE | Some l => Ok (ECompressCert l) end
    end
  else if xid =? ID_RECORD_SIZE_LIMIT then                                       (* :1773 *)
    match read_u16 b with None => Err E_PARSE | Some (l, _) => Ok (EFakeRecordSizeLimit l) end
  else if xid =? ID_DELEGATED_CREDENTIALS then                                   (* :1903 *)
    u16_list_write E_PARSE EFakeDelegatedCredentials same b
  else if xid =? ID_SESSION_TICKET then Ok (ESessionTicket [])                   (* u_session_ticket.go:71 *)
  else if xid =? ID_PSK then fake_psk_write b
  else if xid =? ID_VERSIONS then                                                (* :1483 *)
    match read_u8lp b with
    | None => Err E_PARSE
    | Some (v, _) =>
      if empty v then Err E_PARSE else
      match read_u16s v with None => Err E_PARSE | Some l => Ok (ESupportedVersions (map ungrease l)) end
    end
  else if xid =? ID_PSK_MODES then                                               (* :1406 *)
    match read_u8lp b with None => Err E_PARSE | Some (v, _) => Ok (EPSKKeyExchangeModes v) end
  else if xid =? ID_SIGALGS_CERT then u16_list_write E_PARSE ESignatureAlgorithmsCert same b (* :582 *)
  else if xid =? ID_KEY_SHARE then                                               (* :1268 *)
    match read_u16lp b with
    | None => Err E_PARSE
    | Some (v, _) =>
      match key_shares_parse (length v) v with None => Err E_PARSE | Some l => Ok (EKeyShare l) end
    end
  else if xid =? ID_QUIC_TP then Err E_NO_WRITER                                 (* no Write method *)
  else if xid =? ID_NPN then Ok (ENPN [])                                        (* :1618 *)
  else if xid =? ID_ALPS then protos_write EApplicationSettings b                (* :739, :788 *)
  else if xid =? ID_ALPS_NEW then protos_write EApplicationSettingsNew b         (* :827 *)
  else if xid =? ID_CHANNEL_ID_OLD then Ok (EFakeChannelID true)                 (* :1735 *)
  else if xid =? ID_CHANNEL_ID then Ok (EFakeChannelID false)
  else if xid =? ID_ECH then ech_write b
  else if xid =? ID_RENEGOTIATION then Ok (ERenegotiationInfo 1 [])              (* :1671; RenegotiateOnceAsClient *)
  else if is_grease xid then Ok (EGREASE GREASE_PLACEHOLDER b)                   (* :85, :1008 *)
  else Err E_NO_EXT.

(* ReadTLSExtensions with realPSK = true replaces the id-41 writer by
   &UtlsPreSharedKeyExtension{}, whose Write ignores the data (u_pre_shared_key.go:315). *)
Definition ext_write_realpsk (xid : N) (b : bytes) : res ext :=
  if xid =? ID_PSK then Ok (EUtlsPreSharedKey false None false [] []) else ext_write xid b.

(* Positions the code refills from crypto/rand on every fresh GREASE ECH value. *)
Definition ech_mask (e : ext) : ext :=
  match e with
  | EGREASEECH k a _ enc p => EGREASEECH k a 0 (zbytes (length enc)) (zbytes (length p))
  | _ => e
  end.

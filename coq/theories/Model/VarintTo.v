(* quicvarint.Append / AppendWithLen with their destination buffer (varint.go:78-95, 99-124).
   Every branch of both functions is a chain of  b = append(b, ...)  on the slice that was passed in
   (Append: one append per width; AppendWithLen: delegation to Append, or one append of the length
   prefix byte, length-l-1 appends of 0 and l appends of the value bytes).  Model/Varint.v gives the
   bytes that are appended; here the caller's bytes are put in front.  Kept in a file of its own so that
   the many dependents of Model/Varint.v need no rebuild.  Executable definitions only. *)
From UV Require Import Base.Common Model.Varint.

Definition append_to (b : bytes) (i : N) : res bytes :=
  do e <- append i; Ok (b ++ e).

Definition append_with_len_to (b : bytes) (i length : N) : res bytes :=
  do e <- append_with_len i length; Ok (b ++ e).

(* TransportParameters.Marshal (u_quic_transport_parameters.go:36-45) written with the buffer threaded through
   the loop, as in the source:  b = Append(b, id); b = Append(b, len(v)); b = append(b, v...) *)
Fixpoint marshal_tps_to (b : bytes) (tps : list tparam) : res bytes :=
  match tps with
  | [] => Ok b
  | (id, v) :: rest =>
    do b1 <- append_to b id;
    do b2 <- append_to b1 (N.of_nat (length v));
    marshal_tps_to (b2 ++ v) rest
  end.

(* C10: the client's decision on the flight of a COMPLIANT server, i.e. one whose every choice lies in
   (offered on the wire) /\ (implemented by utls) and whose messages follow RFC 8446 / RFC 5246.
   Executable definitions only. Reuses Model/Negotiate.v (client_run_gen = UConn.clientHandshake's decisions)
   and Model/KeyShare.v (which private keys ApplyPreset retains, ecdheKeyFor).

   The only addition to the negotiation core is the key selection of the repaired establishHandshakeKeys
   (fixes/C18-keyshare-private-keys.diff): Negotiate.v's view carries the curve of keyShareKeys.ecdhe only, so
   the view handed to client_run_gen carries the curve of the key that ecdheKeyFor(serverShare.group) returns
   (key_schedule.go ecdheKeyFor; handshake_client_tls13.go:604). After a HelloRetryRequest naming a group
   process_hrr replaces the keys anyway (handshake_client_tls13.go:353). *)
From UV Require Export Base.Common Model.Negotiate Model.KeyShare.

(* curve of keyShareKeys.ecdheKeyFor(g), 0 = nil (shape level; Proofs/CompleteP.v ties it to KeyShare.ecdhe_key_for) *)
Definition eff_ecdhe (fixed : bool) (ks : kshape) (g : N) : N :=
  if negb fixed then sh_ecdhe ks
  else if sh_ecdhe ks =? 0 then (if hybrid g then sh_mlkem_ecdhe ks else 0)
  else if hybrid g then (if sh_mlkem_ecdhe ks =? 0 then sh_ecdhe ks else sh_mlkem_ecdhe ks)
  else if classical_impl g && negb (sh_ecdhe ks =? g) && memN g (sh_extra ks) then g
  else sh_ecdhe ks.

Definition set_ecdhe (v : client_view) (c : N) : client_view :=
  mkView (cv_suites v) (cv_curves v) (cv_shares v) (cv_alpn v) (cv_sid v) (cv_psk v) (cv_ccalgs v) (cv_ccext v)
         (cv_vmin v) (cv_vmax v) (cv_ech v) c (cv_mlkem v) (cv_sv v) (cv_session v).

(* handshake(): keyShareKeys.ecdhe == nil is tested on the real ecdhe (handshake_client_tls13.go:63) *)
Definition client_run10 (fixed : bool) (e : env) (v : client_view) (ks : kshape) (fl : flight) : outcome :=
  let c := if sh_ecdhe ks =? 0 then 0 else eff_ecdhe fixed ks (h_share (f_sh fl)) in
  client_run_gen e (set_ecdhe v c) fl.

(* groups utls can key: curveForCurveID + the two hybrids *)
Definition group_impl (g : N) : bool := classical_impl g || hybrid g.

(* ---- a compliant server flight for the wire hello w ---- *)
Definition is_nil {A} (l : list A) : bool := match l with [] => true | _ => false end.

Definition compliant_hello13 (w : wire_view) (h : hello_msg) : bool :=
  (h_vers h =? V12) && (h_sv h =? V13) && bytes_eqb (h_sid h) (w_sid w) && (h_comp h =? 0)
  && memN (h_suite h) (w_suites w) && memN (h_suite h) tls13_suites && is_nil (h_alpn h)
  && match h_psk h with None => true | Some _ => false end.   (* full handshake; resumption is C19 *)

Definition compliant13 (w : wire_view) (fl : flight) : bool :=
  offers13 w
  && compliant_hello13 w (f_sh fl) && (h_tail (f_sh fl) =? 0) && negb (h_cookie (f_sh fl)) && (h_selgroup (f_sh fl) =? 0)
  && group_impl (h_share (f_sh fl)) && memN (h_share (f_sh fl)) (w_groups w)
  && match f_hrr fl with
     | None => memN (h_share (f_sh fl)) (w_shares w)
     | Some h =>
         compliant_hello13 w h && (h_tail h =? 0) && (h_share h =? 0) && (h_suite h =? h_suite (f_sh fl))
         && ((negb (h_selgroup h =? 0) && memN (h_selgroup h) (w_groups w) && negb (memN (h_selgroup h) (w_shares w))
              && (h_share (f_sh fl) =? h_selgroup h))
             || ((h_selgroup h =? 0) && h_cookie h && memN (h_share (f_sh fl)) (w_shares w)))
     end
  && (is_nil (f_ee_alpn fl) || memB (f_ee_alpn fl) (w_alpn w))
  && match f_ccert fl with None => true | Some a => memN a (w_ccalgs w) && memN a [1; 2; 3] end
  && match f_skx fl with None => true | Some _ => false end
  && f_crypto_ok fl.

(* TLS <= 1.2: the server negotiates vers from what the hello advertises; RFC 8446 4.1.3 sentinel only when the
   server supports a higher version than it negotiates, which for a compliant server (it negotiates the highest
   common version) means the hello did not advertise that higher version *)
Definition is_none {A} (o : option A) : bool := match o with None => true | Some _ => false end.

Definition compliant12 (e : env) (specmin : N) (w : wire_view) (fl : flight) : bool :=
  let h := f_sh fl in
  let vers := h_vers h in
  let adv := advertised specmin w in
  is_none (f_hrr fl)
  && (h_sv h =? 0) && (vers <? V13) && memN vers adv
  && ((h_tail h =? 0)
      || ((h_tail h =? 1) && (vers =? V12) && negb (memN V13 adv))
      || ((h_tail h =? 2) && (vers <=? V11) && negb (memN V13 adv) && negb (memN V12 adv)))
  && memN (h_suite h) (w_suites w) && memN (h_suite h) (e_impl12 e) && (h_comp h =? 0)
  && (is_nil (h_alpn h) || memB (h_alpn h) (w_alpn w))
  && (if memN (h_suite h) (e_ecdhe12 e)
      then match f_skx fl with Some c => classical_impl c && memN c (w_groups w) | None => false end
      else is_none (f_skx fl))
  && f_crypto_ok fl.

Definition compliant (e : env) (specmin : N) (w : wire_view) (fl : flight) : bool :=
  if h_sv (match f_hrr fl with Some h => h | None => f_sh fl end) =? 0 then compliant12 e specmin w fl
  else compliant13 w fl.

(* ---- what must hold of a spec (view + retained keys + wire hello) for C10 ---- *)
(* every advertised version is one the client's Config accepts and its offered-version check lets through,
   and the maximum the downgrade-sentinel test protects is itself advertised *)
Definition versions_ok (e : env) (v : client_view) (specmin : N) (w : wire_view) : bool :=
  forallb (fun x => memN x (client_versions v) && version_offered e v x) (advertised specmin w)
  && memN (offered_max e v) (advertised specmin w).

(* every key share the hello sends for a group utls can key is backed by the key the client will use *)
Definition keys_ok (fixed : bool) (v : client_view) (ks : kshape) : bool :=
  (is_nil (cv_shares v) || negb (sh_ecdhe ks =? 0))
  && forallb (fun g => negb (group_impl g)
                       || match establish_keys (eff_ecdhe fixed ks g) (sh_mlkem ks) g with None => true | Some _ => false end)
             (cv_shares v).

Definition spec_ok (fixed : bool) (e : env) (v : client_view) (ks : kshape) (specmin : N) (w : wire_view) : bool :=
  synced v w && versions_ok e v specmin w && keys_ok fixed v ks
  && Bool.eqb (cv_mlkem v) (sh_mlkem ks) && negb (cv_ech v)
  && implb (negb (is_nil (w_ccalgs w))) (cv_ccext v)
  && (is_nil (cv_shares v) || offers13 w) && implb (offers13 w) (negb (is_nil (cv_shares v))).

(* the two classes the client cannot complete although it offered the choice *)
Definition psk_with_hrr (v : client_view) (fl : flight) : bool :=
  (0 <? cv_psk v) && match f_hrr fl with Some _ => true | None => false end.
Definition hrr_to_hybrid (fl : flight) : bool :=
  match f_hrr fl with Some h => hybrid (h_selgroup h) | None => false end.

Definition c10_cond (fixed : bool) (e : env) (v : client_view) (ks : kshape) (specmin : N) (w : wire_view) (fl : flight) : bool :=
  spec_ok fixed e v ks specmin w && negb (psk_with_hrr v fl) && negb (hrr_to_hybrid fl).

(* ---- the full statement: keys as ApplyPreset leaves them ---- *)
(* shape of the keys ApplyPreset retains for a hello whose key_share groups are [shares] (GREASE entries carry
   their one byte of data, every other share is generated); computed on the toy instance of Model/KeyShare.v -
   the shape does not depend on the instance (compared with the real UConn on every run, Corr/C18Corr.v CShape) *)
Definition preset_shape (fixed : bool) (shares : list N) : option kshape :=
  match toy_apply (fun i => (i * 7 + 3) mod 251) fixed false 2570
                  (map (fun g => mkKS g (if is_grease g then [0] else [])) shares) 0 with
  | Ok a => Some (shape_of (a_keys a))
  | _ => None
  end.

(* spec_ok without the key condition *)
Definition spec_pre (e : env) (v : client_view) (ks : kshape) (specmin : N) (w : wire_view) : bool :=
  synced v w && versions_ok e v specmin w
  && Bool.eqb (cv_mlkem v) (sh_mlkem ks) && negb (cv_ech v)
  && implb (negb (is_nil (w_ccalgs w))) (cv_ccext v)
  && (is_nil (cv_shares v) || offers13 w) && implb (offers13 w) (negb (is_nil (cv_shares v))).

Fixpoint nodup_groups (l : list N) : bool :=
  match l with [] => true | x :: tl => negb (memN x tl) && nodup_groups tl end.
Definition wf_groups (shares : list N) : bool :=
  nodup_groups (filter (fun g => negb (is_grease g)) shares)
  && (length (filter hybrid shares) <=? 1)%nat
  && forallb (fun g => is_grease g || group_impl g) shares.

Definition C10_full (fixed : bool) : Prop :=
  forall v ks m w fl,
    spec_pre env_fixed v ks m w = true -> wf_groups (cv_shares v) = true ->
    preset_shape fixed (cv_shares v) = Some ks ->
    compliant env_fixed m w fl = true ->
    exists st, client_run10 fixed env_fixed v ks fl = Complete st.

(* ---- witnesses ---- *)
Definition sid0 : bytes := repeat 7 32.
Definition wit_view (curves shares : list N) (psk : N) (ks : kshape) : client_view :=
  mkView [4865; 49195] curves shares [] sid0 psk [] false V12 V13 false (sh_ecdhe ks) (sh_mlkem ks) [V13; V12] 0.
Definition wit_wire (curves shares : list N) (psk : N) : wire_view :=
  mkWire V12 [4865; 49195] [0] curves shares [] sid0 psk [] true [V13; V12].
Definition wit_hello (share selgroup : N) : hello_msg := mkHello V12 V13 0 sid0 4865 0 share selgroup false None [].
Definition wit_flight (hrr : option N) (share : N) : flight :=
  mkFlight (match hrr with Some g => Some (wit_hello 0 g) | None => None end) (wit_hello share 0) [] None None true.

(* ---- application data: what UConn.Write reports (u_conn.go:478-511) ----
   vers = negotiated version, cbc = the outgoing cipher is a cipher.BlockMode, len = len(b); [rec k] = what
   writeRecordLocked reports for a k-byte payload when it succeeds (it reports k). With the 1/n-1 split (BEAST
   countermeasure, TLS <= 1.0 with a CBC suite) the first byte goes out in its own record and is accounted for in m. *)
Definition uconn_write (vers : N) (cbc : bool) (len : N) : N :=
  if (1 <? len) && (vers <=? V10) && cbc then
    let m := 1 in            (* n, err := writeRecordLocked(b[:1]); m, b = 1, b[1:] *)
    (len - 1) + m            (* n, err := writeRecordLocked(b); return n + m *)
  else len.

(* ---- CertificateRequest (optional client authentication) ----
   A compliant server may ask for a client certificate in any handshake (TLS 1.3: CertificateRequest after
   EncryptedExtensions, handshake_client_tls13.go:786-800 readServerCertificate stores it; TLS <= 1.2:
   handshake_client.go doFullHandshake). A client whose Config holds no certificate answers with an empty Certificate
   message (handshake_client_tls13.go sendClientCertificate / handshake_client.go:790-810) and goes on: the request
   changes none of the client's decisions. [creq] = the flight carries a CertificateRequest; the reply is what the
   client sends: None = no Certificate message, Some 0 = a Certificate message with an empty chain. *)
Definition client_run10q (fixed : bool) (e : env) (v : client_view) (ks : kshape) (fl : flight) (creq : bool) : outcome :=
  client_run10 fixed e v ks fl.
Definition client_cert_reply (creq : bool) : option N := if creq then Some 0 else None.

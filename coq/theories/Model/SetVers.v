(* Model of the version step of applying a spec (C07, "valid capture => usable"):

     UConn.SetTLSVers          u_conn.go:748-807
     makeSupportedVersions     u_conn.go:892-898

   SetTLSVers receives TLSVersMin / TLSVersMax exactly as FromRaw stored them
   (record-layer version / legacy_version, or 0 / 0 when supported_versions was
   present) and the spec's extensions. `make([]uint16, n)` is modelled with Go's
   rule (panic for a negative length); at /repo HEAD its argument is the uint16
   expression maxVers-minVers+1, written here as the explicit mod 2^16.
   Executable definitions only; proofs in Proofs/SetVersP.v. *)
From UV Require Import Base.Common Model.Wire Model.Varint Model.Ext Model.FromRaw.

Definition P_MAKESLICE : N := 4.        (* makeslice: len / cap out of range *)
Definition E_SV_INVALID : N := 80.      (* "SupportedVersions extension has invalid Versions field" *)
Definition E_SV_MANY : N := 81.         (* "uconn.Extensions contains %v separate SupportedVersions extensions" *)
Definition E_VERS_MIN : N := 82.        (* "uTLS does not support 0x%X as min version" *)
Definition E_VERS_MAX : N := 83.

Definition VersionTLS10 : N := 769.
Definition VersionTLS12 : N := 771.
Definition VersionTLS13 : N := 772.

(* make([]T, n) for a Go int n *)
Definition go_make (n : Z) : res nat :=
  if (n <? 0)%Z then Panic P_MAKESLICE else Ok (Z.to_nat n).

(* makeSupportedVersions, :892-898:
     a := make([]uint16, maxVers-minVers+1)        // uint16 arithmetic
     for i := range a { a[i] = maxVers - uint16(i) } *)
(* the loop, with the index kept in N: a[i] = maxVers - uint16(i) *)
Fixpoint msv_fill (len : nat) (i : N) (maxVers : N) : list N :=
  match len with
  | O => []
  | S k => (maxVers + 65536 - i mod 65536) mod 65536 :: msv_fill k (i + 1) maxVers
  end.

Definition make_supported_versions (minVers maxVers : N) : res (list N) :=
  let n := (maxVers + 65536 - minVers + 1) mod 65536 in
  do len <- go_make (Z.of_N n);
  Ok (msv_fill len 0 maxVers).

(* findVersionsInSupportedVersionsExtensions, :755-771 *)
Fixpoint find_versions (vs : list N) (minV maxV : N) : N * N :=
  match vs with
  | [] => (minV, maxV)
  | v :: r =>
      if is_grease v then find_versions r minV maxV else
      let maxV' := if (maxV <? v) || (maxV =? 0) then v else maxV in
      let minV' := if (v <? minV) || (minV =? 0) then v else minV in
      find_versions r minV' maxV'
  end.

(* the loop over specExtensions, :752-779: count of SupportedVersions extensions and the
   range of the last one; an extension without a usable version is an immediate error *)
Fixpoint scan_sv (es : list ext) (count : N) (mm : N * N) : res (N * (N * N)) :=
  match es with
  | [] => Ok (count, mm)
  | ESupportedVersions vs :: r =>
      let mm' := find_versions vs 0 0 in
      if (fst mm' =? 0) && (snd mm' =? 0) then Err E_SV_INVALID else scan_sv r (count + 1) mm'
  | _ :: r => scan_sv r count mm
  end.

(* SetTLSVers: (Config.MinVersion, Config.MaxVersion, Hello.SupportedVersions) it installs *)
Definition set_tls_vers (minV maxV : N) (es : list ext) : res (N * N * list N) :=
  do mm <- (if (minV =? 0) && (maxV =? 0) then
              do r <- scan_sv es 0 (0, 0);
              let '(count, mm) := r in
              if count =? 0 then Ok (VersionTLS10, VersionTLS12)          (* :781-784 *)
              else if count =? 1 then Ok mm
              else Err E_SV_MANY
            else Ok (minV, maxV));
  let '(mn, mx) := mm in
  if (mn <? VersionTLS10) || (VersionTLS13 <? mn) then Err E_VERS_MIN          (* :792 *)
  else if (mx <? VersionTLS10) || (VersionTLS13 <? mx) then Err E_VERS_MAX     (* :796 *)
  else do sv <- make_supported_versions mn mx; Ok (mn, mx, sv).                (* :800 *)

(* ApplyPreset's call (u_parrots.go:2769) on a fingerprinted spec *)
Definition spec_set_tls_vers (s : spec) : res (N * N * list N) :=
  set_tls_vers (sp_vmin s) (sp_vmax s) (sp_exts s).

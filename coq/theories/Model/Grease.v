(* Model of the GREASE generators of utls. Executable definitions only.

   TLS:  isGREASEUint16 / unGREASEUint16          u_common.go:717-729
         GetBoringGREASEValue                      u_tls_extensions.go:979-987
         greaseSeed handling in ApplyPreset        u_parrots.go:2805-2817
         re-GREASE of cipher suites                u_parrots.go:2819-2825
         re-GREASE of extensions / groups /
         key shares / versions                     u_parrots.go:2847-2927
   QUIC: GREASETransportParameter.IsGREASEID /
         GetGREASEID / ID                          u_quic_transport_parameters.go:70-97
         VersionInformation.Value /
         GetGREASEVersion                          u_quic_transport_parameters.go:250-272

   STATE: GetGREASEVersion is modelled AFTER fixes/C04-quic-grease-version.diff
   (mask, then OR). The unfixed expression is kept as [grease_version_unfixed]
   only so that the corpus witness of the defect can be stated.

   Randomness is an input: the 10 bytes ApplyPreset reads from Config.rand(),
   and the big.Int that crypto/rand.Int returns (None = it returned an error).
   uint16/uint32/uint64 narrowing is written as explicit [u16]/[u32]/[u64]. *)
From UV Require Import Base.Common.

(* ---------------------------------------------------------------- TLS *)

Definition GREASE_PLACEHOLDER : N := 2570.      (* 0x0a0a, u_common.go:715 *)

(* u_common.go:717-721; v is a uint16 *)
Definition is_grease (v : N) : bool :=
  (N.shiftr v 8 =? N.land v 255) && (N.land v 15 =? 10).

(* u_common.go:723-729 *)
Definition un_grease (v : N) : N := if is_grease v then GREASE_PLACEHOLDER else v.

(* u_tls_extensions.go:958-966 *)
Definition ssl_grease_cipher : nat := 0.
Definition ssl_grease_group : nat := 1.
Definition ssl_grease_extension1 : nat := 2.
Definition ssl_grease_extension2 : nat := 3.
Definition ssl_grease_version : nat := 4.
Definition ssl_grease_last_index : nat := 5.

Definition P_INDEX : N := 1.            (* array index out of range *)
Definition E_SHORT_RAND : N := 1.       (* "tls: short read from Rand" *)
Definition E_TOO_MANY_GREASE : N := 2.  (* "at most 2 grease extensions are supported" *)

(* u_tls_extensions.go:982-986, on one seed word *)
Definition grease_word (s : N) : N :=
  let ret := u16 s in
  let ret := N.lor (N.land ret 240) 10 in       (* ret = (ret & 0xf0) | 0x0a *)
  N.lor ret (u16 (N.shiftl ret 8)).             (* ret |= ret << 8 *)

(* u_tls_extensions.go:979: greaseSeed is a [5]uint16; index outside panics *)
Definition boring_grease (seed : list N) (idx : nat) : res N :=
  match nth_error seed idx with
  | Some s => Ok (grease_word s)
  | None => Panic P_INDEX
  end.

(* binary.LittleEndian.Uint16 *)
Definition le16 (b0 b1 : N) : N := N.lor b0 (N.shiftl b1 8).

(* u_parrots.go:2812-2814 *)
Fixpoint seed_words (n : nat) (gb : bytes) : list N :=
  match n, gb with
  | S k, b0 :: b1 :: r => le16 b0 b1 :: seed_words k r
  | _, _ => []
  end.

(* u_parrots.go:2815-2817 *)
Definition dedup_ext (sd : list N) : list N :=
  match sd with
  | [c; g; e1; e2; v] =>
      if grease_word e1 =? grease_word e2 then [c; g; e1; N.lxor e2 4112 (* ^= 0x1010 *); v] else sd
  | _ => sd
  end.

(* u_parrots.go:2806-2817: gb = what io.ReadFull obtained (10 bytes, or short) *)
Definition grease_seed (gb : bytes) : res (list N) :=
  if (length gb =? 2 * ssl_grease_last_index)%nat
  then Ok (dedup_ext (seed_words ssl_grease_last_index gb))
  else Err E_SHORT_RAND.

(* "if isGREASEUint16(x) { x = GetBoringGREASEValue(seed, idx) }" *)
Definition regrease (sd : list N) (idx : nat) (v : N) : res N :=
  if is_grease v then boring_grease sd idx else Ok v.

Fixpoint map_res {A B} (f : A -> res B) (l : list A) : res (list B) :=
  match l with
  | [] => Ok []
  | x :: r => do y <- f x; do r' <- map_res f r; Ok (y :: r')
  end.

(* The GREASE-relevant view of a TLSExtension. *)
Inductive ext :=
| XGrease (value : N) (body : bytes)     (* *UtlsGREASEExtension *)
| XCurves (cs : list N)                  (* *SupportedCurvesExtension *)
| XKeyShare (gs : list N)                (* *KeyShareExtension: the groups, in order *)
| XVersions (vs : list N)                (* *SupportedVersionsExtension *)
| XSigAlgs (ss : list N)                 (* *SignatureAlgorithmsExtension: ApplyPreset leaves it alone *)
| XOther (id : N).                       (* anything else, by extension type *)

(* u_parrots.go:2847-2927, the loop over uconn.Extensions; [seen] = grease_extensions_seen *)
Fixpoint apply_exts (sd : list N) (seen : nat) (es : list ext) : res (list ext) :=
  match es with
  | [] => Ok []
  | XGrease v b :: r =>
      match seen with
      | O => do x <- boring_grease sd ssl_grease_extension1;
             do r' <- apply_exts sd 1 r; Ok (XGrease x b :: r')
      | S O => do x <- boring_grease sd ssl_grease_extension2;
               do r' <- apply_exts sd 2 r; Ok (XGrease x [0] :: r')
      | _ => Err E_TOO_MANY_GREASE
      end
  | XCurves cs :: r =>
      do cs' <- map_res (regrease sd ssl_grease_group) cs;
      do r' <- apply_exts sd seen r; Ok (XCurves cs' :: r')
  | XKeyShare gs :: r =>
      do gs' <- map_res (regrease sd ssl_grease_group) gs;
      do r' <- apply_exts sd seen r; Ok (XKeyShare gs' :: r')
  | XVersions vs :: r =>
      do vs' <- map_res (regrease sd ssl_grease_version) vs;
      do r' <- apply_exts sd seen r; Ok (XVersions vs' :: r')
  | XSigAlgs ss :: r => do r' <- apply_exts sd seen r; Ok (XSigAlgs ss :: r')
  | XOther id :: r => do r' <- apply_exts sd seen r; Ok (XOther id :: r')
  end.

(* ApplyPreset restricted to what GREASE touches: cipher suites and extensions. *)
Definition apply_preset_grease (gb : bytes) (suites : list N) (exts : list ext)
  : res (list N * list ext) :=
  do sd <- grease_seed gb;
  do suites' <- map_res (regrease sd ssl_grease_cipher) suites;
  do exts' <- apply_exts sd 0 exts;
  Ok (suites', exts').

(* the five slot values of one connection *)
Definition slot (gb : bytes) (idx : nat) : res N := do sd <- grease_seed gb; boring_grease sd idx.

(* values of the GREASE extensions, in order *)
Fixpoint grease_ext_values (es : list ext) : list N :=
  match es with
  | [] => []
  | XGrease v _ :: r => v :: grease_ext_values r
  | _ :: r => grease_ext_values r
  end.

(* the n-th reserved TLS value 0xwAwA *)
Definition grease_val (w : N) : N := 4112 * w + 2570.

(* --------------------------------------------------------------- QUIC *)

Definition two62 : N := 4611686018427387904.
Definition GREASE_MAX_MULTIPLIER : N := (4611686018427387903 - 27) / 31.   (* :71 *)

(* :76-78, uint64 arithmetic; id-27 is only evaluated when id >= 27 *)
Definition is_grease_id (id : N) : bool := (27 <=? id) && ((id - 27) mod 31 =? 0).

(* :81-90; draw = rand.Int(rand.Reader, GREASE_MAX_MULTIPLIER), None = error *)
Definition grease_id (draw : option N) : N :=
  match draw with
  | None => 27
  | Some k => u64 (27 + u64 (u64 k * 31))
  end.

(* :92-97 GREASETransportParameter.ID *)
Definition tp_grease_id (id_override : N) (draw : option N) : N :=
  if is_grease_id id_override then id_override else grease_id draw.

Definition VERSION_GREASE : N := 168430090.            (* 0x0a0a0a0a *)
Definition MaxUint32 : N := 4294967295.

(* :263-272 as shipped: OR into an unmasked random value *)
Definition grease_version_unfixed (draw : option N) : N :=
  match draw with
  | None => VERSION_GREASE
  | Some x => N.lor (u32 (N.land (u64 x) MaxUint32)) 168430090
  end.

(* :263-272 after the fix: (x & 0xf0f0f0f0) | 0x0a0a0a0a *)
Definition grease_version (draw : option N) : N :=
  match draw with
  | None => VERSION_GREASE
  | Some x => N.lor (N.land (u32 (N.land (u64 x) MaxUint32)) 4042322160) 168430090
  end.

Definition is_grease_version (v : N) : bool := N.land v 252645135 (* 0x0f0f0f0f *) =? 168430090.

(* :250-261 VersionInformation.Value, the AvailableVersions loop as a list of uint32
   (the big-endian serialisation is C24's business); one draw per GREASE entry *)
Fixpoint vi_versions (avail : list N) (draws : list (option N)) : list N :=
  match avail with
  | [] => []
  | v :: r =>
      if v =? VERSION_GREASE
      then grease_version (hd None draws) :: vi_versions r (tl draws)
      else v :: vi_versions r draws
  end.

(* Model of the QUIC event API of a uTLS client (C23).

   Two processes and three channels, as a labelled transition system with a
   total executable step function:

   * the API caller: UQUICConn.Start / HandleData / NextEvent / Close /
     SetTransportParameters (u_quic.go:46-180; identical in structure to
     quic.go:203-354);
   * the handshake goroutine: UConn.handshakeContext (u_conn.go:317-423) with
     its early return when BuildHandshakeState fails (u_conn.go:375-381),
     quicWaitForSignal (quic.go:476-500) and the final close(blockedc);
     close(signalc) (u_conn.go:418-419);
   * channels signalc / blockedc (unbuffered: a send and a receive happen in one
     joint step, or the receive sees the channel closed) and cancelc (closed by
     cancellation, only ever selected on).

   What the goroutine does between two waits is abstracted to a script:
   "emit events, wait, ..., then finish ok/err", once for BuildHandshakeState
   (HelloGolang waits there for the transport parameters, handshake_client.go:202)
   and once for clientHandshake.  Scripts are arbitrary lists, so every theorem
   quantifies over any number of waits.

   [early_closes] selects the code that is modelled: [false] is the code as found
   (the early return leaves both channels open), [true] is the code after
   fixes/C23-quic-build-error-closes-channels.diff. *)
From UV Require Import Base.Common.

(* ---- events (quic.go:61-141) ---- *)
Inductive level := LvInitial | LvEarly | LvHandshake | LvApp.
Inductive event :=
| EReadSecret (l : level) | EWriteSecret (l : level) | EWriteData (l : level)
| ETransportParams | ETPRequired | ERejectedEarly | EHandshakeDone.

Definition level_eqb (a b : level) : bool :=
  match a, b with
  | LvInitial, LvInitial | LvEarly, LvEarly | LvHandshake, LvHandshake | LvApp, LvApp => true
  | _, _ => false
  end.
Definition event_eqb (a b : event) : bool :=
  match a, b with
  | EReadSecret x, EReadSecret y | EWriteSecret x, EWriteSecret y | EWriteData x, EWriteData y => level_eqb x y
  | ETransportParams, ETransportParams | ETPRequired, ETPRequired
  | ERejectedEarly, ERejectedEarly | EHandshakeDone, EHandshakeDone => true
  | _, _ => false
  end.

(* one action of the handshake goroutine between two scheduling points *)
Inductive act := AEmit (e : event) | AWait.

(* ---- program counters ---- *)
Inductive gpc :=
| GNone        (* not spawned *)
| GInit        (* u_conn.go:317-372: context setup, quic.cancelc/cancel, lock handshakeMutex and in *)
| GBuild       (* inside BuildHandshakeState, u_conn.go:376 *)
| GHs          (* inside handshakeFn, u_conn.go:382 *)
| GWaitBlk (inbuild : bool)  (* quicWaitForSignal first select, quic.go:484-488 *)
| GWaitSig (inbuild : bool)  (* quicWaitForSignal second select, quic.go:492-498 *)
| GFail        (* handshakeFn returned an error: u_conn.go:383-417 *)
| GEarly       (* BuildHandshakeState returned an error: u_conn.go:377-379 *)
| GClose1      (* about to close(blockedc), u_conn.go:418 *)
| GClose2      (* about to close(signalc), u_conn.go:419 *)
| GRet         (* return: deferred in.Unlock, handshakeMutex.Unlock, cancel() *)
| GDone.

Inductive cpc :=
| CIdle
| CStartRecv            (* u_quic.go:55  <-blockedc *)
| CHdSig | CHdBlk       (* u_quic.go:105-106 *)
| CHdLock               (* u_quic.go:112 handshakeMutex.Lock() *)
| CTpSig | CTpBlk       (* u_quic.go:177-178 *)
| CCloseLoop.           (* u_quic.go:91 for range blockedc *)

(* what an API call returned *)
Inductive ret := RNil | RErr | REvent (e : option event).

Record state := mkState {
  early_closes : bool;     (* which code: see header *)
  minver_ok : bool;        (* config.MinVersion >= TLS 1.3, u_quic.go:51 *)
  started : bool;          (* quic.started *)
  cancel_set : bool;       (* quic.cancel != nil, u_conn.go:338 *)
  cancelled : bool;        (* cancelc closed *)
  tp_set : bool;           (* quic.transportParams != nil *)
  blk_closed : bool;
  sig_closed : bool;
  hs_err : bool;           (* c.handshakeErr != nil *)
  complete : bool;         (* isHandshakeComplete *)
  g : gpc;
  build : list act; build_ok : bool;   (* remaining script of BuildHandshakeState and its result *)
  hs : list act; hs_ok : bool;         (* remaining script of handshakeFn and its result *)
  c : cpc;
  queue : list event;      (* quic.events[nextEvent:] *)
  hist : list event        (* ghost: every event ever created, newest first *)
}.

Definition init (ec mv tp : bool) (b : list act) (bok : bool) (h : list act) (hok : bool) : state :=
  mkState ec mv false false false tp false false false false GNone b bok h hok CIdle [] [].

(* ---- record updates ---- *)
Definition set_g (s : state) (x : gpc) : state :=
  mkState (early_closes s) (minver_ok s) (started s) (cancel_set s) (cancelled s) (tp_set s) (blk_closed s) (sig_closed s)
          (hs_err s) (complete s) x (build s) (build_ok s) (hs s) (hs_ok s) (c s) (queue s) (hist s).
Definition set_c (s : state) (x : cpc) : state :=
  mkState (early_closes s) (minver_ok s) (started s) (cancel_set s) (cancelled s) (tp_set s) (blk_closed s) (sig_closed s)
          (hs_err s) (complete s) (g s) (build s) (build_ok s) (hs s) (hs_ok s) x (queue s) (hist s).
Definition set_gc (s : state) (x : gpc) (y : cpc) : state := set_c (set_g s x) y.
Definition set_scripts (s : state) (b h : list act) : state :=
  mkState (early_closes s) (minver_ok s) (started s) (cancel_set s) (cancelled s) (tp_set s) (blk_closed s) (sig_closed s)
          (hs_err s) (complete s) (g s) b (build_ok s) h (hs_ok s) (c s) (queue s) (hist s).
Definition set_flags (s : state) (st cs ca tp bc sc he co : bool) : state :=
  mkState (early_closes s) (minver_ok s) st cs ca tp bc sc he co (g s) (build s) (build_ok s) (hs s) (hs_ok s) (c s) (queue s) (hist s).
Definition set_started (s : state) := set_flags s true (cancel_set s) (cancelled s) (tp_set s) (blk_closed s) (sig_closed s) (hs_err s) (complete s).
Definition set_cancel_set (s : state) := set_flags s (started s) true (cancelled s) (tp_set s) (blk_closed s) (sig_closed s) (hs_err s) (complete s).
Definition set_cancelled (s : state) := set_flags s (started s) (cancel_set s) true (tp_set s) (blk_closed s) (sig_closed s) (hs_err s) (complete s).
Definition set_tp (s : state) := set_flags s (started s) (cancel_set s) (cancelled s) true (blk_closed s) (sig_closed s) (hs_err s) (complete s).
Definition set_blk_closed (s : state) := set_flags s (started s) (cancel_set s) (cancelled s) (tp_set s) true (sig_closed s) (hs_err s) (complete s).
Definition set_sig_closed (s : state) := set_flags s (started s) (cancel_set s) (cancelled s) (tp_set s) (blk_closed s) true (hs_err s) (complete s).
Definition set_hs_err (s : state) := set_flags s (started s) (cancel_set s) (cancelled s) (tp_set s) (blk_closed s) (sig_closed s) true (complete s).
Definition set_complete (s : state) := set_flags s (started s) (cancel_set s) (cancelled s) (tp_set s) (blk_closed s) (sig_closed s) (hs_err s) true.
Definition set_events (s : state) (q h : list event) : state :=
  mkState (early_closes s) (minver_ok s) (started s) (cancel_set s) (cancelled s) (tp_set s) (blk_closed s) (sig_closed s)
          (hs_err s) (complete s) (g s) (build s) (build_ok s) (hs s) (hs_ok s) (c s) q h.

(* quicWriteCryptoData (quic.go:402-415) extends the last pending event when it is
   WriteData at the same level; every other emitter appends (quic.go:384-469). *)
Definition coalesces (q : list event) (e : event) : bool :=
  match e, last q ETPRequired with
  | EWriteData l, EWriteData l' => level_eqb l l'
  | _, _ => false
  end.
Definition emit (s : state) (e : event) : state :=
  if coalesces (queue s) e then s else set_events s (queue s ++ [e]) (e :: hist s).

(* ---- labels ---- *)
Inductive label :=
(* API calls, only from CIdle *)
| LStart | LHandleData | LHandleDataWrongLevel | LSetTP | LClose | LNextEvent
(* environment: the context passed to Start is cancelled *)
| LCtxCancel
(* internal steps of the caller inside a call *)
| LRecvClosed      (* a receive on a closed channel at the caller's current pc *)
| LLock            (* handshakeMutex.Lock() succeeds, u_quic.go:112 *)
(* joint steps *)
| LSyncBlk         (* goroutine sends on blockedc, caller receives *)
| LSyncSig         (* goroutine sends on signalc, caller receives *)
(* internal steps of the handshake goroutine *)
| LGInit | LGAct | LGEnd | LGCancelSeen | LGErrTail | LGEarly | LGClose1 | LGClose2 | LGRet.

Definition is_call (l : label) : bool :=
  match l with LStart | LHandleData | LHandleDataWrongLevel | LSetTP | LClose | LNextEvent => true | _ => false end.
Definition is_env (l : label) : bool := match l with LCtxCancel => true | _ => false end.
Definition internal (l : label) : bool := negb (is_call l) && negb (is_env l).

Definition spawned (s : state) : bool := match g s with GNone => false | _ => true end.

(* handshakeMutex is free when the goroutine does not exist, has returned, or sits
   in quicWaitForSignal (quic.go:479-480) *)
Definition mutex_free (s : state) : bool :=
  match g s with GNone | GDone | GWaitBlk _ | GWaitSig _ => true | _ => false end.

(* the caller is at a receive on blockedc / signalc *)
Definition recv_blk (x : cpc) : bool := match x with CStartRecv | CHdBlk | CTpBlk | CCloseLoop => true | _ => false end.
Definition recv_sig (x : cpc) : bool := match x with CHdSig | CTpSig => true | _ => false end.

(* caller continuation after a successful receive from blockedc (value received) *)
Definition after_blk_value (x : cpc) : cpc * option ret :=
  match x with
  | CStartRecv => (CIdle, Some RNil)        (* u_quic.go:58 *)
  | CHdBlk => (CIdle, Some RNil)            (* u_quic.go:107-110 *)
  | CTpBlk => (CIdle, Some RNil)            (* u_quic.go:178-180 *)
  | CCloseLoop => (CCloseLoop, None)        (* u_quic.go:91-93 *)
  | y => (y, None)
  end.

Definition err_ret (s : state) : ret := if hs_err s then RErr else RNil.

(* step returns the successor and what the caller's API call returned, if it returned now *)
Definition step (s : state) (l : label) : option (state * option ret) :=
  match l with
  (* u_quic.go:46-59 *)
  | LStart =>
      match c s with
      | CIdle =>
          if started s then Some (s, Some RErr)
          else if negb (minver_ok s) then Some (set_started s, Some RErr)
          else Some (set_gc (set_started s) GInit CStartRecv, None)
      | _ => None
      end
  (* u_quic.go:99-106; discipline: only on a connection whose Start spawned the handshake *)
  | LHandleData =>
      match c s with CIdle => if spawned s then Some (set_c s CHdSig, None) else None | _ => None end
  | LHandleDataWrongLevel =>
      match c s with CIdle => Some (s, Some RErr) | _ => None end
  (* u_quic.go:163-180; discipline: not after a Start that refused to start *)
  | LSetTP =>
      match c s with
      | CIdle =>
          if negb (started s) then Some (set_tp s, Some RNil)
          else if spawned s then Some (set_c (set_tp s) CTpSig, None) else None
      | _ => None
      end
  (* u_quic.go:86-95 *)
  | LClose =>
      match c s with
      | CIdle => if cancel_set s then Some (set_c (set_cancelled s) CCloseLoop, None) else Some (s, Some RNil)
      | _ => None
      end
  (* u_quic.go:67-83 *)
  | LNextEvent =>
      match c s with
      | CIdle =>
          match queue s with
          | [] => Some (s, Some (REvent None))
          | e :: q => Some (set_events s q (hist s), Some (REvent (Some e)))
          end
      | _ => None
      end
  | LCtxCancel => Some (set_cancelled s, None)
  | LRecvClosed =>
      match c s with
      | CStartRecv => if blk_closed s then Some (set_c s CIdle, Some (err_ret s)) else None     (* u_quic.go:55-57 *)
      | CHdSig => if sig_closed s then Some (set_c s CHdBlk, None) else None
      | CHdBlk => if blk_closed s then Some (set_c s CHdLock, None) else None
      | CTpSig => if sig_closed s then Some (set_c s CTpBlk, None) else None
      | CTpBlk => if blk_closed s then Some (set_c s CIdle, Some RNil) else None
      | CCloseLoop => if blk_closed s then Some (set_c s CIdle, Some (err_ret s)) else None     (* u_quic.go:94 *)
      | _ => None
      end
  | LLock =>
      match c s with
      | CHdLock => if mutex_free s then Some (set_c s CIdle, Some (err_ret s)) else None         (* u_quic.go:112-133 *)
      | _ => None
      end
  | LSyncBlk =>
      match g s with
      | GWaitBlk b =>
          if recv_blk (c s) && negb (blk_closed s)
          then let (c', r) := after_blk_value (c s) in Some (set_gc s (GWaitSig b) c', r)
          else None
      | _ => None
      end
  | LSyncSig =>
      match g s with
      | GWaitSig b =>
          match c s with
          | CHdSig => Some (set_gc s (if b then GBuild else GHs) CHdBlk, None)
          | CTpSig => Some (set_gc s (if b then GBuild else GHs) CTpBlk, None)
          | _ => None
          end
      | _ => None
      end
  | LGInit =>
      match g s with GInit => Some (set_g (set_cancel_set s) GBuild, None) | _ => None end
  | LGAct =>
      match g s with
      | GBuild =>
          match build s with
          | AEmit e :: r => Some (emit (set_scripts s r (hs s)) e, None)
          | AWait :: r => Some (set_g (set_scripts s r (hs s)) (GWaitBlk true), None)
          | [] => None
          end
      | GHs =>
          match hs s with
          | AEmit e :: r => Some (emit (set_scripts s (build s) r) e, None)
          | AWait :: r => Some (set_g (set_scripts s (build s) r) (GWaitBlk false), None)
          | [] => None
          end
      | _ => None
      end
  | LGEnd =>
      match g s with
      | GBuild => match build s with
                  | [] => Some (set_g s (if build_ok s then GHs else GEarly), None)
                  | _ => None end
      | GHs => match hs s with
               | [] =>
                   if hs_ok s
                   then (* u_conn.go:399-404: quicHandshakeComplete, 1-RTT read secret *)
                     Some (set_g (emit (emit (set_complete s) EHandshakeDone) (EReadSecret LvApp)) GClose1, None)
                   else Some (set_g s GFail, None)
               | _ => None end
      | _ => None
      end
  (* quic.go:486-487 / 496-497: the select takes the cancelc branch; the wait returns an error,
     every caller up the stack returns it, nothing more is emitted *)
  | LGCancelSeen =>
      if cancelled s then
        match g s with
        | GWaitBlk b | GWaitSig b => Some (set_g (set_scripts s [] []) (if b then GEarly else GFail), None)
        | _ => None
        end
      else None
  | LGErrTail =>
      match g s with GFail => Some (set_g (set_hs_err s) GClose1, None) | _ => None end
  | LGEarly =>
      match g s with
      | GEarly => if early_closes s then Some (set_g (set_hs_err s) GClose1, None)   (* after the fix *)
                  else Some (set_g s GRet, None)                                  (* u_conn.go:377-379 as found *)
      | _ => None
      end
  | LGClose1 => match g s with GClose1 => Some (set_g (set_blk_closed s) GClose2, None) | _ => None end
  | LGClose2 => match g s with GClose2 => Some (set_g (set_sig_closed s) GRet, None) | _ => None end
  | LGRet => match g s with GRet => Some (set_g (set_cancelled s) GDone, None) | _ => None end
  end.

Definition all_labels : list label :=
  [LStart; LHandleData; LHandleDataWrongLevel; LSetTP; LClose; LNextEvent; LCtxCancel; LRecvClosed; LLock;
   LSyncBlk; LSyncSig; LGInit; LGAct; LGEnd; LGCancelSeen; LGErrTail; LGEarly; LGClose1; LGClose2; LGRet].

Definition enabledb (s : state) (l : label) : bool := match step s l with Some _ => true | None => false end.
Definition enabled (s : state) : list label := filter (enabledb s) all_labels.
Definition internal_enabled (s : state) : list label := filter internal (enabled s).

(* run a label sequence; None when some label is not enabled *)
Fixpoint run (s : state) (ls : list label) : option (state * list ret) :=
  match ls with
  | [] => Some (s, [])
  | l :: r =>
      match step s l with
      | None => None
      | Some (s', o) =>
          match run s' r with
          | None => None
          | Some (s'', rs) => Some (s'', match o with Some x => x :: rs | None => rs end)
          end
      end
  end.

Definition in_call (s : state) : bool := match c s with CIdle => false | _ => true end.
(* a hang: the caller is inside an API call and no internal step can ever fire *)
Definition stuck (s : state) : bool := in_call s && match internal_enabled s with [] => true | _ => false end.

(* ---- termination measure: strictly decreases on every internal step ---- *)
Definition grank (x : gpc) : nat :=
  match x with
  | GNone => 0 | GInit => 20 | GBuild => 16 | GHs => 12
  | GWaitBlk true => 19 | GWaitSig true => 18 | GWaitBlk false => 15 | GWaitSig false => 14
  | GEarly => 6 | GFail => 6 | GClose1 => 5 | GClose2 => 4 | GRet => 3 | GDone => 2
  end%nat.
Definition crank (x : cpc) : nat :=
  match x with
  | CIdle => 0 | CStartRecv => 1 | CHdSig => 3 | CHdBlk => 2 | CHdLock => 1 | CTpSig => 2 | CTpBlk => 1 | CCloseLoop => 1
  end%nat.
Definition measure (s : state) : nat := (10 * (length (build s) + length (hs s)) + 2 * grank (g s) + crank (c s))%nat.

(* ---- the client's event script (what the abstract scripts are instantiated with) ---- *)
(* handshake_client.go:202-211 via u_conn.go:116 (HelloGolang only): transport parameters are
   requested while the hello is being built; presets never wait (u_handshake_client.go:324-334). *)
Definition waits (n : nat) : list act := repeat AWait n.
Definition golang_build (tp : bool) (w : nat) : list act :=
  if tp then [] else AEmit ETPRequired :: waits w.

(* u_handshake_client.go:493 (ClientHello), 508 (read ServerHello); handshake_client_tls13.go:92-99 (HRR: no
   CCS, second ClientHello, read ServerHello), 657-666 (handshake secrets, write before read), 690-725
   (EncryptedExtensions -> peer transport parameters), certificate / verify / finished reads,
   1009-1023 (client Finished, application write secret). wN are the numbers of waits at each read. *)
Definition client_full (hrr : bool) (w0 w1 w2 w3 : nat) (ncrypto : nat) : list act :=
  [AEmit (EWriteData LvInitial)] ++ waits w0 ++
  (if hrr then AEmit (EWriteData LvInitial) :: waits w1 else []) ++
  [AEmit (EWriteSecret LvHandshake); AEmit (EReadSecret LvHandshake)] ++ waits w2 ++
  [AEmit ETransportParams] ++ waits w3 ++
  repeat (AEmit (EWriteData LvHandshake)) (S ncrypto) ++ [AEmit (EWriteSecret LvApp)].
(* a handshake that fails after n actions: every error return discards the rest *)
Definition client_hs (hrr : bool) (w0 w1 w2 w3 ncrypto : nat) (cut : option nat) : list act * bool :=
  match cut with
  | None => (client_full hrr w0 w1 w2 w3 ncrypto, true)
  | Some n => (firstn n (client_full hrr w0 w1 w2 w3 ncrypto), false)
  end.

(* ---- event order required by RFC 9001 section 4 / 5.7 and the property text ---- *)
Fixpoint count_ev (e : event) (t : list event) : nat :=
  match t with [] => 0 | x :: r => (if event_eqb e x then 1 else 0) + count_ev e r end%nat.
Definition mem_ev (e : event) (t : list event) : bool := existsb (event_eqb e) t.

(* t is oldest-first; scan with the set of events seen so far *)
Fixpoint order_scan (seen : list event) (t : list event) : bool :=
  match t with
  | [] => true
  | e :: r =>
      negb (match e with EWriteData _ | ETPRequired => false | _ => mem_ev e seen end)  (* secrets, params, done: at most once *)
      && match e with
         | EReadSecret LvApp => mem_ev (EWriteSecret LvApp) seen && mem_ev EHandshakeDone seen
         | EReadSecret LvHandshake => mem_ev (EWriteSecret LvHandshake) seen
         | EReadSecret LvInitial | EWriteSecret LvInitial => false      (* Initial keys never come from TLS *)
         | EWriteData LvHandshake => mem_ev (EWriteSecret LvHandshake) seen
         | EWriteData LvApp => mem_ev (EWriteSecret LvApp) seen
         | EWriteData LvEarly => false
         | EHandshakeDone => mem_ev (EWriteSecret LvApp) seen && mem_ev ETransportParams seen
         | _ => true
         end
      && order_scan (match e with EWriteData _ => seen | _ => e :: seen end) r
  end.
Definition order_ok (t : list event) : bool := order_scan [] t.
(* a completed handshake delivered the peer's parameters exactly once and all four secrets *)
Definition complete_ok (t : list event) : bool :=
  order_ok t && Nat.eqb (count_ev ETransportParams t) 1 && Nat.eqb (count_ev EHandshakeDone t) 1
  && mem_ev (EReadSecret LvApp) t && mem_ev (EReadSecret LvHandshake) t.

(* events of a script, in creation order, ignoring coalescing *)
Fixpoint emits (a : list act) : list event :=
  match a with [] => [] | AEmit e :: r => e :: emits r | AWait :: r => emits r end.

(* ---- session id and compatibility CCS ---- *)
(* u_parrots.go:2832-2839 and u_handshake_client.go:253-258 / handshake_client.go:131: the 32 random
   bytes are drawn only for non-QUIC connections *)
Definition preset_session_id (quic : bool) (rand32 : bytes) : bytes := if quic then [] else rand32.
(* handshake_client_tls13.go:236-247: returns (a CCS record is written, new sentDummyCCS) *)
Definition send_dummy_ccs (quic sent : bool) : bool * bool :=
  if quic then (false, sent) else if sent then (false, sent) else (true, true).
(* number of CCS records written over any sequence of calls *)
Fixpoint ccs_written (quic sent : bool) (calls : nat) : nat :=
  match calls with
  | O => O
  | S n => let (w, sent') := send_dummy_ccs quic sent in ((if w then 1 else 0) + ccs_written quic sent' n)%nat
  end.

(* C33 — the uTLS-specific message handling a CLIENT can be driven into by server bytes, as total functions with an explicit
   Panic outcome for every Go index / slice expression and an allocation count.  Executable definitions only.
     conn.go:1089-1194            readHandshake + unmarshalHandshakeMessage      = RobustSrv.read_handshake with is_client = true
     u_conn.go:826-839            utlsHandshakeMessageType (8 -> encryptedExtensionsMsg on a client, 25 -> compressed certificate)
     handshake_messages.go:1093   encryptedExtensionsMsg.unmarshal + utlsUnmarshal  = Alps.ee_unmarshal (plugged in for type 8)
     u_handshake_messages.go:43   utlsCompressedCertificateMsg.unmarshal            = RobustSrv.cc_unmarshal
     u_handshake_client.go:25-49  utlsReadServerCertificate (the loop over uconn.Extensions)
     u_handshake_client.go:52-139 decompressCert: the checks before the buffer, make([]byte, uncompressedLength+4), the four header
                                  writes, rawMsg[4:]  (the decompressor itself and certificateMsgTLS13.unmarshal: Section variables)
     u_handshake_client.go:164    utlsReadServerParameters                          = Alps.read_server_parameters
     handshake_client_tls13.go:384-447  the uTLS section of processHelloRetryRequest: PSK refusal, key_share rewrite, cookie
                                  echo / insertion at p.Intn(len(Extensions)-2) with the slice surgery
     the client's read points (handshake_client.go, handshake_client_tls13.go, conn.go:1263-1336) as the type assertion each performs.
   STATE: decompressCert with [capped = true] is the code in /repo (after the C21 fix: declared length capped at
   maxHandshakeCertificateMsg); [capped = false] is the code as found (F-33), kept for the refutation.
   NOT modelled (partial): the upstream unmarshalers of the standard messages and the handlers between read points (Section
   variables), the record layer, key schedule, the decompressors' internal allocations. *)
From UV Require Export Base.Common Model.RobustSrv Model.Alps.
Open Scope N_scope.

Definition P_NILMAP : N := 3.

(* ---------- the message-type switch on a client ---------- *)
Definition ee_ok (d : bytes) : bool := match ee_unmarshal d with Ok (Some _) => true | _ => false end.
Definition client_std (std : gotype -> bytes -> bool) (t : gotype) (d : bytes) : bool :=
  match t with T_encryptedExtensions => ee_ok d | _ => std t d end.
Definition client_read_handshake (std : gotype -> bytes -> bool) (haveVers : bool) (vers : N) (hand : bytes) : res rh_outcome :=
  read_handshake (client_std std) true haveVers vers hand.

(* ---------- decompressCert, u_handshake_client.go:52-139, up to the point where the decompressor is read ---------- *)
Definition known_alg (alg : N) : bool := (alg =? 1) || (alg =? 2) || (alg =? 3).   (* zlib, brotli, zstd *)
Definition a_bad_certificate : N := 42.

(* make([]byte, n) then rawMsg[0..3] = ..., rawMsg[4:]: the index expressions with Go's bounds rule *)
Definition make_and_header (n : N) : res N :=
  let chk (i : N) := if i <? n then Ok tt else Panic P_INDEX in
  do _ <- chk 0; do _ <- chk 1; do _ <- chk 2; do _ <- chk 3;
  if n <? 4 then Panic P_SLICE else Ok n.

(* Ok k = k bytes allocated for rawMsg (0 = refused before the allocation, Err = alert sent) *)
Definition decompress_alloc (capped : bool) (advertised : list N) (alg ulen : N) (open_ok : bool) : res N :=
  if negb (existsb (N.eqb alg) advertised) then Err a_bad_certificate          (* :60-69 *)
  else if negb (known_alg alg) then Err a_bad_certificate                      (* :93-96 *)
  else if negb open_ok then Err a_bad_certificate                              (* :76-80, :85-89 *)
  else if capped && (maxHandshakeCertificateMsg <? ulen) then Err a_bad_certificate   (* :100-103 *)
  else make_and_header (u32 (ulen + 4)).                                       (* :105-109, :113; uint32 arithmetic *)

(* utlsReadServerCertificate, u_handshake_client.go:25-49: msg is what readHandshake returned.
   Some alloc = the message was a compressed certificate and decompressCert ran; None = not handled here (returns nil, nil) *)
Fixpoint utls_read_server_certificate (capped : bool) (exts_is_cc : list bool) (advertised : list N) (open_ok : bool)
    (msg : option ccert) : res (option N) :=
  match exts_is_cc with
  | [] => Ok None                                                              (* :48 *)
  | false :: r => utls_read_server_certificate capped r advertised open_ok msg (* default: continue *)
  | true :: r =>
      match advertised, msg with
      | _ :: _, Some m =>                                                      (* :30-31 *)
          do k <- decompress_alloc capped advertised (cc_algorithm m) (cc_uncompressedLength m) open_ok;
          Ok (Some k)                                                          (* :36-41 both branches return *)
      | _, _ => utls_read_server_certificate capped r advertised open_ok msg
      end
  end.

(* ---------- HelloRetryRequest, uTLS section (handshake_client_tls13.go:390-444) ---------- *)
Inductive ext_kind := XKeyShare | XCookie | XOther.
Definition ext_kind_eqb (a b : ext_kind) : bool :=
  match a, b with XKeyShare, XKeyShare | XCookie, XCookie | XOther, XOther => true | _, _ => false end.

(* prng.Intn(n): 0 when n <= 0 (u_prng.go:155), else a value below n; r is the random draw *)
Definition prng_intn (n : Z) (r : N) : Z := if (n <=? 0)%Z then 0%Z else (Z.of_N r mod n)%Z.

(* s[:i] and s[i:] on a slice of extensions, Go bounds rule *)
Definition xslice_to {A} (s : list A) (i : Z) : res (list A) :=
  if ((i <? 0) || (Z.of_nat (length s) <? i))%Z then Panic P_SLICE else Ok (firstn (Z.to_nat i) s).
Definition xslice_from {A} (s : list A) (i : Z) : res (list A) :=
  if ((i <? 0) || (Z.of_nat (length s) <? i))%Z then Panic P_SLICE else Ok (skipn (Z.to_nat i) s).

Definition E_HRR_PSK : N := 201.       (* "uTLS does not support reprocessing of PSK key triggered by HelloRetryRequest" *)
Definition E_HRR_NO_KEYSHARE : N := 202.
Definition E_HRR_COOKIE_INDEX : N := 203.

(* :418-437; returns the new extension list *)
Definition insert_cookie (exts : list ext_kind) (r : N) : res (list ext_kind) :=
  if existsb (ext_kind_eqb XCookie) exts then Ok exts                           (* :421-426 the existing extension is updated *)
  else
    let idx := prng_intn (Z.of_nat (length exts) - 2) r in                      (* :434 *)
    if (Z.of_nat (length exts) <=? idx)%Z then Err E_HRR_COOKIE_INDEX           (* :435-439 *)
    else
      do tail <- xslice_from exts idx;                                          (* :441 inner append: Extensions[cookieIndex:] *)
      do head <- xslice_to exts idx;                                            (* :440 Extensions[:cookieIndex] *)
      Ok (head ++ XCookie :: tail).

Definition hrr_utls_section (is_golang : bool) (psk_identities : nat) (exts : list ext_kind) (cookie_len : nat) (r : N)
    : res (list ext_kind) :=
  if is_golang then Ok exts else                                                (* :391 *)
  if (0 <? psk_identities)%nat then Err E_HRR_PSK else                          (* :392-395 *)
  if negb (existsb (ext_kind_eqb XKeyShare) exts) then Err E_HRR_NO_KEYSHARE else   (* :397-411 *)
  if (0 <? cookie_len)%nat then insert_cookie exts r else Ok exts.              (* :413-438 *)

(* ---------- the client's read points ---------- *)
Inductive crp :=
| CRP_ServerHello             (* u_handshake_client.go:527-536 *)
| CRP_ServerHelloAfterHRR     (* handshake_client_tls13.go:489-499 *)
| CRP_EncryptedExtensions     (* :691-700 *)
| CRP_CertificateOrRequest13  (* :785-823: CertificateRequest, Certificate, or (uTLS) CompressedCertificate *)
| CRP_Certificate13           (* :797 after a CertificateRequest *)
| CRP_CertificateVerify13     (* :843-852 *)
| CRP_Finished13              (* readServerFinished *)
| CRP_PostHandshake13         (* conn.go:1314-1335 *)
| CRP_Certificate12 | CRP_AfterCertificate12 | CRP_NewSessionTicket12 | CRP_Finished12
| CRP_PostHandshake12.        (* conn.go:1263-1281 *)

Inductive cstep :=
| CNeedMore                  (* blocks until the next record or the connection deadline (not modelled) *)
| CAlert (a : N)             (* alert sent, error returned *)
| CAccept (t : gotype) (alloc : N).   (* handed to the (unmodelled) handler; alloc = largest single buffer allocated here *)

(* cc_ok: a UtlsCompressCertExtension is among uconn.Extensions and certCompressionAlgs is non-empty *)
Definition cdispatch (rp : crp) (cc_ok : bool) (t : gotype) : bool :=
  match rp with
  | CRP_ServerHello | CRP_ServerHelloAfterHRR => gotype_eqb t T_serverHello
  | CRP_EncryptedExtensions => gotype_eqb t T_encryptedExtensions
  | CRP_CertificateOrRequest13 =>
      gotype_eqb t T_certificateRequest13 || gotype_eqb t T_certificate13 || (cc_ok && gotype_eqb t T_utlsCompressedCertificate)
  | CRP_Certificate13 => gotype_eqb t T_certificate13 || (cc_ok && gotype_eqb t T_utlsCompressedCertificate)
  | CRP_CertificateVerify13 => gotype_eqb t T_certificateVerify
  | CRP_Finished13 | CRP_Finished12 => gotype_eqb t T_finished
  | CRP_PostHandshake13 => gotype_eqb t T_newSessionTicket13 || gotype_eqb t T_keyUpdate
  | CRP_Certificate12 => gotype_eqb t T_certificate
  | CRP_AfterCertificate12 => gotype_eqb t T_certificateStatus || gotype_eqb t T_serverKeyExchange
                              || gotype_eqb t T_certificateRequest || gotype_eqb t T_serverHelloDone
  | CRP_NewSessionTicket12 => gotype_eqb t T_newSessionTicket
  | CRP_PostHandshake12 => false        (* HelloRequest: no_renegotiation / renegotiation policy; everything else unexpected_message *)
  end.

Section Client.
  Variable std : gotype -> bytes -> bool.       (* upstream unmarshalers: any total boolean functions *)
  Variable capped : bool.
  Variable advertised : list N.                 (* uconn.certCompressionAlgs *)
  Variable exts_is_cc : list bool.              (* uconn.Extensions, "is a *UtlsCompressCertExtension" *)
  Variable open_ok : N -> bytes -> bool.        (* zlib / zstd NewReader accepts the stream header *)

  Definition cc_enabled : bool := existsb (fun b => b) exts_is_cc && negb (match advertised with [] => true | _ => false end).

  (* one readHandshake at a read point *)
  Definition client_step (rp : crp) (haveVers : bool) (vers : N) (hand : bytes) : res cstep :=
    do o <- client_read_handshake std haveVers vers hand;
    match o with
    | NeedMore => Ok CNeedMore
    | RAlert a => Ok (CAlert a)
    | RMsg t data =>
        if negb (cdispatch rp cc_enabled t) then Ok (CAlert alert_unexpected_message) else
        let copy := N.of_nat (length data) in                                  (* conn.go:1183 append([]byte(nil), data...) *)
        if gotype_eqb t T_utlsCompressedCertificate then
          do m <- cc_unmarshal data;
          do k <- utls_read_server_certificate capped exts_is_cc advertised
                    (match m with Some c => open_ok (cc_algorithm c) (cc_data c) | None => false end) m;
          Ok (CAccept t (N.max copy (match k with Some n => n | None => 0 end)))
        else Ok (CAccept t copy)
    end.

  (* the handshake driver: a consumer of the messages the server sends, one buffer each, that stops at the first alert.
     next: the (unmodelled) state machine: where the handler of an accepted message goes next, None = handler returned an error *)
  Variable next : crp -> gotype -> bytes -> option crp.
  Fixpoint run (rp : crp) (haveVers : bool) (vers : N) (msgs : list bytes) (maxalloc : N) : res (list N * N) :=
    match msgs with
    | [] => Ok ([], maxalloc)
    | hand :: rest =>
        do s <- client_step rp haveVers vers hand;
        match s with
        | CNeedMore => Ok ([], maxalloc)
        | CAlert a => Ok ([a], maxalloc)
        | CAccept t k =>
            match next rp t hand with
            | None => Ok ([], N.max maxalloc k)
            | Some rp' => run rp' true vers rest (N.max maxalloc k)
            end
        end
    end.
End Client.

(* ---------- decompressCert: how much is asked of the decompressor (u_handshake_client.go:113, :127) ----------
   io.ReadFull(decompressed, rawMsg[4:]) then io.ReadFull(decompressed, probe[:1]): the buffers handed to Read. Whatever the stream
   inflates to, no more than their total is ever pulled out of (and materialised from) the decompressor. *)
Definition decompress_read_buffers (declared : N) : list N := [declared; 1].
Definition decompress_pulled_max (capped : bool) (advertised : list N) (alg ulen : N) (open_ok : bool) : N :=
  match decompress_alloc capped advertised alg ulen open_ok with
  | Ok _ => fold_right N.add 0 (decompress_read_buffers ulen)
  | _ => 0
  end.

(* ---------- establishHandshakeKeys: the slice expressions on the server's key share (handshake_client_tls13.go:588-649) ---------- *)
Definition X25519MLKEM768 : N := 4588.
Definition X25519Kyber768Draft00 : N := 25497.
Definition a_illegal_parameter : N := 47.
Definition hybrid_share_len : nat := 1120.      (* mlkem.CiphertextSize768 (1088) + x25519PublicKeySize (32) *)
(* Ok = ecdhePeerData handed to getSharedKey (which validates its length itself); Err = alert *)
Definition establish_share_slices (group : N) (data : bytes) : res bytes :=
  do e1 <- (if group =? X25519MLKEM768 then                                   (* :589-595 *)
              if negb (length data =? hybrid_share_len)%nat then Err a_illegal_parameter else slice_from data 1088
            else Ok data);
  do e2 <- (if group =? X25519Kyber768Draft00 then                            (* :597-603 *)
              if negb (length e1 =? hybrid_share_len)%nat then Err a_illegal_parameter else slice_to data 32
            else Ok e1);
  do _ <- (if group =? X25519MLKEM768 then slice_to data 1088 else Ok []);    (* :623 ciphertext := data[:1088] *)
  do _ <- (if group =? X25519Kyber768Draft00 then slice_from data 32 else Ok []);   (* :642 ciphertext := data[32:] *)
  Ok e2.

(* ---------- lock discipline of a post-handshake HelloRequest (conn.go Read, u_conn.go:959-1006, u_conn.go:361-371) ----------
   One goroutine; sync.Mutex is not reentrant: acquiring a mutex it already holds blocks it forever (no I/O pending, so neither a
   deadline nor Close wakes it); unlocking a mutex it does not hold is a fatal error. *)
Inductive lk := L_in | L_hs | L_out.              (* c.in, c.handshakeMutex, c.out (halfConn mutexes are sync.Mutex too) *)
Inductive lop := Acq (l : lk) | Rel (l : lk).
Definition lk_eqb (a b : lk) : bool := match a, b with L_in, L_in | L_hs, L_hs | L_out, L_out => true | _, _ => false end.
Definition E_SELF_DEADLOCK : N := 210.
Definition P_UNLOCK : N := 4.
Fixpoint lock_run (held : list lk) (ops : list lop) : res (list lk) :=
  match ops with
  | [] => Ok held
  | Acq l :: r => if existsb (lk_eqb l) held then Err E_SELF_DEADLOCK else lock_run (l :: held) r
  | Rel l :: r => if existsb (lk_eqb l) held then lock_run (filter (fun x => negb (lk_eqb l x)) held) r else Panic P_UNLOCK
  end.
(* UConn.handshakeContext, u_conn.go:361-371 (+ deferred unlocks): what c.Handshake() does *)
Definition ops_handshake_context : list lop := [Acq L_hs; Acq L_in; Rel L_in; Rel L_hs].
(* UConn.handleRenegotiation, u_conn.go:993-1006: handshakeMutex only; BuildHandshakeState and clientHandshake take no lock *)
Definition ops_handle_renegotiation : list lop := [Acq L_hs; Rel L_hs].
(* Conn.Read after the handshake: c.in.Lock(); readRecord; handlePostHandshakeMessage (-> handleRenegotiation for a HelloRequest
   on TLS <= 1.2 when the client's policy allows it); deferred c.in.Unlock() *)
Definition ops_read (renegotiations : nat) : list lop :=
  [Acq L_in] ++ concat (repeat ops_handle_renegotiation renegotiations) ++ [Rel L_in].

(* Conn.sendAlert (conn.go): c.out.Lock(); defer c.out.Unlock(); sendAlertLocked *)
Definition ops_send_alert : list lop := [Acq L_out; Rel L_out].
(* Conn.handleKeyUpdate with update_requested (conn.go:1345-1375): c.out.Lock(); defer c.out.Unlock(); the reply is written with
   writeRecordLocked; when that write FAILS the error is only recorded (c.out.setErrorLocked(err); return nil) - no alert is sent while
   c.out is held; when it succeeds the write secret is rolled.  Either way the lock operations are the same. *)
Definition ops_key_update_reply (write_fails : bool) : list lop := [Acq L_out; Rel L_out].
(* an unexpected post-handshake message: c.sendAlert(alertUnexpectedMessage) under c.in only *)
Inductive post_event := EvHelloRequest | EvKeyUpdate (write_fails : bool) | EvUnexpected.
Definition ops_post_event (e : post_event) : list lop :=
  match e with
  | EvHelloRequest => ops_handle_renegotiation
  | EvKeyUpdate wf => ops_key_update_reply wf
  | EvUnexpected => ops_send_alert
  end.
Definition ops_read_events (evs : list post_event) : list lop :=
  [Acq L_in] ++ flat_map ops_post_event evs ++ [Rel L_in].

(* ---------- readServerCertificate after the message is in hand (handshake_client_tls13.go:817-840) ----------
   certMsg came off the wire or out of decompressCert (from_compressed = skipWritingCertToTranscript).  The emptiness test (:823-826)
   applies to BOTH; only the transcript write is skipped for a decompressed message.  verifyServerCertificate then starts with
   certs[0] (handshake_client.go, `for i, asn1Data := range certificates` and `certs[0]` for the leaf). *)
Definition a_decode_error : N := 50.
Definition cert_checks (from_compressed : bool) (ncerts : nat) : res unit :=
  if (ncerts =? 0)%nat then Err a_decode_error                    (* "tls: received empty certificates message" *)
  else if (0 <? ncerts)%nat then Ok tt else Panic P_INDEX.       (* certs[0] *)

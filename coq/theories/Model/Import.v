(* Model of the tlsfingerprint.io importer (C07):

     helper.Uint8to16                        internal/helper/typeconv.go:11-23
     ClientHelloSpec.ImportTLSClientHello    u_common.go:307-466

   starting from the decoded map[string][]byte (ImportTLSClientHelloFromJSON,
   u_common.go:468-478, only adds json.Unmarshal into that map). A map entry is
   an option: None = data[k] == nil (absent key or JSON null).

   Every slice / index expression of the key_share loop is modelled with Go's
   bounds rules (s[i:j] checks j <= cap(s); s[i] checks i < len(s)), so the
   capacity of the key_share slice is part of the input.

   [fx = true] is the code WITH fixes/C07-import-key-share-length.diff (the
   state of the tree the check is run on); [fx = false] is the code as shipped,
   kept only for the witness of finding F-07a in Props/C07.v.
   Executable definitions only; proofs are in Proofs/ImportP.v. *)
From UV Require Import Base.Common Model.Wire Model.Varint Model.Ext Model.FromRaw.

Definition E_REQ_SUITES : N := 60.        (* "cipher_suites is required" *)
Definition E_U8TO16 : N := 61.            (* "ReadUint16 failed" *)
Definition E_REQ_COMP : N := 62.
Definition E_REQ_EXTS : N := 63.
Definition E_REQ_FIELD : N := 64.         (* "<key> is required" for an extension's data *)
Definition E_KEY_SHARE_LEN : N := 65.     (* [fix] "key_share length must be a multiple of 4" *)

Record imap := {
  im_cipher_suites : option bytes;
  im_compression_methods : option bytes;
  im_extensions : option bytes;
  im_pt_fmts : option bytes;
  im_sig_algs : option bytes;
  im_supported_versions : option bytes;
  im_curves : option bytes;
  im_alpn : option bytes;
  im_key_share : option bytes;
  im_key_share_cap : N;                   (* cap(data["key_share"]); Go guarantees len <= cap *)
  im_psk_key_exchange_modes : option bytes;
  im_cert_compression_algs : option bytes;
  im_record_size_limit : option bytes
}.

(* helper.Uint8to16 *)
Definition uint8to16 (b : bytes) : res (list N) := of_opt E_U8TO16 (read_u16s b).

(* The zero value ExtensionFromID(id) returns (u_tls_extensions.go:19-88), for the ids whose
   type implements TLSExtensionWriter; None: nil or no Write method (`!ok`, u_common.go:336). *)
Definition ext_fresh (id : N) : option ext :=
  if id =? ID_SNI then Some (ESNI [])
  else if id =? ID_STATUS then Some EStatusRequest
  else if id =? ID_CURVES then Some (ESupportedCurves [])
  else if id =? ID_POINTS then Some (ESupportedPoints [])
  else if id =? ID_SIGALGS then Some (ESignatureAlgorithms [])
  else if id =? ID_ALPN then Some (EALPN [])
  else if id =? ID_STATUS_V2 then Some EStatusRequestV2
  else if id =? ID_SCT then Some ESCT
  else if id =? ID_PADDING then Some (EPadding 0 false PadNone)
  else if id =? ID_EMS then Some EExtendedMasterSecret
  else if id =? ID_TOKEN_BINDING then Some (EFakeTokenBinding 0 0 [])
  else if id =? ID_COMPRESS_CERT then Some (ECompressCert [])
  else if id =? ID_RECORD_SIZE_LIMIT then Some (EFakeRecordSizeLimit 0)
  else if id =? ID_DELEGATED_CREDENTIALS then Some (EFakeDelegatedCredentials [])
  else if id =? ID_SESSION_TICKET then Some (ESessionTicket [])
  else if id =? ID_PSK then Some (EFakePreSharedKey false [] [])
  else if id =? ID_VERSIONS then Some (ESupportedVersions [])
  else if id =? ID_PSK_MODES then Some (EPSKKeyExchangeModes [])
  else if id =? ID_SIGALGS_CERT then Some (ESignatureAlgorithmsCert [])
  else if id =? ID_KEY_SHARE then Some (EKeyShare [])
  else if id =? ID_QUIC_TP then None                       (* no Write method *)
  else if id =? ID_NPN then Some (ENPN [])
  else if id =? ID_ALPS then Some (EApplicationSettings [])
  else if id =? ID_ALPS_NEW then Some (EApplicationSettingsNew [])
  else if id =? ID_CHANNEL_ID_OLD then Some (EFakeChannelID true)
  else if id =? ID_CHANNEL_ID then Some (EFakeChannelID false)
  (* &GREASEEncryptedClientHelloExtension{}: no init() has run; rendered with empty fields *)
  else if id =? ID_ECH then Some (EGREASEECH 0 0 0 [] [])
  else if id =? ID_RENEGOTIATION then Some (ERenegotiationInfo 0 [])
  else if is_grease id then Some (EGREASE 0 [])
  else None.

(* u_common.go:393-407, the key_share loop:
     for i := 0; i < len(d); i += 4 {
         fixedData = append(fixedData, d[i:i+4]...)
         for j := 0; j < int(d[i+3]); j++ { fixedData = append(fixedData, 0) }
     }
   When i+4 exceeds len(d) but not cap(d) the slice expression succeeds (exposing bytes
   of the backing array the model does not know), and d[i+3] panics right after it, so
   those bytes are never observable. *)
Fixpoint key_share_loop (fuel : nat) (d : bytes) (cap : N) (i : N) (acc : bytes) : res bytes :=
  if blen d <=? i then Ok acc else
  match fuel with
  | O => Ok acc            (* unreachable for fuel >= length d *)
  | S k =>
    if cap <? i + 4 then Panic P_SLICE else                     (* d[i:i+4] *)
    let chunk := firstn 4 (skipn (N.to_nat i) d) in
    match nth_error d (N.to_nat (i + 3)) with                   (* d[i+3] *)
    | None => Panic P_INDEX
    | Some n => key_share_loop k d cap (i + 4) (acc ++ chunk ++ zbytes (N.to_nat n))
    end
  end.

Definition key_share_fixed_data (fx : bool) (d : bytes) (cap : N) : res bytes :=
  (* [fix] if len(data["key_share"])%4 != 0 { return errors.New(...) } *)
  if fx && negb (blen d mod 4 =? 0) then Err E_KEY_SHARE_LEN else
  do fixedData <- key_share_loop (length d) d cap 0 [];
  (* append([]byte{uint8(len(fixedData) >> 8), uint8(len(fixedData) & 0xff)}, fixedData...) *)
  Ok (enc_u16 (blen fixedData) ++ fixedData).

(* fixedData := make([]byte, len(d)+1); fixedData[0] = uint8(len(d) & 0xff); copy(fixedData[1:], d) *)
Definition u8_prefixed (d : bytes) : bytes := (blen d mod 256) :: d.

Definition req (o : option bytes) : res bytes := of_opt E_REQ_FIELD o.

(* one iteration of the loop over tlsExtensionTypes, :333-464; the bool: TLSVersMin/Max := 0 *)
Definition import_ext (fx : bool) (m : imap) (id : N) : res (ext * bool) :=
  match ext_fresh id with
  | None => Err E_UNSUPPORTED                                  (* :336-338 *)
  | Some fresh =>
    if id =? ID_POINTS then do d <- req (im_pt_fmts m); do e <- ext_write id d; Ok (e, false)
    else if id =? ID_SIGALGS then do d <- req (im_sig_algs m); do e <- ext_write id d; Ok (e, false)
    else if id =? ID_VERSIONS then
      do d <- req (im_supported_versions m); do e <- ext_write id (u8_prefixed d); Ok (e, true)
    else if id =? ID_CURVES then do d <- req (im_curves m); do e <- ext_write id d; Ok (e, false)
    else if id =? ID_ALPN then do d <- req (im_alpn m); do e <- ext_write id d; Ok (e, false)
    else if id =? ID_KEY_SHARE then
      do d <- req (im_key_share m);
      do fd <- key_share_fixed_data fx d (im_key_share_cap m);
      do e <- ext_write id fd; Ok (e, false)
    else if id =? ID_PSK_MODES then
      do d <- req (im_psk_key_exchange_modes m); do e <- ext_write id (u8_prefixed d); Ok (e, false)
    else if id =? ID_COMPRESS_CERT then
      do d <- req (im_cert_compression_algs m); do e <- ext_write id (u8_prefixed d); Ok (e, false)
    else if id =? ID_RECORD_SIZE_LIMIT then
      do d <- req (im_record_size_limit m); do e <- ext_write id d; Ok (e, false)
    else if id =? ID_ALPS then Ok (EApplicationSettings [[104; 50]], false)        (* []string{"h2"} *)
    else if id =? ID_ALPS_NEW then Ok (EApplicationSettingsNew [[104; 50]], false)
    else Ok (fresh, false)                                     (* PSK / default: added without data *)
  end.

Fixpoint import_exts (fx : bool) (m : imap) (ids : list N) : res (list ext * bool) :=
  match ids with
  | [] => Ok ([], false)
  | id :: r =>
      do e <- import_ext fx m id;
      do rest <- import_exts fx m r;
      Ok (fst e :: fst rest, snd e || snd rest)
  end.

(* ImportTLSClientHello on a spec whose TLSVersMin/Max are vmin/vmax before the call *)
Definition import_hello (fx : bool) (vmin vmax : N) (m : imap) : res spec :=
  do csb <- of_opt E_REQ_SUITES (im_cipher_suites m);          (* :311-317 *)
  do suites <- uint8to16 csb;
  do comp <- of_opt E_REQ_COMP (im_compression_methods m);     (* :319-322 *)
  do exb <- of_opt E_REQ_EXTS (im_extensions m);               (* :324-330 *)
  do ids <- uint8to16 exb;
  do r <- import_exts fx m ids;
  Ok {| sp_suites := suites; sp_comp := comp; sp_exts := fst r;
        sp_vmin := if snd r then 0 else vmin; sp_vmax := if snd r then 0 else vmax;
        sp_padto := None |}.

(* C06: the wire image of a ClientHello described by extension VALUES, and the
   shape a fingerprint keeps of it. Executable definitions only.

   hello_record is the specification-side encoding (RFC 8446 4.1.2 inside one
   TLS record, as UConn.MarshalClientHello emits it): each present extension is
   type || uint16 length || ext_body. That this is what the code writes is
   C08_read_layout (per extension: Read = type || u16lp (ext_body e), Len = |body|+4,
   absent extensions write nothing) together with C05_marshal_framing (header and
   extension block of MarshalClientHello); the runner feeds the bytes the code
   really produced to the same from_raw. *)
From UV Require Import Base.Common Model.Wire Model.Varint Model.Ext Model.ExtSpec Model.FromRaw.

Record hello := {
  h_vers : N;          (* legacy_version *)
  h_random : bytes;
  h_sid : bytes;
  h_suites : list N;
  h_comp : bytes;
  h_exts : list ext
}.

(* what extension e contributes to the extensions block *)
Definition ext_wire (e : ext) : bytes :=
  if ext_absent e then [] else enc_u16 (ext_id e) ++ enc_u16lp (ext_body e).

Definition exts_block (es : list ext) : bytes := flat_map ext_wire es.

Definition hello_body (h : hello) : bytes :=
  enc_u16 (h_vers h) ++ h_random h ++ enc_u8lp (h_sid h)
  ++ enc_u16lp (flat_map enc_u16 (h_suites h)) ++ enc_u8lp (h_comp h)
  ++ match h_exts h with [] => [] | es => enc_u16lp (exts_block es) end.   (* u_conn.go:626-629, 654 *)

(* record header (type 22, version 0x0301, length) + handshake header (type 1, uint24 length) *)
Definition hello_record (h : hello) : bytes :=
  [22; 3; 1] ++ enc_u16 (4 + blen (hello_body h)) ++ [1] ++ enc_u24 (blen (hello_body h)) ++ hello_body h.

(* the hello is within the limits of its own length prefixes *)
Definition all_u16b (l : list N) : bool := forallb (fun x => x <? 65536) l.
Definition hello_ok (h : hello) : bool :=
  (h_vers h <? 65536) && (blen (h_random h) =? 32) && (blen (h_sid h) <? 256)
  && all_u16b (h_suites h) && (2 * blen (h_suites h) <? 65536) && (blen (h_comp h) <? 256)
  && forallb rt_ok (h_exts h) && (blen (exts_block (h_exts h)) <? 65536).

(* what the fingerprint keeps of an extension: ext_norm, and for id 41 under RealPSKResumption
   the empty real-PSK object *)
Definition fp_norm (real : bool) (e : ext) : ext :=
  if real && (ext_id e =? ID_PSK) then EUtlsPreSharedKey false None false [] [] else ext_norm e.

Definition has_versions (es : list ext) : bool := existsb (fun e => ext_id e =? ID_VERSIONS) es.

(* the spec FromRaw must return for hello_record h *)
Definition fp_spec (real : bool) (h : hello) : spec :=
  let es := map (fp_norm real) (h_exts h) in
  let '(es', padded) := install_pad_to es in
  let vr := has_versions (h_exts h) in
  {| sp_suites := map ungrease (h_suites h); sp_comp := h_comp h; sp_exts := es';
     sp_vmin := if vr then 0 else 769; sp_vmax := if vr then 0 else h_vers h;
     sp_padto := if padded then Some (Z.of_N (blen (hello_record h)) - 5)%Z else None |}.

(* two hellos have the same shape: equal up to GREASE values and the per-connection holes
   (random, session id contents, SNI, key-share keys, ticket, PSK, ECH-GREASE bytes, padding) *)
Definition same_shape (real : bool) (h1 h2 : hello) : Prop :=
  h_vers h1 = h_vers h2 /\ map ungrease (h_suites h1) = map ungrease (h_suites h2)
  /\ h_comp h1 = h_comp h2
  /\ has_versions (h_exts h1) = has_versions (h_exts h2)
  /\ map ech_mask (map (fp_norm real) (h_exts h1)) = map ech_mask (map (fp_norm real) (h_exts h2)).

(* equal sizes of every per-connection part *)
Definition same_sizes (h1 h2 : hello) : Prop :=
  blen (h_random h1) = blen (h_random h2) /\ blen (h_sid h1) = blen (h_sid h2)
  /\ blen (h_suites h1) = blen (h_suites h2) /\ blen (h_comp h1) = blen (h_comp h2)
  /\ Forall2 (fun a b => blen (ext_wire a) = blen (ext_wire b)) (h_exts h1) (h_exts h2).

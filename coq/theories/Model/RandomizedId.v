(* A build from a ClientHelloID as the model sees it. generateRandomizedSpec receives *ClientHelloID
   (u_parrots.go:2949; uconn.generateRandomizedSpec passes &uconn.ClientHelloID, and the Seed pointer is shared
   by every copy of the id value), so a build could in principle change the id it was given. The modelled code
   only READS id.Client, id.Seed and id.Weights when Seed and Weights are set (the nil cases, 2956-2971, install
   a fresh seed / &DefaultWeights and are outside the property): [build] therefore returns the id it was given
   together with the spec. [Model.Randomized.generate] itself returns only a [res spec] - no new seed.
   The correspondence check compares the caller's seed bytes after two builds with [id_seed (snd (build ...))]. *)
From UV Require Import Base.Common Model.Prng Model.Randomized.
From Coq Require Import QArith.
Open Scope N_scope.

Record chid := { id_client : variant; id_seed : bytes; id_weights : weights }.

Section Build.
  Variable rnd : Q -> Q.
  Variable fuel : nat.
  Variable tb : table.
  (* [s] = SHAKE256(id_seed), [salted] = SHAKE256(HKDF(id_seed, "ALPS")): functions of the seed, supplied by the caller *)
  Definition build (id : chid) (serverName : bytes) (nextProtos : list bytes) (s salted : stream) : res spec * chid :=
    (generate rnd fuel tb (id_client id) (id_weights id) serverName nextProtos s salted, id).
End Build.

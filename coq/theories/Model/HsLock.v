(* Model of UConn.handshakeContext (u_conn.go:317-423) for a non-QUIC connection, as seen by ONE caller running
   among any number of other goroutines (C26).

   The distinguished caller and its interrupter goroutine are modelled statement by statement. Everything the
   other goroutines can do to the shared state — other Handshake/HandshakeContext/Read/Write callers running the
   same code, their interrupters, Close — is the environment: it may take and release handshakeMutex and the
   input lock, run the handshake body under the mutex when no result exists yet, and close the underlying
   connection. Because every caller runs this same code, the caller's own effects on the shared state are
   environment steps too (guarantee_* lemmas in Proofs/HsLockP.v), so the statements proved for the
   distinguished caller hold for each of N callers, for every N.

   The handshake body (BuildHandshakeState + handshakeFn, u_conn.go:375-396) is a single step that returns ok or an
   error; I/O inside it ends by the I/O deadline or by the connection being closed (fairness assumption). *)
From UV Require Import Base.Common.

(* Parked: a reader sits in Read holding the input lock and waits for data from the peer (conn.go Read: Handshake(),
   then c.in.Lock(), then readRecord); nothing on this side can make it let go *)
Inductive owner := Free | Mine | Others | Parked.
Inductive intr := INone | IWait | IFired | INil.
(* results: nil, the stored handshake error, the (unstored) BuildHandshakeState error, the caller's ctx error *)
Inductive result := RNil | RHsErr | RBuildErr | RCtx.

Inductive pc :=
| P0        (* u_conn.go:321 fast path *)
| P1        (* 325-359 context setup, interrupter spawn *)
| P2        (* 361 handshakeMutex.Lock() *)
| P3        (* 364-369 handshakeErr / isHandshakeComplete under the mutex *)
| P4        (* 371 c.in.Lock() *)
| P5        (* 375-380 BuildHandshakeState *)
| P6        (* 382-396 handshakeFn, handshakes++, flush *)
| PUnlIn    (* deferred c.in.Unlock() *)
| PUnlMu    (* deferred c.handshakeMutex.Unlock() *)
| PDefer    (* 342-343 deferred close(done) *)
| PWaitI    (* 344 <-interruptRes *)
| PRet.     (* deferred cancel(); returned *)

Record state := mkState {
  mutex : owner;           (* handshakeMutex *)
  inl : owner;             (* c.in lock *)
  complete : bool;         (* isHandshakeComplete *)
  hs_err : bool;           (* handshakeErr != nil *)
  conn_closed : bool;      (* c.conn.Close() has been called by someone *)
  cancellable : bool;      (* ctx.Done() != nil *)
  cancelled : bool;        (* this caller's ctx is cancelled *)
  done_closed : bool;      (* close(done) happened *)
  it : intr;               (* interrupter goroutine / interruptRes *)
  p : pc;
  ret : option result;
  reneg : bool             (* ghost: the peer has started a renegotiation (TLS <= 1.2 HelloRequest) at some point *)
}.

Definition init (cn : bool) (mu il : owner) (co he cl ca : bool) : state :=
  mkState mu il co he cl cn ca false INone P0 None false.

Inductive label :=
| LC                       (* next statement of the caller *)
| LBodyOk | LBodyErr | LBuildErr   (* outcomes of P5/P6 *)
| LIFire | LIDone          (* interrupter: select on handshakeCtx.Done() / done, u_conn.go:350-357 *)
| LCancel                  (* environment: this caller's ctx is cancelled *)
| EAcquire | ERelease | EInAcquire | EInRelease | EBodyOk | EBodyErr | ECloseConn
| EReadPark | EReadWake    (* a reader whose (implicit) Handshake has returned nil enters / leaves Read *)
| ERenegStart.             (* that reader receives a HelloRequest: UConn.handleRenegotiation, u_conn.go:986-1040 *)

Definition upd (s : state) (mu il : owner) (co he cl : bool) (dc : bool) (i : intr) (q : pc) (r : option result) : state :=
  mkState mu il co he cl (cancellable s) (cancelled s) dc i q r (reneg s).
Definition goto (s : state) (q : pc) : state :=
  upd s (mutex s) (inl s) (complete s) (hs_err s) (conn_closed s) (done_closed s) (it s) q (ret s).
Definition goto_ret (s : state) (q : pc) (r : result) : state :=
  upd s (mutex s) (inl s) (complete s) (hs_err s) (conn_closed s) (done_closed s) (it s) q (Some r).

Definition step (s : state) (l : label) : option state :=
  match l with
  | LC =>
      match p s with
      | P0 => if complete s then Some (goto_ret s PRet RNil) else Some (goto s P1)
      | P1 => if cancellable s
              then Some (upd s (mutex s) (inl s) (complete s) (hs_err s) (conn_closed s) (done_closed s) IWait P2 (ret s))
              else Some (goto s P2)
      | P2 => match mutex s with
              | Free => Some (upd s Mine (inl s) (complete s) (hs_err s) (conn_closed s) (done_closed s) (it s) P3 (ret s))
              | _ => None end
      | P3 => if hs_err s then Some (goto_ret s PUnlMu RHsErr)
              else if complete s then Some (goto_ret s PUnlMu RNil)
              else Some (goto s P4)
      | P4 => match inl s with
              | Free => Some (upd s (mutex s) Mine (complete s) (hs_err s) (conn_closed s) (done_closed s) (it s) P5 (ret s))
              | _ => None end
      | P5 => Some (goto s P6)                      (* BuildHandshakeState succeeded *)
      | P6 => None                                  (* see LBodyOk / LBodyErr *)
      | PUnlIn => Some (upd s (mutex s) Free (complete s) (hs_err s) (conn_closed s) (done_closed s) (it s) PUnlMu (ret s))
      | PUnlMu => Some (upd s Free (inl s) (complete s) (hs_err s) (conn_closed s) (done_closed s) (it s) PDefer (ret s))
      | PDefer => match it s with
                  | INone => Some (goto s PRet)
                  | _ => Some (upd s (mutex s) (inl s) (complete s) (hs_err s) (conn_closed s) true (it s) PWaitI (ret s))
                  end
      | PWaitI => match it s with
                  | IFired => Some (goto_ret s PRet RCtx)     (* u_conn.go:344-347 *)
                  | INil => Some (goto s PRet)
                  | _ => None
                  end
      | PRet => None
      end
  | LBuildErr => match p s with P5 => Some (goto_ret s PUnlIn RBuildErr) | _ => None end      (* u_conn.go:377-379 *)
  | LBodyOk => match p s with
               | P6 => Some (upd s (mutex s) (inl s) true (hs_err s) (conn_closed s) (done_closed s) (it s) PUnlIn (Some RNil))
               | _ => None end
  | LBodyErr => match p s with
                | P6 => Some (upd s (mutex s) (inl s) (complete s) true (conn_closed s) (done_closed s) (it s) PUnlIn (Some RHsErr))
                | _ => None end
  | LIFire => match it s with
              | IWait => if cancelled s
                         then Some (upd s (mutex s) (inl s) (complete s) (hs_err s) true (done_closed s) IFired (p s) (ret s))
                         else None
              | _ => None end
  | LIDone => match it s with
              | IWait => if done_closed s then Some (upd s (mutex s) (inl s) (complete s) (hs_err s) (conn_closed s) (done_closed s) INil (p s) (ret s))
                         else None
              | _ => None end
  | LCancel => if cancellable s
               then Some (mkState (mutex s) (inl s) (complete s) (hs_err s) (conn_closed s) (cancellable s) true (done_closed s) (it s) (p s) (ret s) (reneg s))
               else None
  | EAcquire => match mutex s with
                | Free => Some (upd s Others (inl s) (complete s) (hs_err s) (conn_closed s) (done_closed s) (it s) (p s) (ret s))
                | _ => None end
  | ERelease => match mutex s with
                | Others => Some (upd s Free (inl s) (complete s) (hs_err s) (conn_closed s) (done_closed s) (it s) (p s) (ret s))
                | _ => None end
  | EInAcquire => match inl s with
                  | Free => Some (upd s (mutex s) Others (complete s) (hs_err s) (conn_closed s) (done_closed s) (it s) (p s) (ret s))
                  | _ => None end
  | EInRelease => match inl s with
                  | Others => Some (upd s (mutex s) Free (complete s) (hs_err s) (conn_closed s) (done_closed s) (it s) (p s) (ret s))
                  | _ => None end
  | EBodyOk => match mutex s, inl s with
               | Others, Others => if hs_err s || complete s then None
                                   else Some (upd s Others Others true false (conn_closed s) (done_closed s) (it s) (p s) (ret s))
               | _, _ => None end
  | EBodyErr => match mutex s, inl s with
                | Others, Others => if hs_err s || complete s then None
                                    else Some (upd s Others Others false true (conn_closed s) (done_closed s) (it s) (p s) (ret s))
                | _, _ => None end
  | ECloseConn => Some (upd s (mutex s) (inl s) (complete s) (hs_err s) true (done_closed s) (it s) (p s) (ret s))
  (* Read calls Handshake() first and goes on only when it returned nil, i.e. the handshake is complete *)
  | EReadPark => match inl s with
                 | Free => if complete s then Some (upd s (mutex s) Parked (complete s) (hs_err s) (conn_closed s) (done_closed s) (it s) (p s) (ret s)) else None
                 | _ => None end
  | EReadWake => match inl s with
                 | Parked => Some (upd s (mutex s) Free (complete s) (hs_err s) (conn_closed s) (done_closed s) (it s) (p s) (ret s))
                 | _ => None end
  (* handleRenegotiation runs inside Read, i.e. with the input lock held: it takes handshakeMutex and only then clears
     isHandshakeComplete (u_conn.go:1020-1023; a Go-built hello is then rebuilt from scratch, inside the body step); the reader now is a handshake holder of both locks and runs the body *)
  | ERenegStart => match inl s, mutex s with
                   | Parked, Free => if complete s && negb (hs_err s)
                                     then Some (mkState Others Others false (hs_err s) (conn_closed s) (cancellable s) (cancelled s)
                                                        (done_closed s) (it s) (p s) (ret s) true)
                                     else None
                   | _, _ => None end
  end.

Definition all_labels : list label :=
  [LC; LBodyOk; LBodyErr; LBuildErr; LIFire; LIDone; LCancel; EAcquire; ERelease; EInAcquire; EInRelease; EBodyOk; EBodyErr; ECloseConn;
   EReadPark; EReadWake; ERenegStart].
Definition enabledb (s : state) (l : label) : bool := match step s l with Some _ => true | None => false end.
(* progress may not rely on a cancellation, on a new lock acquisition by others, on Close, or on a parked reader
   being woken (that needs data from the peer, which may itself be waiting for this side to write) *)
Definition progress_label (l : label) : bool :=
  match l with LCancel | EAcquire | EInAcquire | ECloseConn | EReadPark | EReadWake | ERenegStart => false | _ => true end.
Definition can_progress (s : state) : bool := existsb (fun l => progress_label l && enabledb s l) all_labels.
Definition returned (s : state) : bool := match p s with PRet => true | _ => false end.

(* statements that read or write the shared, non-atomic handshake fields (handshakeErr, handshakes, the
   handshake state, hand/rawInput buffers) *)
Definition touches_hs (q : pc) : bool := match q with P3 | P5 | P6 => true | _ => false end.
Definition touches_in (q : pc) : bool := match q with P5 | P6 => true | _ => false end.

(* the shared part, for late_cancel_noop *)
Definition shared (s : state) := (mutex s, inl s, complete s, hs_err s, conn_closed s).

(* what a returned caller may report, given the final shared state (the runner's oracle) *)
(* rn: a renegotiation has been started by the peer (it clears isHandshakeComplete again) *)
Definition outcome_ok (r : result) (co he cl ca rn : bool) : bool :=
  match r with
  | RNil => co || rn
  | RHsErr => he && negb co
  | RBuildErr => true
  | RCtx => cl && ca
  end.

(* the shared state as another goroutine sees it, and the changes the environment is allowed to make *)
Definition swap (o : owner) : owner := match o with Mine => Others | x => x end.
Definition view (s : state) := (swap (mutex s), swap (inl s), complete s, hs_err s, conn_closed s).
Definition owner_eqb (a b : owner) : bool :=
  match a, b with Free, Free | Mine, Mine | Others, Others | Parked, Parked => true | _, _ => false end.
Definition env_allows (a b : owner * owner * bool * bool * bool) : bool :=
  let '(mu, il, co, he, cl) := a in
  let '(mu', il', co', he', cl') := b in
  (* locks *)
  (  (owner_eqb mu Free && owner_eqb mu' Others || owner_eqb mu Others && owner_eqb mu' Free) && owner_eqb il il' && eqb co co' && eqb he he' && eqb cl cl'
  || (owner_eqb il Free && owner_eqb il' Others || owner_eqb il Others && owner_eqb il' Free
      || owner_eqb il Free && owner_eqb il' Parked && co || owner_eqb il Parked && owner_eqb il' Free)
     && owner_eqb mu mu' && eqb co co' && eqb he he' && eqb cl cl'
  (* the body, under both locks, when no result exists *)
  || owner_eqb mu Others && owner_eqb il Others && owner_eqb mu' Others && owner_eqb il' Others && negb co && negb he
     && (co' && negb he' || negb co' && he') && eqb cl cl'
  (* a parked reader starts a renegotiation: takes the mutex, clears complete *)
  || owner_eqb mu Free && owner_eqb il Parked && co && negb he && owner_eqb mu' Others && owner_eqb il' Others && negb co' && negb he' && eqb cl cl'
  (* closing the connection *)
  || owner_eqb mu mu' && owner_eqb il il' && eqb co co' && eqb he he' && negb cl && cl').

Fixpoint run (s : state) (ls : list label) : option state :=
  match ls with [] => Some s | l :: r => match step s l with Some s' => run s' r | None => None end end.

(* Model of /repo/internal/quicvarint/varint.go (Read, Append, AppendWithLen, Len)
   and of TransportParameters.Marshal (u_quic_transport_parameters.go:36).
   Executable definitions only. uint64 inputs are N below 2^64; the uint8()
   narrowings and shifts are written as in the Go source. *)
From UV Require Import Base.Common.

Definition maxVarInt1 : N := 63.
Definition maxVarInt2 : N := 16383.
Definition maxVarInt4 : N := 1073741823.
Definition maxVarInt8 : N := 4611686018427387903.

Definition P_NOFIT : N := 1.     (* "doesn't fit into 62 bits" *)
Definition P_BADLEN : N := 2.    (* "invalid varint length" *)
Definition P_TOOSMALL : N := 3.  (* "cannot encode %d in %d bytes" *)
Definition P_FAKEID0 : N := 4.   (* FakeQUICTransportParameter with Id 0 *)

(* varint.go:78 *)
Definition append (i : N) : res bytes :=
  if i <=? maxVarInt1 then Ok [u8 i]
  else if i <=? maxVarInt2 then Ok [N.lor (u8 (N.shiftr i 8)) 64; u8 i]
  else if i <=? maxVarInt4 then
    Ok [N.lor (u8 (N.shiftr i 24)) 128; u8 (N.shiftr i 16); u8 (N.shiftr i 8); u8 i]
  else if i <=? maxVarInt8 then
    Ok [N.lor (u8 (N.shiftr i 56)) 192; u8 (N.shiftr i 48); u8 (N.shiftr i 40); u8 (N.shiftr i 32);
        u8 (N.shiftr i 24); u8 (N.shiftr i 16); u8 (N.shiftr i 8); u8 i]
  else Panic P_NOFIT.

(* varint.go:126 *)
Definition vlen (i : N) : res N :=
  if i <=? maxVarInt1 then Ok 1
  else if i <=? maxVarInt2 then Ok 2
  else if i <=? maxVarInt4 then Ok 4
  else if i <=? maxVarInt8 then Ok 8
  else Panic P_NOFIT.

(* the two loops of AppendWithLen, varint.go:117-122 *)
Fixpoint zeros (n : nat) : bytes := match n with O => [] | S k => 0 :: zeros k end.
(* bytes uint8(i >> (8*(l-1-j))) for j = 0 .. l-1 *)
Fixpoint be_tail (l : nat) (i : N) : bytes :=
  match l with O => [] | S k => u8 (N.shiftr i (8 * N.of_nat k)) :: be_tail k i end.

(* varint.go:99 *)
Definition append_with_len (i : N) (length : N) : res bytes :=
  if negb ((length =? 1) || (length =? 2) || (length =? 4) || (length =? 8)) then Panic P_BADLEN
  else
    do l <- vlen i;
    if l =? length then append i
    else if length <? l then Panic P_TOOSMALL
    else
      let hd := if length =? 2 then [64] else if length =? 4 then [128] else if length =? 8 then [192] else [] in
      (* for j := 1; j < length-l; j++ *)
      Ok (hd ++ zeros (N.to_nat (length - l) - 1) ++ be_tail (N.to_nat l) i).

(* varint.go:30. None = the ByteReader returned an error (EOF). *)
Definition read (bs : bytes) : option (N * bytes) :=
  match bs with
  | [] => None
  | f :: r1 =>
    let len := N.shiftl 1 (N.shiftr (N.land f 192) 6) in
    let b1 := N.land f 63 in
    if len =? 1 then Some (b1, r1) else
    match r1 with
    | [] => None
    | b2 :: r2 =>
      if len =? 2 then Some (b2 + N.shiftl b1 8, r2) else
      match r2 with
      | b3 :: b4 :: r4 =>
        if len =? 4 then Some (b4 + N.shiftl b3 8 + N.shiftl b2 16 + N.shiftl b1 24, r4) else
        match r4 with
        | b5 :: b6 :: b7 :: b8 :: r8 =>
          Some (b8 + N.shiftl b7 8 + N.shiftl b6 16 + N.shiftl b5 24 + N.shiftl b4 32
                + N.shiftl b3 40 + N.shiftl b2 48 + N.shiftl b1 56, r8)
        | _ => None
        end
      | _ => None
      end
    end
  end.

(* ---- transport parameters (u_quic_transport_parameters.go) ---- *)

(* A transport parameter as Marshal sees it: its ID() and Value(). *)
Definition tparam := (N * bytes)%type.

(* u_quic_transport_parameters.go:36 *)
Fixpoint marshal_tps (tps : list tparam) : res bytes :=
  match tps with
  | [] => Ok []
  | (id, v) :: rest =>
    do a <- append id;
    do b <- append (N.of_nat (length v));
    do r <- marshal_tps rest;
    Ok (a ++ b ++ v ++ r)
  end.

(* The parameter types, with ID()/Value() as written in the source. *)
Inductive tp_kind :=
| TPInt (id : N) (v : N)          (* MaxIdleTimeout ... MaxDatagramFrameSize: Value = Append(v) *)
| TPEmpty (id : N)                (* DisableActiveMigration, GREASEQUICBit *)
| TPBytes (id : N) (v : bytes)    (* InitialSourceConnectionID, Padding, GREASE with overrides *)
| TPFake (id : N) (v : bytes)     (* FakeQUICTransportParameter: panics when Id = 0 *)
| TPVersionInfo (legacy : bool) (chosen : N) (others : list N). (* others already de-GREASEd *)

Definition be32 (x : N) : bytes :=
  [u8 (N.shiftr x 24); u8 (N.shiftr x 16); u8 (N.shiftr x 8); u8 x].

Definition tp_render (k : tp_kind) : res tparam :=
  match k with
  | TPInt id v => do b <- append v; Ok (id, b)
  | TPEmpty id => Ok (id, [])
  | TPBytes id v => Ok (id, v)
  | TPFake id v => if id =? 0 then Panic P_FAKEID0 else Ok (id, v)
  | TPVersionInfo legacy c os =>
      Ok (if legacy then 16741339 else 17, be32 c ++ flat_map be32 os)
  end.

Fixpoint tp_render_all (ks : list tp_kind) : res (list tparam) :=
  match ks with
  | [] => Ok []
  | k :: r => do p <- tp_render k; do ps <- tp_render_all r; Ok (p :: ps)
  end.

(* The Go loop calls tp.ID() then tp.Value() per element, so a panic in a
   later element happens after earlier ones were appended; the result of a
   panicking Marshal is never observed, so evaluation order is irrelevant. *)
Definition marshal_kinds (ks : list tp_kind) : res bytes :=
  do ps <- tp_render_all ks; marshal_tps ps.

(* Independent specification-level parser of the RFC 9000 section 18 format:
   sequence of (varint id, varint length, value). Fuel bounds the number of
   entries; each entry consumes at least two bytes. *)
Fixpoint take_n {A} (n : nat) (l : list A) : option (list A * list A) :=
  match n, l with
  | O, _ => Some ([], l)
  | S k, x :: r => match take_n k r with Some (a, b) => Some (x :: a, b) | None => None end
  | S _, [] => None
  end.

Fixpoint parse_tps (fuel : nat) (bs : bytes) : option (list tparam) :=
  match bs with
  | [] => Some []
  | _ =>
    match fuel with
    | O => None
    | S k =>
      match read bs with
      | None => None
      | Some (id, r1) =>
        match read r1 with
        | None => None
        | Some (n, r2) =>
          match take_n (N.to_nat n) r2 with
          | None => None
          | Some (v, r3) =>
            match parse_tps k r3 with
            | None => None
            | Some ps => Some ((id, v) :: ps)
            end
          end
        end
      end
    end
  end.

(* GREASE helpers of the same file (used by C04 as well). *)
Definition GREASE_MAX_MULTIPLIER : N := (4611686018427387903 - 27) / 31.
Definition is_grease_id (id : N) : bool := (27 <=? id) && ((id - 27) mod 31 =? 0).
Definition grease_id (k : N) : N := 27 + k * 31.
(* u_quic_transport_parameters.go:256 as written: OR, not mask *)
Definition grease_version (x : N) : N := N.lor (N.land x 4294967295) 168430090.

(* Generic model of UConn.MarshalClientHelloNoECH (u_conn.go:598-675) over
   ABSTRACT extensions, to be instantiated by the per-extension codecs.
   Executable definitions only; proofs are in Proofs/MarshalP.v.

   What is mirrored, statement by statement:
     u_conn.go:599-602  headerLength
     u_conn.go:604-618  extensionsLen over the non-padding extensions, the single
                        padding extension, "multiple padding extensions"
     u_conn.go:620-624  paddingExt.Update(headerLength + 4 + extensionsLen + 2)
     u_conn.go:626-629  helloLen
     u_conn.go:631-632  bytes.Buffer + bufio.NewWriterSize(&helloBuffer, helloLen+4)
     u_conn.go:636-652  the header writes (uint24 / uint8 / uint16 narrowing explicit)
     u_conn.go:654-661  uint16(extensionsLen) and bufferedWriter.ReadFrom(ext) per extension
     u_conn.go:663-674  Flush, the final length comparison, hello.Raw
   and, of the Go 1.24 standard library, the behaviour this function depends on:
     bufio.Writer.Write      (bufio.go:682-705): copy into the buffer; flush
                                when full; a write larger than the buffer with
                                nothing buffered goes straight to the underlying writer
     bufio.Writer.ReadFrom   (bufio.go:786-836): flush when no space is left;
                                with an EMPTY buffer delegate to the underlying
                                bytes.Buffer.ReadFrom; otherwise hand the reader the
                                REMAINING space b.buf[b.n:]; on io.EOF flush iff the
                                buffer is exactly full
     bytes.Buffer.ReadFrom   (buffer.go:207-228): grow(MinRead=512), hand the
                                reader the spare capacity (fresh, zeroed memory)
   The buffer array is modelled with its contents: make([]byte,size) is all
   zero, Flush resets the fill count but leaves the bytes in place.

   Conventions about extensions (all 30 TLSExtension.Read implementations in
   /repo follow them; the correspondence run would expose one that does not):
   a successful Read returns (n, io.EOF) — never (n, nil) — and does not write
   beyond the n bytes it reports. *)
From UV Require Import Base.Common Model.Padding.

(* ---- big-endian helpers (private to this file) ---- *)
Definition u16be (x : N) : bytes := [ u8 (x / 256); u8 x ].
Definition u24be (x : N) : bytes := [ u8 (x / 65536); u8 (x / 256); u8 x ].

(* ---- abstract extensions ----
   AExt psk n rd : any non-padding extension; [psk] marks pre_shared_key (only
                   AlwaysAddPadding looks at it); [n] is Len(); [rd b] is Read
                   on a slice with contents [b]: the bytes b[0:n'] after the call
                   (with io.EOF), or the returned error.
   APad pol st   : *UtlsPaddingExtension with its functor and current state. *)
Inductive aext :=
| AExt (psk : bool) (n : N) (rd : bytes -> res bytes)
| APad (pol : pad_policy) (st : pad_state).

Definition a_len (e : aext) : N :=
  match e with AExt _ n _ => n | APad _ st => pad_len st end.
Definition a_read (e : aext) (b : bytes) : res bytes :=
  match e with AExt _ _ rd => rd b | APad _ st => pad_read st b end.
Definition a_is_pad (e : aext) : bool :=
  match e with APad _ _ => true | _ => false end.
Definition a_is_psk (e : aext) : bool :=
  match e with AExt psk _ _ => psk | _ => false end.

(* An extension that always emits the same [body] (GenericExtension, or any
   extension whose fields are fixed): Len = len body, Read = ErrShortBuffer or copy. *)
Definition fixed_ext (psk : bool) (body : bytes) : aext :=
  AExt psk (len body)
       (fun b => if len b <? len body then Err E_SHORT_BUFFER else Ok body).

(* ---- hello header fields (PubClientHelloMsg) ---- *)
Record hello_hdr := {
  h_vers : N;            (* uint16 *)
  h_random : bytes;      (* []byte, 32 expected *)
  h_sid : bytes;         (* SessionId *)
  h_suites : list N;     (* []uint16 *)
  h_comp : bytes         (* CompressionMethods *)
}.

(* u_conn.go:600-602 *)
Definition header_length (h : hello_hdr) : N :=
  2 + 32 + 1 + len (h_sid h) + 2 + len (h_suites h) * 2 + 1 + len (h_comp h).

(* ---- bufio.Writer over a bytes.Buffer ---- *)
Record writer := {
  w_size : N;      (* len(b.buf) *)
  w_arr : bytes;   (* b.buf, with contents *)
  w_n : N;         (* b.n *)
  w_out : bytes    (* helloBuffer contents *)
}.

Definition bw_new (size : N) : writer :=
  {| w_size := size; w_arr := zeros size; w_n := 0; w_out := [] |}.
Definition bw_avail (w : writer) : N := w_size w - w_n w.

(* Flush: bytes.Buffer.Write never fails *)
Definition bw_flush (w : writer) : writer :=
  {| w_size := w_size w; w_arr := w_arr w; w_n := 0;
     w_out := w_out w ++ take (w_n w) (w_arr w) |}.

Definition arr_put (arr : bytes) (n : N) (p : bytes) : bytes :=
  take n arr ++ p ++ drop (n + len p) arr.

(* n := copy(b.buf[b.n:], p); b.n += n     (caller guarantees it fits) *)
Definition bw_copy (p : bytes) (w : writer) : writer :=
  {| w_size := w_size w; w_arr := arr_put (w_arr w) (w_n w) p;
     w_n := w_n w + len p; w_out := w_out w |}.
Definition bw_direct (p : bytes) (w : writer) : writer :=
  {| w_size := w_size w; w_arr := w_arr w; w_n := w_n w; w_out := w_out w ++ p |}.

(* bufio.Writer.Write; the loop runs at most twice *)
Definition bw_write (p : bytes) (w : writer) : writer :=
  if len p <=? bw_avail w then bw_copy p w
  else if w_n w =? 0 then bw_direct p w
  else
    let a := bw_avail w in
    let w1 := bw_flush (bw_copy (take a p) w) in
    let r := drop a p in
    if len r <=? w_size w then bw_copy r w1 else bw_direct r w1.

(* bufio.Writer.ReadFrom(ext) for a reader obeying the conventions above.
   [bbs] gives the spare capacity bytes.Buffer offers after grow(512) as a
   function of its current length (>= 512 in Go; allocator dependent). *)
Definition bw_read_from (bbs : N -> N) (e : aext) (w : writer) : res writer :=
  let w := if bw_avail w =? 0 then bw_flush w else w in
  if w_n w =? 0 then
    (* readerFrom.ReadFrom(r): bytes.Buffer.ReadFrom *)
    let space := bbs (len (w_out w)) in
    do b <- a_read e (zeros space);
    if space <? len b then Panic P_SLICE
    else Ok (bw_direct b w)
  else
    let slice := drop (w_n w) (w_arr w) in
    do b <- a_read e slice;
    if len slice <? len b then Panic P_SLICE
    else
      let w' := bw_copy b w in
      (* err == io.EOF: "If we filled the buffer exactly, flush preemptively." *)
      Ok (if bw_avail w' =? 0 then bw_flush w' else w').

Fixpoint bw_read_all (bbs : N -> N) (es : list aext) (w : writer) : res writer :=
  match es with
  | [] => Ok w
  | e :: es' => do w' <- bw_read_from bbs e w; bw_read_all bbs es' w'
  end.

(* ---- u_conn.go:604-624 ---- *)

(* extensionsLen over the non-padding extensions *)
Definition nonpad_len (es : list aext) : N :=
  fold_right (fun e acc => if a_is_pad e then acc else a_len e + acc) 0 es.

(* the padding extension, if any; a second one is the error *)
Fixpoint find_padding (es : list aext) (found : option (pad_policy * pad_state))
  : res (option (pad_policy * pad_state)) :=
  match es with
  | [] => Ok found
  | APad pol st :: es' =>
      match found with
      | None => find_padding es' (Some (pol, st))
      | Some _ => Err E_MULTI_PADDING
      end
  | _ :: es' => find_padding es' found
  end.

(* Update mutates the extension through the pointer kept in uconn.Extensions *)
Definition update_padding (unpadded : N) (es : list aext) : list aext :=
  map (fun e => match e with
                | APad pol st => APad pol (pad_update pol st unpadded)
                | _ => e
                end) es.

(* the argument of paddingExt.Update: the length of the whole handshake
   message (4-byte header included) without the padding extension *)
Definition unpadded_len (h : hello_hdr) (es : list aext) : N :=
  header_length h + 4 + nonpad_len es + 2.

Record prepared := {
  pr_exts : list aext;       (* uconn.Extensions after Update *)
  pr_extensions_len : N;
  pr_hello_len : N
}.

Definition marshal_prepare (h : hello_hdr) (es : list aext) : res prepared :=
  do pe <- find_padding es None;
  let ext0 := nonpad_len es in
  let es' := match pe with Some _ => update_padding (unpadded_len h es) es | None => es end in
  let extl := match pe with
              | Some (pol, st) => ext0 + pad_len (pad_update pol st (unpadded_len h es))
              | None => ext0
              end in
  let hl := match es with [] => header_length h | _ => header_length h + (2 + extl) end in
  Ok {| pr_exts := es'; pr_extensions_len := extl; pr_hello_len := hl |}.

(* ---- u_conn.go:636-652 ---- *)
Definition typeClientHello : N := 1.

Definition write_header (h : hello_hdr) (hello_len : N) (w : writer) : writer :=
  let w := bw_write [typeClientHello] w in
  let w := bw_write (u24be hello_len) w in                 (* poor man's uint24 *)
  let w := bw_write (u16be (h_vers h)) w in
  let w := bw_write (h_random h) w in
  let w := bw_write [u8 (len (h_sid h))] w in             (* uint8(len(SessionId)) *)
  let w := bw_write (h_sid h) w in
  let w := bw_write (u16be (u16 (len (h_suites h) * 2))) w in   (* uint16(len<<1) *)
  let w := fold_left (fun w s => bw_write (u16be s) w) (h_suites h) w in
  let w := bw_write [u8 (len (h_comp h))] w in
  bw_write (h_comp h) w.

(* ---- MarshalClientHelloNoECH ---- *)
Definition marshal_client_hello (bbs : N -> N) (h : hello_hdr) (es : list aext) : res bytes :=
  do p <- marshal_prepare h es;
  let hl := pr_hello_len p in
  let w := bw_new (hl + 4) in
  let w := write_header h hl w in
  do w <- match es with
          | [] => Ok w
          | _ => bw_read_all bbs (pr_exts p)
                   (bw_write (u16be (u16 (pr_extensions_len p))) w)   (* uint16(extensionsLen) *)
          end;
  let w := bw_flush w in
  if negb (len (w_out w) =? 4 + hl) then Err E_HELLO_LEN
  else Ok (w_out w).

(* ---- ClientHelloSpec level ---- *)

(* u_common.go:270-287 AlwaysAddPadding *)
Fixpoint always_add_padding (es : list aext) : list aext :=
  match es with
  | [] => [APad PolBoring {| p_len := 0; p_will := false |}]
  | e :: es' =>
      if a_is_pad e then es
      else if a_is_psk e then APad PolBoring {| p_len := 0; p_will := false |} :: es
      else e :: always_add_padding es'
  end.

(* u_common.go:565-572: FromRaw sets the functor of the FIRST padding extension *)
Fixpoint from_raw_install (rawlen : N) (es : list aext) : list aext :=
  match es with
  | [] => []
  | APad _ st :: es' => APad (from_raw_policy rawlen) st :: es'
  | e :: es' => e :: from_raw_install rawlen es'
  end.

(* ---- specification side: the bytes a well-formed hello must consist of ---- *)
Definition suites_bytes (ss : list N) : bytes := flat_map u16be ss.

Definition header_bytes (h : hello_hdr) (hello_len : N) : bytes :=
  [typeClientHello] ++ u24be hello_len ++ u16be (h_vers h) ++ h_random h
  ++ [u8 (len (h_sid h))] ++ h_sid h
  ++ u16be (u16 (len (h_suites h) * 2)) ++ suites_bytes (h_suites h)
  ++ [u8 (len (h_comp h))] ++ h_comp h.

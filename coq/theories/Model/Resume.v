(* C19 — history model of client session resumption (FIXED code: with
   fixes/C19-ems-downgrade.diff applied to loadSession and fixes/C19-ticket-assert.diff to uLoadSession).

   One connection = build the hello (uTLS: u_conn.go:113-222 buildHandshakeState /
   uLoadSession / uApplyPatch, u_session_controller.go:85-97,148-213,265-316; crypto/tls
   path for HelloGolang) including Conn.loadSession (handshake_client.go:396-567), then the
   RFC-level decision of the peer (the Go server of the same package:
   handshake_server.go:451-547 checkForResumption, handshake_server_tls13.go group
   selection / checkForResumption), then what the client stores
   (handshake_client.go saveSessionTicket, handshake_client_tls13.go handleNewSessionTicket)
   and the Put(key,nil) of u_handshake_client.go:482-496 on a failed resumption.

   The cache is an abstract map keyed by clientSessionCacheKey (handshake_client.go:1340,
   = Config.ServerName when non-empty); C36 proves the LRU cache is such a map as long
   as fewer keys than its capacity are in use.

   Byte level only where the property talks about bytes: the pre_shared_key extension
   (u_pre_shared_key.go:166-251 pskExtLen / readPskIntoBytes) and the binder patch
   (u_pre_shared_key.go:269-313 PatchBuiltHello, handshake_messages.go marshalWithoutBinders
   / updateBinders). Definitions only; proofs are in Proofs/ResumeP.v. *)
From UV Require Import Base.Common.

Definition V10 : N := 769.
Definition V11 : N := 770.
Definition V12 : N := 771.
Definition V13 : N := 772.
Definition LIFETIME : N := 604800. (* maxSessionTicketLifetime = 7 days, in seconds *)

(* error / panic codes *)
Definition E_EMPTY_PSK : N := 1.   (* ErrEmptyPsk, u_pre_shared_key.go:257-267 *)
Definition E_PSK_HRR : N := 2.     (* handshake_client_tls13.go:394 *)
Definition E_SRV_EMS : N := 3.     (* handshake_server.go:535, RFC 7627 5.3 MUST abort *)
Definition E_VERSION : N := 4.     (* no common protocol version *)
Definition E_NO_GROUP : N := 5.    (* TLS 1.3: no common group *)
Definition E_CERT : N := 6.        (* certificate verification failed on a full handshake *)
Definition E_NO_SUITE : N := 7.
Definition E_BINDER : N := 8.      (* handshake_server_tls13.go checkForResumption: "tls: invalid PSK binder", decrypt_error *)
Definition E_FINISHED : N := 9.    (* TLS 1.2 resumption with a wrong master secret: the server's Finished cannot be read *)
Definition P_TICKET_ASSERT : N := 1. (* u_session_controller.go:190 uAssert in setSessionTicketToUConn; unreachable since fix C19-ticket-assert *)
Definition P_PSK_NOT_LAST : N := 2.  (* u_session_controller.go:285 *)
Definition P_MULTI_TICKET : N := 3.  (* u_session_controller.go:275 *)
Definition P_NIL_EARLY : N := 4.     (* u_session_controller.go:182 earlySecret.Secret() on nil *)

(* ---- data ---- *)

(* What the server sealed into a ticket (ticket.go SessionState, server side). Sealing is
   authenticated encryption under the server's ticket key: a server opens exactly the tickets
   carrying its own key id. *)
Record ticket := mkTicket {
  t_key : N;       (* ticket key of the issuing server config *)
  t_vers : N;
  t_suite : N;
  t_ems : bool;
  t_created : N;   (* server-side creation time of the secret; kept across TLS 1.2 re-issues *)
  t_len : N        (* length of the opaque label on the wire *)
}.

(* Client side ClientSessionState.session (ticket.go:21-100) *)
Record session := mkSession {
  s_vers : N;
  s_suite : N;
  s_ems : bool;        (* extMasterSecret *)
  s_created : N;       (* createdAt *)
  s_useby : N;         (* useBy, TLS 1.3 only *)
  s_verified : bool;   (* len(verifiedChains) <> 0 *)
  s_notafter : N;      (* peerCertificates[0].NotAfter *)
  s_certnames : list N;(* names the leaf is valid for *)
  s_name : N;          (* ghost: the cache key (clientSessionCacheKey of the storing connection) it was stored under *)
  s_ticket : ticket;
  s_bad : bool         (* ghost: the cached secret is not the one sealed in the ticket (a corrupted cache entry;
                          never true for a session the client stored itself) *)
}.

(* extension kinds of a ClientHelloSpec, in list order *)
(* XTicketWire: session_ticket given as raw bytes (GenericExtension 35): on the wire, so the server issues a ticket and
   the client stores the session, but not a session extension the library can put a ticket into *)
Inductive ext := XTicket | XPsk | XEms | XPskModes | XOther | XTicketWire.
Definition ext_eqb (a b : ext) : bool :=
  match a, b with XTicket, XTicket | XPsk, XPsk | XEms, XEms | XPskModes, XPskModes | XOther, XOther | XTicketWire, XTicketWire => true | _, _ => false end.
Definition has (x : ext) (l : list ext) : bool := existsb (ext_eqb x) l.

Record spec := mkSpec {
  sp_go : bool;         (* HelloGolang: crypto/tls builds the hello (makeClientHello) *)
  sp_exts : list ext;   (* uTLS: uconn.Extensions after ApplyPreset *)
  sp_vers : list N;     (* hello.supportedVersions *)
  sp_suites : list N;   (* hello.cipherSuites *)
  sp_groups : list N;   (* supported_groups *)
  sp_shares : list N    (* key_share groups of the first hello *)
}.

(* HelloGolang always has ticketSupported, EMS, psk modes and can emit a PSK *)
Definition has_ticket (sp : spec) : bool := sp_go sp || has XTicket (sp_exts sp).
Definition wire_ticket (sp : spec) : bool := has_ticket sp || has XTicketWire (sp_exts sp).
Definition has_psk (sp : spec) : bool := sp_go sp || has XPsk (sp_exts sp).
Definition has_ems (sp : spec) : bool := sp_go sp || has XEms (sp_exts sp).
Definition has_modes (sp : spec) : bool := sp_go sp || has XPskModes (sp_exts sp).

Record server := mkServer {
  sv_key : N;            (* session ticket key identity *)
  sv_vers : list N;      (* supported versions, highest first *)
  sv_suites : list N;    (* TLS 1.0-1.2 suites the config supports *)
  sv_groups : list N;    (* CurvePreferences *)
  sv_notafter : N;       (* leaf certificate *)
  sv_certnames : list N
}.

Record conn := mkConn {
  c_spec : spec;
  c_sname : N;       (* Config.ServerName as configured (identity of the string; 0 = empty) *)
  c_addr : N;        (* conn.RemoteAddr().String() (identity of the string, same id space as names) *)
  c_srv : server;
  c_now : N;         (* Config.Time of both ends, seconds *)
  c_omit : bool;     (* Config.OmitEmptyPsk *)
  c_skipverify : bool; (* Config.InsecureSkipVerify *)
  c_suite : N;       (* the suite the server's selection picks for this hello on its own (input) *)
  c_tlen : N;        (* length of the ticket label the server would issue (input) *)
  c_vname : N;       (* Config.InsecureServerNameToVerify: 0 = unset, STAR = "*", else the identity of the name *)
  c_skiptime : bool  (* Config.InsecureSkipTimeVerify *)
}.

(* clientSessionCacheKey, handshake_client.go:1340-1348: the ServerName exactly as configured (no
   normalisation: "a.test." and "a.test", "127.0.0.1" and "127.0.0.2" are different keys) when it is
   non-empty, else the remote address. Strings are represented by their identities: equal ids = equal strings.
   The VerifyHostname re-check of loadSession and the full-handshake verification use Config.ServerName; they only
   run when InsecureSkipVerify is off; the name they use is c_vn below. A hello with neither ServerName nor
   InsecureSkipVerify nor InsecureServerNameToVerify is refused before anything is built (handshake_client.go:52 /
   u_handshake_client.go:436) — outside the model's domain. *)
Definition c_name (c : conn) : N := if c_sname c =? 0 then c_addr c else c_sname c.
Arguments c_name : simpl never.

(* The name a verifying client checks the leaf against (handshake_client.go:468-473 in loadSession, :1205-1209 in
   verifyServerCertificate): ServerName, unless InsecureServerNameToVerify is set; "*" = verify the chain but no name.
   0 = no name is checked. *)
Definition STAR : N := 999999.
Definition c_vn (c : conn) : N :=
  if c_vname c =? 0 then c_sname c else if c_vname c =? STAR then 0 else c_vname c.
Arguments c_vn : simpl never.
Definition name_ok (vn : N) (names : list N) : bool := (vn =? 0) || existsb (N.eqb vn) names.

Definition cache := list (N * session).
Definition lookup (k : N) (ca : cache) : option session :=
  match find (fun e => fst e =? k) ca with Some e => Some (snd e) | None => None end.
Definition del (k : N) (ca : cache) : cache := filter (fun e => negb (fst e =? k)) ca.
Definition put (k : N) (s : session) (ca : cache) : cache := (k, s) :: del k ca.

Definition mem (x : N) (l : list N) : bool := existsb (N.eqb x) l.

(* cipherSuiteTLS13ByID(id).hash.Size(); 0 = not a TLS 1.3 suite *)
Definition hash_len (suite : N) : N :=
  if suite =? 4865 then 32 else if suite =? 4866 then 48 else if suite =? 4867 then 32 else 0.

(* ---- Conn.loadSession, handshake_client.go:396-567 ---- *)
Inductive offer_kind := ViaTicket | ViaPsk.
Record loaded := mkLoaded { l_cache : cache; l_sess : option (offer_kind * session) }.

Definition load_session (ca : cache) (c : conn) (hello_ems : bool) : loaded :=
  let sp := c_spec c in
  let none := mkLoaded ca None in
  (* 428-435 *)
  match lookup (c_name c) ca with
  | None => none
  | Some s =>
    (* 438-448 *)
    if negb (mem (s_vers s) (sp_vers sp)) then none else
    (* 454-460: expired certificate deletes the entry *)
    if negb (c_skiptime c) && (s_notafter s <? c_now c) then mkLoaded (del (c_name c) ca) None else
    (* 462-480 *)
    if negb (c_skipverify c) && (negb (s_verified s) || negb (name_ok (c_vn c) (s_certnames s))) then none else
    if negb (s_vers s =? V13) then
      (* 482-491 *)
      if negb (mem (s_suite s) (sp_suites sp)) then none else
      (* [fix C19-ems-downgrade] an extended-master-secret session is not offered by a hello without the extension *)
      if s_ems s && negb hello_ems then none else
      mkLoaded ca (Some (ViaTicket, s))
    else
      (* 493-497 *)
      if s_useby s <? c_now c then mkLoaded (del (c_name c) ca) None else
      (* 499-515 *)
      if hash_len (s_suite s) =? 0 then none else
      if negb (existsb (fun o => negb (hash_len o =? 0) && (hash_len o =? hash_len (s_suite s))) (sp_suites sp)) then none else
      mkLoaded ca (Some (ViaPsk, s))
  end.

(* ---- building the hello ---- *)
Inductive built :=
| BOk (ca : cache) (off : option (offer_kind * session)) (psk_ext : bool) (* pre_shared_key present on the wire *)
| BErr (ca : cache) (e : N)
| BPanic (ca : cache) (p : N).

(* u_session_controller.go:265-316 syncSessionExts: one ticket extension at most, PSK last *)
Fixpoint psk_positions_ok (l : list ext) : bool :=
  match l with
  | [] => true
  | XPsk :: r => match r with [] => true | _ => false end
  | _ :: r => psk_positions_ok r
  end.
Definition count_ticket (l : list ext) : nat := length (filter (ext_eqb XTicket) l).

Definition build (ca : cache) (c : conn) : built :=
  let sp := c_spec c in
  if sp_go sp then
    (* u_conn.go:114-130 + u_handshake_client.go:462-466: plain loadSession, binders written by it *)
    let l := load_session ca c true in
    BOk (l_cache l) (l_sess l) (match l_sess l with Some (ViaPsk, _) => true | _ => false end)
  else
  if (1 <? count_ticket (sp_exts sp))%nat then BPanic ca P_MULTI_TICKET else
  if negb (psk_positions_ok (sp_exts sp)) then BPanic ca P_PSK_NOT_LAST else
  (* u_conn.go:186-213 uLoadSession; shouldLoadSession u_session_controller.go:85-97 *)
  if negb (has XTicket (sp_exts sp)) && negb (has XPsk (sp_exts sp)) then BOk ca None false else
  let l := load_session ca c (has XEms (sp_exts sp)) in
  let ca' := l_cache l in
  let finish (off : option (offer_kind * session)) :=
    (* MarshalClientHello: an uninitialised UtlsPreSharedKeyExtension has Len 0, u_pre_shared_key.go:257-267 (with OmitEmptyPsk nothing is written) *)
    match off with
    | Some (ViaPsk, _) => BOk ca' off true
    | _ => if has XPsk (sp_exts sp) && negb (c_omit c) then BErr ca' E_EMPTY_PSK else BOk ca' off false
    end in
  match l_sess l with
  | None => finish None
  | Some (k, s) =>
    if s_vers s =? V12 then
      (* u_conn.go:203-213: initSessionTicketExt returns early without the extension (assertCanSkip), and
         [fix C19-ticket-assert] the ticket is written only when the extension was initialised: the session is dropped *)
      if has XTicket (sp_exts sp) then finish (Some (ViaTicket, s)) else finish None
    else
      (* uLoadSession, else branch: every other version goes to initPskExt *)
      if negb (has XPsk (sp_exts sp)) then finish None    (* assertCanSkip; the session is dropped *)
      else if s_vers s =? V13 then finish (Some (ViaPsk, s))
      else BPanic ca' P_NIL_EARLY
  end.

(* ---- the peer ---- *)
(* the server's choice is one of hello.supportedVersions, so the client-side check that the selected version was
   offered (u_handshake_client.go:553-562) never fires here *)
Definition negotiate (sv : server) (sp : spec) : option N := find (fun v => mem v (sp_vers sp)) (sv_vers sv).

Definition is_pq (g : N) : bool := g =? 4588.
Definition part (f : N -> bool) (l : list N) : list N := filter f l ++ filter (fun x => negb (f x)) l.
(* handshake_server_tls13.go: preferred groups the client supports, those with a key share first, PQ first *)
Definition selected_group (sv : server) (sp : spec) : option N :=
  match part is_pq (part (fun g => mem g (sp_shares sp)) (filter (fun g => mem g (sp_groups sp)) (sv_groups sv))) with
  | [] => None | g :: _ => Some g end.
Definition needs_hrr (sv : server) (sp : spec) : bool :=
  match selected_group sv sp with Some g => negb (mem g (sp_shares sp)) | None => false end.

Definition opens (sv : server) (t : ticket) : bool := t_key t =? sv_key sv.
Definition fresh (now : N) (t : ticket) : bool := now <=? t_created t + LIFETIME. (* Sub(createdAt) > lifetime rejects *)

Inductive outcome := Done (resumed : bool) | CliErr (e : N) | SrvErr (e : N) | CliPanic (p : N).
Record obs := mkObs {
  o_offer : option (offer_kind * session);
  o_ems : bool;      (* the hello carries extended_master_secret *)
  o_pskext : bool;   (* the hello carries pre_shared_key *)
  o_hrr : bool;
  o_out : outcome
}.

Definition verify_ok (c : conn) : bool :=
  (* with InsecureSkipTimeVerify the chain is verified at the leaf's NotAfter *)
  c_skipverify c || ((c_skiptime c || (c_now c <=? sv_notafter (c_srv c))) && name_ok (c_vn c) (sv_certnames (c_srv c))).

(* the session the client stores after a handshake at version v *)
Definition stored (c : conn) (v suite : N) (ems : bool) (resumed_from : option session) (tcreated : N) : session :=
  let sv := c_srv c in
  let tk := mkTicket (sv_key sv) v suite ems tcreated (c_tlen c) in
  match resumed_from with
  | Some s => mkSession v suite ems (c_now c) (c_now c + LIFETIME) (s_verified s) (s_notafter s) (s_certnames s) (c_name c) tk false
  | None => mkSession v suite ems (c_now c) (c_now c + LIFETIME) (negb (c_skipverify c)) (sv_notafter sv) (sv_certnames sv) (c_name c) tk false
  end.

(* failure of a handshake that had loaded a session: u_handshake_client.go:482-496 *)
Definition fail (ca : cache) (c : conn) (off : option (offer_kind * session)) : cache :=
  match off with Some _ => del (c_name c) ca | None => ca end.

Definition step (ca : cache) (c : conn) : cache * obs :=
  let sp := c_spec c in
  let sv := c_srv c in
  let hello_ems := has_ems sp in
  match build ca c with
  | BPanic ca' p => (ca', mkObs None hello_ems false false (CliPanic p))
  | BErr ca' e => (ca', mkObs None hello_ems false false (CliErr e))
  | BOk ca' off pskext =>
    let ob := mkObs off hello_ems pskext in
    match negotiate sv sp with
    | None => (fail ca' c off, ob false (SrvErr E_VERSION))
    | Some v =>
      if v =? V13 then
        match selected_group sv sp with
        | None => (fail ca' c off, ob false (SrvErr E_NO_GROUP))
        | Some _ =>
          let hrr := needs_hrr sv sp in
          (* handshake_client_tls13.go:391-395 *)
          if hrr && negb (sp_go sp) && pskext then (fail ca' c off, ob true (CliErr E_PSK_HRR)) else
          if hash_len (c_suite c) =? 0 then (fail ca' c off, ob hrr (SrvErr E_NO_SUITE)) else
          let accepted :=
            match off with
            | Some (ViaPsk, s) =>
                let t := s_ticket s in
                (* pskModeDHE must have been offered; ticket opens, is a TLS 1.3 one, not older than 7 days, same KDF hash *)
                if has_modes sp && opens sv t && (t_vers t =? V13) && fresh (c_now c) t && (hash_len (t_suite t) =? hash_len (c_suite c))
                then Some s else None
            | _ => None
            end in
          match accepted with
          | Some s =>
              (* the binder is a MAC under the cached secret: a secret that is not the ticket's makes the server abort *)
              if s_bad s then (fail ca' c off, ob hrr (SrvErr E_BINDER)) else
              (* resumed: no certificate; a new ticket when the client sent psk_key_exchange_modes *)
              let ca2 := if has_modes sp then put (c_name c) (stored c V13 (c_suite c) false (Some s) (c_now c)) ca' else ca' in
              (ca2, ob hrr (Done true))
          | None =>
              if negb (verify_ok c) then (fail ca' c off, ob hrr (CliErr E_CERT)) else
              let ca2 := if has_modes sp then put (c_name c) (stored c V13 (c_suite c) false None (c_now c)) ca' else ca' in
              (ca2, ob hrr (Done false))
          end
        end
      else
        (* TLS 1.0-1.2: handshake_server.go:451-547 *)
        let dec : option (option session) :=  (* None = abort; Some None = full; Some (Some s) = resume *)
          match off with
          | Some (ViaTicket, s) =>
              let t := s_ticket s in
              if negb (opens sv t) then Some None else
              if negb (fresh (c_now c) t) then Some None else
              if negb (v =? t_vers t) then Some None else
              if negb (mem (t_suite t) (sp_suites sp)) then Some None else
              if negb (mem (t_suite t) (sv_suites sv)) then Some None else
              if negb (t_ems t) && hello_ems then Some None else
              if t_ems t && negb hello_ems then None else
              Some (Some s)
          | _ => Some None
          end in
        match dec with
        | None => (fail ca' c off, ob false (SrvErr E_SRV_EMS))
        | Some (Some s) =>
            (* doResumeHandshake always sends a new ticket wrapping the same secret *)
            let t := s_ticket s in
            (* the server resumes from its own copy; the client derives other keys and fails on the server's Finished *)
            if s_bad s then (fail ca' c off, ob false (CliErr E_FINISHED)) else
            (put (c_name c) (stored c v (t_suite t) (t_ems t) (Some s) (t_created t)) ca', ob false (Done true))
        | Some None =>
            if negb (mem (c_suite c) (sp_suites sp)) || negb (mem (c_suite c) (sv_suites sv)) then (fail ca' c off, ob false (SrvErr E_NO_SUITE)) else
            if negb (verify_ok c) then (fail ca' c off, ob false (CliErr E_CERT)) else
            (* a ticket is issued when the hello carries session_ticket *)
            let ca2 := if wire_ticket sp then put (c_name c) (stored c v (c_suite c) hello_ems None (c_now c)) ca' else ca' in
            (ca2, ob false (Done false))
        end
    end
  end.

(* test equipment of the correspondence runs (not an operation of the library): the cached secret under key k is corrupted *)
Definition set_bad (s : session) : session :=
  mkSession (s_vers s) (s_suite s) (s_ems s) (s_created s) (s_useby s) (s_verified s) (s_notafter s) (s_certnames s) (s_name s) (s_ticket s) true.
Definition mark_bad (k : N) (ca : cache) : cache := map (fun e => if fst e =? k then (fst e, set_bad (snd e)) else e) ca.

Fixpoint run (ca : cache) (h : list conn) : list obs :=
  match h with
  | [] => []
  | c :: r => let (ca', o) := step ca c in o :: run ca' r
  end.
Fixpoint final (ca : cache) (h : list conn) : cache :=
  match h with
  | [] => ca
  | c :: r => final (fst (step ca c)) r
  end.

Definition resumed (o : obs) : bool := match o_out o with Done true => true | _ => false end.
Definition completed (o : obs) : bool := match o_out o with Done _ => true | _ => false end.

(* ---- pre_shared_key bytes, u_pre_shared_key.go:166-251 ---- *)
Record ident := mkIdent { i_label : bytes; i_age : N }.

Definition idents_len (ids : list ident) : N := fold_right (fun i a => 2 + N.of_nat (length (i_label i)) + 4 + a) 0 ids.
Definition binders_len (bs : list bytes) : N := fold_right (fun b a => N.of_nat (length b) + 1 + a) 0 bs.

(* pskExtLen *)
Definition psk_ext_len (ids : list ident) (bs : list bytes) : N :=
  match ids, bs with
  | [], _ | _, [] => 0
  | _, _ => 4 + 2 + idents_len ids + 2 + binders_len bs
  end.

Definition be16 (x : N) : bytes := [u8 (x / 256); u8 x].
Definition be32 (x : N) : bytes := [u8 (x / 16777216); u8 (x / 65536); u8 (x / 256); u8 x].
Definition enc_ident (i : ident) : bytes := be16 (N.of_nat (length (i_label i))) ++ i_label i ++ be32 (i_age i).
Definition enc_binder (b : bytes) : bytes := u8 (N.of_nat (length b)) :: b.
Definition enc_binders (bs : list bytes) : bytes := be16 (binders_len bs) ++ concat (map enc_binder bs).

(* readPskIntoBytes: empty when pskExtLen = 0 *)
Definition psk_ext (ids : list ident) (bs : list bytes) : bytes :=
  if psk_ext_len ids bs =? 0 then [] else
  be16 41 ++ be16 (psk_ext_len ids bs - 4) ++ be16 (idents_len ids) ++ concat (map enc_ident ids) ++ enc_binders bs.

(* loadSession:541 / InitializeByUtls u_pre_shared_key.go:151-154: zero binders of the hash size *)
Definition placeholder (suite : N) : bytes := repeat 0 (N.to_nat (hash_len suite)).

(* PatchBuiltHello u_pre_shared_key.go:269-313 on raw = everything before ++ psk_ext: marshalWithoutBinders
   cuts len(raw) - (2 + sum(1+len binder)) bytes (computed from the placeholder binders), the new binders
   are appended with a FIXED-size builder over the original: any length change is an error. *)
Definition patch (raw : bytes) (old new : list bytes) : res bytes :=
  let cut := (length raw - N.to_nat (2 + binders_len old))%nat in
  let out := firstn cut raw ++ enc_binders new in
  if (length out =? length raw)%nat then Ok out else Err 9.

(* Model of the padding extension (type 21) of utls and of its length
   policies.  Executable definitions only; proofs are in Proofs/MarshalP.v.

   Go sources mirrored (line numbers of /repo at the checked commit):
     u_tls_extensions.go:1045-1052  type UtlsPaddingExtension
     u_tls_extensions.go:1058-1064  Len
     u_tls_extensions.go:1066-1070  Update
     u_tls_extensions.go:1072-1085  Read
     u_tls_extensions.go:1105-1108  Write            (fingerprinting a capture)
     u_tls_extensions.go:1111-1122  BoringPaddingStyle
     u_tls_extensions.go:1126-1139  AlwaysPadToLen
     u_common.go:565-572            FromRaw: GetPaddingLen = AlwaysPadToLen(len(raw)-5)

   Integers: Go `int` lengths are non-negative here and modelled in N; the
   one signed quantity, the argument of AlwaysPadToLen (len(raw)-5, or whatever
   a caller passes), is a Z.  PaddingLen is assumed non-negative (every policy
   returns a non-negative value; the JSON path assigns from a uint). *)
From UV Require Import Base.Common.

Definition len {A} (l : list A) : N := N.of_nat (length l).
Definition zeros (n : N) : bytes := repeat 0 (N.to_nat n).
Definition take {A} (n : N) (l : list A) : list A := firstn (N.to_nat n) l.
Definition drop {A} (n : N) (l : list A) : list A := skipn (N.to_nat n) l.

(* error / panic codes used by Padding.v and Marshal.v *)
Definition E_SHORT_BUFFER : N := 2.   (* io.ErrShortBuffer *)
Definition E_MULTI_PADDING : N := 1.  (* "multiple padding extensions" *)
Definition E_HELLO_LEN : N := 3.      (* "utls: unexpected ClientHello length" *)
Definition P_SLICE : N := 1.          (* slice bounds out of range *)

Definition utlsExtensionPadding : N := 21.

(* The GetPaddingLen functor.  Only the functions the library itself installs
   are distinguished; PolNone is the nil functor (state left as the user set it). *)
Inductive pad_policy :=
| PolNone
| PolBoring
| PolAlways (padTo : Z).

(* PaddingLen, WillPad *)
Record pad_state := { p_len : N; p_will : bool }.

(* u_tls_extensions.go:1111-1122
     if unpaddedLen > 0xff && unpaddedLen < 0x200 {
       paddingLen := 0x200 - unpaddedLen
       if paddingLen >= 4+1 { paddingLen -= 4 } else { paddingLen = 1 }
       return paddingLen, true }
     return 0, false *)
Definition boring_padding_style (unpadded : N) : N * bool :=
  if (255 <? unpadded) && (unpadded <? 512) then
    let p := 512 - unpadded in
    (if 5 <=? p then p - 4 else 1, true)
  else (0, false).

(* u_tls_extensions.go:1126-1139 *)
Definition always_pad_to_len (padTo : Z) (unpadded : N) : N * bool :=
  if (Z.of_N unpadded <? padTo)%Z then
    let p := Z.to_N (padTo - Z.of_N unpadded) in
    (if 5 <=? p then p - 4 else 1, true)
  else (0, false).

(* u_tls_extensions.go:1066-1070 *)
Definition pad_update (pol : pad_policy) (st : pad_state) (unpadded : N) : pad_state :=
  match pol with
  | PolNone => st
  | PolBoring => let '(l, w) := boring_padding_style unpadded in {| p_len := l; p_will := w |}
  | PolAlways n => let '(l, w) := always_pad_to_len n unpadded in {| p_len := l; p_will := w |}
  end.

(* u_tls_extensions.go:1058-1064 *)
Definition pad_len (st : pad_state) : N :=
  if p_will st then 4 + p_len st else 0.

(* u_tls_extensions.go:1072-1085.  [b] is the slice handed to Read, with its
   current contents.  The result is b[0:n] after the call for the returned n
   (the error is io.EOF in both successful branches).  Read writes the four
   header bytes and NOTHING else: the body is whatever the slice held. *)
Definition pad_read (st : pad_state) (b : bytes) : res bytes :=
  if negb (p_will st) then Ok []
  else if len b <? pad_len st then Err E_SHORT_BUFFER
  else Ok ([ u8 (utlsExtensionPadding / 256); u8 utlsExtensionPadding;
             u8 (p_len st / 256); u8 (p_len st) ]
           ++ take (p_len st) (drop 4 b)).

(* What a padding extension in state [st] is supposed to put on the wire:
   header and an all-zero body (RFC 7685).  Specification side, used by the
   theorems; the marshal model does not call it. *)
Definition pad_emit (st : pad_state) : bytes :=
  if p_will st then
    [ 0; 21; u8 (p_len st / 256); u8 (p_len st) ] ++ zeros (p_len st)
  else [].

(* u_tls_extensions.go:39 + 1105-1108: a padding extension met in a capture is
   created empty by ExtensionFromID(21) and Write() installs BoringPaddingStyle,
   discarding the captured body. *)
Definition pad_from_capture : pad_policy * pad_state :=
  (PolBoring, {| p_len := 0; p_will := false |}).

(* u_common.go:569: policy installed by FromRaw on the first padding extension
   of the spec; [rawlen] is len(raw), the capture INCLUDING its 5-byte record
   header. *)
Definition from_raw_policy (rawlen : N) : pad_policy :=
  PolAlways (Z.of_N rawlen - 5).

(* Model of the JSON spec importer (C07):

     ClientHelloSpec.UnmarshalJSON                  u_common.go:577-586
     Fingerprinter.UnmarshalJSONClientHello         u_fingerprinter.go:62-75
     ClientHelloSpecJSONUnmarshaler(.ClientHelloSpec)  u_clienthello_json.go:14-30
     CipherSuitesJSONUnmarshaler                    u_clienthello_json.go:32-60
     CompressionMethodsJSONUnmarshaler              u_clienthello_json.go:62-85
     TLSExtensionsJSONUnmarshaler                   u_clienthello_json.go:87-157
     tlsExtensionJSONAccepter                       u_clienthello_json.go:173-184
     every extension's UnmarshalJSON                u_tls_extensions.go, u_pre_shared_key.go:319,467,
                                                    u_session_ticket.go:67

   starting from a DECODED JSON value (jval). What encoding/json does with a
   value and a typed target is modelled as far as these targets need it:
   null is a no-op for scalars and structs and sets pointers / slices to nil;
   a value of the wrong kind, a number that is not a plain non-negative
   decimal integer or does not fit the field, and a string that is not
   base64 where []byte is expected are errors; object members are matched
   to fields by name (ASCII case-insensitive), unknown members are ignored.
   Pointer-typed fields of ClientHelloSpecJSONUnmarshaler are options: None
   is the nil pointer, and calling the accessor methods on it is the nil
   dereference of finding F-07b.

   [fx = true] is the code WITH fixes/C07-json-nil-members.diff; [fx = false]
   the code as shipped, kept for the witnesses in Props/C07.v.

   The dicttls name tables are Section variables (no hypotheses): the
   no-panic theorems hold for any tables, the correspondence instantiates
   them with Gen/Dict.v.

   Not modelled (outside the correspondence, the runner does not generate
   them): a member name repeated inside an extension object or key-share /
   identity object (encoding/json decodes each occurrence into the same Go
   value, reusing slice elements); member names with non-ASCII letters that
   Unicode-fold to ASCII ones.
   Executable definitions only; proofs are in Proofs/JsonP.v. *)
From Coq Require Import String Ascii.
From UV Require Import Base.Common Model.Wire Model.Varint Model.Ext Model.FromRaw Model.Import.
Open Scope string_scope.
Open Scope N_scope.

Inductive jval :=
| JNull
| JBool (b : bool)
(* Some n: the literal is a plain decimal integer without sign, fraction or exponent *)
| JNum (lit : option N)
(* the string, and its base64.StdEncoding decoding when it has one *)
| JStr (s : string) (b64 : option bytes)
| JArr (l : list jval)
| JObj (m : list (string * jval)).

Definition E_JSON : N := 70.          (* error returned by encoding/json for an ill-typed value *)
Definition E_NAME : N := 71.          (* "unknown ... name" from a dictionary lookup *)
Definition E_EXT_UNKNOWN : N := 72.   (* ErrUnknownExtension *)
Definition E_NOT_JSON : N := 73.      (* "extension %s (%d) is not JSON compatible" *)
Definition E_GREASE_ID : N := 74.     (* "GREASE extension id must be a GREASE value" *)
Definition E_SSL30 : N := 75.         (* "SSL 3.0 is deprecated" *)

Definition bytes_of_string (s : string) : bytes := map Byte.to_N (list_byte_of_string s).

(* ---- field matching (encoding/json foldName, ASCII part) ---- *)
Definition upper (c : ascii) : ascii :=
  let n := N_of_ascii c in
  if (97 <=? n) && (n <=? 122) then ascii_of_N (n - 32) else c.
Fixpoint fold_name (s : string) : string :=
  match s with EmptyString => EmptyString | String c r => String (upper c) (fold_name r) end.
Definition key_match (field key : string) : bool := String.eqb (fold_name field) (fold_name key).

(* decode every member that matches [field], in document order, into the same target *)
Fixpoint jfold {A} (dec : jval -> A -> res A) (field : string) (m : list (string * jval)) (acc : A) : res A :=
  match m with
  | [] => Ok acc
  | (k, v) :: r =>
      if key_match field k then (do a <- dec v acc; jfold dec field r a) else jfold dec field r acc
  end.

(* a struct target: object, or null (no-op) *)
Definition jobj (v : jval) : res (list (string * jval)) :=
  match v with JObj m => Ok m | JNull => Ok [] | _ => Err E_JSON end.

(* ---- scalar and slice targets ---- *)
Definition dec_string (v : jval) (old : string) : res string :=
  match v with JNull => Ok old | JStr s _ => Ok s | _ => Err E_JSON end.
Definition dec_bool (v : jval) (old : bool) : res bool :=
  match v with JNull => Ok old | JBool b => Ok b | _ => Err E_JSON end.
(* uintN: strconv.ParseUint + OverflowUint *)
Definition dec_uint (bits : N) (v : jval) (old : N) : res N :=
  match v with
  | JNull => Ok old
  | JNum (Some n) => if n <? 2 ^ bits then Ok n else Err E_JSON
  | _ => Err E_JSON
  end.

Fixpoint dec_list {A} (dec : jval -> res A) (l : list jval) : res (list A) :=
  match l with
  | [] => Ok []
  | v :: r => do a <- dec v; do rest <- dec_list dec r; Ok (a :: rest)
  end.

(* `for _, x := range l { y, err := f(x); if err != nil { return err }; out = append(out, y) }` *)
Fixpoint res_map {A B} (f : A -> res B) (l : list A) : res (list B) :=
  match l with
  | [] => Ok []
  | x :: r => do y <- f x; do t <- res_map f r; Ok (y :: t)
  end.

(* []string *)
Definition dec_strings (v : jval) (_ : list string) : res (list string) :=
  match v with
  | JNull => Ok []
  | JArr l => dec_list (fun x => dec_string x "") l
  | _ => Err E_JSON
  end.
(* []byte / []uint8: base64 string, or an array of numbers *)
Definition dec_bytes (v : jval) (_ : bytes) : res bytes :=
  match v with
  | JNull => Ok []
  | JStr _ (Some b) => Ok b
  | JArr l => dec_list (fun x => dec_uint 8 x 0) l
  | _ => Err E_JSON
  end.

Definition field_strings (field : string) (m : list (string * jval)) : res (list string) :=
  jfold dec_strings field m [].

Section Dict.
(* dicttls.Dict<X>NameIndexed[name] *)
Variable d_suite d_comp d_ext d_group d_point d_sig d_certcomp d_pskmode : string -> option N.

(* `for _, name := range names { if name == "GREASE" {...}; if id, ok := dict[name]; ok {append} else {return error} }` *)
Fixpoint names_grease (d : string -> option N) (names : list string) : res (list N) :=
  match names with
  | [] => Ok []
  | n :: r =>
      do hd <- (if String.eqb n "GREASE" then Ok GREASE_PLACEHOLDER else of_opt E_NAME (d n));
      do tl <- names_grease d r; Ok (hd :: tl)
  end.
Fixpoint names_plain (d : string -> option N) (names : list string) : res (list N) :=
  match names with
  | [] => Ok []
  | n :: r => do hd <- of_opt E_NAME (d n); do tl <- names_plain d r; Ok (hd :: tl)
  end.

(* SupportedVersionsExtension.UnmarshalJSON switch, u_tls_extensions.go:1511-1528 *)
Definition version_of_name (n : string) : res N :=
  if String.eqb n "GREASE" then Ok GREASE_PLACEHOLDER
  else if String.eqb n "TLS 1.3" then Ok 772
  else if String.eqb n "TLS 1.2" then Ok 771
  else if String.eqb n "TLS 1.1" then Ok 770
  else if String.eqb n "TLS 1.0" then Ok 769
  else if String.eqb n "SSL 3.0" then Err E_SSL30
  else Err E_NAME.

(* FakeTokenBindingExtension.UnmarshalJSON switch, :1857-1866 *)
Definition tb_param_of_name (n : string) : res N :=
  if String.eqb n "rsa2048_pkcs1.5" then Ok 0
  else if String.eqb n "rsa2048_pss" then Ok 1
  else if String.eqb n "ecdsap256" then Ok 2
  else Err E_NAME.

(* KeyShareExtension.UnmarshalJSON, :1302-1333 *)
Definition dec_share (v : jval) : res (string * bytes) :=
  do m <- jobj v;
  do g <- jfold dec_string "group" m "";
  do k <- jfold dec_bytes "key_exchange" m [];
  Ok (g, k).
Definition dec_shares (v : jval) (_ : list (string * bytes)) : res (list (string * bytes)) :=
  match v with JNull => Ok [] | JArr l => dec_list dec_share l | _ => Err E_JSON end.
Fixpoint shares_of (l : list (string * bytes)) : res (list (N * bytes)) :=
  match l with
  | [] => Ok []
  | (g, k) :: r =>
      do gid <- (if String.eqb g "GREASE" then Ok GREASE_PLACEHOLDER else of_opt E_NAME (d_group g));
      do tl <- shares_of r; Ok ((gid, k) :: tl)
  end.

(* FakePreSharedKeyExtension.UnmarshalJSON, u_pre_shared_key.go:467-480; PskIdentity u_public.go:654 *)
Definition dec_identity (v : jval) : res psk_identity :=
  do m <- jobj v;
  do l <- jfold dec_bytes "identity" m [];
  do a <- jfold (dec_uint 32) "obfuscated_ticket_age" m 0;
  Ok (l, a).
Definition dec_identities (v : jval) (_ : list psk_identity) : res (list psk_identity) :=
  match v with JNull => Ok [] | JArr l => dec_list dec_identity l | _ => Err E_JSON end.
Definition dec_binders (v : jval) (_ : list bytes) : res (list bytes) :=
  match v with JNull => Ok [] | JArr l => dec_list (fun x => dec_bytes x []) l | _ => Err E_JSON end.

(* token_binding_version { major, minor uint8 }: a nested struct, members merged *)
Definition dec_tb_version (v : jval) (old : N * N) : res (N * N) :=
  do m <- jobj v;
  do ma <- jfold (dec_uint 8) "major" m (fst old);
  do mi <- jfold (dec_uint 8) "minor" m (snd old);
  Ok (ma, mi).

(* What loop 1 of TLSExtensionsJSONUnmarshaler.UnmarshalJSON (:100-137) picks for a name *)
Inductive jkind :=
| KGrease                 (* &UtlsGREASEExtension{} *)
| KGeneric (id : N)       (* genericExtension(extID, name): &GenericExtension{Id: id} *)
| KRealPsk | KFakePsk
| KId (id : N).           (* ExtensionFromID(id), which implements TLSExtensionJSON *)

(* types reachable from ExtensionFromID without UnmarshalJSON: QUIC transport parameters, GREASE ECH *)
Definition json_compatible (id : N) : bool := negb ((id =? ID_QUIC_TP) || (id =? ID_ECH)).
(* ExtensionFromID(id) != nil *)
Definition ext_known (id : N) : bool :=
  match ext_fresh id with Some _ => true | None => id =? ID_QUIC_TP end.

Definition pick_kind (allow_unknown real_psk : bool) (name : string) : res jkind :=
  if String.eqb name "GREASE" then Ok KGrease else
  match d_ext name with
  | None => Err E_EXT_UNKNOWN
  | Some id =>
      if negb (ext_known id) then
        (if allow_unknown then Ok (KGeneric id) (* a GenericExtension is JSON compatible and id <> 41 *)
         else Err E_NOT_JSON)
      else if id =? ID_PSK then Ok (if real_psk then KRealPsk else KFakePsk)
      else if json_compatible id then Ok (KId id) else Err E_NOT_JSON
  end.

(* ext.UnmarshalJSON(origJsonInput) on the value loop 1 picked *)
Definition json_ext (k : jkind) (v : jval) : res ext :=
  match k with
  | KGrease =>                                                   (* :1015-1043 *)
      do m <- jobj v;
      do id <- jfold (dec_uint 16) "id" m 0;
      do data <- jfold dec_bytes "data" m [];
      do keep_id <- jfold dec_bool "keep_id" m false;
      do keep_data <- jfold dec_bool "keep_data" m false;
      if id =? 0 then Ok (EGREASE 0 [])
      else if is_grease id then Ok (EGREASE (if keep_id then id else 0) (if keep_data then data else []))
      else Err E_GREASE_ID
  | KGeneric id0 =>                                              (* :899-916 *)
      do m <- jobj v;
      do name <- jfold dec_string "name" m "";
      do data <- jfold dec_bytes "data" m [];
      do id <- of_opt E_NAME (d_ext name);
      Ok (EGeneric id data)
  | KRealPsk => Ok (EUtlsPreSharedKey false None false [] [])    (* u_pre_shared_key.go:319 *)
  | KFakePsk =>                                                  (* u_pre_shared_key.go:467 *)
      do m <- jobj v;
      do ids <- jfold dec_identities "identities" m [];
      do bs <- jfold dec_binders "binders" m [];
      Ok (EFakePreSharedKey false ids bs)
  | KId id =>
      if id =? ID_CURVES then                                    (* :289 *)
        do m <- jobj v; do ns <- field_strings "named_group_list" m;
        do l <- names_grease d_group ns; Ok (ESupportedCurves l)
      else if id =? ID_POINTS then                               (* :363 *)
        do m <- jobj v; do ns <- field_strings "ec_point_format_list" m;
        do l <- names_plain d_point ns; Ok (ESupportedPoints l)
      else if id =? ID_SIGALGS then                              (* :426 *)
        do m <- jobj v; do ns <- field_strings "supported_signature_algorithms" m;
        do l <- names_grease d_sig ns; Ok (ESignatureAlgorithms l)
      else if id =? ID_SIGALGS_CERT then                         (* :556 *)
        do m <- jobj v; do ns <- field_strings "supported_signature_algorithms" m;
        do l <- names_grease d_sig ns; Ok (ESignatureAlgorithmsCert l)
      else if id =? ID_DELEGATED_CREDENTIALS then                (* :1925 *)
        do m <- jobj v; do ns <- field_strings "supported_signature_algorithms" m;
        do l <- names_grease d_sig ns; Ok (EFakeDelegatedCredentials l)
      else if id =? ID_ALPN then                                 (* :655 *)
        do m <- jobj v; do ns <- field_strings "protocol_name_list" m;
        Ok (EALPN (map bytes_of_string ns))
      else if id =? ID_ALPS then                                 (* :774 *)
        do m <- jobj v; do ns <- field_strings "supported_protocols" m;
        Ok (EApplicationSettings (map bytes_of_string ns))
      else if id =? ID_ALPS_NEW then                             (* :813 *)
        do m <- jobj v; do ns <- field_strings "supported_protocols" m;
        Ok (EApplicationSettingsNew (map bytes_of_string ns))
      else if id =? ID_PADDING then                              (* :1087-1103 *)
        do m <- jobj v; do n <- jfold (dec_uint 64) "len" m 0;
        (* PaddingLen = int(Length): a value >= 2^63 becomes negative in Go (not expressible in
           EPadding; outside the correspondence) *)
        if n =? 0 then Ok (EPadding 0 false PadBoring) else Ok (EPadding n true PadNone)
      else if id =? ID_COMPRESS_CERT then                        (* :1207 *)
        do m <- jobj v; do ns <- field_strings "algorithms" m;
        do l <- names_plain d_certcomp ns; Ok (ECompressCert l)
      else if id =? ID_KEY_SHARE then                            (* :1302 *)
        do m <- jobj v; do ss <- jfold dec_shares "client_shares" m [];
        do l <- shares_of ss; Ok (EKeyShare l)
      else if id =? ID_PSK_MODES then                            (* :1427 *)
        do m <- jobj v; do ns <- field_strings "ke_modes" m;
        do l <- names_plain d_pskmode ns; Ok (EPSKKeyExchangeModes l)
      else if id =? ID_VERSIONS then                             (* :1503 *)
        do m <- jobj v; do ns <- field_strings "versions" m;
        do l <- res_map version_of_name ns; Ok (ESupportedVersions l)
      else if id =? ID_RECORD_SIZE_LIMIT then                    (* :1782 *)
        do m <- jobj v; do l <- jfold (dec_uint 16) "record_size_limit" m 0;
        Ok (EFakeRecordSizeLimit l)
      else if id =? ID_TOKEN_BINDING then                        (* :1842 *)
        do m <- jobj v;
        do ver <- jfold dec_tb_version "token_binding_version" m (0, 0);
        do ns <- field_strings "key_parameters_list" m;
        do ps <- res_map tb_param_of_name ns;
        Ok (EFakeTokenBinding (fst ver) (snd ver) ps)
      else if id =? ID_RENEGOTIATION then Ok (ERenegotiationInfo 1 [])   (* :1666 RenegotiateOnceAsClient *)
      else
        (* SNI, status_request(_v2), SCT, EMS, NPN, channel id, session ticket: no-op UnmarshalJSON *)
        match ext_fresh id with Some e => Ok e | None => Err E_NOT_JSON end
  end.

(* ---- tlsExtensionJSONAccepter.UnmarshalJSON, :180-184: extNameOnly.Name ---- *)
Definition accepter_name (v : jval) : res string :=
  do m <- jobj v; jfold dec_string "name" m "".

(* ---- TLSExtensionsJSONUnmarshaler.UnmarshalJSON, :93-148 ----
   json.Unmarshal(jsonStr, &accepters): an array (null cannot reach a pointer's UnmarshalJSON);
   loop 1 picks the types, loop 2 unmarshals; errors of loop 1 come first. *)
Definition json_extensions (allow_unknown real_psk : bool) (v : jval) : res (list ext) :=
  match v with
  | JArr l =>
      do names <- res_map accepter_name l;
      do kinds <- res_map (pick_kind allow_unknown real_psk) names;
      res_map (fun kv => json_ext (fst kv) (snd kv)) (combine kinds l)
  | JNull => Ok []          (* not reachable through a pointer field; Unmarshal into the slice is a no-op *)
  | _ => Err E_JSON
  end.

(* CipherSuitesJSONUnmarshaler.UnmarshalJSON :36-56 / CompressionMethodsJSONUnmarshaler :66-81 *)
Definition json_suites (v : jval) : res (list N) :=
  do ns <- dec_strings v []; names_grease d_suite ns.
Definition json_comp (v : jval) : res (list N) :=
  do ns <- dec_strings v []; names_plain d_comp ns.

(* ---- ClientHelloSpecJSONUnmarshaler: the three pointer fields and the two uint16 ---- *)
Record chsju := {
  ju_suites : option (list N);      (* *CipherSuitesJSONUnmarshaler: None = nil *)
  ju_comp : option (list N);
  ju_exts : option (list ext);
  ju_vmin : N;
  ju_vmax : N
}.
Definition chsju_zero : chsju :=
  {| ju_suites := None; ju_comp := None; ju_exts := None; ju_vmin := 0; ju_vmax := 0 |}.

(* a pointer field whose type has UnmarshalJSON: null sets it to nil; anything else allocates
   when nil and calls UnmarshalJSON on the pointee (which APPENDS for the two name lists and
   REPLACES for the extensions) *)
Definition dec_ptr_append (f : jval -> res (list N)) (v : jval) (old : option (list N)) : res (option (list N)) :=
  match v with
  | JNull => Ok None
  | _ => do l <- f v; Ok (Some (match old with Some o => (o ++ l)%list | None => l end))
  end.
Definition dec_ptr_exts (v : jval) (old : option (list ext)) : res (option (list ext)) :=
  match v with
  | JNull => Ok None
  | _ => do l <- json_extensions false false v; Ok (Some l)
  end.

Definition json_chsju (v : jval) : res chsju :=
  match v with
  | JNull => Ok chsju_zero
  | JObj m =>
      do s <- jfold (dec_ptr_append json_suites) "cipher_suites" m None;
      do c <- jfold (dec_ptr_append json_comp) "compression_methods" m None;
      do e <- jfold dec_ptr_exts "extensions" m None;
      do vmin <- jfold (dec_uint 16) "min_vers" m 0;
      do vmax <- jfold (dec_uint 16) "max_vers" m 0;
      Ok {| ju_suites := s; ju_comp := c; ju_exts := e; ju_vmin := vmin; ju_vmax := vmax |}
  | _ => Err E_JSON
  end.

(* c.cipherSuites with c == nil: nil pointer dereference.
   [fix] `if c == nil { return nil }` in CipherSuites(), CompressionMethods(), Extensions() *)
Definition deref {A} (fx : bool) (o : option (list A)) : res (list A) :=
  match o with
  | Some l => Ok l
  | None => if fx then Ok [] else Panic P_NIL
  end.

(* chsju.ClientHelloSpec(), :22-30 (fields evaluated in this order) *)
Definition chsju_spec (fx : bool) (u : chsju) : res spec :=
  do s <- deref fx (ju_suites u);
  do c <- deref fx (ju_comp u);
  do e <- deref fx (ju_exts u);
  Ok {| sp_suites := s; sp_comp := c; sp_exts := e; sp_vmin := ju_vmin u; sp_vmax := ju_vmax u;
        sp_padto := None |}.

(* ClientHelloSpec.UnmarshalJSON *)
Definition json_spec (fx : bool) (v : jval) : res spec :=
  do u <- json_chsju v; chsju_spec fx u.

(* Fingerprinter.UnmarshalJSONClientHello *)
Definition json_fingerprint (fx : bool) (always_pad : bool) (v : jval) : res spec :=
  do s <- json_spec fx v;
  if always_pad then
    do es <- always_add_padding (sp_exts s);
    Ok {| sp_suites := sp_suites s; sp_comp := sp_comp s; sp_exts := es;
          sp_vmin := sp_vmin s; sp_vmax := sp_vmax s; sp_padto := None |}
  else Ok s.
End Dict.

(* Interleaving model of the write half of one TLS 1.3 connection while the peer asks for key updates:
   the goroutine sitting in Read answers a KeyUpdate(update_requested) in handleKeyUpdate
   (conn.go:1352-1370: c.out.Lock(); writeRecordLocked(KeyUpdate); c.out.setTrafficSecret(next); deferred
   Unlock) while other goroutines call Write (conn.go:1223 / u_conn.go:445: c.out.Lock(); records;
   Unlock). Only what matters for the order of events on the wire is kept: who holds c.out, the
   generation of the write key, and the sequence of records sent (data records tagged with the generation
   that sealed them, KeyUpdate records as markers). Standard interleaving semantics of a mutex.

   [atomic = true] is the code: the lock is held from sending the answer until the key is switched.
   [atomic = false] additionally allows the answering goroutine to release c.out between the two and
   take it again (the variant that derives the next secret outside the lock). *)
From UV Require Import Base.Common.

Inductive item := Data (g : nat) | KU.

(* program counter of the answering goroutine *)
Inductive apc := A0   (* not answering *)
               | A1   (* holds c.out, answer not yet sent *)
               | A2   (* answer sent, key not yet switched, holds c.out *)
               | A2u  (* answer sent, key not yet switched, c.out released (non-atomic variant only) *)
               | A3.  (* key switched, holds c.out *)
Inductive owner := Free | ByAnswerer | ByWriter.

Record st := mkSt {
  lock : owner;          (* c.out *)
  gen : nat;             (* generation of the write key (number of setTrafficSecret calls on c.out) *)
  pcA : apc;
  inWrite : bool;        (* some Write call is between Lock and Unlock *)
  wire : list item       (* records sent so far, oldest first *)
}.
Definition ku_init : st := mkSt Free 0 A0 false [].

Inductive label :=
| ALock | ASend | ASwitch | AUnlock          (* handleKeyUpdate, update_requested branch *)
| AUnlockMid | ARelock                        (* only when atomic = false *)
| WLock | WEmit | WUnlock.                    (* a Write call: any number of records between Lock and Unlock *)

Definition ku_step (atomic : bool) (s : st) (l : label) : option st :=
  match l, lock s, pcA s, inWrite s with
  | ALock, Free, A0, _ => Some (mkSt ByAnswerer (gen s) A1 (inWrite s) (wire s))
  | ASend, ByAnswerer, A1, _ => Some (mkSt ByAnswerer (gen s) A2 (inWrite s) (wire s ++ [KU]))
  | ASwitch, ByAnswerer, A2, _ => Some (mkSt ByAnswerer (S (gen s)) A3 (inWrite s) (wire s))
  | AUnlock, ByAnswerer, A3, _ => Some (mkSt Free (gen s) A0 (inWrite s) (wire s))
  | AUnlockMid, ByAnswerer, A2, _ => if atomic then None else Some (mkSt Free (gen s) A2u (inWrite s) (wire s))
  | ARelock, Free, A2u, _ => if atomic then None else Some (mkSt ByAnswerer (gen s) A2 (inWrite s) (wire s))
  | WLock, Free, _, false => Some (mkSt ByWriter (gen s) (pcA s) true (wire s))
  | WEmit, ByWriter, _, true => Some (mkSt ByWriter (gen s) (pcA s) true (wire s ++ [Data (gen s)]))
  | WUnlock, ByWriter, _, true => Some (mkSt Free (gen s) (pcA s) false (wire s))
  | _, _, _, _ => None
  end.

Fixpoint ku_run (atomic : bool) (s : st) (tr : list label) : option st :=
  match tr with
  | [] => Some s
  | l :: r => match ku_step atomic s l with Some s' => ku_run atomic s' r | None => None end
  end.

(* what the peer can follow: it switches its read key to the next generation exactly when it processes a
   KeyUpdate record, so every data record must be sealed under (number of KeyUpdate records before it) *)
Fixpoint wire_ok (g : nat) (w : list item) : bool :=
  match w with
  | [] => true
  | Data g' :: r => (g' =? g)%nat && wire_ok g r
  | KU :: r => wire_ok (S g) r
  end.

Fixpoint markers (w : list item) : nat :=
  match w with [] => 0%nat | KU :: r => S (markers r) | Data _ :: r => markers r end.

(* Model of UConn.GetOutKeystream (u_conn.go:677-686) on the record layer of Model/Record.v.
   The AEAD wrappers keep mutable nonce buffers: xorNonceAEAD.Seal XORs the nonce into nonceMask[4:]
   and XORs it out again (cipher_suites.go:487-497); prefixNonceAEAD.Seal copies the nonce behind the
   fixed 4-byte prefix, a buffer that is overwritten before every use (cipher_suites.go:466-469) and of
   which the model keeps only the prefix. The function therefore returns the connection as well, so
   that "the state is unchanged" is a statement and not a by-product of the modelling. *)
From UV Require Import Base.Common Model.Record.
Open Scope N_scope.

Definition e_not_aead : N := 1010.   (* "could not convert OutCipher to cipher.AEAD" *)

Section WithPrims.
Variable P : prims.

(* wrapper.Seal(nil, nonce, plaintext, nil): result and the wrapper's state afterwards *)
Definition wrapper_seal (c : cipher) (nonce plaintext ad : bytes) : bytes * cipher :=
  match c_kind c with
  | KAeadXor =>
    let mask1 := firstn 4 (c_iv c) ++ bxor (skipn 4 (c_iv c)) nonce in        (* nonceMask[4+i] ^= b *)
    let out := aead_seal P (c_alg c) (c_key c) mask1 ad plaintext in
    let mask2 := firstn 4 mask1 ++ bxor (skipn 4 mask1) nonce in              (* and back *)
    (out, mkCipher (c_kind c) (c_alg c) (c_key c) mask2 (c_read c) (c_pos c) (c_bs c))
  | _ =>
    (aead_seal P (c_alg c) (c_key c) (firstn 4 (c_iv c) ++ nonce) ad plaintext, c)
  end.

(* u_conn.go:678 *)
Definition get_out_keystream (c : conn) (length : nat) : res (bytes * conn) :=
  let zeros_ := zeros length in
  match h_cipher (cn_out c) with
  | Some ci =>
    match c_kind ci with
    | KAeadPrefix | KAeadXor =>
      let (out, ci') := wrapper_seal ci (seq8 (h_seq (cn_out c))) zeros_ [] in
      Ok (out, with_out c (set_cipher (cn_out c) (Some ci')) (cn_bytesSent c) (cn_packetsSent c))
    | _ => Err e_not_aead
    end
  | None => Err e_not_aead
  end.

End WithPrims.

(* Model of ShuffleChromeTLSExtensions (u_parrots.go:2696-2731). Executable
   definitions only; proofs in Proofs/PresetP.v.

   The Go function calls rand.Shuffle(len(exts), swap) on a math/rand source
   seeded from crypto/rand; math/rand.Shuffle is Fisher-Yates and calls
   swap(i, j) for i = n-1 .. 1 with j drawn in [0, i]. The model is driven by an
   ARBITRARY list of (i, j) calls, so every theorem holds whatever the random
   source does (and whatever order Shuffle visits the indices in).

     swap := func(i, j int) {
        if skipShuf(i, exts) || skipShuf(j, exts) { return }     :2720
        exts[i], exts[j] = exts[j], exts[i] }                    :2723
     skipShuf(idx) := exts[idx] is *UtlsGREASEExtension, *UtlsPaddingExtension
                      or a PreSharedKeyExtension                 :2699-2706
   exts[idx] with idx out of range is a Go panic. *)
From UV Require Import Base.Common.

Definition P_SHUF_INDEX : N := 40.

Section Shuffle.
  Context {A : Type} (fixed : A -> bool).

  (* l[i] = x, for i < len(l) *)
  Definition upd (i : nat) (x : A) (l : list A) : list A :=
    firstn i l ++ x :: skipn (S i) l.

  (* one call of the swap closure *)
  Definition shuf_step (l : list A) (ij : nat * nat) : res (list A) :=
    let '(i, j) := ij in
    match nth_error l i with
    | None => Panic P_SHUF_INDEX
    | Some a =>
      if fixed a then Ok l else               (* skipShuf(i) || ... short-circuits *)
      match nth_error l j with
      | None => Panic P_SHUF_INDEX
      | Some b => if fixed b then Ok l else Ok (upd i b (upd j a l))
      end
    end.

  Fixpoint shuffle (swaps : list (nat * nat)) (l : list A) : res (list A) :=
    match swaps with
    | [] => Ok l
    | s :: r => do l' <- shuf_step l s; shuffle r l'
    end.
End Shuffle.

(* the calls math/rand.Shuffle(n, swap) makes, given the j it draws for i = n-1 .. 1 *)
Fixpoint fisher_yates (n : nat) (js : list nat) : list (nat * nat) :=
  match n, js with
  | S (S k as i), j :: r => (i, j) :: fisher_yates i r
  | _, _ => []
  end.

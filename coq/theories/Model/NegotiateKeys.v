(* The negotiation decision with the key selection of the repaired establishHandshakeKeys (fixes/C18: ApplyPreset
   retains every classical key-share private key in KeySharePrivateKeys.ExtraEcdhe, ecdheKeyFor picks the key by the
   server share's group). Model/Negotiate.v's view carries the curve of keyShareKeys.ecdhe only and its establish_keys
   therefore describes the pre-C18 tree; Model/Complete.v (C10/C18) supplies the post-fix rule as a rewriting of that one
   view field: client_run10 fixed e v ks fl = client_run_gen e (view with the curve of ecdheKeyFor(server share)) fl.
   This file names that view and gives the session variant (Model/NegotiateSess.v) the same treatment.
   Executable definitions only; nothing in Negotiate.v / NegotiateSess.v / Complete.v is changed. *)
From UV Require Export Base.Common Model.Negotiate Model.NegotiateSess.
From UV Require Model.KeyShare Model.Complete.

(* the view establishHandshakeKeys effectively works with: handshake_client_tls13.go:63 tests the real ecdhe for nil,
   :604 takes ecdheKeyFor(serverShare.group) *)
Definition eff_view (fixed : bool) (v : client_view) (ks : KeyShare.kshape) (fl : flight) : client_view :=
  Complete.set_ecdhe v (if KeyShare.sh_ecdhe ks =? 0 then 0 else Complete.eff_ecdhe fixed ks (h_share (f_sh fl))).

Definition client_run_sess10 (fixed : bool) (e : env) (v : client_view) (ks : KeyShare.kshape)
           (sess : option session12) (sh_ems : bool) (fl : flight) : outcome :=
  client_run_sess e (eff_view fixed v ks fl) sess sh_ems fl.

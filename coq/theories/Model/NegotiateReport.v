(* What the client's Conn holds - and ConnectionState therefore REPORTS - when a handshake stops, completed or aborted:
   c.cipherSuite, c.curveID and c.clientProtocol are assigned at fixed points of the handshake, each right after the check of
   the corresponding server value passed. [report_gen] follows client_run_gen (Model/Negotiate.v) and returns the values
   assigned up to the point where the handshake ends (0 / [] = never assigned). Executable definitions only.

   Assignment points mirrored:
     handshake_client_tls13.go:235   checkServerHelloOrHRR: c.cipherSuite = hs.suite.id (after the suite was validated; both calls)
     handshake_client_tls13.go:652   establishHandshakeKeys: c.curveID = serverShare.group (after the shared key was derived)
     handshake_client_tls13.go:711   readServerParameters: c.clientProtocol = EE ALPN (after checkALPN passed)
     handshake_client.go:682         pickCipherSuite: hs.c.cipherSuite = hs.suite.id
     handshake_client.go:935         processServerHello (<= 1.2): c.clientProtocol = serverHello.alpnProtocol (after checkALPN)
     handshake_client.go:755         doFullHandshake: c.curveID = ServerKeyExchange curve (after processServerKeyExchange passed) *)
From UV Require Export Base.Common Model.Negotiate.

Definition rep (suite group : N) (alpn : bytes) : conn_state := mkState 0 suite group alpn false false.

Definition report13 (v : client_view) (fl : flight) : conn_state :=
  if (cv_ecdhe v =? 0) || (match cv_shares v with [] => true | _ => false end) then rep 0 0 []
  else
    let first := match f_hrr fl with Some h => h | None => f_sh fl end in
    match check_hello13 v None first with
    | inl _ => rep 0 0 []
    | inr suite0 =>
        let after_hrr :=
          match f_hrr fl with
          | None => inr (cv_shares v, cv_ecdhe v, suite0)
          | Some h =>
              match process_hrr v h with
              | inl _ => inl suite0
              | inr (shares, ecdhe) =>
                  match check_hello13 v (Some suite0) (f_sh fl) with
                  | inl _ => inl suite0
                  | inr s => inr (shares, ecdhe, s)
                  end
              end
          end in
        match after_hrr with
        | inl s => rep s 0 []
        | inr (shares, ecdhe, suite) =>
            match process_sh13 v shares suite (f_sh fl) with
            | inl _ => rep suite 0 []
            | inr psk =>
                match establish_keys ecdhe (cv_mlkem v) (h_share (f_sh fl)) with
                | Some _ => rep suite 0 []
                | None =>
                    if negb (f_crypto_ok fl) then rep suite (h_share (f_sh fl)) []
                    else if negb (check_alpn (cv_alpn v) (f_ee_alpn fl)) then rep suite (h_share (f_sh fl)) []
                    else rep suite (h_share (f_sh fl)) (f_ee_alpn fl)
                end
            end
        end
    end.

Definition report12 (e : env) (v : client_view) (h : hello_msg) (fl : flight) : conn_state :=
  if negb (memN (h_suite h) (cv_suites v) && memN (h_suite h) (e_impl12 e)) then rep 0 0 []
  else if negb (h_comp h =? 0) then rep (h_suite h) 0 []
  else if negb (check_alpn (cv_alpn v) (h_alpn h)) then rep (h_suite h) 0 []
  else
    match process_skx e v (h_suite h) (f_skx fl) with
    | Some _ => rep (h_suite h) 0 (h_alpn h)
    | None => rep (h_suite h) (match f_skx fl with Some c => c | None => 0 end) (h_alpn h)
    end.

Definition report_gen (e : env) (v : client_view) (fl : flight) : conn_state :=
  let first := match f_hrr fl with Some h => h | None => f_sh fl end in
  match pick_version v first with
  | None => rep 0 0 []
  | Some vers =>
      if negb (version_offered e v vers) then rep 0 0 []
      else if canary_abort e v vers first then rep 0 0 []
      else if vers =? V13 then report13 v fl
      else report12 e v first fl
  end.

(* What a ClientHelloSpec determines, STATICALLY, of the things the negotiation models (Model/Negotiate.v, Complete.v)
   look at: the supported_groups / key_share groups / supported_versions lists and the compress_certificate flag as
   ApplyPreset + ApplyConfig will put them into the client's view and on the wire (up to the two per-connection GREASE
   values that occur in them: the group slot [gg] and the version slot [gv]), the version bounds SetTLSVers derives, and
   the SHAPE of the private keys ApplyPreset retains (Model/KeyShare.v, repaired code).  Executable definitions only;
   proofs in Proofs/ParrotNegP.v (the real view and wire have these fields, for every randomness), ParrotNegS.v (shape of
   the retained keys for every crypto instance; invariance under the Chrome shuffle; the sweeps over Gen/Parrots.v). *)
From UV Require Import Base.Common Model.Wire Model.Ext.
From UV Require Model.Grease Model.Negotiate Model.KeyShare Model.Complete.
From UV Require Import Model.Preset Model.WriteToUConn.

(* "if isGREASEUint16(v) { v = GetBoringGREASEValue(seed, slot) }" with the slot value x *)
Definition sub (x v : N) : N := if Grease.is_grease v then x else v.

Definition s_curves (s : sext) : option (list N) := match s with SExt (ESupportedCurves l) => Some l | _ => None end.
Definition s_shares (s : sext) : option (list (N * bytes)) := match s with SExt (EKeyShare l) => Some l | _ => None end.
Definition s_versions (s : sext) : option (list N) := match s with SExt (ESupportedVersions l) => Some l | _ => None end.
Definition s_ccalgs (s : sext) : option (list N) := match s with SExt (ECompressCert l) => Some l | _ => None end.

Definition lastS {A} (get : sext -> option A) (ss : list sext) (init : A) : A :=
  fold_left (fun acc s => match get s with Some a => a | None => acc end) ss init.
Definition writers {A} (get : sext -> option A) (ss : list sext) : nat :=
  length (filter (fun s => match get s with Some _ => true | None => false end) ss).

(* ---- the shape of the keys ApplyPreset retains (KeyShare.step, fixed = true, on curves only) ---- *)
Record shst := mkShSt { ss_shape : KeyShare.kshape; ss_pref : bool }.
Definition shape_step (s : shst) (k : N * bytes) : shst :=
  let g := fst k in let sh := ss_shape s in
  if Negotiate.is_grease g then s
  else if 1 <? blen (snd k) then s
  else if Negotiate.hybrid g then
    mkShSt (KeyShare.mkShape (if KeyShare.sh_ecdhe sh =? 0 then 29 else KeyShare.sh_ecdhe sh) (KeyShare.sh_extra sh) true 29) (ss_pref s)
  else if negb (ss_pref s) then mkShSt (KeyShare.mkShape g (KeyShare.sh_extra sh) (KeyShare.sh_mlkem sh) (KeyShare.sh_mlkem_ecdhe sh)) true
  else mkShSt (KeyShare.mkShape (KeyShare.sh_ecdhe sh) (KeyShare.sh_extra sh ++ [g]) (KeyShare.sh_mlkem sh) (KeyShare.sh_mlkem_ecdhe sh)) true.
Definition static_shape (shares : list (N * bytes)) : KeyShare.kshape :=
  ss_shape (fold_left shape_step shares (mkShSt (KeyShare.mkShape 0 [] false 0) false)).

(* the spec's key shares as KeyShare.v sees them *)
Definition kshares_of (sp : spec) : list KeyShare.kshare :=
  map (fun k => KeyShare.mkKS (fst k) (snd k)) (lastS s_shares (sp_exts sp) []).

(* ---- the negotiation-relevant part of view and wire, for GREASE group value gg and GREASE version value gv ---- *)
Definition legacy_of (mx : N) : N := if 771 <? mx then 771 else mx.   (* Preset.hello_vers *)

Definition opt_versions (sp : spec) : option (list N) :=
  lastS (fun s => option_map Some (s_versions s)) (sp_exts sp) None.
Definition abs_curves (sp : spec) (gg : N) : list N := map (sub gg) (lastS s_curves (sp_exts sp) []).
Definition abs_shares (sp : spec) (gg : N) : list N := map (sub gg) (map fst (lastS s_shares (sp_exts sp) [])).
Definition abs_sv (sp : spec) (mn mx gv : N) : list N :=
  match opt_versions sp with
  | Some vs => map (sub gv) vs
  | None => filter (fun v => v <=? legacy_of mx) (cfg_versions mn mx false)
  end.
Definition has_sccert (sp : spec) : bool :=
  existsb (fun s => match s_ccalgs s with Some _ => true | None => false end) (sp_exts sp).

Definition abs_view (sp : spec) (mn mx gg gv : N) (ks : KeyShare.kshape) : Negotiate.client_view :=
  Negotiate.mkView [] (abs_curves sp gg) (abs_shares sp gg) [] [] 0 (lastS s_ccalgs (sp_exts sp) []) (has_sccert sp)
    mn mx false (KeyShare.sh_ecdhe ks) (KeyShare.sh_mlkem ks) (abs_sv sp mn mx gv) 0.
Definition abs_wire (sp : spec) (mn mx gg gv : N) : Negotiate.wire_view :=
  Negotiate.mkWire (legacy_of mx) [] [0] (abs_curves sp gg) (abs_shares sp gg) [] [] 0 (lastS s_ccalgs (sp_exts sp) [])
    (match opt_versions sp with Some _ => true | None => false end)
    (match opt_versions sp with Some vs => map (sub gv) vs | None => [] end).

(* Complete.spec_ok without [synced] (Proofs/ComposeP.compose_synced) and without the compress_certificate implication
   (follows from synced): the part that depends on the spec's lists, the version bounds and the retained keys only *)
Definition spec_rest (fixed : bool) (e : Negotiate.env) (v : Negotiate.client_view) (ks : KeyShare.kshape) (m : N)
                     (w : Negotiate.wire_view) : bool :=
  Complete.versions_ok e v m w && Complete.keys_ok fixed v ks
  && Bool.eqb (Negotiate.cv_mlkem v) (KeyShare.sh_mlkem ks) && negb (Negotiate.cv_ech v)
  && (Complete.is_nil (Negotiate.cv_shares v) || Negotiate.offers13 w)
  && implb (Negotiate.offers13 w) (negb (Complete.is_nil (Negotiate.cv_shares v))).

(* every hybrid group the hello lists comes with its key share (else a compliant server may ask for it in a
   HelloRetryRequest, which the client cannot answer: finding hrr-hybrid) *)
Definition hybrids_shared (curves shares : list N) : bool :=
  forallb (fun g => negb (Negotiate.hybrid g) || Negotiate.memN g shares) curves.

(* the 16 GREASE values *)
Definition grease16 : list N := map Grease.grease_val (nrange 16).

(* THE static condition of C10 on a spec: at most one extension of each consulted type, version bounds derivable, and for
   every pair of GREASE values the spec-dependent part of spec_ok holds with the keys ApplyPreset retains *)
Definition neg_static (sp : spec) : bool :=
  match set_tls_vers sp with
  | Ok (mn, mx) =>
      (mn <=? mx)
      && (writers s_curves (sp_exts sp) <=? 1)%nat && (writers s_shares (sp_exts sp) <=? 1)%nat
      && (writers s_versions (sp_exts sp) <=? 1)%nat && (writers s_ccalgs (sp_exts sp) <=? 1)%nat
      && let ks := static_shape (lastS s_shares (sp_exts sp) []) in
         forallb (fun gg => forallb (fun gv =>
            spec_rest true Negotiate.env_fixed (abs_view sp mn mx gg gv ks) ks mn (abs_wire sp mn mx gg gv)) grease16) grease16
  | _ => false
  end.
Definition hybrid_static (sp : spec) : bool :=
  forallb (fun gg => hybrids_shared (abs_curves sp gg) (abs_shares sp gg)) grease16.

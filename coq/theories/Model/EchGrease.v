(* C16 — model of GREASEEncryptedClientHelloExtension (u_ech.go:45-200) and cipherLen (u_hpke.go:28-35).
   Definitions only. Randomness is an input: every value the code takes from crypto/rand (or derives from
   it through hpke.SetupSender) is a field of [fresh]; each call of init receives the draws it WOULD make.
   Own byte helpers (no dependency on Model/Wire.v). *)
From UV Require Import Base.Common.
Open Scope N_scope.

(* ---- bytes ---- *)
Definition hi8 (x : N) : N := (x / 256) mod 256.        (* byte(x >> 8)   *)
Definition lo8 (x : N) : N := x mod 256.                (* byte(x & 0xFF) *)
Definition be16 (x : N) : bytes := [hi8 x; lo8 x].
Definition nlen {A} (l : list A) : N := N.of_nat (length l).

(* ---- constants: u_hpke.go:17-19, internal/hpke, u_common.go (utlsExtensionECH = 0xfe0d) ---- *)
Definition KDF_HKDF_SHA256 : N := 1.
Definition AEAD_AES_128_GCM : N := 1.
Definition AEAD_AES_256_GCM : N := 2.
Definition AEAD_ChaCha20Poly1305 : N := 3.
Definition defaultHpkeKdf : N := KDF_HKDF_SHA256.
Definition defaultHpkeAead : N := AEAD_AES_128_GCM.
Definition utlsExtensionECH : N := 65037.               (* 0xfe0d *)
Definition OuterClientHello : N := 0.
Definition P_invalid_aead : N := 16.                    (* panic("hpke: invalid AEAD identifier") *)
Definition E_short_buffer : N := 1.                     (* io.ErrShortBuffer *)

(* u_hpke.go:28-35 *)
Definition cipherLen (a : N) (mLen : N) : res N :=
  if (a =? AEAD_AES_128_GCM) || (a =? AEAD_AES_256_GCM) || (a =? AEAD_ChaCha20Poly1305)
  then Ok (mLen + 16) else Panic P_invalid_aead.

Definition suite := (N * N)%type.                       (* HPKESymmetricCipherSuite{KdfId, AeadId} *)

(* u_ech.go:45-57 *)
Record grease := mkGrease {
  CandidateCipherSuites : list suite;
  cipherSuite : suite;
  CandidateConfigIds : list N;
  configId : N;
  EncapsulatedKey : bytes;
  CandidatePayloadLens : list N;
  payload : bytes;
  init_done : bool                                      (* initOnce already ran *)
}.

(* what one run of init's body would draw *)
Record fresh := mkFresh {
  f_id_byte : N;                 (* rand.Read(b[:1])                                   u_ech.go:75-80 *)
  f_id_pick : N;                 (* rand.Int(rand.Reader, len(CandidateConfigIds))     83-88  *)
  f_suite_pick : N;              (* rand.Int(rand.Reader, len(CandidateCipherSuites))  99-104 *)
  f_enc : bytes;                 (* encapsulated key from hpke.SetupSender on a fresh ephemeral X25519 key  113-130 *)
  f_len_pick : N;                (* rand.Int(rand.Reader, len(CandidatePayloadLens))   139-143 *)
  f_rand : N -> bytes            (* rand.Read into a buffer of the given size          157-158 *)
}.

Definition nth_suite (l : list suite) (i : N) : suite := nth (N.to_nat i) l (0, 0).
Definition nth_N (l : list N) (i : N) : N := nth (N.to_nat i) l 0.
Definition is_nil {A} (l : list A) : bool := match l with [] => true | _ => false end.

(* u_ech.go:151-162 randomizePayload (the len(g.payload) != 0 refusal cannot trigger from init, which checks it) *)
Definition randomizePayload (g : grease) (f : fresh) (encodedHelloInnerLen : N) : res grease :=
  do n <- cipherLen (snd (cipherSuite g)) encodedHelloInnerLen;
  Ok (mkGrease (CandidateCipherSuites g) (cipherSuite g) (CandidateConfigIds g) (configId g) (EncapsulatedKey g)
               (CandidatePayloadLens g) (f_rand f n) (init_done g)).

(* u_ech.go:65-148: the body of initOnce.Do *)
Definition init_body (g : grease) (f : fresh) : res grease :=
  (* 72-89 config id *)
  let id := if is_nil (CandidateConfigIds g) then f_id_byte f else nth_N (CandidateConfigIds g) (f_id_pick f) in
  (* 91-110 cipher suite *)
  let cs := if is_nil (CandidateCipherSuites g) then (defaultHpkeKdf, defaultHpkeAead)
            else nth_suite (CandidateCipherSuites g) (f_suite_pick f) in
  (* 112-131 encapsulated key *)
  let enc := if is_nil (EncapsulatedKey g) then f_enc f else EncapsulatedKey g in
  let g1 := mkGrease (CandidateCipherSuites g) cs (CandidateConfigIds g) id enc (CandidatePayloadLens g) (payload g) (init_done g) in
  (* 133-146 payload *)
  if is_nil (payload g1) then
    let lens := if is_nil (CandidatePayloadLens g1) then [128] else CandidatePayloadLens g1 in      (* 134-136 *)
    let g2 := mkGrease (CandidateCipherSuites g1) (cipherSuite g1) (CandidateConfigIds g1) (configId g1) (EncapsulatedKey g1)
                       lens (payload g1) (init_done g1) in
    randomizePayload g2 f (nth_N lens (f_len_pick f))                                                (* 139-145 *)
  else Ok g1.

(* sync.Once: the body runs on the first call only *)
Definition init (g : grease) (f : fresh) : res grease :=
  if init_done g then Ok g
  else do g' <- init_body g f;
       Ok (mkGrease (CandidateCipherSuites g') (cipherSuite g') (CandidateConfigIds g') (configId g') (EncapsulatedKey g')
                    (CandidatePayloadLens g') (payload g') true).

(* u_ech.go:172-175 Len (calls init, ignores its error) *)
Definition ext_len_of (g : grease) : N :=
  2 + 2 + 1 + 4 + 1 + 2 + nlen (EncapsulatedKey g) + 2 + nlen (payload g).
Definition Len (g : grease) (f : fresh) : res (grease * N) :=
  do g' <- init g f; Ok (g', ext_len_of g').

(* u_ech.go:178-200 Read into a buffer of [buflen] bytes: the bytes written (the whole extension), or ErrShortBuffer *)
Definition ext_bytes (g : grease) : bytes :=
  let l := ext_len_of g in
  [hi8 utlsExtensionECH; lo8 utlsExtensionECH; hi8 (l - 4); lo8 (l - 4);
   OuterClientHello;
   hi8 (fst (cipherSuite g)); lo8 (fst (cipherSuite g)); hi8 (snd (cipherSuite g)); lo8 (snd (cipherSuite g));
   configId g;
   hi8 (nlen (EncapsulatedKey g)); lo8 (nlen (EncapsulatedKey g))]
  ++ EncapsulatedKey g
  ++ [hi8 (nlen (payload g)); lo8 (nlen (payload g))]
  ++ payload g.
Definition Read (g : grease) (f : fresh) (buflen : N) : res (grease * bytes) :=
  do g' <- init g f;
  if buflen <? ext_len_of g' then Err E_short_buffer else Ok (g', ext_bytes g').

(* any number of Len/Read calls on the same object, each with the draws it would make *)
Fixpoint reads (g : grease) (fs : list fresh) (buflen : N) : res (list bytes) :=
  match fs with
  | [] => Ok []
  | f :: fs' => do r <- Read g f buflen; do rest <- reads (fst r) fs' buflen; Ok (snd r :: rest)
  end.

(* ================= specification: a well-formed outer ECH extension body (RFC 9849 section 5) =================
   ECHClientHello { type = outer(0); HpkeSymmetricCipherSuite cipher_suite; uint8 config_id;
                    opaque enc<0..2^16-1>; opaque payload<1..2^16-1> } *)
Record outer_ech := mkOuter { o_kdf : N; o_aead : N; o_config_id : N; o_enc : bytes; o_payload : bytes }.

Definition rd16 (b : bytes) : option (N * bytes) :=
  match b with h :: l :: r => Some (h * 256 + l, r) | _ => None end.
Definition rd_vec16 (b : bytes) : option (bytes * bytes) :=
  match rd16 b with
  | Some (n, r) => if N.of_nat (length r) <? n then None else Some (firstn (N.to_nat n) r, skipn (N.to_nat n) r)
  | None => None
  end.
(* parse an extension body; None unless it is exactly one well-formed outer ECHClientHello *)
Definition parse_outer (body : bytes) : option outer_ech :=
  match body with
  | t :: r0 =>
    if negb (t =? 0) then None else
    match rd16 r0 with Some (kdf, r1) =>
    match rd16 r1 with Some (aead, r2) =>
    match r2 with id :: r3 =>
    match rd_vec16 r3 with Some (enc, r4) =>
    match rd_vec16 r4 with Some (pl, r5) =>
      if is_nil r5 && negb (is_nil pl) then Some (mkOuter kdf aead id enc pl) else None
    | None => None end | None => None end | [] => None end | None => None end | None => None end
  | [] => None
  end.
(* an extension: type, u16 length, body *)
Definition parse_ext (e : bytes) : option (N * bytes) :=
  match rd16 e with
  | Some (t, r) => match rd_vec16 r with Some (body, []) => Some (t, body) | _ => None end
  | None => None
  end.

Definition suite_eqb (a b : suite) : bool := (fst a =? fst b) && (snd a =? snd b).
Definition candidates_or_default (l : list suite) : list suite :=
  if is_nil l then [(defaultHpkeKdf, defaultHpkeAead)] else l.
Definition lens_or_default (l : list N) : list N := if is_nil l then [128] else l.

(* the property's oracle on extension bytes, for given candidate lists *)
Definition wf_grease_ext (cands : list suite) (lens : list N) (e : bytes) : bool :=
  match parse_ext e with
  | Some (t, body) =>
    (t =? utlsExtensionECH) &&
    match parse_outer body with
    | Some o =>
        existsb (suite_eqb (o_kdf o, o_aead o)) (candidates_or_default cands) &&
        (nlen (o_enc o) =? 32) &&
        existsb (fun c => nlen (o_payload o) =? c + 16) (lens_or_default lens)
    | None => false
    end
  | None => false
  end.

//go:build verif

// Test equipment for property C31 (public/private view conversions). Add-only;
// exports the unexported conversion functions and private struct types of
// u_public.go / handshake_messages.go as `any`-typed wrappers so that an
// external harness can drive them by reflection.
package tls

import (
	"crypto"
	"crypto/ecdh"
	"crypto/mlkem"
	"crypto/rand"
	"crypto/sha256"
	"hash"
	"reflect"
)

// VerifC31Pair describes one public/private conversion pair.
type VerifC31Pair struct {
	Name    string
	Pub     reflect.Type      // public struct type
	Priv    reflect.Type      // private struct type
	NewPub  func() any        // pointer to a zero public struct
	NewPriv func() any        // pointer to a zero private struct
	ToPriv  func(pub any) any // public pointer -> private pointer (conversion under test)
	ToPub   func(priv any) any
	NilPub  func() any // typed nil public pointer (nil for value receivers)
	NilPriv func() any
}

func VerifC31Pairs() []VerifC31Pair {
	return []VerifC31Pair{
		{Name: "ClientHello", Pub: reflect.TypeOf(PubClientHelloMsg{}), Priv: reflect.TypeOf(clientHelloMsg{}),
			NewPub: func() any { return &PubClientHelloMsg{} }, NewPriv: func() any { return &clientHelloMsg{} },
			ToPriv: func(p any) any { return p.(*PubClientHelloMsg).getPrivatePtr() },
			ToPub:  func(p any) any { return p.(*clientHelloMsg).getPublicPtr() },
			NilPub: func() any { return (*PubClientHelloMsg)(nil) }, NilPriv: func() any { return (*clientHelloMsg)(nil) }},
		{Name: "ServerHello", Pub: reflect.TypeOf(PubServerHelloMsg{}), Priv: reflect.TypeOf(serverHelloMsg{}),
			NewPub: func() any { return &PubServerHelloMsg{} }, NewPriv: func() any { return &serverHelloMsg{} },
			ToPriv: func(p any) any { return p.(*PubServerHelloMsg).getPrivatePtr() },
			ToPub:  func(p any) any { return p.(*serverHelloMsg).getPublicPtr() },
			NilPub: func() any { return (*PubServerHelloMsg)(nil) }, NilPriv: func() any { return (*serverHelloMsg)(nil) }},
		{Name: "CertReq13", Pub: reflect.TypeOf(CertificateRequestMsgTLS13{}), Priv: reflect.TypeOf(certificateRequestMsgTLS13{}),
			NewPub: func() any { return &CertificateRequestMsgTLS13{} }, NewPriv: func() any { return &certificateRequestMsgTLS13{} },
			ToPriv: func(p any) any { return p.(*CertificateRequestMsgTLS13).toPrivate() },
			ToPub:  func(p any) any { return p.(*certificateRequestMsgTLS13).toPublic() },
			NilPub: func() any { return (*CertificateRequestMsgTLS13)(nil) }, NilPriv: func() any { return (*certificateRequestMsgTLS13)(nil) }},
		{Name: "KeyShare", Pub: reflect.TypeOf(KeyShare{}), Priv: reflect.TypeOf(keyShare{}),
			NewPub: func() any { return &KeyShare{} }, NewPriv: func() any { return &keyShare{} },
			ToPriv: func(p any) any { r := KeyShares([]KeyShare{*p.(*KeyShare)}).ToPrivate(); return &r[0] },
			ToPub:  func(p any) any { r := keyShares([]keyShare{*p.(*keyShare)}).ToPublic(); return &r[0] }},
		{Name: "PskIdentity", Pub: reflect.TypeOf(PskIdentity{}), Priv: reflect.TypeOf(pskIdentity{}),
			NewPub: func() any { return &PskIdentity{} }, NewPriv: func() any { return &pskIdentity{} },
			ToPriv: func(p any) any { r := PskIdentities([]PskIdentity{*p.(*PskIdentity)}).ToPrivate(); return &r[0] },
			ToPub:  func(p any) any { r := pskIdentities([]pskIdentity{*p.(*pskIdentity)}).ToPublic(); return &r[0] }},
		{Name: "TicketKey", Pub: reflect.TypeOf(TicketKey{}), Priv: reflect.TypeOf(ticketKey{}),
			NewPub: func() any { return &TicketKey{} }, NewPriv: func() any { return &ticketKey{} },
			ToPriv: func(p any) any { r := p.(*TicketKey).ToPrivate(); return &r },
			ToPub:  func(p any) any { r := p.(*ticketKey).ToPublic(); return &r }},
		{Name: "KeySharePrivateKeys", Pub: reflect.TypeOf(KeySharePrivateKeys{}), Priv: reflect.TypeOf(keySharePrivateKeys{}),
			NewPub: func() any { return &KeySharePrivateKeys{} }, NewPriv: func() any { return &keySharePrivateKeys{} },
			ToPriv: func(p any) any { return p.(*KeySharePrivateKeys).ToPrivate() },
			ToPub:  func(p any) any { return p.(*keySharePrivateKeys).ToPublic() },
			NilPub: func() any { return (*KeySharePrivateKeys)(nil) }, NilPriv: func() any { return (*keySharePrivateKeys)(nil) }},
		{Name: "KemPrivateKey", Pub: reflect.TypeOf(KemPrivateKey{}), Priv: reflect.TypeOf(kemPrivateKey{}),
			NewPub: func() any { return &KemPrivateKey{} }, NewPriv: func() any { return &kemPrivateKey{} },
			ToPriv: func(p any) any { return p.(*KemPrivateKey).ToPrivate() },
			ToPub:  func(p any) any { return p.(*kemPrivateKey).ToPublic() },
			NilPub: func() any { return (*KemPrivateKey)(nil) }, NilPriv: func() any { return (*kemPrivateKey)(nil) }},
		{Name: "CipherSuiteTLS13", Pub: reflect.TypeOf(PubCipherSuiteTLS13{}), Priv: reflect.TypeOf(cipherSuiteTLS13{}),
			NewPub: func() any { return &PubCipherSuiteTLS13{} }, NewPriv: func() any { return &cipherSuiteTLS13{} },
			ToPriv: func(p any) any { return p.(*PubCipherSuiteTLS13).toPrivate() },
			ToPub:  func(p any) any { return p.(*cipherSuiteTLS13).toPublic() },
			NilPub: func() any { return (*PubCipherSuiteTLS13)(nil) }, NilPriv: func() any { return (*cipherSuiteTLS13)(nil) }},
		{Name: "CipherSuite", Pub: reflect.TypeOf(PubCipherSuite{}), Priv: reflect.TypeOf(cipherSuite{}),
			NewPub: func() any { return &PubCipherSuite{} }, NewPriv: func() any { return &cipherSuite{} },
			ToPriv: func(p any) any { return p.(*PubCipherSuite).getPrivatePtr() },
			ToPub:  func(p any) any { r := p.(*cipherSuite).getPublicObj(); return &r },
			NilPub: func() any { return (*PubCipherSuite)(nil) }, NilPriv: func() any { return (*cipherSuite)(nil) }},
		{Name: "FinishedHash", Pub: reflect.TypeOf(FinishedHash{}), Priv: reflect.TypeOf(finishedHash{}),
			NewPub: func() any { return &FinishedHash{} }, NewPriv: func() any { return &finishedHash{} },
			ToPriv: func(p any) any { r := p.(*FinishedHash).getPrivateObj(); return &r },
			ToPub:  func(p any) any { r := p.(*finishedHash).getPublicObj(); return &r }},
	}
}

// Slice-level conversions (nil-ness and element order are part of what is observed).
func VerifC31KeySharesRoundTrip(in []KeyShare) []KeyShare {
	return keyShares(KeyShares(in).ToPrivate()).ToPublic()
}
func VerifC31PskIdentitiesRoundTrip(in []PskIdentity) []PskIdentity {
	return pskIdentities(PskIdentities(in).ToPrivate()).ToPublic()
}
func VerifC31TicketKeysRoundTrip(in []TicketKey) []TicketKey {
	return ticketKeys(TicketKeys(in).ToPrivate()).ToPublic()
}

// One-way slice conversions; the private slice travels as `any`.
func VerifC31KeySharesToPrivate(in []KeyShare) any        { return KeyShares(in).ToPrivate() }
func VerifC31KeySharesToPublic(in any) []KeyShare         { return keyShares(in.([]keyShare)).ToPublic() }
func VerifC31PskIdentitiesToPrivate(in []PskIdentity) any { return PskIdentities(in).ToPrivate() }
func VerifC31PskIdentitiesToPublic(in any) []PskIdentity {
	return pskIdentities(in.([]pskIdentity)).ToPublic()
}
func VerifC31TicketKeysToPrivate(in []TicketKey) any { return TicketKeys(in).ToPrivate() }
func VerifC31TicketKeysToPublic(in any) []TicketKey  { return ticketKeys(in.([]ticketKey)).ToPublic() }

// VerifC31SuiteTables returns COPIES of the entries of the package's cipher-suite tables, as pointers to the private
// structs (cipherSuitesTLS13, cipherSuites), so that a harness can build views of real suites.
func VerifC31SuiteTables() (tls13 []any, tls12 []any) {
	for _, s := range cipherSuitesTLS13 {
		cp := *s
		tls13 = append(tls13, &cp)
	}
	for _, s := range cipherSuites {
		cp := *s
		tls12 = append(tls12, &cp)
	}
	return
}

// VerifC31Pool: sample values for field types that cannot be invented by reflection
// (funcs, interfaces, pointers to foreign key types). The harness picks, per field, a pool
// value assignable to the field's type.
func VerifC31Pool() []any {
	var pool []any
	for _, s := range cipherSuites {
		if s.ka != nil {
			pool = append(pool, s.ka)
		}
		if s.cipher != nil {
			pool = append(pool, s.cipher)
		}
		if s.mac != nil {
			pool = append(pool, s.mac)
		}
		if s.aead != nil {
			pool = append(pool, s.aead)
		}
	}
	for _, s := range cipherSuitesTLS13 {
		pool = append(pool, s.aead)
	}
	pool = append(pool, hash.Hash(sha256.New()), hash.Hash(sha256.New()), hash.Hash(crypto.SHA384.New()))
	pool = append(pool, prfFunc(prf12(sha256.New)), prfFunc(prf10))
	pool = append(pool, prfFuncOld(func(result, secret, label, seed []byte) {}))
	for i := 0; i < 3; i++ {
		k, _ := ecdh.X25519().GenerateKey(rand.Reader)
		pool = append(pool, k)
	}
	k2, _ := ecdh.P256().GenerateKey(rand.Reader)
	pool = append(pool, k2)
	for i := 0; i < 2; i++ {
		d, _ := mlkem.GenerateKey768()
		pool = append(pool, d)
	}
	return pool
}

// ---- ClientHello codec entry points (handshake_messages.go) ----

// VerifC31MarshalMsg: clientHelloMsg.marshalMsg(false) of the private form of p, ignoring Raw.
func VerifC31MarshalMsg(p *PubClientHelloMsg) ([]byte, error) {
	return p.getPrivatePtr().marshalMsg(false)
}

// VerifC31Extensions: the private-only `extensions` list recorded by unmarshal.
func VerifC31Extensions(data []byte) ([]uint16, bool) {
	m := &clientHelloMsg{}
	ok := m.unmarshal(data)
	return m.extensions, ok
}

// VerifC31SetECH sets the unexported encryptedClientHello field of the public view.
func VerifC31SetECH(p *PubClientHelloMsg, ech []byte) { p.encryptedClientHello = ech }
func VerifC31GetECH(p *PubClientHelloMsg) []byte      { return p.encryptedClientHello }

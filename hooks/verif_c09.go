//go:build verif

// Accessors used only by the /verif C09 correspondence harness (randomized
// fingerprints). Compiled only with -tags verif; adds no behaviour.

package tls

import (
	_ "embed"
	"regexp"
	"strings"
)

//go:embed u_parrots.go
var verifParrotsSrc string

// VerifC09WeightRefs lists, in source order, the id.Weights.X fields the body of generateRandomizedSpec
// mentions, and counts the FlipWeightedCoin calls in that body (the harness compares both with the
// coin table of the Coq model, so a new coin without a table row is noticed).
func VerifC09WeightRefs() (fields []string, flipCalls int) {
	i := strings.Index(verifParrotsSrc, "\nfunc generateRandomizedSpec(")
	if i < 0 {
		return nil, -1
	}
	body := verifParrotsSrc[i+1:]
	if j := strings.Index(body, "\nfunc "); j >= 0 {
		body = body[:j]
	}
	for _, m := range regexp.MustCompile(`id\.Weights\.(\w+)`).FindAllStringSubmatch(body, -1) {
		fields = append(fields, m[1])
	}
	return fields, strings.Count(body, "FlipWeightedCoin(")
}

// VerifGenerateRandomizedSpec calls the unexported generateRandomizedSpec with
// an explicit ClientHelloID (client string, seed, weights), server name and
// NextProtos. weights == nil exercises the DefaultWeights fallback.
func VerifGenerateRandomizedSpec(client string, seed *PRNGSeed, weights *Weights, serverName string, nextProtos []string) (ClientHelloSpec, error) {
	id := ClientHelloID{Client: client, Version: helloAutoVers, Seed: seed, Weights: weights}
	return generateRandomizedSpec(&id, serverName, nextProtos)
}

// VerifGenerateRandomizedSpecID calls generateRandomizedSpec on the CALLER's ClientHelloID object (the way
// uconn.generateRandomizedSpec passes &uconn.ClientHelloID), so the harness can build twice from one id / one
// *PRNGSeed and see whether a build changed its inputs.
func VerifGenerateRandomizedSpecID(id *ClientHelloID, serverName string, nextProtos []string) (ClientHelloSpec, error) {
	return generateRandomizedSpec(id, serverName, nextProtos)
}

// VerifSuiteRow is one row of the cipherSuites table as shuffledCiphers reads it.
type VerifSuiteRow struct {
	ID    uint16
	TLS12 bool // flags&suiteTLS12 != 0
}

// VerifCipherSuiteRows dumps cipherSuites (id, suiteTLS12 flag) in table order.
func VerifCipherSuiteRows() []VerifSuiteRow {
	out := make([]VerifSuiteRow, len(cipherSuites))
	for i, s := range cipherSuites {
		out[i] = VerifSuiteRow{s.id, s.flags&suiteTLS12 != 0}
	}
	return out
}

// VerifDefaultCipherSuitesTLS13 returns a copy of defaultCipherSuitesTLS13.
func VerifDefaultCipherSuitesTLS13() []uint16 {
	return append([]uint16(nil), defaultCipherSuitesTLS13...)
}

// VerifC09Consts returns the unexported constants generateRandomizedSpec uses.
func VerifC09Consts() (pskDHE uint8, pointUncompressed uint8) {
	return pskModeDHE, pointFormatUncompressed
}

// VerifRemoveRandomCiphers / VerifRemoveRC4Ciphers / VerifShuffledCiphers expose
// the helpers for direct cases (seeded prng).
func VerifRemoveRandomCiphers(seed *PRNGSeed, s []uint16, w float64) []uint16 {
	r, _ := newPRNGWithSeed(seed)
	return removeRandomCiphers(r, s, w)
}

func VerifRemoveRC4Ciphers(s []uint16) []uint16 { return removeRC4Ciphers(s) }

func VerifShuffledCiphers(seed *PRNGSeed) ([]uint16, error) {
	r, _ := newPRNGWithSeed(seed)
	return shuffledCiphers(r)
}

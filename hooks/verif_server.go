//go:build verif

// Scripted TLS 1.3 / 1.2 / 1.1 / 1.0 server for the /verif harness (shared test
// equipment: C10-C13, C17, C18, C21, C22, C33). Compiled only with -tags verif;
// adds no behaviour to the library and edits no existing file.
//
// The server is assembled from the existing unexported server sub-steps
// (serverHandshakeStateTLS13.processClientHello / checkForResumption /
// pickCertificate / readClientCertificate / readClientFinished / sendSessionTickets,
// serverHandshakeState.processClientHello / pickCipherSuite / establishKeys /
// readFinished / sendSessionTicket). The *sending* steps (sendServerParameters,
// sendServerCertificate, sendServerFinished, the HelloRetryRequest, the TLS 1.2
// doFullHandshake flight and sendFinished) are re-stated here line by line so that
// every outgoing handshake message passes through one choke point (verifServer.send)
// where VerifServerScript.MutateHandshakeMsg is applied before the bytes enter the
// transcript and the record layer.
//
// How an override is realised ("what a hostile server would do"):
//   - a forced value the library implements (a real suite, a real group, a real
//     TLS 1.2 curve, a real version) is made the *honest* choice by handing the
//     honest sub-steps a doctored view of the parsed ClientHello (the raw bytes,
//     hence the transcript, are untouched). Missing client material is fabricated
//     (e.g. a client key share for a group the client sent none for). The flight is
//     then fully consistent (transcript, signature, Finished), so a client that
//     fails to compare the value with what it offered COMPLETES the handshake.
//   - a forced value nobody implements (GREASE, a TLS 1.3 suite in a TLS 1.2
//     ServerHello, an unknown group) is written over the field of the otherwise
//     honest message just before it is sent; everything else stays consistent.
//
// Install with VerifScriptedServer(conn, cfg, script); then call Handshake().
// Not supported: QUIC, ECH (the outer hello is answered as a plain hello),
// TLS 1.2 session resumption under overrides (honest resumption path is used when
// the client presents a valid ticket).

package tls

import (
	"bytes"
	"compress/zlib"
	"context"
	"crypto"
	"crypto/mlkem"
	"crypto/rsa"
	"errors"
	"fmt"
	"hash"
	"io"
	"net"

	"github.com/andybalholm/brotli"
	"github.com/klauspost/compress/zstd"
	"github.com/refraction-networking/utls/internal/byteorder"
	"github.com/refraction-networking/utls/internal/tls13"
)

// VerifServerScript: optional overrides; the zero value is an honest server.
type VerifServerScript struct {
	// ---- protocol version (C13) ----
	// ForceVersion: negotiate exactly this version (VersionTLS10..VersionTLS13) whatever
	// the ClientHello advertises; missing TLS 1.3 client material is fabricated.
	ForceVersion uint16
	// LegacyVersionOnly: behave like a pre-1.3 server that ignores supported_versions and
	// negotiates min(ClientHello.legacy_version, Config max), not below Config min.
	LegacyVersionOnly bool
	// Canary: "" = the library's own rule (sentinel iff negotiated < server max);
	// "none" = random tail; "tls12" / "tls11" = force that sentinel into ServerHello.random[24:].
	Canary string
	// Raw overwrites of the two ServerHello version fields (applied last; also to a HRR).
	HelloLegacyVersion    *uint16
	HelloSupportedVersion *uint16 // 0 removes the supported_versions extension

	// ---- selections (C12) ----
	Suite             uint16  // ServerHello.cipher_suite (TLS 1.3 and <=1.2)
	Group             CurveID // TLS 1.3 ServerHello key_share group
	CompressionMethod uint8   // ServerHello.legacy_compression_method (non-zero = forced)
	SelectedIdentity  *uint16 // TLS 1.3 pre_shared_key selected_identity (forced present)
	SessionID         []byte  // non-nil: sent instead of the echo of ClientHello.legacy_session_id
	ALPN              string  // EncryptedExtensions (1.3) / ServerHello (<=1.2) ALPN protocol
	SKXCurve          CurveID // TLS <=1.2 ECDHE ServerKeyExchange named curve

	// ---- HelloRetryRequest (C12, C17) ----
	ForceHRR  bool    // send a HRR first even if a usable share is present
	HRRGroup  CurveID // key_share selected_group in the HRR (0 = none); implies a HRR
	HRRCookie []byte  // cookie extension in the HRR; non-nil implies a HRR
	HRRSuite  uint16  // cipher suite field of the HRR only (0 = same as the ServerHello)
	// OverridesAfterHRROnly: the HelloRetryRequest is sent honest (only HRRGroup/HRRCookie/HRRSuite apply to it);
	// Suite, CompressionMethod, SessionID and the raw version fields are applied to the ServerHello that follows.
	OverridesAfterHRROnly bool

	// ---- certificate compression (C12, C21) ----
	CertCompression     uint16  // non-zero: send CompressedCertificate with this algorithm id
	CompressedCert      []byte  // optional pre-compressed payload (else computed for zlib(1)/brotli(2)/zstd(3); other ids: raw copy)
	CompressedCertULen  *uint32 // optional override of the declared uncompressed_length

	// ---- ALPS / EncryptedExtensions (C22) ----
	ALPSCodepoint            uint16 // non-zero: add application_settings(codepoint) = ALPSData to EncryptedExtensions
	ALPSData                 []byte
	ExtraEncryptedExtensions []byte // raw extensions appended to the EncryptedExtensions extension block
	ReadClientEE             bool   // expect a client EncryptedExtensions message before the client Finished

	// ---- robustness (C33) ----
	// MutateHandshakeMsg, if set, sees every outgoing handshake message (type, full plaintext
	// including the 4-byte header) before it enters the transcript and the record layer and
	// returns the bytes to use instead. NewSessionTicket messages and an honest HRR issued
	// inside processClientHello do not pass through it.
	MutateHandshakeMsg func(typ uint8, plaintext []byte) []byte

	// OnClientHello, if set, is called with the raw first ClientHello handshake message before
	// any decision is taken; it may fill in the other fields of the script (e.g. pick a value
	// from the complement of what this very hello offers - GREASE values differ per connection).
	OnClientHello func(raw []byte)

	// ---- observations (filled in by the server) ----
	Trace VerifServerTrace
}

type VerifServerTrace struct {
	ClientHellos [][]byte // raw ClientHello handshake messages (1, or 2 after a HRR)
	Sent         []uint8  // handshake message types sent through the choke point, in order
	Version      uint16   // version the server acted at
	Suite        uint16   // suite the server really keyed with
	Group        CurveID  // group / curve the server really keyed with
	SentHRR      bool
	HonestHRR    bool    // the HelloRetryRequest was issued by the library's processClientHello (no usable share), not by the script
	HRRGroup     CurveID // key_share selected_group of the HelloRetryRequest as sent
	DerivedShare bool   // the client share for a forced X25519 was taken from the classical half of the hello's hybrid share
	HRRSuite     uint16 // cipher suite field of the HelloRetryRequest as sent
	ServerRandom []byte // ServerHello.random as sent (downgrade sentinel in the last 8 bytes)
	HelloVers    uint16 // ServerHello.legacy_version as sent
	HelloSV      uint16 // ServerHello supported_versions as sent (0 = extension absent)
	ClientEE     []byte // raw client EncryptedExtensions message, if ReadClientEE
	Err          error  // handshake error on the server side
}

// VerifScriptedServer returns a server-side Conn whose handshake follows script.
func VerifScriptedServer(conn net.Conn, cfg *Config, script *VerifServerScript) *Conn {
	if script == nil {
		script = &VerifServerScript{}
	}
	c := &Conn{conn: conn, config: cfg}
	v := &verifServer{c: c, s: script}
	c.handshakeFn = v.handshake
	return c
}

type verifRawMsg struct{ raw []byte }

func (m *verifRawMsg) marshal() ([]byte, error) { return m.raw, nil }
func (m *verifRawMsg) unmarshal(b []byte) bool  { m.raw = b; return true }

type verifServer struct {
	c   *Conn
	s   *VerifServerScript
	ctx context.Context
}

// send is the choke point for outgoing handshake messages.
func (v *verifServer) send(msg handshakeMessage, transcript transcriptHash) error {
	data, err := msg.marshal()
	if err != nil {
		return err
	}
	if v.s.MutateHandshakeMsg != nil && len(data) > 0 {
		data = v.s.MutateHandshakeMsg(data[0], append([]byte(nil), data...))
	}
	if len(data) > 0 {
		v.s.Trace.Sent = append(v.s.Trace.Sent, data[0])
	}
	_, err = v.c.writeHandshakeRecord(&verifRawMsg{data}, transcript)
	return err
}

func (v *verifServer) handshake(ctx context.Context) (err error) {
	defer func() { v.s.Trace.Err = err }()
	c, s := v.c, v.s
	v.ctx = ctx
	msg, err := c.readHandshake(nil)
	if err != nil {
		return err
	}
	ch, ok := msg.(*clientHelloMsg)
	if !ok {
		c.sendAlert(alertUnexpectedMessage)
		return unexpectedMessageError(ch, msg)
	}
	s.Trace.ClientHellos = append(s.Trace.ClientHellos, append([]byte(nil), ch.original...))
	c.ticketKeys = c.config.ticketKeys(nil)
	if s.OnClientHello != nil {
		s.OnClientHello(s.Trace.ClientHellos[0])
	}

	// version selection (handshake_server.go:170-181, scripted)
	switch {
	case s.ForceVersion != 0:
		c.vers = s.ForceVersion
	case s.LegacyVersionOnly:
		vs := c.config.supportedVersions(roleServer)
		c.vers = 0
		for _, sv := range vs { // descending
			if sv <= ch.vers && sv <= VersionTLS12 {
				c.vers = sv
				break
			}
		}
		if c.vers == 0 {
			c.sendAlert(alertProtocolVersion)
			return fmt.Errorf("tls: verif server: no version at or below legacy_version %x", ch.vers)
		}
	default:
		clientVersions := ch.supportedVersions
		if len(clientVersions) == 0 {
			clientVersions = supportedVersionsFromMax(ch.vers)
		}
		c.vers, ok = c.config.mutualVersion(roleServer, clientVersions)
		if !ok {
			c.sendAlert(alertProtocolVersion)
			return fmt.Errorf("tls: client offered only unsupported versions: %x", clientVersions)
		}
	}
	c.haveVers = true
	c.in.version = c.vers
	c.out.version = c.vers
	s.Trace.Version = c.vers

	if c.vers == VersionTLS13 {
		return v.handshake13(ch)
	}
	return v.handshake12(ch)
}

func verifImplGroup13(g CurveID) bool {
	if g == X25519MLKEM768 {
		return true
	}
	_, ok := curveForCurveID(g)
	return ok
}

// verifClassicalHalf: the X25519 half of a hybrid key share of the hello, as a plain X25519 share.
func verifClassicalHalf(shares []keyShare, g CurveID) (keyShare, bool) {
	if g != X25519 {
		return keyShare{}, false
	}
	for _, ks := range shares {
		if ks.group == X25519MLKEM768 && len(ks.data) == mlkem.EncapsulationKeySize768+x25519PublicKeySize {
			return keyShare{group: X25519, data: ks.data[mlkem.EncapsulationKeySize768:]}, true
		}
		if ks.group == X25519Kyber768Draft00 && len(ks.data) == x25519PublicKeySize+mlkem.EncapsulationKeySize768 {
			return keyShare{group: X25519, data: ks.data[:x25519PublicKeySize]}, true
		}
	}
	return keyShare{}, false
}

// fabricateShare: a client key share for group g made up by the server (the client sent none).
func verifFabricateShare(rand io.Reader, g CurveID) (keyShare, error) {
	if g == X25519MLKEM768 {
		dk, err := mlkem.GenerateKey768()
		if err != nil {
			return keyShare{}, err
		}
		k, err := generateECDHEKey(rand, X25519)
		if err != nil {
			return keyShare{}, err
		}
		return keyShare{group: g, data: append(dk.EncapsulationKey().Bytes(), k.PublicKey().Bytes()...)}, nil
	}
	k, err := generateECDHEKey(rand, g)
	if err != nil {
		return keyShare{}, err
	}
	return keyShare{group: g, data: k.PublicKey().Bytes()}, nil
}

// doctor13 returns the view of the ClientHello handed to the honest TLS 1.3 sub-steps.
func (v *verifServer) doctor13(ch *clientHelloMsg, pinSuite uint16, afterHRR bool) (*clientHelloMsg, error) {
	s := v.s
	view := *ch // .original is kept: transcript and binders use the real bytes
	if pinSuite != 0 {
		view.cipherSuites = []uint16{pinSuite}
	} else if cipherSuiteTLS13ByID(s.Suite) != nil {
		view.cipherSuites = []uint16{s.Suite}
	}
	if s.ForceVersion == VersionTLS13 {
		// material a hello that did not offer TLS 1.3 lacks
		if len(view.supportedVersions) == 0 {
			view.supportedVersions = []uint16{VersionTLS13}
		}
		has13 := false
		for _, id := range view.cipherSuites {
			if cipherSuiteTLS13ByID(id) != nil {
				has13 = true
			}
		}
		if !has13 {
			view.cipherSuites = []uint16{TLS_AES_128_GCM_SHA256}
		}
		view.compressionMethods = []uint8{compressionNone}
		if len(view.supportedSignatureAlgorithms) == 0 {
			view.supportedSignatureAlgorithms = supportedSignatureAlgorithms()
		}
		view.secureRenegotiation = nil
		if len(view.keyShares) == 0 && s.Group == 0 {
			view.supportedCurves = []CurveID{X25519}
			ks, err := verifFabricateShare(v.c.config.rand(), X25519)
			if err != nil {
				return nil, err
			}
			view.keyShares = []keyShare{ks}
		}
	}
	g := s.Group
	if afterHRR && (g == 0 || !verifImplGroup13(g)) {
		// answer with the share the HRR asked for (a forced group nobody implements is written over it later)
		g = s.HRRGroup
	}
	if g != 0 && verifImplGroup13(g) {
		view.supportedCurves = []CurveID{g}
		found := false
		for _, ks := range view.keyShares {
			if ks.group == g {
				found = true
			}
		}
		if !found {
			// a hostile server needs a client share for g: if the hello carries a hybrid share, its classical half IS a
			// genuine X25519 public key of the client (the handshake then is fully consistent); otherwise make one up
			ks, derived := verifClassicalHalf(view.keyShares, g)
			if !derived {
				var err error
				ks, err = verifFabricateShare(v.c.config.rand(), g)
				if err != nil {
					return nil, err
				}
			}
			s.Trace.DerivedShare = derived
			view.keyShares = append(append([]keyShare(nil), view.keyShares...), ks)
		}
	}
	return &view, nil
}

// overrideHello13 applies the raw field overwrites to a ServerHello or HRR.
func (v *verifServer) overrideHello(h *serverHelloMsg, hrr bool) {
	s := v.s
	if s.Suite != 0 {
		h.cipherSuite = s.Suite
	}
	if hrr && s.HRRSuite != 0 {
		h.cipherSuite = s.HRRSuite
	}
	if s.CompressionMethod != 0 {
		h.compressionMethod = s.CompressionMethod
	}
	if s.SessionID != nil {
		h.sessionId = s.SessionID
	}
	if !hrr {
		if s.Group != 0 && h.serverShare.group != 0 {
			h.serverShare.group = s.Group
		}
		if s.SelectedIdentity != nil {
			h.selectedIdentityPresent = true
			h.selectedIdentity = *s.SelectedIdentity
		}
		switch s.Canary {
		case "tls12":
			copy(h.random[24:], downgradeCanaryTLS12)
		case "tls11":
			copy(h.random[24:], downgradeCanaryTLS11)
		case "none":
			io.ReadFull(v.c.config.rand(), h.random[24:])
			if string(h.random[24:31]) == downgradeCanaryTLS12[:7] {
				h.random[24] ^= 0x55
			}
		}
	}
	if s.HelloLegacyVersion != nil {
		h.vers = *s.HelloLegacyVersion
	}
	if s.HelloSupportedVersion != nil {
		h.supportedVersion = *s.HelloSupportedVersion
	}
	if hrr {
		s.Trace.HRRSuite = h.cipherSuite
	} else {
		s.Trace.ServerRandom = append([]byte(nil), h.random...)
	}
	if !hrr || s.Trace.HelloVers == 0 {
		s.Trace.HelloVers, s.Trace.HelloSV = h.vers, h.supportedVersion
	}
}

func (v *verifServer) handshake13(ch *clientHelloMsg) error {
	c, s := v.c, v.s
	view, err := v.doctor13(ch, 0, false)
	if err != nil {
		return err
	}
	hs := &serverHandshakeStateTLS13{c: c, ctx: v.ctx, clientHello: view}

	var hrrTranscript hash.Hash
	if s.ForceHRR || s.HRRGroup != 0 || s.HRRCookie != nil {
		// handshake_server_tls13.go:205-224 (suite) + 551-600 (doHelloRetryRequest), scripted
		preferenceList := defaultCipherSuitesTLS13
		if !hasAESGCMHardwareSupport || !aesgcmPreferred(view.cipherSuites) {
			preferenceList = defaultCipherSuitesTLS13NoAES
		}
		var suite *cipherSuiteTLS13
		for _, id := range preferenceList {
			if suite = mutualCipherSuiteTLS13(view.cipherSuites, id); suite != nil {
				break
			}
		}
		if suite == nil {
			c.sendAlert(alertHandshakeFailure)
			return errors.New("tls: no cipher suite supported by both client and server")
		}
		tr := suite.hash.New()
		tr.Write(ch.original)
		chHash := tr.Sum(nil)
		tr.Reset()
		tr.Write([]byte{typeMessageHash, 0, 0, uint8(len(chHash))})
		tr.Write(chHash)
		hrr := &serverHelloMsg{
			vers:              VersionTLS12,
			random:            helloRetryRequestRandom,
			sessionId:         ch.sessionId,
			cipherSuite:       suite.id,
			compressionMethod: compressionNone,
			supportedVersion:  VersionTLS13,
			selectedGroup:     s.HRRGroup,
			cookie:            s.HRRCookie,
		}
		if s.OverridesAfterHRROnly {
			if s.HRRSuite != 0 {
				hrr.cipherSuite = s.HRRSuite
			}
			s.Trace.HRRSuite = hrr.cipherSuite
			s.Trace.HelloVers, s.Trace.HelloSV = hrr.vers, hrr.supportedVersion
		} else {
			v.overrideHello(hrr, true)
		}
		if err := v.send(hrr, tr); err != nil {
			return err
		}
		if err := c.writeChangeCipherRecord(); err != nil {
			return err
		}
		hs.sentDummyCCS = true
		s.Trace.SentHRR = true
		s.Trace.HRRGroup = hrr.selectedGroup
		msg, err := c.readHandshake(nil)
		if err != nil {
			return err
		}
		ch2, ok := msg.(*clientHelloMsg)
		if !ok {
			c.sendAlert(alertUnexpectedMessage)
			return unexpectedMessageError(ch2, msg)
		}
		s.Trace.ClientHellos = append(s.Trace.ClientHellos, append([]byte(nil), ch2.original...))
		view2, err := v.doctor13(ch2, suite.id, true)
		if err != nil {
			return err
		}
		hs.clientHello = view2
		hrrTranscript = tr
	}

	if err := hs.processClientHello(); err != nil {
		return err
	}
	if hrrTranscript != nil {
		// processClientHello started a fresh transcript and wrote nothing to it (it found a share)
		if !c.didHRR {
			hs.transcript = hrrTranscript
			c.didHRR = true
		}
	} else if c.didHRR {
		// processClientHello itself sent a HelloRetryRequest (doHelloRetryRequest: no share for the group it selected) and
		// read the second ClientHello; it does not pass the choke point, so describe it in the trace
		s.Trace.SentHRR, s.Trace.HonestHRR = true, true
		s.Trace.HRRSuite, s.Trace.HRRGroup = hs.suite.id, c.curveID
		s.Trace.ClientHellos = append(s.Trace.ClientHellos, append([]byte(nil), hs.clientHello.original...))
	}
	if s.ALPN != "" {
		c.clientProtocol = s.ALPN
	}
	if err := hs.checkForResumption(); err != nil {
		return err
	}
	if err := hs.pickCertificate(); err != nil {
		return err
	}
	s.Trace.Suite = hs.suite.id
	s.Trace.Group = c.curveID
	v.overrideHello(hs.hello, false)
	c.buffering = true
	if err := v.sendServerParameters(hs); err != nil {
		return err
	}
	if err := v.sendServerCertificate(hs); err != nil {
		return err
	}
	if err := v.sendServerFinished(hs); err != nil {
		return err
	}
	if _, err := c.flush(); err != nil {
		return err
	}
	if s.ReadClientEE {
		msg, err := c.readHandshake(hs.transcript)
		if err != nil {
			return err
		}
		ee, ok := msg.(*utlsClientEncryptedExtensionsMsg)
		if !ok {
			c.sendAlert(alertUnexpectedMessage)
			return unexpectedMessageError(ee, msg)
		}
		s.Trace.ClientEE = append([]byte(nil), ee.raw...)
		if !hs.requestClientCert() {
			if err := hs.sendSessionTickets(); err != nil {
				return err
			}
		}
	}
	if err := hs.readClientCertificate(); err != nil {
		return err
	}
	if err := hs.readClientFinished(); err != nil {
		return err
	}
	c.isHandshakeComplete.Store(true)
	return nil
}

// sendServerParameters: handshake_server_tls13.go:703-785 without the ECH and QUIC branches.
func (v *verifServer) sendServerParameters(hs *serverHandshakeStateTLS13) error {
	c, s := v.c, v.s
	if err := transcriptMsg(hs.clientHello, hs.transcript); err != nil {
		return err
	}
	if err := v.send(hs.hello, hs.transcript); err != nil {
		return err
	}
	if err := hs.sendDummyChangeCipherSpec(); err != nil {
		return err
	}
	earlySecret := hs.earlySecret
	if earlySecret == nil {
		earlySecret = tls13.NewEarlySecret(hs.suite.hash.New, nil)
	}
	hs.handshakeSecret = earlySecret.HandshakeSecret(hs.sharedKey)
	clientSecret := hs.handshakeSecret.ClientHandshakeTrafficSecret(hs.transcript)
	c.in.setTrafficSecret(hs.suite, QUICEncryptionLevelHandshake, clientSecret)
	serverSecret := hs.handshakeSecret.ServerHandshakeTrafficSecret(hs.transcript)
	c.out.setTrafficSecret(hs.suite, QUICEncryptionLevelHandshake, serverSecret)
	if err := c.config.writeKeyLog(keyLogLabelClientHandshake, hs.clientHello.random, clientSecret); err != nil {
		c.sendAlert(alertInternalError)
		return err
	}
	if err := c.config.writeKeyLog(keyLogLabelServerHandshake, hs.clientHello.random, serverSecret); err != nil {
		c.sendAlert(alertInternalError)
		return err
	}

	encryptedExtensions := new(encryptedExtensionsMsg)
	encryptedExtensions.alpnProtocol = c.clientProtocol
	ee, err := encryptedExtensions.marshal()
	if err != nil {
		return err
	}
	var extra []byte
	if s.ALPSCodepoint != 0 {
		extra = append(extra, byte(s.ALPSCodepoint>>8), byte(s.ALPSCodepoint), byte(len(s.ALPSData)>>8), byte(len(s.ALPSData)))
		extra = append(extra, s.ALPSData...)
	}
	extra = append(extra, s.ExtraEncryptedExtensions...)
	if len(extra) > 0 {
		// ee = type(1) len(3) extlen(2) exts
		exts := append(append([]byte(nil), ee[6:]...), extra...)
		n := len(exts) + 2
		ee = append([]byte{typeEncryptedExtensions, byte(n >> 16), byte(n >> 8), byte(n), byte(len(exts) >> 8), byte(len(exts))}, exts...)
	}
	return v.send(&verifRawMsg{ee}, hs.transcript)
}

// sendServerCertificate: handshake_server_tls13.go:791-858, plus optional RFC 8879 compression.
func (v *verifServer) sendServerCertificate(hs *serverHandshakeStateTLS13) error {
	c, s := v.c, v.s
	if hs.usingPSK {
		return nil
	}
	if hs.requestClientCert() {
		certReq := new(certificateRequestMsgTLS13)
		certReq.ocspStapling = true
		certReq.scts = true
		certReq.supportedSignatureAlgorithms = supportedSignatureAlgorithms()
		if c.config.ClientCAs != nil {
			certReq.certificateAuthorities = c.config.ClientCAs.Subjects()
		}
		if err := v.send(certReq, hs.transcript); err != nil {
			return err
		}
	}

	certMsg := new(certificateMsgTLS13)
	certMsg.certificate = *hs.cert
	certMsg.scts = hs.clientHello.scts && len(hs.cert.SignedCertificateTimestamps) > 0
	certMsg.ocspStapling = hs.clientHello.ocspStapling && len(hs.cert.OCSPStaple) > 0
	if s.CertCompression == 0 {
		if err := v.send(certMsg, hs.transcript); err != nil {
			return err
		}
	} else {
		plain, err := certMsg.marshal()
		if err != nil {
			return err
		}
		body := plain[4:] // RFC 8879: the Certificate message body, without the handshake header
		cm := &utlsCompressedCertificateMsg{algorithm: s.CertCompression, uncompressedLength: uint32(len(body))}
		if s.CompressedCert != nil {
			cm.compressedCertificateMessage = s.CompressedCert
		} else {
			cm.compressedCertificateMessage, err = VerifCompress(s.CertCompression, body)
			if err != nil {
				return err
			}
		}
		if s.CompressedCertULen != nil {
			cm.uncompressedLength = *s.CompressedCertULen
		}
		if err := v.send(cm, hs.transcript); err != nil {
			return err
		}
	}

	certVerifyMsg := new(certificateVerifyMsg)
	certVerifyMsg.hasSignatureAlgorithm = true
	certVerifyMsg.signatureAlgorithm = hs.sigAlg
	sigType, sigHash, err := typeAndHashFromSignatureScheme(hs.sigAlg)
	if err != nil {
		return c.sendAlert(alertInternalError)
	}
	signed := signedMessage(sigHash, serverSignatureContext, hs.transcript)
	signOpts := crypto.SignerOpts(sigHash)
	if sigType == signatureRSAPSS {
		signOpts = &rsa.PSSOptions{SaltLength: rsa.PSSSaltLengthEqualsHash, Hash: sigHash}
	}
	sig, err := hs.cert.PrivateKey.(crypto.Signer).Sign(c.config.rand(), signed, signOpts)
	if err != nil {
		c.sendAlert(alertInternalError)
		return errors.New("tls: failed to sign handshake: " + err.Error())
	}
	certVerifyMsg.signature = sig
	return v.send(certVerifyMsg, hs.transcript)
}

// VerifCompress compresses b with certificate-compression algorithm alg (1 zlib, 2 brotli, 3 zstd);
// any other id yields a copy of b.
func VerifCompress(alg uint16, b []byte) ([]byte, error) {
	var buf bytes.Buffer
	switch CertCompressionAlgo(alg) {
	case CertCompressionZlib:
		w := zlib.NewWriter(&buf)
		w.Write(b)
		w.Close()
	case CertCompressionBrotli:
		w := brotli.NewWriter(&buf)
		w.Write(b)
		w.Close()
	case CertCompressionZstd:
		w, err := zstd.NewWriter(&buf)
		if err != nil {
			return nil, err
		}
		w.Write(b)
		w.Close()
	default:
		buf.Write(b)
	}
	return buf.Bytes(), nil
}

// sendServerFinished: handshake_server_tls13.go:860-908 without QUIC.
func (v *verifServer) sendServerFinished(hs *serverHandshakeStateTLS13) error {
	c := v.c
	finished := &finishedMsg{
		verifyData: hs.suite.finishedHash(c.out.trafficSecret, hs.transcript),
	}
	if err := v.send(finished, hs.transcript); err != nil {
		return err
	}
	hs.masterSecret = hs.handshakeSecret.MasterSecret()
	hs.trafficSecret = hs.masterSecret.ClientApplicationTrafficSecret(hs.transcript)
	serverSecret := hs.masterSecret.ServerApplicationTrafficSecret(hs.transcript)
	c.out.setTrafficSecret(hs.suite, QUICEncryptionLevelApplication, serverSecret)
	if err := c.config.writeKeyLog(keyLogLabelClientTraffic, hs.clientHello.random, hs.trafficSecret); err != nil {
		c.sendAlert(alertInternalError)
		return err
	}
	if err := c.config.writeKeyLog(keyLogLabelServerTraffic, hs.clientHello.random, serverSecret); err != nil {
		c.sendAlert(alertInternalError)
		return err
	}
	c.ekm = hs.suite.exportKeyingMaterial(hs.masterSecret, hs.transcript)
	// With ReadClientEE the client's EncryptedExtensions precede its Finished in the transcript,
	// so the client Finished cannot be precomputed: tickets are then sent by readClientFinished.
	if !hs.requestClientCert() && !v.s.ReadClientEE {
		if err := hs.sendSessionTickets(); err != nil {
			return err
		}
	}
	return nil
}

// ---------------------------------------------------------------- TLS 1.0 - 1.2

func (v *verifServer) doctor12(ch *clientHelloMsg) *clientHelloMsg {
	s := v.s
	view := *ch
	if cs := cipherSuiteByID(s.Suite); cs != nil {
		view.cipherSuites = []uint16{s.Suite}
	}
	if s.SKXCurve != 0 {
		if _, ok := curveForCurveID(s.SKXCurve); ok {
			view.supportedCurves = []CurveID{s.SKXCurve}
		}
	}
	return &view
}

func (v *verifServer) handshake12(ch *clientHelloMsg) error {
	c, s := v.c, v.s
	hs := &serverHandshakeState{c: c, ctx: v.ctx, clientHello: v.doctor12(ch)}
	if err := hs.processClientHello(); err != nil {
		return err
	}
	if s.ALPN != "" {
		hs.hello.alpnProtocol = s.ALPN
		c.clientProtocol = s.ALPN
	}
	c.buffering = true
	if err := hs.checkForResumption(); err != nil {
		return err
	}
	if hs.sessionState != nil {
		// honest abbreviated handshake (handshake_server.go:78-101); overrides do not apply
		c.didResume = true
		if err := hs.doResumeHandshake(); err != nil {
			return err
		}
		if err := hs.establishKeys(); err != nil {
			return err
		}
		if err := hs.sendSessionTicket(); err != nil {
			return err
		}
		if err := hs.sendFinished(c.serverFinished[:]); err != nil {
			return err
		}
		if _, err := c.flush(); err != nil {
			return err
		}
		c.clientFinishedIsFirst = false
		if err := hs.readFinished(nil); err != nil {
			return err
		}
	} else {
		if err := hs.pickCipherSuite(); err != nil {
			return err
		}
		s.Trace.Suite = hs.suite.id
		if err := v.doFullHandshake12(hs); err != nil {
			return err
		}
		if err := hs.establishKeys(); err != nil {
			return err
		}
		if err := hs.readFinished(c.clientFinished[:]); err != nil {
			return err
		}
		c.clientFinishedIsFirst = true
		c.buffering = true
		if err := hs.sendSessionTicket(); err != nil {
			return err
		}
		// sendFinished (handshake_server.go:880-895) through the choke point
		if err := c.writeChangeCipherRecord(); err != nil {
			return err
		}
		finished := new(finishedMsg)
		finished.verifyData = hs.finishedHash.serverSum(hs.masterSecret)
		if err := v.send(finished, &hs.finishedHash); err != nil {
			return err
		}
		if _, err := c.flush(); err != nil {
			return err
		}
	}
	c.ekm = ekmFromMasterSecret(c.vers, hs.suite, hs.masterSecret, hs.clientHello.random, hs.hello.random)
	c.isHandshakeComplete.Store(true)
	return nil
}

// doFullHandshake12: handshake_server.go:581-790 with the choke point and the overrides.
// Client certificates are requested as configured but CertificateVerify checking is the
// library's (the tail of the function is the honest code path re-stated).
func (v *verifServer) doFullHandshake12(hs *serverHandshakeState) error {
	c, s := v.c, v.s
	if hs.clientHello.ocspStapling && len(hs.cert.OCSPStaple) > 0 {
		hs.hello.ocspStapling = true
	}
	hs.hello.ticketSupported = hs.clientHello.ticketSupported && !c.config.SessionTicketsDisabled
	hs.hello.cipherSuite = hs.suite.id
	v.overrideHello(hs.hello, false)

	hs.finishedHash = newFinishedHash(hs.c.vers, hs.suite)
	if c.config.ClientAuth == NoClientCert {
		hs.finishedHash.discardHandshakeBuffer()
	}
	if err := transcriptMsg(hs.clientHello, &hs.finishedHash); err != nil {
		return err
	}
	if err := v.send(hs.hello, &hs.finishedHash); err != nil {
		return err
	}
	certMsg := new(certificateMsg)
	certMsg.certificates = hs.cert.Certificate
	if err := v.send(certMsg, &hs.finishedHash); err != nil {
		return err
	}
	if hs.hello.ocspStapling {
		certStatus := new(certificateStatusMsg)
		certStatus.response = hs.cert.OCSPStaple
		if err := v.send(certStatus, &hs.finishedHash); err != nil {
			return err
		}
	}

	keyAgreement := hs.suite.ka(c.vers)
	skx, err := keyAgreement.generateServerKeyExchange(c.config, hs.cert, hs.clientHello, hs.hello)
	if err != nil {
		c.sendAlert(alertHandshakeFailure)
		return err
	}
	if skx != nil {
		if len(skx.key) >= 3 && skx.key[0] == 3 {
			c.curveID = CurveID(byteorder.BEUint16(skx.key[1:]))
			s.Trace.Group = c.curveID
			if s.SKXCurve != 0 && s.SKXCurve != c.curveID {
				// a curve id nobody implements: overwrite the id and re-sign the parameters
				if err := v.resignSKX(hs, skx, s.SKXCurve); err != nil {
					return err
				}
			}
		}
		if err := v.send(skx, &hs.finishedHash); err != nil {
			return err
		}
	}

	var certReq *certificateRequestMsg
	if c.config.ClientAuth >= RequestClientCert {
		certReq = new(certificateRequestMsg)
		certReq.certificateTypes = []byte{byte(certTypeRSASign), byte(certTypeECDSASign)}
		if c.vers >= VersionTLS12 {
			certReq.hasSignatureAlgorithm = true
			certReq.supportedSignatureAlgorithms = supportedSignatureAlgorithms()
		}
		if c.config.ClientCAs != nil {
			certReq.certificateAuthorities = c.config.ClientCAs.Subjects()
		}
		if err := v.send(certReq, &hs.finishedHash); err != nil {
			return err
		}
	}
	if err := v.send(new(serverHelloDoneMsg), &hs.finishedHash); err != nil {
		return err
	}
	if _, err := c.flush(); err != nil {
		return err
	}

	msg, err := c.readHandshake(&hs.finishedHash)
	if err != nil {
		return err
	}
	if c.config.ClientAuth >= RequestClientCert {
		certMsg, ok := msg.(*certificateMsg)
		if !ok {
			c.sendAlert(alertUnexpectedMessage)
			return unexpectedMessageError(certMsg, msg)
		}
		if err := c.processCertsFromClient(Certificate{Certificate: certMsg.certificates}); err != nil {
			return err
		}
		if len(certMsg.certificates) != 0 {
			// TODO(verif): CertificateVerify checking is not re-stated; scripted TLS 1.2 servers
			// must not be given a client that presents a certificate.
			c.sendAlert(alertInternalError)
			return errors.New("tls: verif server: TLS 1.2 client certificates not supported")
		}
		msg, err = c.readHandshake(&hs.finishedHash)
		if err != nil {
			return err
		}
	}
	ckx, ok := msg.(*clientKeyExchangeMsg)
	if !ok {
		c.sendAlert(alertUnexpectedMessage)
		return unexpectedMessageError(ckx, msg)
	}
	preMasterSecret, err := keyAgreement.processClientKeyExchange(c.config, hs.cert, ckx, c.vers)
	if err != nil {
		c.sendAlert(alertIllegalParameter)
		return err
	}
	if hs.hello.extendedMasterSecret {
		c.extMasterSecret = true
		hs.masterSecret = extMasterFromPreMasterSecret(c.vers, hs.suite, preMasterSecret, hs.finishedHash.Sum())
	} else {
		hs.masterSecret = masterFromPreMasterSecret(c.vers, hs.suite, preMasterSecret, hs.clientHello.random, hs.hello.random)
	}
	if err := c.config.writeKeyLog(keyLogLabelTLS12, hs.clientHello.random, hs.masterSecret); err != nil {
		c.sendAlert(alertInternalError)
		return err
	}
	hs.finishedHash.discardHandshakeBuffer()
	return nil
}

// resignSKX rewrites the named-curve id of an ECDHE ServerKeyExchange and signs the new
// parameters as generateServerKeyExchange does (key_agreement.go:196-248).
func (v *verifServer) resignSKX(hs *serverHandshakeState, skx *serverKeyExchangeMsg, curve CurveID) error {
	c := v.c
	publicLen := int(skx.key[3])
	params := append([]byte(nil), skx.key[:4+publicLen]...)
	params[1], params[2] = byte(curve>>8), byte(curve)
	priv, ok := hs.cert.PrivateKey.(crypto.Signer)
	if !ok {
		return errors.New("tls: verif server: certificate key is not a signer")
	}
	var signatureAlgorithm SignatureScheme
	var sigType uint8
	var sigHash crypto.Hash
	var err error
	if c.vers >= VersionTLS12 {
		signatureAlgorithm, err = selectSignatureScheme(c.vers, hs.cert, hs.clientHello.supportedSignatureAlgorithms)
		if err != nil {
			return err
		}
		sigType, sigHash, err = typeAndHashFromSignatureScheme(signatureAlgorithm)
	} else {
		sigType, sigHash, err = legacyTypeAndHashFromPublicKey(priv.Public())
	}
	if err != nil {
		return err
	}
	signed := hashForServerKeyExchange(sigType, sigHash, c.vers, hs.clientHello.random, hs.hello.random, params)
	signOpts := crypto.SignerOpts(sigHash)
	if sigType == signatureRSAPSS {
		signOpts = &rsa.PSSOptions{SaltLength: rsa.PSSSaltLengthEqualsHash, Hash: sigHash}
	}
	sig, err := priv.Sign(c.config.rand(), signed, signOpts)
	if err != nil {
		return err
	}
	key := append([]byte(nil), params...)
	if c.vers >= VersionTLS12 {
		key = append(key, byte(signatureAlgorithm>>8), byte(signatureAlgorithm))
	}
	key = append(key, byte(len(sig)>>8), byte(len(sig)))
	key = append(key, sig...)
	skx.key = key
	return nil
}

//go:build verif

// Test equipment for property C34 (arbitrary client input never crashes or hangs the server). Add-only:
//   - wrappers around the two uTLS-specific unmarshalers a server can reach and around
//     Conn.unmarshalHandshakeMessage on a server-side Conn (observed type / alert);
//   - a way to send raw handshake-record payloads under the connection's current write keys;
//   - a scripted TLS 1.3 client built from the existing client sub-steps, with injection points
//     between them, so that arbitrary handshake messages reach the server at encrypted positions.
package tls

import (
	"bytes"
	"context"
	"errors"
	"fmt"
	"net"
	"time"
)

// VerifC34UnmarshalClientEE runs utlsClientEncryptedExtensionsMsg.unmarshal.
func VerifC34UnmarshalClientEE(data []byte) (ok bool, codepoint uint16, settings []byte) {
	m := new(utlsClientEncryptedExtensionsMsg)
	ok = m.unmarshal(data)
	return ok, m.applicationSettingsCodepoint, m.applicationSettings
}

// VerifC34UnmarshalCompressedCert runs utlsCompressedCertificateMsg.unmarshal.
func VerifC34UnmarshalCompressedCert(data []byte) (ok bool, alg uint16, ulen uint32, body []byte) {
	m := new(utlsCompressedCertificateMsg)
	ok = m.unmarshal(data)
	return ok, m.algorithm, m.uncompressedLength, m.compressedCertificateMessage
}

type verifC34Sink struct{ w bytes.Buffer }

func (s *verifC34Sink) Read(b []byte) (int, error)         { return 0, errors.New("verif: sink") }
func (s *verifC34Sink) Write(b []byte) (int, error)        { return s.w.Write(b) }
func (s *verifC34Sink) Close() error                       { return nil }
func (s *verifC34Sink) LocalAddr() net.Addr                { return nil }
func (s *verifC34Sink) RemoteAddr() net.Addr               { return nil }
func (s *verifC34Sink) SetDeadline(t time.Time) error      { return nil }
func (s *verifC34Sink) SetReadDeadline(t time.Time) error  { return nil }
func (s *verifC34Sink) SetWriteDeadline(t time.Time) error { return nil }

// VerifC34UnmarshalHandshakeMessage runs Conn.unmarshalHandshakeMessage on a fresh connection of the given role and
// negotiated version and reports the Go type of the message it returned, or the alert it sent.
func VerifC34UnmarshalHandshakeMessage(isClient bool, vers uint16, data []byte) (typeName string, alertCode int, errText string) {
	sink := &verifC34Sink{}
	c := &Conn{conn: sink, config: &Config{}, isClient: isClient, vers: vers, haveVers: vers != 0}
	m, err := c.unmarshalHandshakeMessage(data, nil)
	alertCode = -1
	if err != nil {
		errText = err.Error()
		var op *net.OpError
		if errors.As(err, &op) {
			if a, ok := op.Err.(alert); ok {
				alertCode = int(a)
			}
		}
		return "", alertCode, errText
	}
	return fmt.Sprintf("%T", m), -1, ""
}

// VerifC34WriteHandshakeRecord sends data as the payload of one handshake record under the connection's
// current write protection (plaintext before keys are installed).
func (c *Conn) VerifC34WriteHandshakeRecord(data []byte) error {
	c.out.Lock()
	defer c.out.Unlock()
	_, err := c.writeRecordLocked(recordTypeHandshake, data)
	if err == nil {
		_, err = c.flush()
	}
	return err
}

// VerifC34SendKeyUpdate sends a well-formed KeyUpdate and ratchets the write key, as handleKeyUpdate does when it
// answers a peer's request (conn.go:1352-1370), so that what is written afterwards still decrypts at the peer.
func (c *Conn) VerifC34SendKeyUpdate(requestUpdate bool) error {
	if c.vers != VersionTLS13 {
		return errors.New("verif: KeyUpdate needs TLS 1.3")
	}
	cipherSuite := cipherSuiteTLS13ByID(c.cipherSuite)
	if cipherSuite == nil {
		return errors.New("verif: no TLS 1.3 cipher suite")
	}
	c.out.Lock()
	defer c.out.Unlock()
	msgBytes, err := (&keyUpdateMsg{updateRequested: requestUpdate}).marshal()
	if err != nil {
		return err
	}
	if _, err := c.writeRecordLocked(recordTypeHandshake, msgBytes); err != nil {
		return err
	}
	c.out.setTrafficSecret(cipherSuite, QUICEncryptionLevelInitial, cipherSuite.nextTrafficSecret(c.out.trafficSecret))
	return nil
}

// VerifC34WriteProtectedRecord sends ONE record of the given type whose payload (any length, also zero) is protected by
// halfConn.encrypt exactly as writeRecordLocked would (which never emits an empty or over-long record itself).
func (c *Conn) VerifC34WriteProtectedRecord(typ uint8, payload []byte) error {
	c.out.Lock()
	defer c.out.Unlock()
	vers := c.vers
	if vers == VersionTLS13 {
		vers = VersionTLS12
	}
	rec, err := c.out.encrypt([]byte{typ, byte(vers >> 8), byte(vers), 0, 0}, payload, c.config.rand())
	if err != nil {
		return err
	}
	if _, err = c.write(rec); err != nil {
		return err
	}
	_, err = c.flush()
	return err
}

// VerifC34CBCInfo describes the write protection when it is a CBC suite.
func (c *Conn) VerifC34CBCInfo() (isCBC bool, blockSize, macSize int, explicitIV bool) {
	c.out.Lock()
	defer c.out.Unlock()
	cbc, ok := c.out.cipher.(cbcMode)
	if !ok || c.out.mac == nil {
		return false, 0, 0, false
	}
	return true, cbc.BlockSize(), c.out.mac.Size(), c.out.version >= VersionTLS11
}

// VerifC34WriteCBCBlocks sends one record whose CBC plaintext is exactly `blocks` (a multiple of the block size): the
// caller chooses content, MAC bytes and padding; the connection's CBC state, keys and (TLS 1.1+) a fresh explicit IV are used.
func (c *Conn) VerifC34WriteCBCBlocks(typ uint8, blocks []byte) error {
	c.out.Lock()
	defer c.out.Unlock()
	cbc, ok := c.out.cipher.(cbcMode)
	if !ok {
		return errors.New("verif: write protection is not CBC")
	}
	if len(blocks)%cbc.BlockSize() != 0 {
		return errors.New("verif: not a multiple of the block size")
	}
	rec := []byte{typ, byte(c.vers >> 8), byte(c.vers), 0, 0}
	if c.out.version >= VersionTLS11 {
		iv := make([]byte, cbc.BlockSize())
		if _, err := c.config.rand().Read(iv); err != nil {
			return err
		}
		rec = append(rec, iv...)
		cbc.SetIV(iv)
	}
	dst := make([]byte, len(blocks))
	cbc.CryptBlocks(dst, blocks)
	rec = append(rec, dst...)
	n := len(rec) - recordHeaderLen
	rec[3], rec[4] = byte(n>>8), byte(n)
	c.out.incSeq()
	if _, err := c.write(rec); err != nil {
		return err
	}
	_, err := c.flush()
	return err
}

// VerifC34Client13 is a TLS 1.3 client whose handshake is the sequence of the package's own client sub-steps
// (handshake_client.go:270-394, handshake_client_tls13.go:52-178; no ECH, HelloRetryRequest or resumption), calling
// inject(pos) between them and sending what it returns as handshake records:
//
//	0 before ClientHello, 1 after ClientHello, 2 after the handshake keys are installed (encrypted from here on),
//	3 after the server's Finished was verified, 4 after the client Certificate/CertificateVerify, (5 = after the handshake,
//	use VerifC34WriteHandshakeRecord).
func VerifC34Client13(conn net.Conn, config *Config, inject func(pos int) [][]byte) *Conn {
	c := Client(conn, config)
	wr := func(pos int) error {
		for _, d := range inject(pos) {
			c.out.Lock()
			_, err := c.writeRecordLocked(recordTypeHandshake, d)
			c.out.Unlock()
			if err != nil {
				return err
			}
		}
		if _, err := c.flush(); err != nil {
			return err
		}
		return nil
	}
	c.handshakeFn = func(ctx context.Context) error {
		hello, keyShareKeys, _, err := c.makeClientHello()
		if err != nil {
			return err
		}
		c.serverName = hello.serverName
		if err := wr(0); err != nil {
			return err
		}
		if _, err := c.writeHandshakeRecord(hello, nil); err != nil {
			return err
		}
		if err := wr(1); err != nil {
			return err
		}
		msg, err := c.readHandshake(nil)
		if err != nil {
			return err
		}
		serverHello, ok := msg.(*serverHelloMsg)
		if !ok {
			c.sendAlert(alertUnexpectedMessage)
			return unexpectedMessageError(serverHello, msg)
		}
		if err := c.pickTLSVersion(serverHello); err != nil {
			return err
		}
		if c.vers != VersionTLS13 {
			return errors.New("verif: scripted client needs TLS 1.3")
		}
		hs := &clientHandshakeStateTLS13{c: c, ctx: ctx, serverHello: serverHello, hello: hello, keyShareKeys: keyShareKeys}
		if err := hs.checkServerHelloOrHRR(); err != nil {
			return err
		}
		hs.transcript = hs.suite.hash.New()
		if err := transcriptMsg(hs.hello, hs.transcript); err != nil {
			return err
		}
		if bytes.Equal(hs.serverHello.random, helloRetryRequestRandom) {
			return errors.New("verif: HelloRetryRequest is not scripted")
		}
		if err := transcriptMsg(hs.serverHello, hs.transcript); err != nil {
			return err
		}
		c.buffering = true
		if err := hs.processServerHello(); err != nil {
			return err
		}
		if err := hs.sendDummyChangeCipherSpec(); err != nil {
			return err
		}
		if err := hs.establishHandshakeKeys(); err != nil {
			return err
		}
		if err := wr(2); err != nil {
			return err
		}
		if err := hs.readServerParameters(); err != nil {
			return err
		}
		if err := hs.readServerCertificate(); err != nil {
			return err
		}
		if err := hs.readServerFinished(); err != nil {
			return err
		}
		if err := wr(3); err != nil {
			return err
		}
		if err := hs.sendClientCertificate(); err != nil {
			return err
		}
		if err := wr(4); err != nil {
			return err
		}
		if err := hs.sendClientFinished(); err != nil {
			return err
		}
		if _, err := c.flush(); err != nil {
			return err
		}
		c.isHandshakeComplete.Store(true)
		return nil
	}
	return c
}

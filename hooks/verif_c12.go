//go:build verif

// Accessors for the C12/C13 checks (client side): the values the client's own
// offered-set checks compare against, read from the very struct the handshake
// code uses (HandshakeState.Hello.getPrivatePtr(), UConn.certCompressionAlgs,
// Config version bounds). Compiled only with -tags verif.

package tls

// VerifClientView is what the client will check a server's choices against.
type VerifClientView struct {
	LegacyVersion       uint16
	CipherSuites        []uint16
	CompressionMethods  []uint8
	SupportedCurves     []uint16
	KeyShareGroups      []uint16
	ALPN                []string
	SessionID           []byte
	PSKIdentities       int
	SupportedVersions   []uint16 // hello.supportedVersions (what marshal would write for HelloGolang)
	CertCompressionAlgs []uint16 // UConn.certCompressionAlgs
	ConfigMinVersion    uint16
	ConfigMaxVersion    uint16
	ClientVersions      []uint16 // Config.supportedVersions(roleClient): versions pickTLSVersion accepts
	Raw                 []byte   // marshaled ClientHello handshake message
}

// VerifClientViewOf must be called after BuildHandshakeState (or after the handshake).
func VerifClientViewOf(u *UConn) VerifClientView {
	h := u.HandshakeState.Hello.getPrivatePtr()
	v := VerifClientView{}
	if h == nil {
		return v
	}
	v.LegacyVersion = h.vers
	v.CipherSuites = append([]uint16(nil), h.cipherSuites...)
	v.CompressionMethods = append([]uint8(nil), h.compressionMethods...)
	for _, c := range h.supportedCurves {
		v.SupportedCurves = append(v.SupportedCurves, uint16(c))
	}
	for _, ks := range h.keyShares {
		v.KeyShareGroups = append(v.KeyShareGroups, uint16(ks.group))
	}
	v.ALPN = append([]string(nil), h.alpnProtocols...)
	v.SessionID = append([]byte(nil), h.sessionId...)
	v.PSKIdentities = len(h.pskIdentities)
	v.SupportedVersions = append([]uint16(nil), h.supportedVersions...)
	for _, a := range u.certCompressionAlgs {
		v.CertCompressionAlgs = append(v.CertCompressionAlgs, uint16(a))
	}
	if u.config != nil {
		v.ConfigMinVersion = u.config.MinVersion
		v.ConfigMaxVersion = u.config.MaxVersion
		v.ClientVersions = u.config.supportedVersions(roleClient)
	}
	v.Raw = append([]byte(nil), h.original...)
	return v
}

// VerifCurveID: the key-exchange group / curve the connection settled on (Conn.curveID,
// which ConnectionState carries only in an unexported field).
func VerifCurveID(c *Conn) uint16 { return uint16(c.curveID) }

// VerifDidHRR reports whether a HelloRetryRequest was processed on this connection.
func VerifDidHRR(c *Conn) bool { return c.didHRR }

//go:build verif

package tls

// Verification equipment for property C19 (session resumption). Add-only:
// read accessors for the unexported fields of a cached client session.

// VerifC19Session describes what a ClientSessionCache entry holds.
type VerifC19Session struct {
	Version   uint16
	Suite     uint16
	EMS       bool   // extMasterSecret
	CreatedAt uint64 // seconds since the epoch (client receive time)
	UseBy     uint64 // TLS 1.3 only
	Verified  bool   // len(verifiedChains) != 0
	TicketLen int
	Ticket    []byte
}

// VerifC19SessionInfo returns the fields of cs that loadSession looks at; ok is
// false for a nil entry.
func VerifC19SessionInfo(cs *ClientSessionState) (info VerifC19Session, ok bool) {
	if cs == nil || cs.session == nil {
		return info, false
	}
	s := cs.session
	return VerifC19Session{Version: s.version, Suite: s.cipherSuite, EMS: s.extMasterSecret,
		CreatedAt: s.createdAt, UseBy: s.useBy, Verified: len(s.verifiedChains) != 0,
		TicketLen: len(s.ticket), Ticket: s.ticket}, true
}

// VerifC19HashLen is the size of the hash of a TLS 1.3 cipher suite (the
// binder length loadSession allocates), 0 for an unknown suite.
func VerifC19HashLen(suite uint16) int {
	cs := cipherSuiteTLS13ByID(suite)
	if cs == nil {
		return 0
	}
	return cs.hash.Size()
}

//go:build verif

// Test equipment for the /verif harness (property C25), compiled only with -tags verif: lets the PEER side
// of an experiment send an arbitrary post-handshake record (extra NewSessionTicket, HelloRequest, ...)
// through the normal record writer.

package tls

// VerifWriteRecord sends data as records of the given content type via writeRecordLocked (conn.go:977).
func (c *Conn) VerifWriteRecord(typ uint8, data []byte) error {
	c.out.Lock()
	defer c.out.Unlock()
	if err := c.out.err; err != nil {
		return err
	}
	_, err := c.writeRecordLocked(recordType(typ), data)
	return err
}

//go:build verif

package tls

// VerifSendHelloRequest makes an established server-side Conn ask the client for
// a renegotiation: it writes a HelloRequest handshake message (RFC 5246 7.4.1.1)
// the way any other post-handshake record is written. The package's own server
// never sends one; the C26 correspondence runner needs a peer that does.
func (c *Conn) VerifSendHelloRequest() error {
	c.out.Lock()
	defer c.out.Unlock()
	_, err := c.writeRecordLocked(recordTypeHandshake, []byte{typeHelloRequest, 0, 0, 0})
	return err
}

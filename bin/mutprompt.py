import json,sys
# mutprompt.py <Cxx> <k> [round]: prints the task given to a seeding sub-agent (property text + scratch worktree only)
pid=sys.argv[1]; k=sys.argv[2] if len(sys.argv)>2 else "3"; rnd=sys.argv[3] if len(sys.argv)>3 else ""
for l in open('/verif/properties.jsonl'):
    p=json.loads(l)
    if p['id']==pid: break
wt="/tmp/mut%s-%s"%(rnd,pid.lower())
print(f"""You are given a scratch git worktree of the Go library refraction-networking/utls (a fork of crypto/tls with ClientHello fingerprint mimicry) at {wt} (already created; work ONLY there and under /tmp/mutout{rnd}-{pid.lower()}/; never touch /repo or /verif — do not read anything under /verif either).

Go environment for every shell call: `export GOFLAGS=-mod=mod GOPROXY=off` (nothing else; do not set GOSUMDB or GOTOOLCHAIN). The sandbox is offline.

A semantic property of the library that should hold:

  [{pid}] {p['title']}
  {p['statement']}

Your task: produce {k} DIFFERENT changes to the library's non-test source, each of which BREAKS this property while the library still compiles (`go build ./...`, `go test -vet=off -count=1 -run '^$' ./...`) and the existing root-package test suite still passes unchanged (`go test -vet=off -count=1 -timeout 25m . 2>&1 | grep -E '^(--- FAIL|FAIL|ok|panic)'` — on the pristine tree only TestVerifyHostname may fail because there is no network; ignore only that one). Each change should look like a plausible refactoring, optimisation, clean-up or bug-prone edit a real contributor might make, and should need something SPECIFIC to manifest — a particular interleaving, a fault at a particular point, a multi-step sequence of operations, an unusual input or boundary value, or two cooperating sites that each look fine alone — not something ordinary use would expose at once. Make the {k} changes exercise different aspects/clauses of the property and different code sites.

For each change number n = 1..{k} write a directory /tmp/mutout{rnd}-{pid.lower()}/{pid}-n/ containing:
  * patch.diff — `git diff` of the library change against HEAD (library .go files only; no test files, no new test data);
  * demo_test.go — a Go test file in `package tls` (it will be copied into the repository root as zz_seed_demo_test.go) whose test function name starts with `TestSeeded`, which FAILS with the change applied and PASSES on the pristine tree; it must be self-contained (may use unexported identifiers since it is in package tls; no network beyond loopback/net.Pipe; deterministic or retrying enough to be reliable; finishes in < 60 s);
  * meta.json — {{"property": "{pid}", "summary": "<what was changed, one or two sentences>", "needs": "<what specific input / sequence / interleaving is needed for it to manifest>", "files": ["<changed files>"]}}.
Verify each one yourself in the worktree: pristine → demo passes; apply patch → builds, demo fails, rest of the root suite still passes; then `git checkout -- .` and remove the demo file before the next one. Never use `git stash` (the stash is shared by every worktree of the repository and other people are working in sibling worktrees): to set a change aside use `git diff > file`, `git checkout -- .`, `git apply file`. Leave the worktree pristine at the end (git status clean). In your final message list the {k} changes with one line each and confirm what you ran.""")

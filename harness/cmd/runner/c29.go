package main

import (
	"bytes"
	"encoding/binary"
	"errors"
	"fmt"
	"io"
	"net"
	"sort"
	"strings"
	"sync"
	"time"

	tls "github.com/refraction-networking/utls"
	"verif/harness/vh"
)

func init() {
	register("C29", "Corr.C29Corr", func(c *vh.Ctx) { runC29(c, false) })
	register("C29race", "Corr.C29Corr", func(c *vh.Ctx) { runC29(c, true) })
}

type nopConn struct{ net.Conn }

func (nopConn) Write(b []byte) (int, error)        { return len(b), nil }
func (nopConn) Read(b []byte) (int, error)         { return 0, io.EOF }
func (nopConn) Close() error                       { return nil }
func (nopConn) SetDeadline(time.Time) error        { return nil }
func (nopConn) SetReadDeadline(time.Time) error    { return nil }
func (nopConn) SetWriteDeadline(time.Time) error   { return nil }
func (nopConn) LocalAddr() net.Addr                { return &net.TCPAddr{} }
func (nopConn) RemoteAddr() net.Addr               { return &net.TCPAddr{} }

func isGrease16(v uint16) bool { return v&0x0f0f == 0x0a0a && v>>8 == v&0xff }

// helloSig parses a ClientHello handshake message (without record header) into
// (signature of suites+extension types modulo GREASE and order of extensions, SNI).
func helloSig(msg []byte) (string, string, bool) {
	if len(msg) < 4+2+32+1 || msg[0] != 1 {
		return "", "", false
	}
	p := msg[4:]
	p = p[2+32:]
	sl := int(p[0])
	if len(p) < 1+sl+2 {
		return "", "", false
	}
	p = p[1+sl:]
	cl := int(binary.BigEndian.Uint16(p))
	if len(p) < 2+cl+1 {
		return "", "", false
	}
	var suites []string
	for i := 0; i+1 < cl; i += 2 {
		v := binary.BigEndian.Uint16(p[2+i:])
		if !isGrease16(v) {
			suites = append(suites, fmt.Sprintf("%04x", v))
		}
	}
	p = p[2+cl:]
	ml := int(p[0])
	if len(p) < 1+ml+2 {
		return "", "", false
	}
	p = p[1+ml:]
	el := int(binary.BigEndian.Uint16(p))
	p = p[2:]
	if len(p) < el {
		return "", "", false
	}
	p = p[:el]
	var exts []string
	sni := ""
	for len(p) >= 4 {
		t := binary.BigEndian.Uint16(p)
		l := int(binary.BigEndian.Uint16(p[2:]))
		if len(p) < 4+l {
			return "", "", false
		}
		body := p[4 : 4+l]
		p = p[4+l:]
		if t == 0 && len(body) >= 5 {
			sni = string(body[5:])
		}
		if !isGrease16(t) && t != 21 /* padding depends on SNI length */ {
			exts = append(exts, fmt.Sprintf("%d", t))
		}
	}
	sort.Strings(exts)
	return strings.Join(suites, ",") + "|" + strings.Join(exts, ","), sni, true
}

type prefixConn struct {
	net.Conn
	r io.Reader
}

func (p *prefixConn) Read(b []byte) (int, error) { return p.r.Read(b) }

type c29Attempt struct {
	id   int
	ok   bool
	done chan struct{}
}

type c29Server struct {
	ln      net.Listener
	mu      sync.Mutex
	trace   map[string][]int // sni -> ids seen, in order
	okd     map[string][]*c29Attempt
	accept  map[int]bool
	sigToID map[string]int
	cfg     *tls.Config
	wg      sync.WaitGroup
	maxConn int // close the listener after this many accepted connections (0 = never)
	nconn   int
}

func (s *c29Server) serve() {
	for {
		conn, err := s.ln.Accept()
		if err != nil {
			return
		}
		s.mu.Lock()
		s.nconn++
		if s.maxConn > 0 && s.nconn >= s.maxConn {
			s.ln.Close()
		}
		s.mu.Unlock()
		s.wg.Add(1)
		go func() {
			defer s.wg.Done()
			defer conn.Close()
			conn.SetDeadline(time.Now().Add(5 * time.Second))
			hdr := make([]byte, 5)
			if _, err := io.ReadFull(conn, hdr); err != nil {
				return
			}
			body := make([]byte, int(binary.BigEndian.Uint16(hdr[3:])))
			if _, err := io.ReadFull(conn, body); err != nil {
				return
			}
			sig, sni, ok := helloSig(body)
			id := -1
			if ok {
				if v, found := s.sigToID[sig]; found {
					id = v
				}
			}
			at := &c29Attempt{id: id, done: make(chan struct{})}
			defer close(at.done)
			s.mu.Lock()
			s.trace[sni] = append(s.trace[sni], id)
			s.okd[sni] = append(s.okd[sni], at)
			acc := s.accept[id]
			s.mu.Unlock()
			if !acc {
				return
			}
			tc := tls.Server(&prefixConn{conn, io.MultiReader(bytes.NewReader(append(hdr, body...)), conn)}, s.cfg)
			if tc.Handshake() == nil {
				at.ok = true
				io.Copy(io.Discard, tc)
			}
		}()
	}
}

func runC29(c *vh.Ctx, concurrent bool) {
	pki := vh.NewTestPKI("*.example.test", "example.test")
	pki.InstallAsSystemRoots(c.Out + "/pki")
	cert := tls.Certificate{Certificate: [][]byte{pki.LeafDER}, PrivateKey: pki.LeafKey}
	scfg := &tls.Config{Certificates: []tls.Certificate{cert}}

	var seedA, seedB, seedC, seedD tls.PRNGSeed
	c.Rng.Read(seedA[:])
	c.Rng.Read(seedB[:])
	c.Rng.Read(seedC[:])
	c.Rng.Read(seedD[:])
	cands := []tls.ClientHelloID{tls.HelloChrome_58, tls.HelloChrome_70, tls.HelloChrome_83, tls.HelloChrome_100,
		tls.HelloFirefox_55, tls.HelloFirefox_63, tls.HelloFirefox_99, tls.HelloFirefox_105, tls.HelloIOS_11_1,
		tls.HelloIOS_12_1, tls.HelloIOS_13, tls.HelloSafari_16_0, tls.Hello360_11_0, tls.HelloQQ_11_1,
		{Client: "Randomized", Version: "0", Seed: &seedA}, {Client: "Randomized", Version: "0", Seed: &seedB},
		{Client: "Randomized", Version: "0", Seed: &seedC}, {Client: "Randomized", Version: "0", Seed: &seedD}}
	var pool []tls.ClientHelloID
	sigToID := map[string]int{}
	for _, id := range cands {
		uc := tls.UClient(nopConn{}, &tls.Config{ServerName: "probe.example.test"}, id)
		if err := uc.BuildHandshakeState(); err != nil {
			continue
		}
		sig, _, ok := helloSig(uc.HandshakeState.Hello.Raw)
		if !ok {
			continue
		}
		if _, dup := sigToID[sig]; dup {
			continue
		}
		sigToID[sig] = len(pool)
		pool = append(pool, id)
	}
	c.Extra["distinct_fingerprints"] = len(pool)
	idIndex := func(h tls.ClientHelloID) int {
		for i, p := range pool {
			if p.Client == h.Client && p.Version == h.Version && (p.Seed == nil) == (h.Seed == nil) && (p.Seed == nil || *p.Seed == *h.Seed) {
				return i
			}
		}
		return -1
	}
	coqIDs := func(xs []int) string {
		it := make([]string, len(xs))
		for i, x := range xs {
			it[i] = fmt.Sprint(x)
		}
		return vh.List(it)
	}
	dialNo := 0
	scenarios := c.N / 8
	if scenarios < 12 {
		scenarios = 12
	}
	if concurrent {
		scenarios = 6
		if c.Tier == "thorough" {
			scenarios = 40
		}
	}
	for sc := 0; sc < scenarios; sc++ {
		// configured ids: 2..5 distinct fingerprints
		perm := c.Rng.Perm(len(pool))
		nids := 2 + c.Rng.Intn(4)
		sameFamily := sc%3 == 2
		if sameFamily {
			// ids that differ only in their seed (same Client and Version), listed first
			var fam, rest []int
			for _, x := range perm {
				if pool[x].Seed != nil {
					fam = append(fam, x)
				} else {
					rest = append(rest, x)
				}
			}
			perm = append(fam, rest...)
			if nids > len(fam) && len(fam) >= 2 {
				nids = len(fam)
			}
		}
		ids := perm[:nids]
		srv := &c29Server{trace: map[string][]int{}, okd: map[string][]*c29Attempt{}, accept: map[int]bool{}, sigToID: sigToID, cfg: scfg}
		for _, x := range perm[:nids+1] { // may accept an id that is not configured
			if c.Rng.Intn(3) == 0 {
				srv.accept[x] = true
			}
		}
		if sc%5 == 4 {
			srv.maxConn = 1 + c.Rng.Intn(3) // TCP dial starts failing after a few connections
		}
		ln, err := net.Listen("tcp", "127.0.0.1:0")
		if err != nil {
			panic(err)
		}
		srv.ln = ln
		go srv.serve()
		roller, _ := tls.NewRoller()
		roller.HelloIDs = nil
		for _, x := range ids {
			roller.HelloIDs = append(roller.HelloIDs, pool[x])
		}
		roller.TcpDialTimeout = 2 * time.Second
		roller.TlsHandshakeTimeout = 3 * time.Second
		if sameFamily || c.Rng.Intn(3) == 0 { // a remembered working id, possibly not among the configured ones
			w := pool[perm[c.Rng.Intn(nids+1)]]
			roller.WorkingHelloID = &w
		}
		oneDial := func(name string, checkFirst bool) {
			var before *tls.ClientHelloID
			roller.HelloIDMu.Lock()
			before = roller.WorkingHelloID
			roller.HelloIDMu.Unlock()
			wb := -1
			if before != nil {
				wb = idIndex(*before)
			}
			conn, err := roller.Dial("tcp", ln.Addr().String(), name)
			tcpErr := false
			connected := -1
			if err != nil {
				var oe *net.OpError
				if errors.As(err, &oe) && oe.Op == "dial" {
					tcpErr = true
				}
			} else {
				connected = idIndex(conn.ClientHelloID)
				if sn := conn.ConnectionState().ServerName; sn != name {
					c.Fail("sni", "returned connection's SNI is not the given server name", name, sn, name)
				}
				conn.Close()
			}
			roller.HelloIDMu.Lock()
			after := roller.WorkingHelloID
			roller.HelloIDMu.Unlock()
			wa := -1
			if after != nil {
				wa = idIndex(*after)
			}
			srv.mu.Lock()
			tr := append([]int{}, srv.trace[name]...)
			ats := append([]*c29Attempt{}, srv.okd[name]...)
			srv.mu.Unlock()
			// what "the handshake succeeds" means is decided by the server side of each attempt
			okOf := map[int]bool{}
			var accepted []int
			for _, a := range ats {
				select {
				case <-a.done:
				case <-time.After(5 * time.Second):
				}
				if a.ok {
					okOf[a.id] = true
					accepted = append(accepted, a.id)
				}
			}
			// property oracle on the implementation's behaviour
			seen := map[int]bool{}
			for i, x := range tr {
				if seen[x] {
					c.Fail("retry", "a ClientHelloID was tried twice in one Dial", map[string]any{"ids": ids, "working": wb}, tr, "each id at most once")
				}
				seen[x] = true
				inPool := x == wb
				for _, y := range ids {
					inPool = inPool || x == y
				}
				if !inPool {
					c.Fail("foreign-id", "Dial tried an id that is neither configured nor the working one", map[string]any{"ids": ids, "working": wb}, tr, "")
				}
				if i < len(tr)-1 && okOf[x] {
					c.Fail("skipped-success", "Dial continued after an accepted fingerprint", ids, tr, "")
				}
			}
			if checkFirst && wb >= 0 && len(tr) > 0 && tr[0] != wb {
				c.Fail("working-first", "Dial did not start with the most recently working id", map[string]any{"ids": ids, "working": wb}, tr, wb)
			}
			// "records that ID as working": with a single caller the recorded id must be the connected one; with concurrent
			// Dials on one Roller another call may legitimately have recorded its own id in between, so only the
			// sequential runs compare the field (the concurrent runs check it is some id of the pool, below).
			if connected >= 0 && (len(tr) == 0 || tr[len(tr)-1] != connected || !okOf[connected] || (!concurrent && wa != connected) || (concurrent && wa < 0)) {
				c.Fail("result", "returned connection is not the first accepted attempt, or was not recorded as working", map[string]any{"ids": ids, "working": wb, "accept": accepted}, map[string]any{"trace": tr, "connected": connected, "after": wa}, "")
			}
			if connected < 0 && !tcpErr {
				want := len(ids)
				if wb >= 0 && !seen[wb] {
					// working id must have been tried
				}
				isCfg := false
				for _, y := range ids {
					isCfg = isCfg || y == wb
				}
				if wb >= 0 && !isCfg {
					want++
				}
				if checkFirst && len(tr) != want {
					c.Fail("exhaust", "Dial gave up without trying every id once", map[string]any{"ids": ids, "working": wb}, tr, want)
				}
			}
			if !concurrent {
				c.Case("dial", fmt.Sprintf("CDial %s %s %s %s %s %s %s", coqIDs(ids), vh.Opt(wb >= 0, fmt.Sprint(wb)), coqIDs(accepted), coqIDs(tr),
					vh.Opt(connected >= 0, fmt.Sprint(connected)), vh.Bool(tcpErr), vh.Opt(wa >= 0, fmt.Sprint(wa))),
					fmt.Sprint(ids, wb, accepted, tr, connected, tcpErr), len(tr) >= 2,
					map[string]any{"ids": ids, "working_before": wb, "accepted": accepted, "trace": tr, "connected": connected, "tcp_err": tcpErr, "working_after": wa})
			} else {
				c.Case("cdial", "CDial [] None [] [] None false None", fmt.Sprint(name), len(tr) >= 2, map[string]any{"ids": ids, "trace": tr, "connected": connected})
			}
		}
		if !concurrent {
			for d := 0; d < 3+c.Rng.Intn(3); d++ {
				dialNo++
				oneDial(fmt.Sprintf("d%d.example.test", dialNo), true)
				if c.Rng.Intn(4) == 0 { // the server changes its mind between Dials
					srv.mu.Lock()
					x := perm[c.Rng.Intn(nids)]
					srv.accept[x] = !srv.accept[x]
					srv.mu.Unlock()
				}
			}
		} else {
			var wg sync.WaitGroup
			for g := 0; g < 6; g++ {
				wg.Add(1)
				dialNo++
				name := fmt.Sprintf("c%d.example.test", dialNo)
				go func() { defer wg.Done(); oneDial(name, false) }()
			}
			wg.Wait()
		}
		ln.Close()
		srv.wg.Wait()
	}
	// TCP failure before any attempt
	if !concurrent {
		ln, _ := net.Listen("tcp", "127.0.0.1:0")
		addr := ln.Addr().String()
		ln.Close()
		roller, _ := tls.NewRoller()
		roller.HelloIDs = []tls.ClientHelloID{pool[0], pool[1]}
		roller.TcpDialTimeout = time.Second
		_, err := roller.Dial("tcp", addr, "closed.example.test")
		var oe *net.OpError
		if err == nil || !errors.As(err, &oe) || oe.Op != "dial" {
			c.Fail("tcp-error", "Dial to a closed port did not return the TCP dial error", addr, fmt.Sprint(err), "dial error")
		}
		c.Case("dial", "CDial [0;1] None [] [] None true None", "closed-port", false, map[string]any{"closed_port": true, "err": fmt.Sprint(err)})
	}
}

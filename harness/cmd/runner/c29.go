package main

import (
	"bytes"
	"encoding/binary"
	"errors"
	"fmt"
	"io"
	"net"
	"sort"
	"strings"
	"sync"
	"time"

	tls "github.com/refraction-networking/utls"
	"verif/harness/vh"
)

func init() {
	register("C29", "Corr.C29Corr", func(c *vh.Ctx) { runC29(c, false) })
	register("C29race", "Corr.C29Corr", func(c *vh.Ctx) { runC29(c, true) })
}

type nopConn struct{ net.Conn }

func (nopConn) Write(b []byte) (int, error)      { return len(b), nil }
func (nopConn) Read(b []byte) (int, error)       { return 0, io.EOF }
func (nopConn) Close() error                     { return nil }
func (nopConn) SetDeadline(time.Time) error      { return nil }
func (nopConn) SetReadDeadline(time.Time) error  { return nil }
func (nopConn) SetWriteDeadline(time.Time) error { return nil }
func (nopConn) LocalAddr() net.Addr              { return &net.TCPAddr{} }
func (nopConn) RemoteAddr() net.Addr             { return &net.TCPAddr{} }

func isGrease16(v uint16) bool { return v&0x0f0f == 0x0a0a && v>>8 == v&0xff }

// c29Hello is what the test server extracts from a ClientHello: the fingerprint signature
// (suites in order + set of extension types, modulo GREASE and padding), the SNI and the
// set of extension types.
type c29Hello struct {
	sig  string
	sni  string
	exts map[uint16]bool
}

// helloSig parses a ClientHello handshake message (without record header).
func helloSig(msg []byte) (c29Hello, bool) {
	h := c29Hello{exts: map[uint16]bool{}}
	if len(msg) < 4+2+32+1 || msg[0] != 1 {
		return h, false
	}
	p := msg[4:]
	p = p[2+32:]
	sl := int(p[0])
	if len(p) < 1+sl+2 {
		return h, false
	}
	p = p[1+sl:]
	cl := int(binary.BigEndian.Uint16(p))
	if len(p) < 2+cl+1 {
		return h, false
	}
	var suites []string
	for i := 0; i+1 < cl; i += 2 {
		v := binary.BigEndian.Uint16(p[2+i:])
		if !isGrease16(v) {
			suites = append(suites, fmt.Sprintf("%04x", v))
		}
	}
	p = p[2+cl:]
	ml := int(p[0])
	if len(p) < 1+ml+2 {
		return h, false
	}
	p = p[1+ml:]
	el := int(binary.BigEndian.Uint16(p))
	p = p[2:]
	if len(p) < el {
		return h, false
	}
	p = p[:el]
	var exts []string
	for len(p) >= 4 {
		t := binary.BigEndian.Uint16(p)
		l := int(binary.BigEndian.Uint16(p[2:]))
		if len(p) < 4+l {
			return h, false
		}
		body := p[4 : 4+l]
		p = p[4+l:]
		if t == 0 && len(body) >= 5 {
			h.sni = string(body[5:])
		}
		if !isGrease16(t) && t != 21 /* padding depends on SNI length */ {
			exts = append(exts, fmt.Sprintf("%d", t))
			h.exts[t] = true
		}
	}
	sort.Strings(exts)
	h.sig = strings.Join(suites, ",") + "|" + strings.Join(exts, ",")
	return h, true
}

type prefixConn struct {
	net.Conn
	r io.Reader
}

func (p *prefixConn) Read(b []byte) (int, error) { return p.r.Read(b) }

// ---- ids and fingerprints, numbered as in Model/Roller.v (Record hid) ----

// c29FP is a ClientHelloID as the model sees it: base = (Client, Version, Weights by value), seed = number of the
// Seed (-1 = nil). A fingerprint seen on the wire is named by the id-with-seed that produces it.
type c29FP struct {
	rnd  bool
	base int // -1 = not recognised
	seed int
}

func (f c29FP) unseeded() bool { return f.rnd && f.seed < 0 }
func (f c29FP) coq() string {
	b := f.base
	if b < 0 {
		b = 9999
	}
	return fmt.Sprintf("(mkHid %s %d %s)", vh.Bool(f.rnd), b, vh.Opt(f.seed >= 0, fmt.Sprint(f.seed)))
}
func (f c29FP) String() string {
	if f == c29None {
		return "none"
	}
	if !f.rnd {
		return fmt.Sprintf("p%d", f.base)
	}
	if f.seed < 0 {
		return fmt.Sprintf("R%d", f.base)
	}
	return fmt.Sprintf("R%d#%d", f.base, f.seed)
}

var c29None = c29FP{base: -2, seed: -1} // "no id"

func c29Opt(f c29FP) string { return vh.Opt(f != c29None, f.coq()) }

// c29Family is one kind of randomized id: a "Randomized*" client name with a weights vector. need lists the extension
// types every hello of the family must have / must not have (forced by the client name or by weights 0 / 1); two families
// with a conflicting entry can be told apart on the wire whatever their seeds.
type c29Family struct {
	client  string
	weights *tls.Weights // nil = DefaultWeights
	need    map[uint16]bool
}

func (a *c29Family) distinguishable(b *c29Family) bool {
	for t, v := range a.need {
		if w, ok := b.need[t]; ok && w != v {
			return true
		}
	}
	return false
}
func (a *c29Family) matches(h c29Hello) bool {
	for t, v := range a.need {
		if h.exts[t] != v {
			return false
		}
	}
	return true
}

type c29Entry struct {
	id tls.ClientHelloID
	fp c29FP
}

// c29World numbers ids, seeds and fingerprints consistently for the whole run.
type c29World struct {
	mu       sync.Mutex
	fams     []*c29Family
	parrots  []tls.ClientHelloID
	pool     []c29Entry
	sigToFP  map[string]c29FP
	seedNo   map[tls.PRNGSeed]int
	nextSeed int
}

const c29FamBase = 100

func (w *c29World) famOf(h tls.ClientHelloID) int {
	for i, f := range w.fams {
		if f.client != h.Client || h.Version != "0" {
			continue
		}
		a, b := f.weights, h.Weights
		if a == nil {
			a = &tls.DefaultWeights
		}
		if b == nil {
			b = &tls.DefaultWeights
		}
		if *a == *b {
			return i
		}
	}
	return -1
}

func c29Probe(id tls.ClientHelloID) (c29Hello, bool) {
	uc := tls.UClient(nopConn{}, &tls.Config{ServerName: "probe.example.test"}, id)
	if err := uc.BuildHandshakeState(); err != nil {
		return c29Hello{}, false
	}
	return helloSig(uc.HandshakeState.Hello.Raw)
}

// idFP names a ClientHelloID held by a Roller / a connection.
func (w *c29World) idFP(h tls.ClientHelloID) c29FP {
	w.mu.Lock()
	defer w.mu.Unlock()
	if !strings.HasPrefix(h.Client, "Randomized") {
		for i, p := range w.parrots {
			if p.Client == h.Client && p.Version == h.Version && h.Seed == nil {
				return c29FP{false, i, -1}
			}
		}
		return c29FP{false, -1, -1}
	}
	fam := w.famOf(h)
	if fam < 0 {
		return c29FP{true, -1, -1}
	}
	if h.Seed == nil {
		return c29FP{true, c29FamBase + fam, -1}
	}
	if n, ok := w.seedNo[*h.Seed]; ok {
		return c29FP{true, c29FamBase + fam, n}
	}
	// a seed generated by the library: find the number its fingerprint got when the server saw it
	n := -1
	if hello, ok := c29Probe(h); ok {
		if f, seen := w.sigToFP[hello.sig]; seen && f.rnd && f.base == c29FamBase+fam {
			n = f.seed
		} else if !seen {
			n = w.nextSeed
			w.nextSeed++
			w.sigToFP[hello.sig] = c29FP{true, c29FamBase + fam, n}
		}
	}
	if n < 0 {
		n = w.nextSeed
		w.nextSeed++
	}
	w.seedNo[*h.Seed] = n
	return c29FP{true, c29FamBase + fam, n}
}

// wireFP names the fingerprint of a hello the server received: a known one by its signature, otherwise a fresh
// fingerprint of the one unseeded family among cands (family indices) that can have produced it.
func (w *c29World) wireFP(h c29Hello, cands []int) c29FP {
	w.mu.Lock()
	defer w.mu.Unlock()
	if f, ok := w.sigToFP[h.sig]; ok {
		return f
	}
	match := -1
	for _, fi := range cands {
		if w.fams[fi].matches(h) {
			if match >= 0 {
				return c29FP{true, -1, -1}
			}
			match = fi
		}
	}
	if match < 0 {
		return c29FP{false, -1, -1}
	}
	f := c29FP{true, c29FamBase + match, w.nextSeed}
	w.nextSeed++
	w.sigToFP[h.sig] = f
	return f
}

// ---- the test server ----

const (
	c29Reject = iota // read the hello, close
	c29Accept        // run the real handshake
	c29Stall         // read the hello, then stay silent until the client goes away
)

// how one attempt ended, seen from the server
const (
	c29Refused = iota // closed / handshake failed
	c29Served         // handshake completed and the client used the connection
	c29Late           // handshake completed on the server side but the client never used the connection
	c29Silent         // stalled
)

type c29Attempt struct {
	fp   c29FP
	how  int
	done chan struct{}
}

type c29Server struct {
	ln      net.Listener
	w       *c29World
	cands   []int // unseeded families in play
	mu      sync.Mutex
	okd     map[string][]*c29Attempt // sni -> attempts, in the order their hellos arrived
	policy  map[c29FP]int            // exact fingerprint, or the unseeded family id for fresh fingerprints
	cfg     *tls.Config
	wg      sync.WaitGroup
	maxConn int // close the listener after this many accepted connections (0 = never)
	nconn   int
	nohello int        // connections that ended before a complete ClientHello arrived
	held    []net.Conn // black-holed connections, kept open until the scenario ends
}

// release closes the black-holed connections (Roller does not close the connection of a failed attempt itself).
func (s *c29Server) release() {
	s.mu.Lock()
	for _, h := range s.held {
		h.Close()
	}
	s.held = nil
	s.mu.Unlock()
}

func (s *c29Server) policyOf(f c29FP) int {
	if p, ok := s.policy[f]; ok {
		return p
	}
	if f.rnd {
		return s.policy[c29FP{true, f.base, -1}]
	}
	return c29Reject
}

func (s *c29Server) serve() {
	for {
		conn, err := s.ln.Accept()
		if err != nil {
			return
		}
		s.mu.Lock()
		s.nconn++
		if s.maxConn > 0 && s.nconn >= s.maxConn {
			s.ln.Close()
		}
		s.mu.Unlock()
		s.wg.Add(1)
		go func() {
			defer s.wg.Done()
			defer conn.Close()
			conn.SetDeadline(time.Now().Add(4 * time.Second)) // the hello follows the TCP connect at once
			hdr := make([]byte, 5)
			body := []byte(nil)
			_, err := io.ReadFull(conn, hdr)
			if err == nil {
				body = make([]byte, int(binary.BigEndian.Uint16(hdr[3:])))
				_, err = io.ReadFull(conn, body)
			}
			if err != nil {
				s.mu.Lock()
				s.nohello++
				s.mu.Unlock()
				return
			}
			hello, ok := helloSig(body)
			fp := c29FP{false, -1, -1}
			if ok {
				fp = s.w.wireFP(hello, s.cands)
			}
			conn.SetDeadline(time.Now().Add(8 * time.Second))
			at := &c29Attempt{fp: fp, how: c29Refused, done: make(chan struct{})}
			s.mu.Lock()
			s.okd[hello.sni] = append(s.okd[hello.sni], at)
			pol := s.policyOf(fp)
			if pol == c29Stall {
				s.held = append(s.held, conn)
			}
			s.mu.Unlock()
			switch pol {
			case c29Reject:
				close(at.done)
				return
			case c29Stall:
				at.how = c29Silent
				close(at.done)
				conn.SetDeadline(time.Time{})
				io.Copy(io.Discard, conn) // say nothing until the scenario ends
				return
			}
			defer close(at.done)
			tc := tls.Server(&prefixConn{conn, io.MultiReader(bytes.NewReader(append(hdr, body...)), conn)}, s.cfg)
			if tc.Handshake() == nil {
				// the client's handshake succeeded iff it goes on to use the connection (the runner writes one byte)
				one := make([]byte, 1)
				conn.SetReadDeadline(time.Now().Add(5 * time.Second))
				if n, _ := tc.Read(one); n == 1 {
					conn.SetReadDeadline(time.Now().Add(8 * time.Second))
					at.how = c29Served
					io.Copy(io.Discard, tc)
				} else {
					at.how = c29Late
				}
			}
		}()
	}
}

// c29Obs is what one Dial was observed to do.
type c29Obs struct {
	name      string
	wb, wa    c29FP // WorkingHelloID before / after (c29None = nil)
	trace     []c29FP
	how       []int
	connected c29FP
	tcpErr    bool
	elapsed   time.Duration // how long Dial took
	listening bool          // the listener was still open when Dial returned
	err       string
	nohello   int
}

func runC29(c *vh.Ctx, concurrent bool) {
	pki := vh.NewTestPKI("*.example.test", "example.test")
	pki.InstallAsSystemRoots(c.Out + "/pki")
	cert := tls.Certificate{Certificate: [][]byte{pki.LeafDER}, PrivateKey: pki.LeafKey}
	scfg := &tls.Config{Certificates: []tls.Certificate{cert}}

	w := &c29World{sigToFP: map[string]c29FP{}, seedNo: map[tls.PRNGSeed]int{}, nextSeed: 1000}
	// fixed parrots
	for _, id := range []tls.ClientHelloID{tls.HelloChrome_58, tls.HelloChrome_70, tls.HelloChrome_83, tls.HelloChrome_100,
		tls.HelloFirefox_55, tls.HelloFirefox_63, tls.HelloFirefox_99, tls.HelloFirefox_105, tls.HelloIOS_11_1,
		tls.HelloIOS_12_1, tls.HelloIOS_13, tls.HelloSafari_16_0, tls.Hello360_11_0, tls.HelloQQ_11_1} {
		hello, ok := c29Probe(id)
		if !ok {
			continue
		}
		if _, dup := w.sigToFP[hello.sig]; dup {
			continue
		}
		fp := c29FP{false, len(w.parrots), -1}
		w.parrots = append(w.parrots, id)
		w.sigToFP[hello.sig] = fp
		w.pool = append(w.pool, c29Entry{id, fp})
	}
	// randomized families: the three shipped ids, and the same client names with weights that force extensions in or out
	w.fams = []*c29Family{
		{client: tls.HelloRandomized.Client, need: map[uint16]bool{}},
		{client: tls.HelloRandomizedALPN.Client, need: map[uint16]bool{16: true}},
		{client: tls.HelloRandomizedNoALPN.Client, need: map[uint16]bool{16: false}},
	}
	for len(w.fams) < 8 {
		base := w.fams[c.Rng.Intn(3)]
		wt := tls.DefaultWeights
		f := &c29Family{client: base.client, weights: &wt, need: map[uint16]bool{}}
		for t, v := range base.need {
			f.need[t] = v
		}
		force := func(t uint16, p *float64) {
			switch c.Rng.Intn(3) {
			case 0:
				*p = 0
				f.need[t] = false
			case 1:
				*p = 1
				f.need[t] = true
			}
		}
		if base.client == tls.HelloRandomized.Client {
			force(16, &wt.Extensions_Append_ALPN)
		}
		force(5, &wt.Extensions_Append_Status)
		force(18, &wt.Extensions_Append_SCT)
		force(0xff01, &wt.Extensions_Append_Reneg)
		force(23, &wt.Extensions_Append_EMS)
		if w.famOf(tls.ClientHelloID{Client: f.client, Version: "0", Weights: f.weights}) < 0 {
			w.fams = append(w.fams, f)
		}
	}
	for i, f := range w.fams { // unseeded ids
		w.pool = append(w.pool, c29Entry{tls.ClientHelloID{Client: f.client, Version: "0", Weights: f.weights}, c29FP{true, c29FamBase + i, -1}})
	}
	// randomized ids with a seed (the first four with the plain "Randomized" name and default weights)
	var seeds [4]tls.PRNGSeed
	for i := range seeds {
		c.Rng.Read(seeds[i][:])
		w.seedNo[seeds[i]] = i
	}
	for k := 0; k < 9; k++ {
		fi, si := 0, k
		if k >= 4 {
			fi, si = c.Rng.Intn(len(w.fams)), c.Rng.Intn(4)
		}
		sd := seeds[si]
		id := tls.ClientHelloID{Client: w.fams[fi].client, Version: "0", Seed: &sd, Weights: w.fams[fi].weights}
		fp := c29FP{true, c29FamBase + fi, si}
		hello, ok := c29Probe(id)
		if !ok {
			continue
		}
		if _, dup := w.sigToFP[hello.sig]; dup {
			continue
		}
		w.sigToFP[hello.sig] = fp
		w.pool = append(w.pool, c29Entry{id, fp})
	}
	pool := w.pool
	c.Extra["distinct_fingerprints"] = len(w.sigToFP)
	c.Extra["unseeded_families"] = len(w.fams)

	fpList := func(xs []c29FP) string {
		it := make([]string, len(xs))
		for i, x := range xs {
			it[i] = x.coq()
		}
		return vh.List(it)
	}
	dialNo := 0
	scenarios := c.N / 8
	if scenarios < 12 {
		scenarios = 12
	}
	if concurrent {
		scenarios = 6
		if c.Tier == "thorough" {
			scenarios = 40
		}
	}
	stalls, unseededOK := 0, 0
	for sc := 0; sc < scenarios; sc++ {
		// configured ids: 2..5 distinct ids; one more may be accepted / remembered without being configured
		perm := c.Rng.Perm(len(pool))
		nids := 2 + c.Rng.Intn(4)
		sameFamily := sc%3 == 2
		if sameFamily {
			// mostly ids that share their client name and differ only in seed / weights
			var fam, rest []int
			for _, x := range perm {
				if pool[x].fp.rnd {
					fam = append(fam, x)
				} else {
					rest = append(rest, x)
				}
			}
			perm = append(fam, rest...)
		}
		// unseeded ids in one scenario must be distinguishable on the wire
		var sel []int
		var cands []int
		for _, x := range perm {
			if len(sel) == nids+1 {
				break
			}
			if pool[x].fp.unseeded() {
				fi := pool[x].fp.base - c29FamBase
				clash := false
				for _, o := range cands {
					clash = clash || !w.fams[fi].distinguishable(w.fams[o])
				}
				if clash {
					continue
				}
				cands = append(cands, fi)
			}
			sel = append(sel, x)
		}
		ids := sel[:nids]
		idFPs := make([]c29FP, nids)
		for i, x := range ids {
			idFPs[i] = pool[x].fp
		}
		// every 5th scenario some fingerprints are black-holed: short handshake timeout so the runs stay fast
		stallSc := !concurrent && sc%5 == 1
		timeout := 3 * time.Second
		if stallSc {
			timeout = 400 * time.Millisecond
		}
		srv := &c29Server{w: w, cands: cands, okd: map[string][]*c29Attempt{}, policy: map[c29FP]int{}, cfg: scfg}
		nstall := 0
		var stalled []int
		for _, x := range sel { // may accept an id that is not configured
			switch {
			case c.Rng.Intn(3) == 0:
				srv.policy[pool[x].fp] = c29Accept
			case stallSc && nstall < 2 && c.Rng.Intn(2) == 0:
				srv.policy[pool[x].fp] = c29Stall
				stalled = append(stalled, x)
				nstall++
			default:
				srv.policy[pool[x].fp] = c29Reject
			}
		}
		if stallSc { // at least one configured fingerprint is black-holed and another one is served
			a, b := c.Rng.Intn(nids), c.Rng.Intn(nids-1)
			if b >= a {
				b++
			}
			if len(stalled) == 0 {
				srv.policy[pool[sel[a]].fp] = c29Stall
				stalled = append(stalled, sel[a])
			}
			if srv.policy[pool[sel[b]].fp] != c29Stall {
				srv.policy[pool[sel[b]].fp] = c29Accept
			}
		}
		if sc%5 == 4 {
			srv.maxConn = 1 + c.Rng.Intn(3) // TCP dial starts failing after a few connections
		}
		ln, err := net.Listen("tcp", "127.0.0.1:0")
		if err != nil {
			panic(err)
		}
		srv.ln = ln
		go srv.serve()
		roller, _ := tls.NewRoller()
		roller.HelloIDs = nil
		for _, x := range ids {
			roller.HelloIDs = append(roller.HelloIDs, pool[x].id)
		}
		roller.TcpDialTimeout = 2 * time.Second
		if stallSc && sc%10 == 1 {
			// a TCP dial timeout shorter than the handshake timeout: a black-holed handshake outlasts it
			roller.TcpDialTimeout = 250 * time.Millisecond
		}
		roller.TlsHandshakeTimeout = timeout
		preset := c29None
		if sameFamily || stallSc || c.Rng.Intn(3) == 0 { // a remembered working id, possibly not among the configured ones
			x := sel[c.Rng.Intn(len(sel))]
			if len(stalled) > 0 && c.Rng.Intn(2) == 0 {
				x = stalled[c.Rng.Intn(len(stalled))] // the remembered fingerprint has been black-holed since
			}
			wid := pool[x].id
			roller.WorkingHelloID = &wid
			preset = pool[x].fp
		}

		oneDial := func(name string) c29Obs {
			o := c29Obs{name: name, wb: c29None, wa: c29None, connected: c29None}
			roller.HelloIDMu.Lock()
			before := roller.WorkingHelloID
			roller.HelloIDMu.Unlock()
			if before != nil {
				o.wb = w.idFP(*before)
			}
			// a Dial makes at most nids+1 attempts, each bounded by the two timeouts; one that is still running long after
			// that does not enforce its handshake timeout (only a black-holing server can make that visible)
			var conn *tls.UConn
			var err error
			returned := make(chan struct{})
			started := time.Now()
			go func() {
				defer close(returned)
				conn, err = roller.Dial("tcp", ln.Addr().String(), name)
				o.elapsed = time.Since(started)
			}()
			select {
			case <-returned:
			case <-time.After(time.Duration(nids+1)*(timeout+roller.TcpDialTimeout) + 20*time.Second):
				c.Fail("no-timeout", "Dial did not return although every attempt has a handshake timeout", map[string]any{"ids": fmt.Sprint(idFPs), "timeout_ms": timeout.Milliseconds()}, "still running", "")
				srv.release()
				<-returned
			}
			if err != nil {
				o.err = err.Error()
				var oe *net.OpError
				if errors.As(err, &oe) && oe.Op == "dial" {
					o.tcpErr = true
				}
			} else {
				o.connected = w.idFP(conn.ClientHelloID)
				if sn := conn.ConnectionState().ServerName; sn != name {
					c.Fail("sni", "returned connection's SNI is not the given server name", name, sn, name)
				}
				conn.Write([]byte{1}) // use the connection, so the server knows this handshake succeeded
				conn.Close()
			}
			roller.HelloIDMu.Lock()
			after := roller.WorkingHelloID
			roller.HelloIDMu.Unlock()
			if after != nil {
				o.wa = w.idFP(*after)
			}
			srv.mu.Lock()
			ats := append([]*c29Attempt{}, srv.okd[name]...)
			o.listening = !(srv.maxConn > 0 && srv.nconn >= srv.maxConn)
			o.nohello = srv.nohello
			srv.mu.Unlock()
			// what "the handshake succeeds" means is decided by the server side of each attempt
			for _, a := range ats {
				select {
				case <-a.done:
				case <-time.After(10 * time.Second):
				}
				o.trace = append(o.trace, a.fp)
				o.how = append(o.how, a.how)
			}
			return o
		}

		// judge applies the property text to one observed Dial. known: ids that may have been the remembered working id when
		// the call started (exactly wb for a single caller). lastOK: fingerprint of the most recent successful Dial, if known.
		judge := func(o c29Obs, known []c29FP, lastOK c29FP, sequential bool) {
			in := map[string]any{"ids": fmt.Sprint(idFPs), "working": o.wb.String()}
			got := map[string]any{"trace": fmt.Sprint(o.trace), "how": o.how, "connected": o.connected.String(), "after": o.wa.String(), "err": o.err}
			member := func(f c29FP, l []c29FP) bool {
				for _, y := range l {
					if y == f {
						return true
					}
				}
				return false
			}
			may := append(append([]c29FP{}, idFPs...), known...)
			// the configured (or remembered) id a fingerprint on the wire belongs to
			attr := func(f c29FP) c29FP {
				if member(f, may) || !f.rnd {
					return f
				}
				return c29FP{true, f.base, -1}
			}
			seen := map[c29FP]bool{}
			for i, f := range o.trace {
				a := attr(f)
				if seen[a] {
					c.Fail("retry", "a ClientHelloID was tried twice in one Dial", in, got, "each id at most once")
				}
				seen[a] = true
				if f.base < 0 || !member(a, may) {
					c.Fail("foreign-id", "Dial tried an id that is neither configured nor the working one", in, got, "")
				}
				if i < len(o.trace)-1 && o.how[i] == c29Served {
					c.Fail("skipped-success", "Dial continued after a handshake that succeeded", in, got, "")
				}
			}
			if sequential && len(o.trace) > 0 {
				if o.wb != c29None && attr(o.trace[0]) != o.wb {
					c.Fail("working-first", "Dial did not start with the remembered working id", in, got, o.wb.String())
				}
				if lastOK != c29None && o.trace[0] != lastOK {
					c.Fail("working-first", "Dial did not start with the fingerprint of the most recent successful Dial", in, got, lastOK.String())
				}
			}
			// "records that ID as working": with a single caller the recorded id must be the connected one; with concurrent
			// Dials on one Roller another call may legitimately have recorded its own id in between, so only the
			// sequential runs compare the field (the concurrent runs check that some id is recorded).
			if o.connected != c29None {
				n := len(o.trace)
				if n == 0 || o.trace[n-1] != o.connected || o.how[n-1] != c29Served || o.connected.unseeded() ||
					(sequential && o.wa != o.connected) || (!sequential && o.wa == c29None) {
					c.Fail("result", "returned connection is not the first attempt whose handshake succeeded, or its id was not recorded as working", in, got, "")
				}
			}
			if o.connected == c29None && !o.tcpErr && sequential {
				want := len(idFPs)
				if o.wb != c29None && !member(o.wb, idFPs) {
					want++
				}
				if len(o.trace) != want {
					c.Fail("exhaust", "Dial gave up without trying every id once", in, got, want)
				}
			}
			// "returns the TCP dial error immediately" - when a TCP dial fails. While the listener is open a dial to it can
			// only fail by using up its whole TcpDialTimeout, and every handshake that timed out before it used up its whole
			// TlsHandshakeTimeout; a dial error that comes back sooner was not produced by a failing TCP dial.
			if sequential && o.tcpErr && o.listening {
				need := roller.TcpDialTimeout
				for _, h := range o.how {
					if h == c29Silent || h == c29Late {
						need += timeout
					}
				}
				if o.elapsed < need {
					got["elapsed_ms"] = o.elapsed.Milliseconds()
					c.Fail("spurious-tcp-error", "Dial returned a TCP dial error although the server was listening and no dial can have waited for TcpDialTimeout",
						map[string]any{"ids": fmt.Sprint(idFPs), "working": o.wb.String(), "tcp_dial_timeout_ms": roller.TcpDialTimeout.Milliseconds(), "handshake_timeout_ms": timeout.Milliseconds()},
						got, fmt.Sprintf("a connection or a handshake error; a genuine dial timeout takes at least %d ms", need.Milliseconds()))
				}
			}
			if sequential && o.connected == c29None && o.wa != o.wb {
				c.Fail("result", "a Dial that returned no connection changed the working id", in, got, o.wb.String())
			}
		}

		if !concurrent {
			lastOK := c29None
			for d := 0; d < 3+c.Rng.Intn(3); d++ {
				dialNo++
				o := oneDial(fmt.Sprintf("d%d.example.test", dialNo))
				var known []c29FP
				if o.wb != c29None {
					known = []c29FP{o.wb}
				}
				judge(o, known, lastOK, true)
				if o.connected != c29None && len(o.trace) > 0 {
					lastOK = o.trace[len(o.trace)-1]
					if lastOK.seed >= 1000 {
						unseededOK++
					}
				}
				tr := make([]string, len(o.trace))
				for i, f := range o.trace {
					beh := "Refuse 0"
					switch o.how[i] {
					case c29Served:
						beh = "Serve 0"
					case c29Late:
						beh = fmt.Sprintf("Serve %d", timeout.Milliseconds())
					case c29Silent:
						beh = "Silent"
						stalls++
					}
					tr[i] = fmt.Sprintf("(%s, %s)", f.coq(), beh)
				}
				c.Case("dial", fmt.Sprintf("CDial %s %s %d %s %s %s %s %d %s %d", fpList(idFPs), c29Opt(o.wb), timeout.Milliseconds(), vh.List(tr),
					c29Opt(o.connected), vh.Bool(o.tcpErr), c29Opt(o.wa), roller.TcpDialTimeout.Milliseconds(), vh.Bool(o.listening), o.elapsed.Milliseconds()),
					fmt.Sprint(idFPs, o.wb, o.trace, o.how, o.connected, o.tcpErr), len(o.trace) >= 2,
					map[string]any{"ids": fmt.Sprint(idFPs), "working_before": o.wb.String(), "timeout_ms": timeout.Milliseconds(),
						"trace": fmt.Sprint(o.trace), "how": o.how, "connected": o.connected.String(), "tcp_err": o.tcpErr,
						"working_after": o.wa.String(), "connections_without_hello": o.nohello,
						"tcp_dial_timeout_ms": roller.TcpDialTimeout.Milliseconds(), "listening": o.listening, "elapsed_ms": o.elapsed.Milliseconds()})
				if c.Rng.Intn(4) == 0 { // the server changes its mind between Dials
					srv.mu.Lock()
					f := pool[sel[c.Rng.Intn(nids)]].fp
					if srv.policy[f] == c29Accept {
						srv.policy[f] = c29Reject
					} else {
						srv.policy[f] = c29Accept
					}
					srv.mu.Unlock()
				}
			}
		} else {
			var wg sync.WaitGroup
			obs := make([]c29Obs, 6)
			for g := 0; g < 6; g++ {
				wg.Add(1)
				dialNo++
				name := fmt.Sprintf("c%d.example.test", dialNo)
				go func(g int) { defer wg.Done(); obs[g] = oneDial(name) }(g)
			}
			wg.Wait()
			// any id recorded by one of the calls (or remembered at the start) may have been the working id of another
			var known []c29FP
			if preset != c29None {
				known = append(known, preset)
			}
			for _, o := range obs {
				for _, f := range []c29FP{o.wb, o.wa, o.connected} {
					if f != c29None {
						known = append(known, f)
					}
				}
			}
			for _, o := range obs {
				judge(o, known, c29None, false)
				c.Case("cdial", "CDial [] None 0 [] None false None 0 false 0", o.name, len(o.trace) >= 2,
					map[string]any{"ids": fmt.Sprint(idFPs), "trace": fmt.Sprint(o.trace), "connected": o.connected.String()})
			}
		}
		ln.Close()
		srv.release()
		srv.wg.Wait()
	}
	c.Extra["stalled_handshakes"] = stalls
	c.Extra["dials_won_by_a_generated_seed"] = unseededOK
	// TCP failure before any attempt
	if !concurrent {
		ln, _ := net.Listen("tcp", "127.0.0.1:0")
		addr := ln.Addr().String()
		ln.Close()
		roller, _ := tls.NewRoller()
		roller.HelloIDs = []tls.ClientHelloID{pool[0].id, pool[1].id}
		roller.TcpDialTimeout = time.Second
		_, err := roller.Dial("tcp", addr, "closed.example.test")
		var oe *net.OpError
		if err == nil || !errors.As(err, &oe) || oe.Op != "dial" {
			c.Fail("tcp-error", "Dial to a closed port did not return the TCP dial error", addr, fmt.Sprint(err), "dial error")
		}
		c.Case("dial", fmt.Sprintf("CDial %s None 3000 [] None true None 1000 false 0", fpList([]c29FP{pool[0].fp, pool[1].fp})), "closed-port", false,
			map[string]any{"closed_port": true, "err": fmt.Sprint(err)})
	}
}

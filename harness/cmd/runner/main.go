// runner: correspondence case generator. For one property it drives the real
// implementation (built from /repo with -tags verif) on generated inputs,
// checks the property's own oracle on what the code produced, and writes the
// observed behaviour as Coq case files to be re-evaluated against the model.
package main

import (
	"flag"
	"fmt"
	"os"

	"verif/harness/vh"
)

var suites = map[string]func(*vh.Ctx){}
var corr = map[string]string{}

func register(prop, corrMod string, f func(*vh.Ctx)) { suites[prop] = f; corr[prop] = corrMod }

func main() {
	if len(os.Args) < 2 {
		fmt.Println("usage: runner <prop> -seed S -n N -tier T -out DIR")
		os.Exit(2)
	}
	prop := os.Args[1]
	fs := flag.NewFlagSet("runner", flag.ExitOnError)
	seed := fs.Int64("seed", 1, "")
	n := fs.Int("n", 200, "")
	tier := fs.String("tier", "quick", "")
	out := fs.String("out", "", "")
	replay := fs.String("replay", "", "")
	fs.Parse(os.Args[2:])
	f, ok := suites[prop]
	if !ok {
		fmt.Println("unknown suite", prop)
		os.Exit(2)
	}
	c := vh.New(prop, corr[prop], *seed, *n, *tier, *out)
	c.Replay = *replay
	f(c)
	c.Finish()
}

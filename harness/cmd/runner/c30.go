package main

import (
	"encoding/binary"
	"fmt"
	"math"
	"sort"
	"strings"
	"sync"

	tls "github.com/refraction-networking/utls"
	"golang.org/x/crypto/sha3"
	"verif/harness/vh"
)

func init() {
	register("C30", "Corr.C30Corr", runC30)
	register("C30race", "Corr.C30Corr", runC30Race)
}

func shakeStream(seed *tls.PRNGSeed, n int) []byte {
	h := sha3.NewShake256()
	h.Write(seed[:])
	out := make([]byte, n)
	h.Read(out)
	return out
}

func craftedStream(c *vh.Ctx, n int) []byte {
	words := []uint64{0, 1, 1<<63 - 1, 1<<64 - 1, 1 << 63, 1<<63 - 512, 1<<63 - 513, 1<<63 - 1024, 1<<63 - 1025, 1<<63 - 256,
		1 << 32, 1<<32 - 1, 1 << 62, 1<<53 + 1, 1<<62 + 1<<9, 1<<31 - 1, 0x7fffffff00000000, 0x7ffffffe00000000, 0x8000000000000001}
	out := make([]byte, n)
	for i := 0; i+8 <= n; i += 8 {
		var w uint64
		switch c.Rng.Intn(3) {
		case 0:
			w = words[c.Rng.Intn(len(words))]
		case 1:
			// near the top of the 63-bit / 31-bit ranges: exercises the rejection loops
			w = (1<<63 - 1) - c.Rng.Uint64()>>uint(20+c.Rng.Intn(44))
		default:
			w = c.Rng.Uint64()
		}
		binary.BigEndian.PutUint64(out[i:], w)
	}
	return out
}

func newSeed(c *vh.Ctx) *tls.PRNGSeed {
	var s tls.PRNGSeed
	c.Rng.Read(s[:])
	return &s
}

var intBounds = []int64{0, 1, 2, 3, 7, 8, 1000, 1<<31 - 2, 1<<31 - 1, 1 << 31, 1<<31 + 1, 1<<32 + 5, 1 << 62, 1<<62 + 1, 1<<63 - 1, -1, -5, math.MinInt64}
var weightBounds = []float64{0, math.Copysign(0, -1), 1, 0.5, -0.5, 1.5, math.Nextafter(1, 0), math.Nextafter(1, 2), math.Nextafter(0, 1), math.Nextafter(0, -1),
	math.Inf(1), math.Inf(-1), math.NaN(), -1e-16, 1e-300, -1e300, 1e300, 0.25, 0.75, 1 - 1e-15, 5e-324, math.MaxFloat64, -math.MaxFloat64}

func pickInt(c *vh.Ctx) int64 {
	if c.Rng.Intn(3) == 0 {
		return intBounds[c.Rng.Intn(len(intBounds))]
	}
	v := int64(c.Rng.Uint64() >> uint(c.Rng.Intn(64)))
	if c.Rng.Intn(8) == 0 {
		v = -v
	}
	return v
}

func runC30(c *vh.Ctx) {
	const slen = 640
	for i := 0; i < c.N; i++ {
		seed := newSeed(c)
		stream := shakeStream(seed, slen)
		p, _ := tls.VerifNewPRNG(seed)
		p2, _ := tls.VerifNewPRNG(seed) // determinism: same seed, second instance
		if (i/5)%2 == 1 {
			// crafted stream: boundary draws (0, 1, 2^63-1, all-ones, values that round to
			// 1.0 as float64, rejection-threshold neighbours) mixed with random words
			stream = craftedStream(c, slen)
			p = tls.VerifNewPRNGFromStream(stream)
			p2 = tls.VerifNewPRNGFromStream(stream)
			c.Count("crafted_streams")
		}
		// optionally advance both by a few words so calls start mid-stream
		skip := c.Rng.Intn(4)
		for k := 0; k < skip; k++ {
			p.Uint64()
			p2.Uint64()
		}
		s := stream[8*skip:]
		var call, res, key string
		var sample map[string]any
		nontriv := true
		switch kind := i % 5; kind {
		case 0:
			n := pickInt(c)
			v := p.Intn(int(n))
			v2 := p2.Intn(int(n))
			call, res, key = fmt.Sprintf("KIntn %s", vh.Z(n)), fmt.Sprintf("RInt %s", vh.Z(int64(v))), fmt.Sprintf("intn/%d/%x", n, seed[:4])
			sample = map[string]any{"op": "Intn", "n": n, "v": v}
			nontriv = n > 1
			if v != v2 {
				c.Fail("determinism", "same seed gave different Intn results", n, []int{v, v2}, "equal")
			}
			if (n <= 0 && v != 0) || (n > 0 && (v < 0 || int64(v) >= n)) {
				c.Fail(fmt.Sprintf("intn:%d", n), "Intn out of [0,n) (or non-zero for n<=0)", n, v, "[0,n)")
			}
		case 1:
			n := pickInt(c)
			v := p.Int63n(n)
			v2 := p2.Int63n(n)
			call, res, key = fmt.Sprintf("KInt63n %s", vh.Z(n)), fmt.Sprintf("RInt %s", vh.Z(v)), fmt.Sprintf("int63n/%d/%x", n, seed[:4])
			sample = map[string]any{"op": "Int63n", "n": n, "v": v}
			nontriv = n > 1
			if v != v2 {
				c.Fail("determinism", "same seed gave different Int63n results", n, []int64{v, v2}, "equal")
			}
			if (n <= 0 && v != 0) || (n > 0 && (v < 0 || v >= n)) {
				c.Fail(fmt.Sprintf("int63n:%d", n), "Int63n out of [0,n)", n, v, "[0,n)")
			}
		case 2:
			a, b := pickInt(c), pickInt(c)
			if c.Rng.Intn(2) == 0 {
				a, b = int64(c.Rng.Intn(40)-10), int64(c.Rng.Intn(40)-10)
			}
			v := p.Range(int(a), int(b))
			v2 := p2.Range(int(a), int(b))
			call, res, key = fmt.Sprintf("KRange %s %s", vh.Z(a), vh.Z(b)), fmt.Sprintf("RInt %s", vh.Z(int64(v))), fmt.Sprintf("range/%d/%d/%x", a, b, seed[:4])
			sample = map[string]any{"op": "Range", "min": a, "max": b, "v": v}
			lo := a
			if lo < 0 {
				lo = 0
			}
			nontriv = b > lo
			if v != v2 {
				c.Fail("determinism", "same seed gave different Range results", []int64{a, b}, []int{v, v2}, "equal")
			}
			if (b < lo && int64(v) != lo) || (b >= lo && (int64(v) < lo || int64(v) > b)) {
				c.Fail(fmt.Sprintf("range:%d,%d", a, b), "Range outside [max(min,0),max] (or not the clamped minimum)", []int64{a, b}, v, fmt.Sprintf("[%d,%d]", lo, b))
			}
		case 3:
			var w float64
			if c.Rng.Intn(2) == 0 {
				w = weightBounds[c.Rng.Intn(len(weightBounds))]
			} else {
				w = c.Rng.Float64()*1.4 - 0.2
			}
			got := p.FlipWeightedCoin(w)
			got2 := p2.FlipWeightedCoin(w)
			bits := math.Float64bits(w)
			call, res, key = fmt.Sprintf("KFlip %s", vh.N(bits)), fmt.Sprintf("RBool %s", vh.Bool(got)), fmt.Sprintf("flip/%x/%x", bits, seed[:4])
			sample = map[string]any{"op": "FlipWeightedCoin", "w": fmt.Sprint(w), "wbits": bits, "v": got}
			nontriv = w > 0 && w < 1
			draw := binary.BigEndian.Uint64(s[:8]) & (1<<63 - 1)
			if got != got2 {
				c.Fail("determinism", "same seed gave different coin flips", w, []bool{got, got2}, "equal")
			}
			if w <= 0 && got {
				c.Fail(fmt.Sprintf("flip:%x", bits), "FlipWeightedCoin true for weight <= 0", map[string]any{"w": fmt.Sprint(w), "draw": draw}, got, false)
			}
			if w >= 1 && got != (draw != 0) {
				c.Fail(fmt.Sprintf("flip:%x", bits), "FlipWeightedCoin false for weight >= 1 with a non-zero draw", map[string]any{"w": fmt.Sprint(w), "draw": draw}, got, true)
			}
		case 4:
			n := c.Rng.Intn(24)
			pm := p.Perm(n)
			pm2 := p2.Perm(n)
			it := make([]string, n)
			seen := make([]bool, n)
			okp := true
			for k, x := range pm {
				it[k] = vh.Z(int64(x))
				if x < 0 || x >= n || seen[x] {
					okp = false
				} else {
					seen[x] = true
				}
			}
			call, res, key = fmt.Sprintf("KPerm %s", vh.Nat(n)), fmt.Sprintf("RPerm %s", vh.List(it)), fmt.Sprintf("perm/%d/%x", n, seed[:4])
			sample = map[string]any{"op": "Perm", "n": n, "v": pm}
			nontriv = n > 2
			if fmt.Sprint(pm) != fmt.Sprint(pm2) {
				c.Fail("determinism", "same seed gave different permutations", n, nil, "equal")
			}
			if !okp {
				c.Fail("perm", "Perm(n) is not a permutation of 0..n-1", n, pm, "permutation")
			}
		}
		var next [8]byte
		p.Read(next[:])
		c.Case(call[:5], fmt.Sprintf("CCall %s (%s) (%s) %s", vh.Bytes(s[:slen-8*skip-8]), call, res, vh.Bytes(next[:])), key, nontriv, sample)
	}
	// salted seeds: deterministic in (seed, salt), different across salts, different from unsalted.
	// Salts of many lengths (0 .. 1000 bytes, arbitrary bytes); per seed a family of salts that are pairwise different but
	// close: one byte changed at the end / at the front / in the middle, one byte more, one byte less, a common prefix of
	// 31, 32, 33, 64 ... bytes followed by different tails.
	saltLens := []int{0, 1, 2, 3, 4, 5, 7, 8, 9, 15, 16, 17, 20, 31, 32, 33, 34, 40, 47, 48, 49, 63, 64, 65, 72, 100, 127, 128, 129, 135, 136, 137, 200, 255, 256, 257, 300, 1000}
	first32 := func(p *tls.VerifPRNG) string {
		b := make([]byte, 32)
		p.Read(b)
		return string(b)
	}
	commonPrefix := func(a, b string) int {
		n := 0
		for n < len(a) && n < len(b) && a[n] == b[n] {
			n++
		}
		return n
	}
	rounds := 30
	if c.Tier == "thorough" {
		rounds = 200
	}
	for i := 0; i < rounds; i++ {
		seed := newSeed(c)
		L := saltLens[(i+int(c.Seed))%len(saltLens)]
		if i%4 == 3 {
			L = c.Rng.Intn(300)
		}
		raw := make([]byte, L)
		c.Rng.Read(raw)
		base := string(raw)
		flip := func(s string, at int) string {
			b := []byte(s)
			b[at] ^= byte(1 + c.Rng.Intn(255))
			return string(b)
		}
		salts := []string{base, "ALPS", "", base + string([]byte{byte(1 + c.Rng.Intn(255))}), base + "\x00", base + "\x00\x00", base + base}
		if L > 0 {
			salts = append(salts, flip(base, L-1), flip(base, 0), flip(base, c.Rng.Intn(L)), base[:L-1], base[:L/2])
		}
		for _, pl := range []int{31, 32, 33, 64, L} { // two salts with a common prefix of pl bytes and different tails
			if pl <= L {
				t1, t2 := make([]byte, 1+c.Rng.Intn(40)), make([]byte, 1+c.Rng.Intn(40))
				c.Rng.Read(t1)
				c.Rng.Read(t2)
				t2[0] = t1[0] ^ 0x55
				salts = append(salts, base[:pl]+string(t1), base[:pl]+string(t2))
			}
		}
		streams := make([]string, len(salts))
		for k, sl := range salts {
			a1, _ := tls.VerifNewSaltedPRNG(seed, sl)
			a2, _ := tls.VerifNewSaltedPRNG(seed, sl)
			streams[k] = first32(a1)
			c.Count("salted_checks")
			if again := first32(a2); again != streams[k] {
				c.Fail(fmt.Sprintf("salted-determinism:len%d", len(sl)), "salted PRNG not deterministic in (seed,salt)", map[string]any{"seed": vh.Hex(seed[:]), "salt": vh.Hex([]byte(sl))}, []string{vh.Hex([]byte(streams[k])), vh.Hex([]byte(again))}, "equal")
			}
		}
		u, _ := tls.VerifNewPRNG(seed)
		unsalted := first32(u)
		for k := range salts {
			if streams[k] == unsalted {
				c.Fail(fmt.Sprintf("salted-distinct:len%d/unsalted", len(salts[k])), "a salted stream coincides with the unsalted one", map[string]any{"seed": vh.Hex(seed[:]), "salt": vh.Hex([]byte(salts[k]))}, vh.Hex([]byte(unsalted)), "distinct")
			}
			for m := k + 1; m < len(salts); m++ {
				same := salts[k] == salts[m]
				cp := commonPrefix(salts[k], salts[m])
				key := fmt.Sprintf("salted-distinct:len%d/len%d/prefix%d", len(salts[k]), len(salts[m]), cp)
				if strings.TrimRight(salts[k], "\x00") == strings.TrimRight(salts[m], "\x00") {
					// the two salts differ only in the number of zero bytes at their end
					key = fmt.Sprintf("salted-distinct/trailing-nul/len%d/len%d", len(salts[k]), len(salts[m]))
				}
				if !same && streams[k] == streams[m] {
					c.Fail(key, "two different salts give the same stream for the same seed",
						map[string]any{"seed": vh.Hex(seed[:]), "salt1": vh.Hex([]byte(salts[k])), "salt2": vh.Hex([]byte(salts[m]))},
						vh.Hex([]byte(streams[k])), "different streams")
				}
				if same && streams[k] != streams[m] {
					c.Fail("salted-determinism", "equal salts give different streams", vh.Hex([]byte(salts[k])), nil, "equal")
				}
				// a sample of the pairs (short salts, first 8 stream bytes) is also judged by the Coq-side oracle
				if len(salts[k]) <= 40 && len(salts[m]) <= 40 && (k+m+i)%7 == 0 {
					c.OracleCase("salt", fmt.Sprintf("CSalt %s %s %s %s", vh.Bytes([]byte(salts[k])), vh.Bytes([]byte(salts[m])), vh.Bytes([]byte(streams[k][:8])), vh.Bytes([]byte(streams[m][:8]))),
						key, "salted streams: equal salts <-> equal streams", map[string]any{"seed": vh.Hex(seed[:]), "salt1": vh.Hex([]byte(salts[k])), "salt2": vh.Hex([]byte(salts[m]))}, !same)
				}
			}
		}
	}
	c30Reuse(c)
}

// c30Reuse: "deterministic in (seed, salt)" is about the VALUE the seed holds when the call is made. Every entry point that
// takes a *PRNGSeed is driven through ONE seed variable whose contents are overwritten between calls (same salt again,
// another salt, unsalted, interleaved in random order), and compared with what the same (value, salt) gives through a
// variable of its own that is never touched again. PRNGs are also drawn from only after the variable they were made from
// has been overwritten (the PRNG must not alias the caller's seed), and the call must leave the caller's seed as it was.
func c30Reuse(c *vh.Ctx) {
	first32 := func(p *tls.VerifPRNG) string {
		b := make([]byte, 32)
		p.Read(b)
		return string(b)
	}
	rounds := 24
	if c.Tier == "thorough" {
		rounds = 200
	}
	for r := 0; r < rounds; r++ {
		nv := 2 + c.Rng.Intn(3)
		vals := make([]tls.PRNGSeed, nv)
		for i := range vals {
			c.Rng.Read(vals[i][:])
			if i > 0 && c.Rng.Intn(3) == 0 { // a seed that differs from the previous one in a single byte
				vals[i] = vals[i-1]
				vals[i][c.Rng.Intn(len(vals[i]))] ^= byte(1 + c.Rng.Intn(255))
			}
		}
		salts := []string{"ALPS", fmt.Sprint("salt", r)}
		for len(salts) < 2+c.Rng.Intn(3) {
			b := make([]byte, 1+c.Rng.Intn(60))
			c.Rng.Read(b)
			b[len(b)-1] |= 1 // no trailing zero byte: keeps clear of the known trailing-NUL collisions
			salts = append(salts, string(b))
		}
		// reference streams: each (value, salt) through a seed variable of its own that is never written again
		var own []*tls.PRNGSeed
		fresh := func(i int) *tls.PRNGSeed {
			v := new(tls.PRNGSeed)
			*v = vals[i]
			own = append(own, v)
			return v
		}
		ref := make([][]string, nv) // ref[i][0] unsalted, ref[i][1+s] salted with salts[s]
		for i := range vals {
			ref[i] = make([]string, 1+len(salts))
			u, _ := tls.VerifNewPRNG(fresh(i))
			ref[i][0] = first32(u)
			for s, sl := range salts {
				p, _ := tls.VerifNewSaltedPRNG(fresh(i), sl)
				ref[i][1+s] = first32(p)
			}
		}
		type later struct {
			p    *tls.VerifPRNG
			i, s int
		}
		var pending []later
		cur := new(tls.PRNGSeed)
		i, s := c.Rng.Intn(nv), c.Rng.Intn(1+len(salts))
		*cur = vals[i]
		steps := 8 + c.Rng.Intn(10)
		for st := 0; st < steps; st++ {
			prevI, prevS := i, s
			if c.Rng.Intn(4) != 0 {
				i = c.Rng.Intn(nv)
				*cur = vals[i] // load another seed into the same variable
			}
			if c.Rng.Intn(2) == 0 {
				s = c.Rng.Intn(1 + len(salts)) // 0 = unsalted
			}
			var p *tls.VerifPRNG
			what := "unsalted"
			salt := ""
			if s == 0 {
				p, _ = tls.VerifNewPRNG(cur)
			} else {
				salt = salts[s-1]
				p, _ = tls.VerifNewSaltedPRNG(cur, salt)
				what = "other-salt"
				if s == prevS {
					what = "same-salt"
				}
			}
			if i != prevI {
				what += "/seed-overwritten"
			} else {
				what += "/seed-kept"
			}
			c.Count("reused_seed_variable_calls")
			in := map[string]any{"seed_now": vh.Hex(vals[i][:]), "seed_before": vh.Hex(vals[prevI][:]), "salt": vh.Hex([]byte(salt)), "salted": s != 0, "step": st}
			if *cur != vals[i] {
				c.Fail("seed-mutated/"+what, "creating a PRNG changed the caller's seed", in, vh.Hex(cur[:]), vh.Hex(vals[i][:]))
				*cur = vals[i]
			}
			if c.Rng.Intn(3) == 0 {
				pending = append(pending, later{p, i, s}) // drawn from after the variable has been overwritten
				continue
			}
			got := first32(p)
			if got != ref[i][s] {
				c.Fail("seed-by-value/"+what, "the stream is not the one this (seed, salt) gives when the seed sits in a variable of its own: not a function of the seed's value at call time",
					in, vh.Hex([]byte(got)), vh.Hex([]byte(ref[i][s])))
			}
			if len(salt) <= 40 && st%2 == 0 {
				c.OracleCase("reuse", fmt.Sprintf("CSeedSalt %s %s %s %s %s %s", vh.Bytes(vals[i][:]), vh.Bytes(cur[:]), vh.Bytes([]byte(salt)), vh.Bytes([]byte(salt)),
					vh.Bytes([]byte(ref[i][s][:8])), vh.Bytes([]byte(got[:8]))), "seed-by-value/"+what,
					"same (seed value, salt) through a fresh and through a reused seed variable", in, i != prevI)
			}
		}
		c.Rng.Read(cur[:]) // scribble over the variable, then use the PRNGs made from it earlier
		for _, l := range pending {
			kind := "salted"
			if l.s == 0 {
				kind = "unsalted"
			}
			if got := first32(l.p); got != ref[l.i][l.s] {
				c.Fail("prng-aliases-seed/"+kind, "a PRNG created from a seed variable changed when that variable was overwritten afterwards",
					map[string]any{"seed_at_creation": vh.Hex(vals[l.i][:]), "salted": l.s != 0}, vh.Hex([]byte(got)), vh.Hex([]byte(ref[l.i][l.s])))
			}
		}
		_ = own
	}
}

// concurrent callers: the multiset of words drawn equals the sequential stream split
func runC30Race(c *vh.Ctx) {
	rounds := 30
	if c.Tier == "thorough" {
		rounds = 300
	}
	for r := 0; r < rounds; r++ {
		seed := newSeed(c)
		const G, K = 8, 200
		stream := shakeStream(seed, G*K*8)
		p, _ := tls.VerifNewPRNG(seed)
		var wg sync.WaitGroup
		got := make([][]uint64, G)
		for g := 0; g < G; g++ {
			wg.Add(1)
			go func(g int) {
				defer wg.Done()
				for k := 0; k < K; k++ {
					got[g] = append(got[g], p.Uint64())
				}
			}(g)
		}
		wg.Wait()
		var all, want []uint64
		for g := range got {
			all = append(all, got[g]...)
		}
		for k := 0; k < G*K; k++ {
			want = append(want, binary.BigEndian.Uint64(stream[8*k:]))
		}
		sort.Slice(all, func(i, j int) bool { return all[i] < all[j] })
		sort.Slice(want, func(i, j int) bool { return want[i] < want[j] })
		bad := 0
		for k := range all {
			if all[k] != want[k] {
				bad++
			}
		}
		c.Case("concurrent", fmt.Sprintf("CCall [] (KIntn 0%%Z) (RInt 0%%Z) []"), fmt.Sprint(r), true, map[string]any{"goroutines": G, "words_each": K})
		if bad > 0 {
			c.Fail("concurrent-stream", "words drawn concurrently are not a split of the sequential stream", fmt.Sprintf("seed %x", seed[:]), fmt.Sprintf("%d of %d words differ", bad, G*K), "same multiset")
		}
	}
}

package main

import (
	"fmt"
	"strings"
	"sync"
	"time"

	"github.com/anishathalye/porcupine"
	tls "github.com/refraction-networking/utls"
	"verif/harness/vh"
)

func init() {
	register("C36", "Corr.C36Corr", runC36)
	register("C36race", "Corr.C36Corr", runC36Stress)
}

// Stress: many goroutines hammering Get/Put on a small cache; run under the
// race detector by the driver. After quiescence the cache must still be a
// bounded map of values that were actually Put for that key.
func runC36Stress(c *vh.Ctx) {
	states := make([]*tls.ClientSessionState, 4096)
	idOf := map[*tls.ClientSessionState]int{}
	for i := 1; i < len(states); i++ {
		states[i] = &tls.ClientSessionState{}
		idOf[states[i]] = i
	}
	rounds := 20
	if c.Tier == "thorough" {
		rounds = 200
	}
	for r := 0; r < rounds; r++ {
		capacity := 1 + c.Rng.Intn(4)
		cache := tls.NewLRUClientSessionCache(capacity)
		var wg sync.WaitGroup
		var mu sync.Mutex
		panics := 0
		for g := 0; g < 8; g++ {
			wg.Add(1)
			seed := c.Rng.Int63()
			go func(g int) {
				defer wg.Done()
				defer func() {
					if recover() != nil {
						mu.Lock()
						panics++
						mu.Unlock()
					}
				}()
				rng := vh.NewRand(seed)
				for j := 0; j < 300; j++ {
					k := 1 + rng.Intn(6)
					if rng.Intn(4) == 0 {
						cache.Put(fmt.Sprint("k", k), states[1+k*500+g*50+j%50])
					} else {
						s, ok := cache.Get(fmt.Sprint("k", k))
						if ok && (s == nil || idOf[s]/500 != k) {
							mu.Lock()
							panics += 1000
							mu.Unlock()
						}
					}
				}
			}(g)
		}
		wg.Wait()
		found := 0
		for k := 1; k <= 6; k++ {
			if _, ok := cache.Get(fmt.Sprint("k", k)); ok {
				found++
			}
		}
		c.Count("stress_rounds")
		c.Case("stress", fmt.Sprintf("CHist %s [] []", vh.Z(int64(capacity))), fmt.Sprint(r, capacity), true, map[string]any{"capacity": capacity, "goroutines": 8, "ops_each": 300})
		if panics > 0 || found > capacity {
			c.Fail("concurrent-stress", "concurrent Get/Put corrupted the cache (panic, foreign value, or more than capacity entries)",
				map[string]any{"capacity": capacity, "goroutines": 8}, map[string]any{"panics_or_bad": panics, "entries": found}, "<= capacity entries, no panic")
		}
	}
}

type lruOp struct {
	put bool
	k   int
	v   int // 0 = nil
}

// reference bounded LRU map, written from the property text
type refLRU struct {
	n    int
	keys []int // most recent first
	vals map[int]int
}

func newRef(n int) *refLRU {
	if n < 1 {
		n = 64
	}
	return &refLRU{n: n, vals: map[int]int{}}
}
func (r *refLRU) touch(k int) {
	for i, x := range r.keys {
		if x == k {
			r.keys = append(r.keys[:i], r.keys[i+1:]...)
			break
		}
	}
	r.keys = append([]int{k}, r.keys...)
}
func (r *refLRU) put(k, v int) {
	if v == 0 {
		if _, ok := r.vals[k]; ok {
			delete(r.vals, k)
			for i, x := range r.keys {
				if x == k {
					r.keys = append(r.keys[:i], r.keys[i+1:]...)
					break
				}
			}
		}
		return
	}
	r.vals[k] = v
	r.touch(k)
	if len(r.keys) > r.n {
		last := r.keys[len(r.keys)-1]
		r.keys = r.keys[:len(r.keys)-1]
		delete(r.vals, last)
	}
}
func (r *refLRU) get(k int) (int, bool) {
	v, ok := r.vals[k]
	if ok {
		r.touch(k)
	}
	return v, ok
}
func (r *refLRU) clone() *refLRU {
	c := &refLRU{n: r.n, keys: append([]int{}, r.keys...), vals: map[int]int{}}
	for k, v := range r.vals {
		c.vals[k] = v
	}
	return c
}
func (r *refLRU) String() string { return fmt.Sprint(r.keys, r.vals) }

func opsString(ops []lruOp) string {
	var sb strings.Builder
	for _, o := range ops {
		if o.put {
			if o.v == 0 {
				fmt.Fprintf(&sb, "Put(k%d,nil);", o.k)
			} else {
				fmt.Fprintf(&sb, "Put(k%d,s%d);", o.k, o.v)
			}
		} else {
			fmt.Fprintf(&sb, "Get(k%d);", o.k)
		}
	}
	return sb.String()
}

func runC36(c *vh.Ctx) {
	states := make([]*tls.ClientSessionState, 64)
	idOf := map[*tls.ClientSessionState]int{}
	for i := 1; i < len(states); i++ {
		states[i] = &tls.ClientSessionState{}
		idOf[states[i]] = i
	}
	corpus := [][]lruOp{
		{{true, 1, 1}, {true, 2, 0}, {false, 1, 0}, {false, 2, 0}},
		{{true, 1, 1}, {true, 2, 2}, {true, 1, 3}, {true, 3, 4}, {false, 1, 0}, {false, 2, 0}},
		{{true, 1, 1}, {true, 1, 0}, {true, 1, 2}, {true, 2, 3}, {true, 3, 4}, {false, 1, 0}, {false, 2, 0}, {false, 3, 0}},
		// re-Put of the same session pointer must refresh recency: capacity 2, a b a(same) c -> b evicted, a kept
		{{true, 1, 1}, {true, 2, 2}, {true, 1, 1}, {true, 3, 3}, {false, 1, 0}, {false, 2, 0}, {false, 3, 0}},
	}
	nextV := 1
	for i := 0; i < c.N+len(corpus)*4; i++ {
		capacity := 1 + c.Rng.Intn(5)
		if c.Rng.Intn(12) == 0 {
			capacity = -c.Rng.Intn(3) // default capacity 64
		}
		var ops []lruOp
		if i < len(corpus)*4 {
			ops = corpus[i/4]
			capacity = 1 + i%4
		} else {
			nkeys := 2 + c.Rng.Intn(6)
			lastVal := map[int]int{} // the session most recently Put under each key in this history
			for j := 2 + c.Rng.Intn(30); j > 0; j-- {
				k := 1 + c.Rng.Intn(nkeys)
				switch r := c.Rng.Intn(10); {
				case r < 4:
					ops = append(ops, lruOp{false, k, 0})
				case r < 7:
					v := 1 + nextV%60
					nextV++
					// a quarter of the Puts store the very same *ClientSessionState again (same pointer under the
					// same key: a refresh must still move the entry to the front), some store another key's session
					if lv, ok := lastVal[k]; ok && c.Rng.Intn(4) == 0 {
						v = lv
					} else if ov, ok := lastVal[1+c.Rng.Intn(nkeys)]; ok && c.Rng.Intn(8) == 0 {
						v = ov
					}
					lastVal[k] = v
					ops = append(ops, lruOp{true, k, v})
				default:
					ops = append(ops, lruOp{true, k, 0})
				}
			}
		}
		cache := tls.NewLRUClientSessionCache(capacity)
		ref := newRef(capacity)
		var obs []string
		var coqOps []string
		failedAt := -1
		nilPutAbsent := false
		for j, o := range ops {
			if o.put {
				if _, present := ref.vals[o.k]; !present && o.v == 0 {
					nilPutAbsent = true
				}
				cache.Put(fmt.Sprint("k", o.k), states[o.v])
				ref.put(o.k, o.v)
				coqOps = append(coqOps, fmt.Sprintf("Put %d %s", o.k, vh.Opt(o.v != 0, vh.N(uint64(o.v)))))
			} else {
				s, ok := cache.Get(fmt.Sprint("k", o.k))
				rv, rok := ref.get(o.k)
				switch {
				case !ok:
					obs = append(obs, "None")
				case s == nil:
					obs = append(obs, "(Some None)")
				default:
					obs = append(obs, fmt.Sprintf("(Some (Some %d))", idOf[s]))
				}
				coqOps = append(coqOps, fmt.Sprintf("Get %d", o.k))
				if failedAt < 0 && (ok != rok || (ok && idOf[s] != rv)) {
					failedAt = j
				}
			}
		}
		hs := opsString(ops)
		c.Case("history", fmt.Sprintf("CHist %s %s %s", vh.Z(int64(capacity)), vh.List(coqOps), vh.List(obs)),
			fmt.Sprintf("%d|%s", capacity, hs), len(ops) >= 4, map[string]any{"capacity": capacity, "ops": hs, "gets": obs})
		if nilPutAbsent {
			c.Count("hist_with_nil_put_on_absent_key")
		}
		if failedAt >= 0 {
			key := "seq"
			if nilPutAbsent {
				key = "put-nil-absent-key"
			}
			c.Fail(key, "Get result differs from a sequential LRU map of the same capacity",
				map[string]any{"capacity": capacity, "ops": opsString(ops[:failedAt+1])}, obs, "reference LRU: "+ref.String())
		}
	}
	// concurrent histories: linearizability against the reference LRU (porcupine)
	rounds := c.N / 10
	if rounds < 10 {
		rounds = 10
	}
	type inp struct {
		put  bool
		k, v int
	}
	type outp struct {
		v  int
		ok bool
	}
	for r := 0; r < rounds; r++ {
		capacity := 1 + c.Rng.Intn(3)
		model := porcupine.Model{
			Init: func() interface{} { return newRef(capacity) },
			Step: func(st, in, out interface{}) (bool, interface{}) {
				s := st.(*refLRU).clone()
				i := in.(inp)
				if i.put {
					s.put(i.k, i.v)
					return true, s
				}
				v, ok := s.get(i.k)
				o := out.(outp)
				return ok == o.ok && (!ok || v == o.v), s
			},
			Equal: func(a, b interface{}) bool { return a.(*refLRU).String() == b.(*refLRU).String() },
		}
		cache := tls.NewLRUClientSessionCache(capacity)
		var mu sync.Mutex
		var hist []porcupine.Operation
		var wg sync.WaitGroup
		seeds := []int64{c.Rng.Int63(), c.Rng.Int63(), c.Rng.Int63(), c.Rng.Int63()}
		start := time.Now()
		for g := 0; g < 4; g++ {
			wg.Add(1)
			go func(g int) {
				defer wg.Done()
				rng := vh.NewRand(seeds[g])
				for j := 0; j < 8; j++ {
					k := 1 + rng.Intn(3)
					in := inp{put: rng.Intn(2) == 0, k: k}
					if in.put {
						in.v = 1 + g*8 + j // never nil here: nil-put semantics are covered sequentially
					}
					t0 := time.Since(start).Nanoseconds()
					var o outp
					if in.put {
						cache.Put(fmt.Sprint("k", k), states[in.v])
					} else {
						s, ok := cache.Get(fmt.Sprint("k", k))
						o = outp{idOf[s], ok}
					}
					t1 := time.Since(start).Nanoseconds()
					mu.Lock()
					hist = append(hist, porcupine.Operation{ClientId: g, Input: in, Call: t0, Output: o, Return: t1})
					mu.Unlock()
				}
			}(g)
		}
		wg.Wait()
		res := porcupine.CheckOperationsTimeout(model, hist, 20*time.Second)
		c.Count("concurrent_histories")
		if res == porcupine.Illegal {
			c.Fail("concurrent", "concurrent history has no linearization against a sequential LRU map", map[string]any{"capacity": capacity, "history": fmt.Sprint(hist)}, "not linearizable", "linearizable")
		}
	}
	c.Extra["concurrent_histories_checked"] = rounds
}

package main

import (
	"bytes"
	"fmt"

	tls "github.com/refraction-networking/utls"
	"verif/harness/vh"
)

func init() { register("C24", "Corr.C24Corr", runC24) }

// independent varint decoder (RFC 9000 section 16), not the library's
func refRead(b []byte) (uint64, int, bool) {
	if len(b) == 0 {
		return 0, 0, false
	}
	n := 1 << (b[0] >> 6)
	if len(b) < n {
		return 0, 0, false
	}
	v := uint64(b[0] & 0x3f)
	for i := 1; i < n; i++ {
		v = v<<8 | uint64(b[i])
	}
	return v, n, true
}

func refMinLen(x uint64) int {
	switch {
	case x < 1<<6:
		return 1
	case x < 1<<14:
		return 2
	case x < 1<<30:
		return 4
	default:
		return 8
	}
}

func c24Values(c *vh.Ctx) []uint64 {
	vals := []uint64{0, 1, 62, 63, 64, 65, 255, 256, 16382, 16383, 16384, 16385, 65535, 65536,
		1<<30 - 2, 1<<30 - 1, 1 << 30, 1<<30 + 1, 1<<32 - 1, 1 << 32, 1<<56 - 1, 1 << 56,
		1<<62 - 2, 1<<62 - 1, 1 << 62, 1<<62 + 1, 1<<63 - 1, 1 << 63, 1<<64 - 1}
	for i := 0; i < c.N; i++ {
		bits := uint(c.Rng.Intn(65))
		var v uint64
		if bits == 64 {
			v = c.Rng.Uint64()
		} else {
			v = c.Rng.Uint64() & (1<<bits - 1)
		}
		vals = append(vals, v)
	}
	return vals
}

// c24Dst makes a destination buffer that already holds 1..6 bytes: either with no spare capacity (the encoder has to
// grow it) or as the front of a larger array filled with junk (the encoder appends in place).
func c24Dst(c *vh.Ctx) (dst, orig []byte) {
	n := 1 + c.Rng.Intn(6)
	buf := make([]byte, n+16)
	c.Rng.Read(buf)
	if c.Rng.Intn(4) == 0 {
		buf[0] = []byte{0x00, 0x3f, 0x40, 0xc0}[c.Rng.Intn(4)] // first bytes whose top bits are all clear / all set
	}
	orig = append([]byte{}, buf[:n]...)
	if c.Rng.Intn(2) == 0 {
		return buf[:n:n], orig
	}
	return buf[:n], orig
}

// c24Onto checks what the property says about an encoder given a non-empty buffer: the caller's bytes are still there,
// in the result and in the caller's own slice, and what follows them is the encoding (w bytes decoding to x).
func c24Onto(c *vh.Ctx, key, fn string, dst, orig, out []byte, x uint64, w int) {
	in := map[string]any{"fn": fn, "dst": vh.Hex(orig), "x": x, "w": w}
	if len(out) < len(orig) || !bytes.Equal(out[:len(orig)], orig) || !bytes.Equal(dst, orig) {
		c.Fail(key, fn+" onto a non-empty buffer changed the bytes that were already in it", in, map[string]any{"out": vh.Hex(out), "dst_after": vh.Hex(dst)}, vh.Hex(orig)+" + encoding")
		return
	}
	enc := out[len(orig):]
	rv, rn, ok := refRead(enc)
	if !ok || rv != x || rn != len(enc) || len(enc) != w {
		c.Fail(key, fn+" onto a non-empty buffer did not append the requested width decoding to x", in, vh.Hex(out), fmt.Sprintf("%s + %d bytes decoding to %d", vh.Hex(orig), w, x))
	}
}

func obsCoq(panicked bool, b []byte) string {
	if panicked {
		return "OPanic"
	}
	return "(OBytes " + vh.Bytes(b) + ")"
}

func runC24(c *vh.Ctx) {
	vals := c24Values(c)
	// Append / Len / Read round trip
	for _, x := range vals {
		var out []byte
		var l int64
		pA, _ := vh.Recover(func() { out = tls.VerifVarintAppend(nil, x) })
		pL, _ := vh.Recover(func() { l = tls.VerifVarintLen(x) })
		c.Case("append", fmt.Sprintf("CAppend %s %s %s", vh.N(x), obsCoq(pA, out), vh.Opt(!pL, vh.N(uint64(l)))),
			fmt.Sprint(x), x >= 64, map[string]any{"op": "Append", "x": x, "bytes": vh.Hex(out), "panic": pA})
		// property oracle on the implementation
		if x < 1<<62 {
			if pA || pL {
				c.Fail(fmt.Sprintf("append:%d", x), "Append/Len panicked on a value below 2^62", x, "panic", "encoding")
				continue
			}
			suffix := []byte{0xde, 0xad}
			v, used, err := tls.VerifVarintRead(append(append([]byte{}, out...), suffix...))
			if err != nil || v != x || used != len(out) {
				c.Fail(fmt.Sprintf("append:%d", x), "Read(Append(x)) != x", x, map[string]any{"v": v, "used": used, "err": fmt.Sprint(err), "bytes": vh.Hex(out)}, x)
			}
			rv, rn, ok := refRead(out)
			if !ok || rv != x || rn != len(out) {
				c.Fail(fmt.Sprintf("append:%d", x), "Append(x) does not decode to x under RFC 9000", x, vh.Hex(out), x)
			}
			if len(out) != int(l) || int(l) != refMinLen(x) {
				c.Fail(fmt.Sprintf("append:%d", x), "encoding not minimal / differs from Len", x, map[string]any{"len": len(out), "Len": l}, refMinLen(x))
			}
		} else if !pA || !pL {
			c.Fail(fmt.Sprintf("append:%d", x), "value >= 2^62 not refused by panic", x, vh.Hex(out), "panic")
		}
	}
	// Append onto a buffer that already holds data
	for i, x := range vals {
		if i%2 == 1 && i >= 29 {
			continue
		}
		dst, orig := c24Dst(c)
		var out []byte
		p, _ := vh.Recover(func() { out = tls.VerifVarintAppend(dst, x) })
		c.Case("appendto", fmt.Sprintf("CAppendTo %s %s %s", vh.Bytes(orig), vh.N(x), obsCoq(p, out)),
			fmt.Sprintf("%x/%d", orig, x), x >= 64, map[string]any{"op": "Append", "dst": vh.Hex(orig), "x": x, "bytes": vh.Hex(out), "panic": p})
		if x < 1<<62 {
			if p {
				c.Fail(fmt.Sprintf("appendto:%d", x), "Append panicked on a value below 2^62", x, "panic", "encoding")
			} else {
				c24Onto(c, fmt.Sprintf("appendto:%d", x), "Append", dst, orig, out, x, refMinLen(x))
			}
		} else if !p {
			c.Fail(fmt.Sprintf("appendto:%d", x), "value >= 2^62 not refused by panic", x, vh.Hex(out), "panic")
		}
	}
	// AppendWithLen
	widths := []int64{0, 1, 2, 3, 4, 5, 7, 8, 9, 16, -1}
	for i, x := range vals {
		for wi, w := range []int64{1, 2, 4, 8, widths[i%len(widths)]} {
			var out, dst, orig []byte
			if (i+wi)%3 != 0 { // two thirds of the calls append onto a buffer that already holds data
				dst, orig = c24Dst(c)
			}
			p, _ := vh.Recover(func() { out = tls.VerifVarintAppendWithLen(dst, x, w) })
			wN := uint64(w)
			if w < 0 {
				wN = 1 << 63 // any invalid width; model treats all alike
			}
			if orig == nil {
				c.Case("withlen", fmt.Sprintf("CWithLen %s %s %s", vh.N(x), vh.N(wN), obsCoq(p, out)),
					fmt.Sprintf("%d/%d", x, w), !p, map[string]any{"op": "AppendWithLen", "x": x, "w": w, "bytes": vh.Hex(out), "panic": p})
			} else {
				c.Case("withlento", fmt.Sprintf("CWithLenTo %s %s %s %s", vh.Bytes(orig), vh.N(x), vh.N(wN), obsCoq(p, out)),
					fmt.Sprintf("%x/%d/%d", orig, x, w), !p, map[string]any{"op": "AppendWithLen", "dst": vh.Hex(orig), "x": x, "w": w, "bytes": vh.Hex(out), "panic": p})
			}
			valid := w == 1 || w == 2 || w == 4 || w == 8
			if valid && x < 1<<62 && int64(refMinLen(x)) <= w && orig != nil {
				if p {
					c.Fail(fmt.Sprintf("withlento:%d/%d", x, w), "AppendWithLen panicked on an admissible width", map[string]any{"x": x, "w": w}, "panic", x)
				} else {
					c24Onto(c, fmt.Sprintf("withlento:%d/%d", x, w), "AppendWithLen", dst, orig, out, x, int(w))
				}
			} else if valid && x < 1<<62 && int64(refMinLen(x)) <= w {
				rv, rn, ok := refRead(out)
				if p || !ok || rv != x || rn != len(out) || int64(len(out)) != w {
					c.Fail(fmt.Sprintf("withlen:%d/%d", x, w), "AppendWithLen does not emit the requested width decoding to x",
						map[string]any{"x": x, "w": w}, map[string]any{"bytes": vh.Hex(out), "panic": p}, x)
				}
			} else if !p {
				c.Fail(fmt.Sprintf("withlen:%d/%d", x, w), "AppendWithLen accepted an invalid width or too-large value",
					map[string]any{"x": x, "w": w}, vh.Hex(out), "panic")
			}
		}
	}
	// Read on arbitrary / truncated bytes
	for i := 0; i < c.N; i++ {
		n := c.Rng.Intn(11)
		b := make([]byte, n)
		c.Rng.Read(b)
		v, used, err := tls.VerifVarintRead(b)
		o := "None"
		if err == nil {
			o = fmt.Sprintf("(Some (%s, %s))", vh.N(v), vh.N(uint64(used)))
		}
		c.Case("read", fmt.Sprintf("CRead %s %s", vh.Bytes(b), o), vh.Hex(b), err == nil, map[string]any{"op": "Read", "bytes": vh.Hex(b), "v": v, "used": used, "err": fmt.Sprint(err)})
	}
	// TransportParameters.Marshal
	for i := 0; i < c.N; i++ {
		runC24TP(c, i)
	}
}

func rbytes(c *vh.Ctx, max int) []byte {
	n := c.Rng.Intn(max + 1)
	b := make([]byte, n)
	c.Rng.Read(b)
	return b
}

func pickVal(c *vh.Ctx) uint64 {
	bs := []uint64{0, 63, 64, 16383, 16384, 1<<30 - 1, 1 << 30, 1<<62 - 1, 1 << 62, 1<<64 - 1}
	if c.Rng.Intn(3) == 0 {
		return bs[c.Rng.Intn(len(bs))]
	}
	return c.Rng.Uint64() >> uint(c.Rng.Intn(64))
}

type tpRef struct {
	id  uint64
	val []byte
}

func runC24TP(c *vh.Ctx, idx int) {
	n := c.Rng.Intn(7)
	var tps tls.TransportParameters
	type pending struct {
		kind string
		mk   func() string // Coq term, evaluated after Marshal (random fields are read back)
		ref  func() tpRef
	}
	var ps []pending
	var chosen []int
	var fakeIDs []uint64
	for j := 0; j < n; j++ {
		k := c.Rng.Intn(18)
		if len(chosen) > 0 && c.Rng.Intn(4) == 0 {
			k = chosen[c.Rng.Intn(len(chosen))] // the same parameter (same id) again, with a value of its own
			c.Count("marshal_repeated_kind")
		}
		chosen = append(chosen, k)
		switch k {
		case 0, 1, 2, 3, 4, 5, 6, 7, 8, 9, 10:
			v := pickVal(c)
			var tp tls.TransportParameter
			var id uint64
			switch k {
			case 0:
				tp, id = tls.MaxIdleTimeout(v), 0x1
			case 1:
				tp, id = tls.MaxUDPPayloadSize(v), 0x3
			case 2:
				tp, id = tls.InitialMaxData(v), 0x4
			case 3:
				tp, id = tls.InitialMaxStreamDataBidiLocal(v), 0x5
			case 4:
				tp, id = tls.InitialMaxStreamDataBidiRemote(v), 0x6
			case 5:
				tp, id = tls.InitialMaxStreamDataUni(v), 0x7
			case 6:
				tp, id = tls.InitialMaxStreamsBidi(v), 0x8
			case 7:
				tp, id = tls.InitialMaxStreamsUni(v), 0x9
			case 8:
				tp, id = tls.MaxAckDelay(v), 0xb
			case 9:
				tp, id = tls.ActiveConnectionIDLimit(v), 0xe
			case 10:
				tp, id = tls.MaxDatagramFrameSize(v), 0x20
			}
			tps = append(tps, tp)
			ps = append(ps, pending{"int", func() string { return fmt.Sprintf("TPInt %d %s", id, vh.N(v)) },
				func() tpRef { return tpRef{id, nil} }})
		case 11:
			tps = append(tps, &tls.DisableActiveMigration{})
			ps = append(ps, pending{"empty", func() string { return "TPEmpty 12" }, func() tpRef { return tpRef{0xc, []byte{}} }})
		case 12:
			tps = append(tps, &tls.GREASEQUICBit{})
			ps = append(ps, pending{"empty", func() string { return "TPEmpty 10930" }, func() tpRef { return tpRef{0x2ab2, []byte{}} }})
		case 13:
			b := rbytes(c, 20)
			tps = append(tps, tls.InitialSourceConnectionID(b))
			ps = append(ps, pending{"bytes", func() string { return fmt.Sprintf("TPBytes 15 %s", vh.Bytes(b)) }, func() tpRef { return tpRef{0xf, b} }})
		case 14:
			b := rbytes(c, 300)
			tps = append(tps, tls.PaddingTransportParameter(b))
			ps = append(ps, pending{"bytes", func() string { return fmt.Sprintf("TPBytes 21 %s", vh.Bytes(b)) }, func() tpRef { return tpRef{0x15, b} }})
		case 15:
			g := &tls.GREASETransportParameter{Length: uint16(c.Rng.Intn(20))}
			if c.Rng.Intn(2) == 0 {
				g.IdOverride = 27 + 31*(c.Rng.Uint64()%1000)
			}
			if c.Rng.Intn(2) == 0 {
				g.ValueOverride = rbytes(c, 20)
			}
			tps = append(tps, g)
			ps = append(ps, pending{"grease", func() string { return fmt.Sprintf("TPBytes %s %s", vh.N(g.IdOverride), vh.Bytes(g.ValueOverride)) },
				func() tpRef { return tpRef{g.IdOverride, g.ValueOverride} }})
		case 16:
			f := &tls.FakeQUICTransportParameter{Id: pickVal(c), Val: rbytes(c, 70)}
			if len(fakeIDs) > 0 && c.Rng.Intn(2) == 0 {
				f.Id = fakeIDs[c.Rng.Intn(len(fakeIDs))]
			}
			fakeIDs = append(fakeIDs, f.Id)
			tps = append(tps, f)
			ps = append(ps, pending{"fake", func() string { return fmt.Sprintf("TPFake %s %s", vh.N(f.Id), vh.Bytes(f.Val)) }, func() tpRef { return tpRef{f.Id, f.Val} }})
		case 17:
			vi := &tls.VersionInformation{ChoosenVersion: c.Rng.Uint32(), LegacyID: c.Rng.Intn(2) == 0}
			for q := c.Rng.Intn(4); q > 0; q-- {
				vi.AvailableVersions = append(vi.AvailableVersions, c.Rng.Uint32())
			}
			tps = append(tps, vi)
			ps = append(ps, pending{"versioninfo", func() string {
				it := []string{}
				for _, v := range vi.AvailableVersions {
					it = append(it, vh.N(uint64(v)))
				}
				return fmt.Sprintf("TPVersionInfo %s %s %s", vh.Bool(vi.LegacyID), vh.N(uint64(vi.ChoosenVersion)), vh.List(it))
			}, func() tpRef {
				id := uint64(0x11)
				if vi.LegacyID {
					id = 0xff73db
				}
				return tpRef{id, nil}
			}})
		}
	}
	var out []byte
	p, _ := vh.Recover(func() { out = tps.Marshal() })
	items := []string{}
	kinds := ""
	for _, q := range ps {
		items = append(items, "("+q.mk()+")")
		kinds += q.kind + ","
	}
	c.Case("marshal", fmt.Sprintf("CMarshal %s %s", vh.List(items), obsCoq(p, out)), fmt.Sprintf("%d:%s:%x", idx, kinds, out),
		!p && n > 0, map[string]any{"op": "Marshal", "kinds": kinds, "bytes": vh.Hex(out), "panic": p})
	c.Count("marshal_len_" + fmt.Sprint(n))
	if p {
		c.Count("marshal_panic")
		// the property allows a panic only for an id/value >= 2^62 or a fake id of 0
		return
	}
	// property oracle: independent parse of the body gives back (id, value) entries
	rest := out
	for k, q := range ps {
		id, n1, ok1 := refRead(rest)
		if !ok1 {
			c.Fail("marshal", "marshaled body does not parse", kinds, vh.Hex(out), "entry "+fmt.Sprint(k))
			return
		}
		l, n2, ok2 := refRead(rest[n1:])
		if !ok2 || uint64(len(rest)-n1-n2) < l {
			c.Fail("marshal", "marshaled body does not parse", kinds, vh.Hex(out), "entry "+fmt.Sprint(k))
			return
		}
		val := rest[n1+n2 : n1+n2+int(l)]
		rest = rest[n1+n2+int(l):]
		r := q.ref()
		if id != r.id || (r.val != nil && !bytes.Equal(val, r.val)) {
			c.Fail("marshal", "parsed entry differs from the parameter list", kinds, map[string]any{"id": id, "val": vh.Hex(val)}, map[string]any{"id": r.id, "val": vh.Hex(r.val)})
			return
		}
	}
	if len(rest) != 0 {
		c.Fail("marshal", "trailing bytes after the last parameter", kinds, vh.Hex(out), "")
	}
}

// Runner for C28: GetOutKeystream returns the keystream of the next record and changes nothing.
package main

import (
	"bytes"
	"fmt"
	"io"
	"time"

	tls "github.com/refraction-networking/utls"

	"verif/harness/vh"
)

func main() { vh.Main(map[string]vh.Suite{"C28": {Corr: "Corr.C28Corr", Run: run}}) }

type combo struct {
	version, suite uint16
	kind           int // 4 = explicit-nonce GCM (TLS 1.2), 5 = xor nonce
}

func combos() []combo {
	var out []combo
	for _, s := range []uint16{tls.TLS_ECDHE_RSA_WITH_AES_128_GCM_SHA256, tls.TLS_ECDHE_ECDSA_WITH_AES_128_GCM_SHA256,
		tls.TLS_ECDHE_RSA_WITH_AES_256_GCM_SHA384, tls.TLS_ECDHE_ECDSA_WITH_AES_256_GCM_SHA384,
		tls.TLS_RSA_WITH_AES_128_GCM_SHA256, tls.TLS_RSA_WITH_AES_256_GCM_SHA384} {
		out = append(out, combo{tls.VersionTLS12, s, 4})
	}
	for _, s := range []uint16{tls.TLS_ECDHE_RSA_WITH_CHACHA20_POLY1305, tls.TLS_ECDHE_ECDSA_WITH_CHACHA20_POLY1305} {
		out = append(out, combo{tls.VersionTLS12, s, 5})
	}
	for _, s := range []uint16{tls.TLS_AES_128_GCM_SHA256, tls.TLS_AES_256_GCM_SHA384, tls.TLS_CHACHA20_POLY1305_SHA256} {
		out = append(out, combo{tls.VersionTLS13, s, 5})
	}
	return out
}

// probe: GetOutKeystream(n), then a real record that the peer must accept; both oracles and one case.
// Returns false when the connection is no longer usable.
func probe(c *vh.Ctx, p *pair, cb combo, key, scenario string, n int) bool {
	explicit := 0
	if cb.kind == 4 {
		explicit = 8
	}
	_, out0 := tls.VerifRecordState(p.client.Conn)
	ks, err := p.client.GetOutKeystream(n)
	_, out1 := tls.VerifRecordState(p.client.Conn)
	in := map[string]any{"suite": fmt.Sprintf("0x%04x", cb.suite), "version": fmt.Sprintf("0x%04x", cb.version), "n": n,
		"seq": out0.Seq, "scenario": scenario}
	if err != nil {
		c.Fail("c28-error/"+key, "GetOutKeystream failed on an AEAD connection", in, err.Error(), "keystream")
		return false
	}
	// the next write: at least n bytes so that the next record carries n plaintext bytes
	data := make([]byte, n+c.Rng.Intn(40))
	c.Rng.Read(data)
	if len(data) > 16384 {
		data = data[:16384]
	}
	if len(data) == 0 {
		data = []byte{byte(c.Rng.Intn(256))}
	}
	p.crec.take()
	errc := make(chan error, 1)
	go func() { _, err := p.client.Write(data); errc <- err }()
	got := make([]byte, len(data))
	p.server.SetReadDeadline(time.Now().Add(10 * time.Second))
	_, rerr := io.ReadFull(p.server, got)
	werr := <-errc
	recs := splitRecords(p.crec.take())
	// oracle 1: the peer still accepts and reads what was written
	if werr != nil || rerr != nil || !bytes.Equal(got, data) {
		c.Fail("c28-peer/"+key+"/"+scenario, "after GetOutKeystream the peer no longer reads what the client writes", in,
			fmt.Sprint("write: ", werr, " read: ", rerr), "peer reads the written bytes")
		return false
	}
	if len(recs) == 0 || recs[0].Typ != 23 || recs[0].Len < explicit+n {
		c.Fail("c28-record/"+key, "next application data record shorter than n", in, fmt.Sprint(len(recs)), "one record with n payload bytes")
		return false
	}
	// oracle 2 (the property): ct[i] = pt[i] xor ks[i] for the first n bytes after the explicit nonce
	ct := recs[0].Body[explicit:]
	bad := -1
	if len(ks) < n {
		bad = len(ks)
	}
	for i := 0; i < n && bad < 0; i++ {
		if ct[i] != data[i]^ks[i] {
			bad = i
		}
	}
	if bad >= 0 {
		c.Fail("c28-xor/"+key+"/"+scenario, "GetOutKeystream(n) xor next plaintext differs from the next record's ciphertext", in,
			map[string]any{"first_bad_index": bad, "ks_len": len(ks)}, "equal on the first n bytes")
	}
	// correspondence: framing facts the model predicts
	var nonce []byte
	if explicit > 0 {
		nonce = recs[0].Body[:explicit]
	}
	c.Case("ks", fmt.Sprintf("(CKs %d %d %d %d %d (%d, %d, %d, %d, %d, %s))", cb.version, cb.kind, out0.Seq, n, len(data),
		len(ks), out1.Seq, recs[0].Typ, recs[0].Vers, recs[0].Len, vh.Bytes(nonce)),
		fmt.Sprintf("%s/%s/%d/%d", key, scenario, out0.Seq, n), n > 0, in)
	c.Count("probe_" + scenario)
	return true
}

// plainWrite sends one small record without calling GetOutKeystream (to move the sequence number on).
func plainWrite(p *pair) error {
	errc := make(chan error, 1)
	go func() { _, err := p.client.Write([]byte{0x5a}); errc <- err }()
	var b [1]byte
	p.server.SetReadDeadline(time.Now().Add(10 * time.Second))
	_, rerr := io.ReadFull(p.server, b[:])
	if werr := <-errc; werr != nil {
		return werr
	}
	return rerr
}

func run(c *vh.Ctx) {
	certs := newTestCerts()
	lens := []int{0, 1, 15, 16, 17, 1000, 16384}
	// repeated calls with equal, shrinking and growing lengths
	pattern := []int{1000, 1000, 16, 17, 5000, 100, 100, 16384, 3}
	rounds := 1
	if c.Tier != "quick" {
		rounds = 6
	}
	for _, cb := range combos() {
		key := fmt.Sprintf("%04x/%04x", cb.suite, cb.version)
		p, err := handshakePair(cb.version, cb.suite, certs, true)
		if err != nil {
			c.Fail("c28-handshake/"+key, "handshake for an AEAD suite the Go server implements did not complete", key, err.Error(), "handshake completes")
			continue
		}
		ok := true
		for round := 0; round < rounds && ok; round++ {
			for _, n := range lens {
				if round >= 1 {
					n = c.Rng.Intn(16385)
				}
				if ok = probe(c, p, cb, key, "lens", n); !ok {
					break
				}
			}
		}
		for _, n := range pattern {
			if !ok {
				break
			}
			ok = probe(c, p, cb, key, "pattern", n)
		}
		// the first carry of the record counter: calls right before/at/after record 254..258 of these keys
		for ok {
			_, o := tls.VerifRecordState(p.client.Conn)
			if o.Seq >= 253 {
				break
			}
			if err := plainWrite(p); err != nil {
				c.Fail("c28-peer/"+key+"/advance", "plain writes stopped working", key, err.Error(), "peer reads")
				ok = false
			}
		}
		for i := 0; i < 6 && ok; i++ {
			ok = probe(c, p, cb, key, "carry", []int{16, 1, 33}[i%3])
		}
		p.close()
	}
	// histories with key changes and far sequence positions: the peer is the uTLS server (it has the hooks)
	for _, cb := range combos() {
		if c.Tier == "quick" && cb.version != tls.VersionTLS13 && cb.suite != tls.TLS_ECDHE_ECDSA_WITH_AES_128_GCM_SHA256 &&
			cb.suite != tls.TLS_ECDHE_RSA_WITH_CHACHA20_POLY1305 {
			continue
		}
		key := fmt.Sprintf("%04x/%04x", cb.suite, cb.version)
		p, err := handshakePairU(cb.version, cb.suite, certs, true)
		if err != nil {
			c.Fail("c28-handshake-u/"+key, "handshake with the uTLS server did not complete", key, err.Error(), "handshake completes")
			continue
		}
		ok := probe(c, p, cb, key, "pre", 64)
		if cb.version == tls.VersionTLS13 {
			// key updates between calls: started by the client, and requested by the peer (the client rolls
			// its write keys while reading the request), several generations
			for g := 0; g < 4 && ok; g++ {
				if g%2 == 0 {
					if err := p.client.VerifSendKeyUpdate(c.Rng.Intn(2) == 0); err != nil {
						c.Fail("c28-keyupdate/"+key, "client KeyUpdate failed", key, err.Error(), "ok")
						break
					}
				} else {
					err := p.userver.VerifSendKeyUpdate(true)
					if err == nil {
						_, err = p.server.Write([]byte{1})
					}
					if err == nil {
						var b [1]byte
						p.client.SetReadDeadline(time.Now().Add(10 * time.Second))
						_, err = io.ReadFull(p.client, b[:])
					}
					if err != nil {
						c.Fail("c28-keyupdate/"+key, "KeyUpdate requested by the peer was not processed", key, err.Error(), "ok")
						break
					}
				}
				c.Count("key_updates")
				for _, n := range []int{64, 64, 7} {
					if ok = probe(c, p, cb, key, fmt.Sprintf("after-keyupdate-%d", g+1), n); !ok {
						break
					}
				}
			}
		}
		// byte boundaries of the 64-bit counter: both matched halves are moved there with the hook
		for _, sh := range []uint{16, 24, 32, 40, 48, 56} {
			if !ok {
				break
			}
			b := uint64(1)<<sh - 2
			if err := p.client.Conn.VerifSetSeq(true, b); err != nil {
				break
			}
			p.userver.VerifSetSeq(false, b)
			for i := 0; i < 4 && ok; i++ {
				ok = probe(c, p, cb, key, fmt.Sprintf("boundary-2^%d", sh), []int{16, 40}[i%2])
			}
		}
		p.close()
	}
	// a non-AEAD connection must be refused, not answered with garbage
	if p, err := handshakePair(tls.VersionTLS12, tls.TLS_ECDHE_RSA_WITH_AES_128_CBC_SHA, certs, true); err == nil {
		ks, err := p.client.GetOutKeystream(16)
		c.Case("nonaead", fmt.Sprintf("(CNonAead %s)", vh.Bool(err != nil && ks == nil)), "nonaead/c013", true, nil)
		p.close()
	}
}

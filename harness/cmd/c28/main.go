// Runner for C28: GetOutKeystream returns the keystream of the next record and changes nothing.
package main

import (
	"bytes"
	"fmt"
	"io"
	"time"

	tls "github.com/refraction-networking/utls"

	"verif/harness/vh"
)

func main() { vh.Main(map[string]vh.Suite{"C28": {Corr: "Corr.C28Corr", Run: run}}) }

type combo struct {
	version, suite uint16
	kind           int // 4 = explicit-nonce GCM (TLS 1.2), 5 = xor nonce
}

func combos() []combo {
	var out []combo
	for _, s := range []uint16{tls.TLS_ECDHE_RSA_WITH_AES_128_GCM_SHA256, tls.TLS_ECDHE_ECDSA_WITH_AES_128_GCM_SHA256,
		tls.TLS_ECDHE_RSA_WITH_AES_256_GCM_SHA384, tls.TLS_ECDHE_ECDSA_WITH_AES_256_GCM_SHA384,
		tls.TLS_RSA_WITH_AES_128_GCM_SHA256, tls.TLS_RSA_WITH_AES_256_GCM_SHA384} {
		out = append(out, combo{tls.VersionTLS12, s, 4})
	}
	for _, s := range []uint16{tls.TLS_ECDHE_RSA_WITH_CHACHA20_POLY1305, tls.TLS_ECDHE_ECDSA_WITH_CHACHA20_POLY1305} {
		out = append(out, combo{tls.VersionTLS12, s, 5})
	}
	for _, s := range []uint16{tls.TLS_AES_128_GCM_SHA256, tls.TLS_AES_256_GCM_SHA384, tls.TLS_CHACHA20_POLY1305_SHA256} {
		out = append(out, combo{tls.VersionTLS13, s, 5})
	}
	return out
}

func run(c *vh.Ctx) {
	certs := newTestCerts()
	lens := []int{0, 1, 15, 16, 17, 1000, 16384}
	rounds := 3
	if c.Tier != "quick" {
		rounds = 8
	}
	for _, cb := range combos() {
		key := fmt.Sprintf("%04x/%04x", cb.suite, cb.version)
		p, err := handshakePair(cb.version, cb.suite, certs, true)
		if err != nil {
			c.Fail("c28-handshake/"+key, "handshake for an AEAD suite the Go server implements did not complete", key, err.Error(), "handshake completes")
			continue
		}
		explicit := 0
		if cb.kind == 4 {
			explicit = 8
		}
		ok := true
		for round := 0; round < rounds && ok; round++ {
			for _, n := range lens {
				if c.Tier != "quick" && round >= 3 {
					n = c.Rng.Intn(16385)
				}
				_, out0 := tls.VerifRecordState(p.client.Conn)
				ks, err := p.client.GetOutKeystream(n)
				_, out1 := tls.VerifRecordState(p.client.Conn)
				in := map[string]any{"suite": fmt.Sprintf("0x%04x", cb.suite), "version": fmt.Sprintf("0x%04x", cb.version), "n": n, "seq": out0.Seq}
				if err != nil {
					c.Fail("c28-error/"+key, "GetOutKeystream failed on an AEAD connection", in, err.Error(), "keystream")
					ok = false
					break
				}
				// the next write: at least n bytes so that the next record carries n plaintext bytes
				extra := c.Rng.Intn(40)
				data := make([]byte, n+extra)
				c.Rng.Read(data)
				if len(data) > 16384 {
					data = data[:16384]
				}
				if len(data) == 0 {
					data = []byte{byte(c.Rng.Intn(256))}
				}
				p.crec.take()
				errc := make(chan error, 1)
				go func() { _, err := p.client.Write(data); errc <- err }()
				got := make([]byte, len(data))
				p.server.SetReadDeadline(time.Now().Add(10 * time.Second))
				_, rerr := io.ReadFull(p.server, got)
				werr := <-errc
				recs := splitRecords(p.crec.take())
				// oracle 1: the peer still accepts and reads what was written
				if werr != nil || rerr != nil || !bytes.Equal(got, data) {
					c.Fail("c28-peer/"+key, "after GetOutKeystream the peer no longer reads what the client writes", in,
						fmt.Sprint("write: ", werr, " read: ", rerr), "peer reads the written bytes")
					ok = false
					break
				}
				if len(recs) == 0 || recs[0].Typ != 23 || recs[0].Len < explicit+n {
					c.Fail("c28-record/"+key, "next application data record shorter than n", in, fmt.Sprint(len(recs)), "one record with n payload bytes")
					ok = false
					break
				}
				// oracle 2 (the property): ct[i] = pt[i] xor ks[i] for the first n bytes after the explicit nonce
				ct := recs[0].Body[explicit:]
				bad := -1
				if len(ks) < n {
					bad = len(ks)
				}
				for i := 0; i < n && bad < 0; i++ {
					if ct[i] != data[i]^ks[i] {
						bad = i
					}
				}
				if bad >= 0 {
					c.Fail("c28-xor/"+key, "GetOutKeystream(n) xor next plaintext differs from the next record's ciphertext", in,
						map[string]any{"first_bad_index": bad, "ks_len": len(ks)}, "equal on the first n bytes")
				}
				// correspondence: framing facts the model predicts
				var nonce []byte
				if explicit > 0 {
					nonce = recs[0].Body[:explicit]
				}
				c.Case("ks", fmt.Sprintf("(CKs %d %d %d %d %d (%d, %d, %d, %d, %d, %s))", cb.version, cb.kind, out0.Seq, n, len(data),
					len(ks), out1.Seq, recs[0].Typ, recs[0].Vers, recs[0].Len, vh.Bytes(nonce)),
					fmt.Sprintf("%s/%d/%d", key, out0.Seq, n), n > 0, in)
			}
		}
		p.close()
	}
	// a non-AEAD connection must be refused, not answered with garbage
	if p, err := handshakePair(tls.VersionTLS12, tls.TLS_ECDHE_RSA_WITH_AES_128_CBC_SHA, certs, true); err == nil {
		ks, err := p.client.GetOutKeystream(16)
		c.Case("nonaead", fmt.Sprintf("(CNonAead %s)", vh.Bool(err != nil && ks == nil)), "nonaead/c013", true, nil)
		p.close()
	}
}

// c03: translator (u_common.go Hello* ids + UTLSIdToSpec -> Gen/Parrots.v), correspondence runner and
// property oracle for C03 (predefined parrots send exactly the ClientHello their spec describes).
//
//	c03 gen -repo DIR -out FILE        regenerate coq/theories/Gen/Parrots.v (lib/gen_parrots.py, before the proof build)
//	c03 C03 -seed S -n N -tier T -out DIR
package main

import (
	"os"

	"verif/harness/vh"
)

func main() {
	if len(os.Args) > 1 && os.Args[1] == "gen" {
		os.Exit(genMain(os.Args[2:]))
	}
	vh.Main(map[string]vh.Suite{"C03": {Corr: "Corr.C03Corr", Run: run}})
}

package main

import "verif/harness/vh"

func run(c *vh.Ctx) {}

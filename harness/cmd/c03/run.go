package main

import (
	"bytes"
	crand "crypto/rand"
	"encoding/binary"
	"fmt"
	"io"
	"math"
	"math/big"
	mrand "math/rand"
	"net"
	"os"
	"sort"
	"strings"

	tls "github.com/refraction-networking/utls"
	"verif/harness/extcoq"
	"verif/harness/vh"
)

// recRand: deterministic Config.Rand that records the size and content of every read.
type recRand struct {
	r     *mrand.Rand
	reads [][]byte
}

func (d *recRand) Read(p []byte) (int, error) {
	d.r.Read(p)
	d.reads = append(d.reads, append([]byte(nil), p...))
	return len(p), nil
}

// packed byte string: 7 bytes per Coq primitive integer (Corr/C03Corr.v pk)
func packed(b []byte) string {
	var it []string
	for i := 0; i < len(b); i += 7 {
		j := i + 7
		if j > len(b) {
			j = len(b)
		}
		var x uint64
		for _, c := range b[i:j] {
			x = x<<8 | uint64(c)
		}
		it = append(it, fmt.Sprintf("%d%%uint63", x))
	}
	return fmt.Sprintf("%d %s", len(b), vh.List(it))
}

func nats(xs []int) string {
	it := make([]string, len(xs))
	for i, x := range xs {
		it[i] = vh.Nat(x)
	}
	return vh.List(it)
}

func lower(r *mrand.Rand, n int) string {
	b := make([]byte, n)
	for i := range b {
		b[i] = byte('a' + r.Intn(26))
		if i > 0 && i+1 < n && b[i-1] != '.' && r.Intn(9) == 0 {
			b[i] = '.'
		}
	}
	return string(b)
}

// serverName: the SNI values of the property's quantifier - DNS names of all lengths, names with
// trailing dots (stripped by hostnameInSNI), IP literals (no SNI extension at all), byte-boundary lengths.
func serverName(r *mrand.Rand, variant int) string {
	switch variant % 6 {
	case 0:
		return "c03.example.com"
	case 1:
		return lower(r, 1+r.Intn(40))
	case 2:
		return []string{"192.0.2.7", "[2001:db8::1]", "fe80::1%eth0", "10.0.0.1"}[r.Intn(4)]
	case 3:
		return lower(r, 3+r.Intn(30)) + strings.Repeat(".", 1+r.Intn(2))
	case 4:
		// the lengths at which the three nested length fields of server_name cross a byte boundary (name+5, name+3,
		// name >= 256) and their neighbours; 253 is the longest legal DNS name, the library accepts longer strings
		return lower(r, []int{250, 251, 252, 253, 254, 255, 256, 257, 300}[r.Intn(9)])
	}
	return lower(r, 1+r.Intn(253))
}

// connCfg: what the caller puts into the tls.Config handed to UClient. The property is a statement about the
// SPEC: the wire must not depend on MinVersion/MaxVersion/NextProtos/CipherSuites/CurvePreferences/... of the Config.
type connCfg struct {
	Name       string   `json:"server_name"`
	Omit       bool     `json:"omit_empty_psk"`
	MinVersion uint16   `json:"min_version"`
	MaxVersion uint16   `json:"max_version"`
	NextProtos []string `json:"next_protos"`
	Other      string   `json:"other"`  // further fields set (not part of the model's cfg)
	Shared     bool     `json:"shared"` // the *Config object is one reused across parrots (left as the previous connection left it)
}

var versionChoices = []uint16{0, tls.VersionTLS10, tls.VersionTLS11, tls.VersionTLS12, tls.VersionTLS13}

// variedCfg: every other connection leaves the Config at its defaults; the others set the version bounds
// (unset / narrower / wider than the spec / inverted), NextProtos and a few more fields at random.
func variedCfg(r *mrand.Rand, name string, omit bool, vary bool) (connCfg, *tls.Config) {
	cc := connCfg{Name: name, Omit: omit}
	cfg := &tls.Config{ServerName: name, InsecureSkipVerify: true, OmitEmptyPsk: omit}
	if !vary {
		return cc, cfg
	}
	cc.MinVersion = versionChoices[r.Intn(len(versionChoices))]
	cc.MaxVersion = versionChoices[r.Intn(len(versionChoices))]
	switch r.Intn(4) {
	case 1:
		cc.NextProtos = []string{"h2", "http/1.1"}
	case 2:
		cc.NextProtos = []string{"c03-proto"}
	case 3:
		cc.NextProtos = []string{"http/1.1"}
	}
	cfg.MinVersion, cfg.MaxVersion, cfg.NextProtos = cc.MinVersion, cc.MaxVersion, cc.NextProtos
	var other []string
	if r.Intn(3) == 0 {
		cfg.CipherSuites = []uint16{tls.TLS_RSA_WITH_AES_128_CBC_SHA}
		other = append(other, "CipherSuites")
	}
	if r.Intn(3) == 0 {
		cfg.CurvePreferences = []tls.CurveID{tls.CurveP384}
		other = append(other, "CurvePreferences")
	}
	if r.Intn(3) == 0 {
		cfg.SessionTicketsDisabled = true
		other = append(other, "SessionTicketsDisabled")
	}
	if r.Intn(3) == 0 {
		cfg.Renegotiation = tls.RenegotiateFreelyAsClient
		other = append(other, "Renegotiation")
	}
	if r.Intn(3) == 0 {
		cfg.DynamicRecordSizingDisabled = true
		cfg.PreferSkipResumptionOnNilExtension = true
		other = append(other, "misc")
	}
	cc.Other = strings.Join(other, ",")
	return cc, cfg
}

// sharedCfg: ONE *tls.Config reused for connections of different parrots, as an application dialling with
// different fingerprints does; UClient keeps the pointer and the handshake code writes into it (version range,
// NextProtos, curves, ServerName). Only ServerName / OmitEmptyPsk / Rand are reset by the "application".
var sharedCfg = &tls.Config{InsecureSkipVerify: true}

func useShared(name string, omit bool) (connCfg, *tls.Config) {
	sharedCfg.ServerName, sharedCfg.OmitEmptyPsk = name, omit
	cc := connCfg{Name: name, Omit: omit, MinVersion: sharedCfg.MinVersion, MaxVersion: sharedCfg.MaxVersion,
		NextProtos: append([]string(nil), sharedCfg.NextProtos...), Shared: true}
	return cc, sharedCfg
}

// cfgTerm: the model's cfg record.
func cfgTerm(cc connCfg) string {
	var ps []string
	for _, p := range cc.NextProtos {
		ps = append(ps, vh.Str(p))
	}
	return fmt.Sprintf("{| c_sni := %s; c_omit_psk := %s; c_min_version := %d; c_max_version := %d; c_next_protos := %s |}",
		vh.Str(extcoq.HostnameInSNI(cc.Name)), vh.Bool(cc.Omit), cc.MinVersion, cc.MaxVersion, vh.List(ps))
}

// pickCfg: connection k of parrot pi: defaults / varied / the shared object, in rotation.
func pickCfg(c *vh.Ctx, name string, omit bool, k, pi int) (connCfg, *tls.Config) {
	switch (k + 2*pi) % 4 {
	case 0:
		return variedCfg(c.Rng, name, omit, false)
	case 3:
		return useShared(name, omit)
	}
	return variedCfg(c.Rng, name, omit, true)
}

// ---- entropy faults ----

// faultReader replaces crypto/rand.Reader: deterministic bytes, but read number failAt (and every later one
// unless oneShot) returns an error.
type faultReader struct {
	r       *mrand.Rand
	n       int
	failAt  int
	oneShot bool
	failed  int
}

func (f *faultReader) Read(p []byte) (int, error) {
	i := f.n
	f.n++
	if i == f.failAt || (!f.oneShot && i > f.failAt) {
		f.failed++
		return 0, fmt.Errorf("c03: injected entropy failure at read %d", i)
	}
	f.r.Read(p)
	return len(p), nil
}

// withFault runs fn while crypto/rand.Reader is the faulty reader (the runner is single-threaded).
func withFault(f *faultReader, fn func()) (panicked bool, val any) {
	old := crand.Reader
	crand.Reader = f
	defer func() { crand.Reader = old }()
	return vh.Recover(fn)
}

func hasECH(p *parrotOut) bool {
	for _, k := range p.Kinds {
		if k.ID == 0xfe0d {
			return true
		}
	}
	return false
}

// specMax: "spec maximum" of the property text.
func specMax(sp *tls.ClientHelloSpec) uint16 {
	if sp.TLSVersMin != 0 || sp.TLSVersMax != 0 {
		return sp.TLSVersMax
	}
	for _, e := range sp.Extensions {
		if sv, ok := e.(*tls.SupportedVersionsExtension); ok {
			var m uint16
			for _, v := range sv.Versions {
				if !isGREASE(v) && v > m {
					m = v
				}
			}
			return m
		}
	}
	return tls.VersionTLS12
}

func ug(v uint16) uint16 {
	if isGREASE(v) {
		return 0x0a0a
	}
	return v
}

// goOracle: the coarse facts of the property, written from its text and from the TYPES of the spec's
// extensions only (kindOf): legacy_version, suites modulo GREASE, compression, extension-type
// sequence (non-shuffling) resp. multiset and positions of GREASE/padding/pre_shared_key (shuffling).
func goOracle(c *vh.Ctx, p *parrotOut, sp *tls.ClientHelloSpec, kinds []extKind, w *wireHello, sni string, input any) {
	fail := func(what, key string, got, want any) {
		c.Fail(key+"/"+p.Name, what, input, got, want)
	}
	wantV := specMax(sp)
	if wantV > tls.VersionTLS12 {
		wantV = tls.VersionTLS12
	}
	if w.Vers != wantV {
		fail("legacy_version is not min(spec maximum, TLS 1.2)", "legacy-version", w.Vers, wantV)
	}
	if len(w.Random) != 32 || len(w.SID) != 32 {
		fail("random / session id are not 32 bytes", "random-sid", []int{len(w.Random), len(w.SID)}, []int{32, 32})
	}
	okS := len(w.Suites) == len(sp.CipherSuites)
	for i := 0; okS && i < len(w.Suites); i++ {
		if isGREASE(sp.CipherSuites[i]) != isGREASE(w.Suites[i]) || (!isGREASE(w.Suites[i]) && w.Suites[i] != sp.CipherSuites[i]) {
			okS = false
		}
	}
	if !okS {
		fail("cipher suites differ from the spec's (GREASE slots aside)", "suites", w.Suites, sp.CipherSuites)
	}
	if !bytes.Equal(w.Comp, sp.CompressionMethods) {
		fail("compression methods differ from the spec's", "compression", w.Comp, sp.CompressionMethods)
	}
	// expected extension types: SNI is left out when there is no DNS name; padding and pre_shared_key may be absent
	var wireIDs []uint16
	for _, e := range w.Exts {
		wireIDs = append(wireIDs, ug(e.ID))
	}
	has := func(id uint16) bool {
		for _, x := range wireIDs {
			if x == id {
				return true
			}
		}
		return false
	}
	var want []extKind
	for _, k := range kinds {
		if k.ID == 0 && sni == "" {
			continue
		}
		if (k.ID == 21 || k.ID == 41) && !has(k.ID) {
			continue
		}
		want = append(want, k)
	}
	var wantIDs []uint16
	for _, k := range want {
		wantIDs = append(wantIDs, k.ID)
	}
	if !p.Shuffles {
		if fmt.Sprint(wireIDs) != fmt.Sprint(wantIDs) {
			fail("extension type sequence differs from the spec's", "ext-sequence", wireIDs, wantIDs)
		}
		return
	}
	a, b := append([]uint16(nil), wireIDs...), append([]uint16(nil), wantIDs...)
	sort.Slice(a, func(i, j int) bool { return a[i] < a[j] })
	sort.Slice(b, func(i, j int) bool { return b[i] < b[j] })
	if fmt.Sprint(a) != fmt.Sprint(b) {
		fail("extension type multiset differs from the spec's", "ext-multiset", a, b)
		return
	}
	if sni != "" { // with SNI on the wire the slots of the fixed entries are known exactly
		for i, k := range want {
			if k.Fixed && wireIDs[i] != k.ID {
				fail(fmt.Sprintf("slot %d must hold the positionally fixed extension type %d", i, k.ID), "fixed-position", wireIDs, wantIDs)
				return
			}
		}
	}
}

func run(c *vh.Ctx) {
	// the fallback of ShuffleChromeTLSExtensions uses the global math/rand source: make it the fixed seed-1
	// stream (Go >= 1.20 seeds it randomly otherwise) so that a replay sees the same arrangement
	os.Setenv("GODEBUG", "randautoseed=0")
	// crypto/rand.Reader of this (single-threaded) process is a deterministic stream derived from the seed: the
	// Chrome shuffle order and the GREASE ECH draws of a run are reproducible. Faults are injected on top of it.
	crand.Reader = &logReader{r: mrand.New(mrand.NewSource(c.Rng.Int63()))}
	repo := os.Getenv("VERIF_REPO")
	if repo == "" {
		repo = "/repo"
	}
	res, err := loadParrots(repo)
	if err != nil {
		c.Fail("translator", "cannot enumerate the parrots: "+err.Error(), repo, nil, nil)
		return
	}
	for _, d := range res.Disagree {
		name := strings.SplitN(d, ":", 2)[0]
		c.Fail("draws-disagree/"+strings.TrimPrefix(name, "Hello"), "two UTLSIdToSpec calls for one id are not rearrangements of each other with GREASE/padding/pre_shared_key in place",
			name, d, "same multiset, fixed entries in their slots")
	}
	c.Extra["parrots"] = len(res.Parrots)
	c.Extra["rejected_ids"] = res.Rejected
	c.Extra["randomized_ids"] = res.Randomized
	perParrot := c.N
	if perParrot < 3 {
		perParrot = 3
	}
	for pi := range res.Parrots {
		p := &res.Parrots[pi]
		for k := 0; k < perParrot; k++ {
			name := serverName(c.Rng, k+pi)
			if k%3 == 2 {
				omit := !(k%6 == 5 && hasPSK(p)) // some PSK parrots also with OmitEmptyPsk=false: ErrEmptyPsk expected
				cc, cfg := pickCfg(c, name, omit, k, pi)
				runBuild(c, p, cc, cfg, k, nil)
			} else {
				cc, cfg := pickCfg(c, name, true, k, pi)
				runHello(c, p, cc, cfg, nil)
			}
		}
		// entropy faults: crypto/rand.Reader fails (a) from read #kf on while the spec is generated, the rest of the
		// connection running on a healthy source; (b) once, at the first read of a whole UClient(id) connection.
		// (b) is left out for non-shuffling parrots with GREASE ECH: their first crypto/rand use is rand.Read in
		// GREASEEncryptedClientHelloExtension.init, which in Go 1.24 terminates the process on a read error.
		nf := 0
		if p.Shuffles {
			nf = 2
		} else if pi%4 == 0 {
			nf = 1
		}
		if c.Tier != "quick" {
			nf *= 6
		}
		for kf := 0; kf < nf; kf++ {
			name := serverName(c.Rng, kf+pi)
			cc, cfg := variedCfg(c.Rng, name, true, kf%2 == 1)
			runBuild(c, p, cc, cfg, 1000+kf, &faultReader{r: mrand.New(mrand.NewSource(c.Rng.Int63())), failAt: kf % 3})
			if (p.Shuffles || !hasECH(p)) && (p.Shuffles || kf == 0) {
				cc, cfg := variedCfg(c.Rng, name, true, kf%2 == 0)
				runHello(c, p, cc, cfg, &faultReader{r: mrand.New(mrand.NewSource(c.Rng.Int63())), failAt: 0, oneShot: true})
			}
		}
		nd := 0
		if p.Shuffles {
			nd = 2
			if c.Tier != "quick" {
				nd = 40
			}
		} else if pi%6 == 0 {
			nd = 1
		}
		for k := 0; k < nd; k++ {
			runDraw(c, p, k)
		}
	}
	ns := 24
	if c.Tier != "quick" {
		ns = 2000
	}
	for t := 0; t < ns; t++ {
		runShuffle(c, t)
	}
}

func newConn(c *vh.Ctx, id tls.ClientHelloID, cfg *tls.Config) (*tls.UConn, *recRand) {
	rec := &recRand{r: mrand.New(mrand.NewSource(c.Rng.Int63()))}
	cfg.Rand = rec
	return tls.UClient(&net.TCPConn{}, cfg, id), rec
}

// runHello: the ClientHelloID path, as a user of the library takes it. With fr != nil the whole connection runs
// with crypto/rand.Reader replaced by the faulty reader.
func runHello(c *vh.Ctx, p *parrotOut, cc connCfg, cfg *tls.Config, fr *faultReader) {
	uc, _ := newConn(c, p.ID, cfg)
	input := map[string]any{"parrot": p.Name, "config": cc, "path": "UClient(id)+BuildHandshakeState"}
	if fr != nil {
		input["crypto_rand_fault"] = map[string]any{"fail_at_read": fr.failAt, "one_shot": fr.oneShot, "scope": "whole connection"}
	}
	var err error
	var pan bool
	var v any
	if fr != nil {
		pan, v = withFault(fr, func() { err = uc.BuildHandshakeState() })
	} else {
		pan, v = vh.Recover(func() { err = uc.BuildHandshakeState() })
	}
	if pan {
		c.Fail("build/"+p.Name, "BuildHandshakeState panicked", input, fmt.Sprint(v), "a ClientHello or an error")
		return
	}
	if err != nil {
		if fr != nil && fr.failed > 0 {
			c.Count("fault:refused") // an explicit error under an entropy fault is an acceptable outcome
			return
		}
		c.Fail("build/"+p.Name, "BuildHandshakeState failed for a predefined parrot", input, err.Error(), "a ClientHello")
		return
	}
	raw := uc.HandshakeState.Hello.Raw
	w, err := parseHello(raw)
	if err != nil {
		c.Fail("framing/"+p.Name, "Hello.Raw is not a well-framed ClientHello", input, vh.Hex(raw), "well-framed")
		return
	}
	sni := extcoq.HostnameInSNI(cc.Name)
	// the spec this connection used, in ITS order (uc.Extensions are the spec's objects)
	var kinds []extKind
	for _, e := range uc.Extensions {
		kinds = append(kinds, kindOf(e))
	}
	sp, _ := tls.UTLSIdToSpec(p.ID)
	if p.Shuffles {
		// the order this connection drew must be the table entry rearranged with the fixed slots unchanged
		for i, k := range kinds {
			if i < len(p.Kinds) && (k.Fixed || p.Kinds[i].Fixed) && k != p.Kinds[i] {
				c.Fail("fixed-position/"+p.Name, fmt.Sprintf("the spec used by this connection holds extension type %d in slot %d, the parrot has the positionally fixed type %d there", k.ID, i, p.Kinds[i].ID),
					input, kinds, p.Kinds)
				break
			}
		}
	}
	goOracle(c, p, &sp, kinds, w, sni, input)
	term := fmt.Sprintf("(CHello %s %s %s)", vh.Str(p.Name), cfgTerm(cc), packed(raw))
	c.OracleCase("CHello", term, "spec-match/"+p.Name,
		"the ClientHello does not carry what the parrot's spec (Gen/Parrots.v) describes", input, true)
	c.Count("sni:" + map[bool]string{true: "absent", false: "present"}[sni == ""])
	if fr != nil {
		c.Count(fmt.Sprintf("fault:hello(failed reads %d)", fr.failed))
	}
}

func indexOf[T comparable](xs []T, x T) int {
	for i, y := range xs {
		if x == y {
			return i
		}
	}
	return -1
}

// permOf: draw as a rearrangement of base (indices into base), matching rendered terms; nil if it is none.
func permOf(base, draw []string) []int {
	used := make([]bool, len(base))
	var perm []int
	for _, d := range draw {
		f := -1
		for i, b := range base {
			if !used[i] && b == d {
				f = i
				break
			}
		}
		if f < 0 {
			return nil
		}
		used[f] = true
		perm = append(perm, f)
	}
	return perm
}

// runBuild: UTLSIdToSpec + ApplyPreset on a HelloCustom connection; the model must reproduce Hello.Raw.
func runBuild(c *vh.Ctx, p *parrotOut, cc connCfg, cfg *tls.Config, k int, fr *faultReader) {
	name, omit := cc.Name, cc.Omit
	uc, rec := newConn(c, tls.HelloCustom, cfg)
	input := map[string]any{"parrot": p.Name, "config": cc, "path": "UTLSIdToSpec+ApplyPreset"}
	var spec tls.ClientHelloSpec
	var err error
	if fr != nil {
		// the spec is generated while crypto/rand.Reader fails; everything after runs on the healthy source
		input["crypto_rand_fault"] = map[string]any{"fail_from_read": fr.failAt, "scope": "UTLSIdToSpec"}
		if pan, v := withFault(fr, func() { spec, err = tls.UTLSIdToSpec(p.ID) }); pan {
			c.Fail("build/"+p.Name, "UTLSIdToSpec panicked under an entropy fault", input, fmt.Sprint(v), "a spec or an error")
			return
		}
		c.Count(fmt.Sprintf("fault:spec(failed reads %d)", fr.failed))
	} else {
		spec, err = tls.UTLSIdToSpec(p.ID)
	}
	if err != nil {
		if fr != nil && fr.failed > 0 {
			c.Count("fault:refused")
		}
		return
	}
	draw, kinds, err := renderExts(spec.Extensions)
	if err != nil {
		return
	}
	if why := sameShuffleClass(p.Exts, draw, p.Kinds, kinds); why != "" {
		c.Fail("draws-disagree/"+p.Name, "UTLSIdToSpec result is not the table entry rearranged with GREASE/padding/pre_shared_key in place: "+why,
			input, draw, p.Exts)
	}
	if fr != nil {
		c.OracleCase("CDraw", fmt.Sprintf("(CDraw %s %s)", vh.Str(p.Name), vh.List(draw)), "draws-disagree/"+p.Name,
			"UTLSIdToSpec result (Coq draw_ok) is not the table entry rearranged with the fixed slots unchanged", input, p.Shuffles)
	}
	perm := permOf(p.Exts, draw)
	if perm == nil {
		c.Fail("draws-disagree/"+p.Name, "UTLSIdToSpec returned a list that is no rearrangement of the table entry", input, draw, p.Exts)
		return
	}
	var perr error
	pan, pv := vh.Recover(func() {
		if perr = uc.ApplyPreset(&spec); perr == nil {
			perr = uc.BuildHandshakeState()
		}
	})
	if pan {
		c.Fail("build/"+p.Name, "ApplyPreset/BuildHandshakeState panicked", input, fmt.Sprint(pv), "a ClientHello")
		return
	}
	var grease []byte
	for _, r := range rec.reads {
		if len(r) == 10 {
			grease = r
			break
		}
	}
	sni := extcoq.HostnameInSNI(name)
	if perr != nil {
		if omit {
			c.Fail("build/"+p.Name, "BuildHandshakeState failed for a predefined parrot", input, perr.Error(), "a ClientHello")
			return
		}
		// expected: ErrEmptyPsk. The model needs the key material it cannot see: hand it fresh-looking dummies.
		c.Count("build:error")
		return
	}
	raw := uc.HandshakeState.Hello.Raw
	w, err := parseHello(raw)
	if err != nil {
		c.Fail("framing/"+p.Name, "Hello.Raw is not a well-framed ClientHello", input, vh.Hex(raw), "well-framed")
		return
	}
	goOracle(c, p, &spec, kinds, w, sni, input)
	// per-connection material cut out of the observed bytes
	var keys, echs []string
	for _, e := range w.Exts {
		switch e.ID {
		case 51:
			// client_shares: u16 length, then (group u16, u16 length, data)
			var specKS *tls.KeyShareExtension
			for _, se := range spec.Extensions {
				if x, ok := se.(*tls.KeyShareExtension); ok {
					specKS = x
				}
			}
			q := 2
			for i := 0; q+4 <= len(e.Body); i++ {
				g := binary.BigEndian.Uint16(e.Body[q:])
				l := int(binary.BigEndian.Uint16(e.Body[q+2:]))
				// a share is generated when the group is not GREASE and the spec held at most one byte of data;
				// ApplyPreset wrote the key into the spec object, so the decision is taken from the table entry
				if !isGREASE(g) && l > 1 && specKS != nil && i < len(specKS.KeyShares) && generated(p, i) {
					keys = append(keys, fmt.Sprintf("(%d, %d)", e.Off+q+4, l))
				}
				q += 4 + l
			}
		case 0xfe0d:
			var g *tls.GREASEEncryptedClientHelloExtension
			for _, se := range spec.Extensions {
				if x, ok := se.(*tls.GREASEEncryptedClientHelloExtension); ok {
					g = x
				}
			}
			b := e.Body
			if g == nil || len(b) < 10 {
				continue
			}
			kdf, aead, cfgid := binary.BigEndian.Uint16(b[1:]), binary.BigEndian.Uint16(b[3:]), b[5]
			el := int(binary.BigEndian.Uint16(b[6:]))
			if len(b) < 10+el {
				continue
			}
			pl := int(binary.BigEndian.Uint16(b[8+el:]))
			si := 0
			for i, s := range g.CandidateCipherSuites {
				if s.KdfId == kdf && s.AeadId == aead {
					si = i
					break
				}
			}
			pi := indexOf(g.CandidatePayloadLens, uint16(pl-16))
			if pi < 0 {
				pi = 0
			}
			echs = append(echs, fmt.Sprintf("{| ce_cfg_byte := %d; ce_suite_idx := %s; ce_enc := (%d, %d); ce_plen_idx := %s; ce_payload := (%d, %d) |}",
				cfgid, vh.Nat(si), e.Off+8, el, vh.Nat(pi), e.Off+10+el, pl))
		}
	}
	term := fmt.Sprintf("(CBuild %s %s %s %s %s %s true %s)", vh.Str(p.Name), cfgTerm(cc), nats(perm),
		vh.Bytes(grease), vh.List(keys), vh.List(echs), packed(raw))
	c.Case("CBuild", term, fmt.Sprintf("%s|%s|%d", p.Name, name, k), true,
		map[string]any{"parrot": p.Name, "config": cc, "len": len(raw)})
	if fr != nil {
		// and the shuffle-aware property oracle on the bytes of this connection
		c.OracleCase("CHello", fmt.Sprintf("(CHello %s %s %s)", vh.Str(p.Name), cfgTerm(cc), packed(raw)), "spec-match/"+p.Name,
			"the ClientHello does not carry what the parrot's spec (Gen/Parrots.v) describes", input, true)
	}
}

func hasPSK(p *parrotOut) bool {
	for _, k := range p.Kinds {
		if k.ID == 41 {
			return true
		}
	}
	return false
}

// generated: does ApplyPreset generate the key of share #i of the parrot's key_share extension?
// Decided from a FRESH spec (the applied one already holds the generated keys).
func generated(p *parrotOut, i int) bool {
	sp, err := tls.UTLSIdToSpec(p.ID)
	if err != nil {
		return false
	}
	for _, e := range sp.Extensions {
		if ks, ok := e.(*tls.KeyShareExtension); ok && i < len(ks.KeyShares) {
			return !isGREASE(uint16(ks.KeyShares[i].Group)) && len(ks.KeyShares[i].Data) <= 1
		}
	}
	return false
}

// runDraw: one more UTLSIdToSpec(id) against the table entry.
func runDraw(c *vh.Ctx, p *parrotOut, k int) {
	sp, err := tls.UTLSIdToSpec(p.ID)
	if err != nil {
		return
	}
	draw, kinds, err := renderExts(sp.Extensions)
	if err != nil {
		return
	}
	if why := sameShuffleClass(p.Exts, draw, p.Kinds, kinds); why != "" {
		c.Fail("draws-disagree/"+p.Name, "UTLSIdToSpec result is not the table entry rearranged with GREASE/padding/pre_shared_key in place: "+why,
			p.Name, draw, p.Exts)
	}
	if !p.Shuffles && strings.Join(draw, ";") != strings.Join(p.Exts, ";") {
		c.Fail("draws-disagree/"+p.Name, "a non-shuffling id returned a different extension order", p.Name, draw, p.Exts)
	}
	c.Case("CDraw", fmt.Sprintf("(CDraw %s %s)", vh.Str(p.Name), vh.List(draw)), fmt.Sprintf("%s|%s", p.Name, strings.Join(draw, ";")), p.Shuffles, nil)
}

type logReader struct {
	r   *mrand.Rand
	log []byte
}

func (l *logReader) Read(p []byte) (int, error) {
	l.r.Read(p)
	l.log = append(l.log, p...)
	return len(p), nil
}

// runShuffle: the real ShuffleChromeTLSExtensions on a generated list. crypto/rand.Reader is replaced
// by a logging deterministic reader for the call; the seed the function drew is recomputed from the
// logged bytes with the same crypto/rand.Int, and the swap calls with the same math/rand.Shuffle.
func runShuffle(c *vh.Ctx, t int) {
	n := 1 + c.Rng.Intn(24)
	if t == 0 {
		n = 0
	}
	exts := make([]tls.TLSExtension, n)
	fixed := make([]bool, n)
	for i := range exts {
		switch c.Rng.Intn(9) {
		case 0:
			exts[i], fixed[i] = &tls.UtlsGREASEExtension{}, true
		case 1:
			exts[i], fixed[i] = &tls.UtlsPaddingExtension{GetPaddingLen: tls.BoringPaddingStyle}, true
		case 2:
			exts[i], fixed[i] = &tls.UtlsPreSharedKeyExtension{}, true
		case 3:
			exts[i], fixed[i] = &tls.FakePreSharedKeyExtension{}, true
		case 4:
			exts[i] = &tls.SNIExtension{}
		case 5:
			exts[i] = &tls.KeyShareExtension{}
		default:
			exts[i] = &tls.GenericExtension{Id: uint16(1000 + i)}
		}
	}
	orig := append([]tls.TLSExtension(nil), exts...)
	fault := t%4 == 3 // crypto/rand.Reader fails: the function must still keep the fixed entries in place
	lr := &logReader{r: mrand.New(mrand.NewSource(c.Rng.Int63()))}
	old := crand.Reader
	crand.Reader = lr
	if fault {
		crand.Reader = &faultReader{r: mrand.New(mrand.NewSource(1)), failAt: 0}
	}
	var out []tls.TLSExtension
	pan, _ := vh.Recover(func() { out = tls.ShuffleChromeTLSExtensions(exts) })
	crand.Reader = old
	var result []int
	if !pan {
		for _, e := range out {
			result = append(result, indexOf(orig, e))
		}
	}
	seed := big.NewInt(0)
	var swaps []string
	if !fault {
		var err error
		seed, err = crand.Int(bytes.NewReader(lr.log), big.NewInt(math.MaxInt64))
		if err != nil {
			c.Count("shuffle:seed-not-recovered")
			return
		}
		mrand.New(mrand.NewSource(seed.Int64())).Shuffle(n, func(i, j int) {
			swaps = append(swaps, fmt.Sprintf("(%s, %s)", vh.Nat(i), vh.Nat(j)))
		})
	}
	input := map[string]any{"fixed": fixed, "seed": seed.String(), "crypto_rand_fails": fault}
	// Go-side oracle from the property text: same elements, fixed ones in place
	if !pan {
		cnt := map[int]int{}
		for _, r := range result {
			cnt[r]++
		}
		okm := len(result) == n
		for i := 0; i < n; i++ {
			if cnt[i] != 1 {
				okm = false
			}
		}
		if !okm {
			c.Fail("shuffle/multiset", "ShuffleChromeTLSExtensions lost or duplicated an extension", input, result, "a permutation")
		}
		for i := 0; okm && i < n; i++ {
			if (fixed[i] || fixed[result[i]]) && result[i] != i {
				c.Fail("shuffle/fixed-moved", "ShuffleChromeTLSExtensions moved a GREASE/padding/pre_shared_key extension", input, result, "fixed entries in place")
				break
			}
		}
	} else {
		c.Fail("shuffle/panic", "ShuffleChromeTLSExtensions panicked", input, nil, "no panic")
	}
	fx := make([]string, n)
	for i, f := range fixed {
		fx[i] = vh.Bool(f)
	}
	moved := false
	for i, r := range result {
		if r != i {
			moved = true
		}
	}
	if fault {
		if !pan {
			c.OracleCase("CShufflePost", fmt.Sprintf("(CShufflePost %s %s)", vh.List(fx), nats(result)), "shuffle/fault-postcondition",
				"ShuffleChromeTLSExtensions with a failing crypto/rand violates the postcondition proved for every swap list (permutation, fixed entries in place)",
				input, moved)
		}
		return
	}
	c.Case("CShuffle", fmt.Sprintf("(CShuffle %s %s %s %s)", vh.List(fx), vh.List(swaps), vh.Bool(pan), nats(result)),
		fmt.Sprint(fixed, seed), moved, nil)
}

var _ = io.EOF

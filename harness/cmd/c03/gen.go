package main

// Translator. Every package-level `Hello*` variable of type ClientHelloID in <repo>/u_common.go is found
// with go/parser (no hand list: a parrot added later is picked up, or listed as rejected when
// UTLSIdToSpec does not know it). The (Client, Version) pair of each literal is resolved from the source
// (string constants of the same file), the ClientHelloID is rebuilt from it and UTLSIdToSpec is called
// `draws` times on the COMPILED package (built from the same tree). Output: coq/theories/Gen/Parrots.v,
// one `parrot` record per accepted id.

import (
	"flag"
	"fmt"
	"go/ast"
	"go/parser"
	"go/token"
	"os"
	"path/filepath"
	"sort"
	"strconv"
	"strings"

	tls "github.com/refraction-networking/utls"
	"verif/harness/extcoq"
	"verif/harness/vh"
)

const draws = 16

type srcID struct {
	Name    string // Go identifier, e.g. HelloChrome_58
	Alias   string // non-empty: `HelloX_Auto = HelloX_n`
	Client  string
	Version string
	Line    int
	Random  bool // the Client field is one of the helloRandomized* constants: no fixed spec (C09's business)
}

// helloIDs lists the Hello* ClientHelloID variables of u_common.go in source order.
func helloIDs(repo string) ([]srcID, error) {
	fset := token.NewFileSet()
	f, err := parser.ParseFile(fset, filepath.Join(repo, "u_common.go"), nil, 0)
	if err != nil {
		return nil, err
	}
	consts := map[string]string{}
	for _, d := range f.Decls {
		gd, ok := d.(*ast.GenDecl)
		if !ok || gd.Tok != token.CONST {
			continue
		}
		for _, s := range gd.Specs {
			vs := s.(*ast.ValueSpec)
			for i, n := range vs.Names {
				if i < len(vs.Values) {
					if bl, ok := vs.Values[i].(*ast.BasicLit); ok && bl.Kind == token.STRING {
						if v, err := strconv.Unquote(bl.Value); err == nil {
							consts[n.Name] = v
						}
					}
				}
			}
		}
	}
	str := func(e ast.Expr) (string, bool) {
		switch x := e.(type) {
		case *ast.BasicLit:
			if x.Kind == token.STRING {
				v, err := strconv.Unquote(x.Value)
				return v, err == nil
			}
		case *ast.Ident:
			v, ok := consts[x.Name]
			return v, ok
		}
		return "", false
	}
	var out []srcID
	for _, d := range f.Decls {
		gd, ok := d.(*ast.GenDecl)
		if !ok || gd.Tok != token.VAR {
			continue
		}
		for _, s := range gd.Specs {
			vs := s.(*ast.ValueSpec)
			for i, n := range vs.Names {
				if !strings.HasPrefix(n.Name, "Hello") || i >= len(vs.Values) {
					continue
				}
				id := srcID{Name: n.Name, Line: fset.Position(n.Pos()).Line}
				switch v := vs.Values[i].(type) {
				case *ast.Ident:
					if !strings.HasPrefix(v.Name, "Hello") {
						continue
					}
					id.Alias = v.Name
				case *ast.CompositeLit:
					t, ok := v.Type.(*ast.Ident)
					if !ok || t.Name != "ClientHelloID" {
						continue
					}
					var ce, ve ast.Expr
					for k, el := range v.Elts {
						if kv, ok := el.(*ast.KeyValueExpr); ok {
							switch kv.Key.(*ast.Ident).Name {
							case "Client":
								ce = kv.Value
							case "Version":
								ve = kv.Value
							}
						} else if k == 0 {
							ce = el
						} else if k == 1 {
							ve = el
						}
					}
					var ok1, ok2 bool
					if ce != nil {
						id.Client, ok1 = str(ce)
						if ci, ok := ce.(*ast.Ident); ok && strings.HasPrefix(ci.Name, "helloRandomized") {
							id.Random = true
						}
					}
					if ve != nil {
						id.Version, ok2 = str(ve)
					}
					if !ok1 || !ok2 {
						return nil, fmt.Errorf("u_common.go:%d: cannot resolve Client/Version of %s from the source", id.Line, n.Name)
					}
				default:
					continue
				}
				out = append(out, id)
			}
		}
	}
	if len(out) == 0 {
		return nil, fmt.Errorf("no Hello* ClientHelloID found in %s/u_common.go", repo)
	}
	return out, nil
}

// sextTerm renders one spec extension as a Coq term of type Preset.sext. GREASE ECH is rendered from its
// exported candidate fields (Len()/init() is NOT called: the spec value stays as UTLSIdToSpec returned it).
func sextTerm(e tls.TLSExtension) (string, bool) {
	if g, ok := e.(*tls.GREASEEncryptedClientHelloExtension); ok {
		var su []string
		for _, s := range g.CandidateCipherSuites {
			su = append(su, fmt.Sprintf("(%d, %d)", s.KdfId, s.AeadId))
		}
		var pl []string
		for _, l := range g.CandidatePayloadLens {
			pl = append(pl, fmt.Sprintf("%d", l))
		}
		return fmt.Sprintf("(SGreaseECH %s %s %s %s)", vh.List(su), vh.Bytes(g.CandidateConfigIds), vh.Bytes(g.EncapsulatedKey), vh.List(pl)), true
	}
	t, ok := extcoq.ExtTerm(e)
	if !ok {
		return "", false
	}
	return "(SExt " + t + ")", true
}

type parrotOut struct {
	Name     string // without the Hello prefix
	ID       tls.ClientHelloID
	Spec     tls.ClientHelloSpec // draw 0
	Exts     []string            // rendered extension list; for shuffling ids in CANONICAL order (see canonical)
	Kinds    []extKind           // per entry of Exts
	Shuffles bool
}

// extKind: what the property needs to know about a spec extension, from its Go TYPE alone.
type extKind struct {
	ID    uint16 // extension_type; 0x0a0a for GREASE
	Fixed bool   // GREASE, padding or pre_shared_key: positionally invariant under the Chrome shuffle
	Known bool
}

func kindOf(e tls.TLSExtension) extKind {
	k := func(id uint16) extKind { return extKind{ID: id, Known: true} }
	switch x := e.(type) {
	case *tls.UtlsGREASEExtension:
		return extKind{ID: 0x0a0a, Fixed: true, Known: true}
	case *tls.UtlsPaddingExtension:
		return extKind{ID: 21, Fixed: true, Known: true}
	case *tls.UtlsPreSharedKeyExtension, *tls.FakePreSharedKeyExtension:
		return extKind{ID: 41, Fixed: true, Known: true}
	case *tls.SNIExtension:
		return k(0)
	case *tls.StatusRequestExtension:
		return k(5)
	case *tls.SupportedCurvesExtension:
		return k(10)
	case *tls.SupportedPointsExtension:
		return k(11)
	case *tls.SignatureAlgorithmsExtension:
		return k(13)
	case *tls.ALPNExtension:
		return k(16)
	case *tls.StatusRequestV2Extension:
		return k(17)
	case *tls.SCTExtension:
		return k(18)
	case *tls.ExtendedMasterSecretExtension:
		return k(23)
	case *tls.FakeTokenBindingExtension:
		return k(24)
	case *tls.UtlsCompressCertExtension:
		return k(27)
	case *tls.FakeRecordSizeLimitExtension:
		return k(28)
	case *tls.FakeDelegatedCredentialsExtension:
		return k(34)
	case *tls.SessionTicketExtension:
		return k(35)
	case *tls.SupportedVersionsExtension:
		return k(43)
	case *tls.CookieExtension:
		return k(44)
	case *tls.PSKKeyExchangeModesExtension:
		return k(45)
	case *tls.SignatureAlgorithmsCertExtension:
		return k(50)
	case *tls.KeyShareExtension:
		return k(51)
	case *tls.QUICTransportParametersExtension:
		return k(57)
	case *tls.NPNExtension:
		return k(13172)
	case *tls.ApplicationSettingsExtension:
		return k(17513)
	case *tls.ApplicationSettingsExtensionNew:
		return k(17613)
	case *tls.FakeChannelIDExtension:
		if x.OldExtensionID {
			return k(30031)
		}
		return k(30032)
	case *tls.GREASEEncryptedClientHelloExtension:
		return k(0xfe0d)
	case *tls.RenegotiationInfoExtension:
		return k(0xff01)
	case *tls.GenericExtension:
		return k(x.Id)
	}
	return extKind{}
}

// canonical reorders the non-fixed entries of a shuffling id's list by (extension type, rendered term);
// fixed entries keep their slots. The result does not depend on the draw, so the generated file is stable.
func canonical(ex []string, ks []extKind) ([]string, []extKind) {
	var idx []int
	for i, k := range ks {
		if !k.Fixed {
			idx = append(idx, i)
		}
	}
	srt := append([]int(nil), idx...)
	sort.SliceStable(srt, func(a, b int) bool {
		if ks[srt[a]].ID != ks[srt[b]].ID {
			return ks[srt[a]].ID < ks[srt[b]].ID
		}
		return ex[srt[a]] < ex[srt[b]]
	})
	oe, ok := append([]string(nil), ex...), append([]extKind(nil), ks...)
	for n, slot := range idx {
		oe[slot], ok[slot] = ex[srt[n]], ks[srt[n]]
	}
	return oe, ok
}

// sameShuffleClass: d is a rearrangement of base that keeps every fixed entry in place ("" when it is).
func sameShuffleClass(base, d []string, kb, kd []extKind) string {
	if len(base) != len(d) {
		return fmt.Sprintf("length %d vs %d", len(d), len(base))
	}
	for i := range base {
		if (kb[i].Fixed || kd[i].Fixed) && base[i] != d[i] {
			return fmt.Sprintf("position %d holds %s, expected the positionally fixed %s", i, d[i], base[i])
		}
	}
	a, b := append([]string(nil), base...), append([]string(nil), d...)
	sort.Strings(a)
	sort.Strings(b)
	if strings.Join(a, ";") != strings.Join(b, ";") {
		return "different multiset of extensions"
	}
	return ""
}

type genResult struct {
	Parrots    []parrotOut
	Rejected   []string          // ids UTLSIdToSpec refuses
	Randomized []string          // helloRandomized* ids: generated per connection, no fixed spec
	Aliases    map[string]string // alias -> target
	Disagree   []string          // draws of one id that are not rearrangements of each other with the fixed entries in place
	Source     []srcID
}

func renderExts(exts []tls.TLSExtension) ([]string, []extKind, error) {
	var out []string
	var ks []extKind
	for i, e := range exts {
		t, ok := sextTerm(e)
		k := kindOf(e)
		if !ok || !k.Known {
			return nil, nil, fmt.Errorf("extension #%d of type %T cannot be rendered as a Coq term", i, e)
		}
		out = append(out, t)
		ks = append(ks, k)
	}
	return out, ks, nil
}

func loadParrots(repo string) (*genResult, error) {
	ids, err := helloIDs(repo)
	if err != nil {
		return nil, err
	}
	res := &genResult{Aliases: map[string]string{}, Source: ids}
	for _, s := range ids {
		if s.Alias != "" {
			res.Aliases[s.Name] = s.Alias
			continue
		}
		if s.Random {
			res.Randomized = append(res.Randomized, s.Name)
			continue
		}
		id := tls.ClientHelloID{Client: s.Client, Version: s.Version}
		spec, err := tls.UTLSIdToSpec(id)
		if err != nil {
			res.Rejected = append(res.Rejected, s.Name)
			continue
		}
		p := parrotOut{Name: strings.TrimPrefix(s.Name, "Hello"), ID: id, Spec: spec}
		if p.Exts, p.Kinds, err = renderExts(spec.Extensions); err != nil {
			return nil, fmt.Errorf("%s: %v", s.Name, err)
		}
		for k := 1; k < draws; k++ {
			sp, err := tls.UTLSIdToSpec(id)
			if err != nil {
				return nil, fmt.Errorf("%s: draw %d: %v", s.Name, k, err)
			}
			ex, kd, err := renderExts(sp.Extensions)
			if err != nil {
				return nil, fmt.Errorf("%s: draw %d: %v", s.Name, k, err)
			}
			if why := sameShuffleClass(p.Exts, ex, p.Kinds, kd); why != "" {
				res.Disagree = append(res.Disagree, fmt.Sprintf("%s: UTLSIdToSpec call %d against call 1: %s", s.Name, k+1, why))
			}
			if sp.TLSVersMin != spec.TLSVersMin || sp.TLSVersMax != spec.TLSVersMax ||
				vh.U16s(sp.CipherSuites) != vh.U16s(spec.CipherSuites) || vh.Bytes(sp.CompressionMethods) != vh.Bytes(spec.CompressionMethods) {
				return nil, fmt.Errorf("%s: draw %d differs from draw 0 outside the extension list", s.Name, k)
			}
			if strings.Join(ex, ";") != strings.Join(p.Exts, ";") {
				p.Shuffles = true
			}
		}
		if p.Shuffles {
			p.Exts, p.Kinds = canonical(p.Exts, p.Kinds)
		}
		res.Parrots = append(res.Parrots, p)
	}
	return res, nil
}

func coqIdent(name string) string {
	var sb strings.Builder
	sb.WriteString("p_")
	for _, c := range name {
		if c >= 'a' && c <= 'z' || c >= 'A' && c <= 'Z' || c >= '0' && c <= '9' || c == '_' {
			sb.WriteRune(c)
		} else {
			sb.WriteByte('_')
		}
	}
	return sb.String()
}

func extList(ex []string, indent string) string {
	if len(ex) == 0 {
		return "[]"
	}
	return "[\n" + indent + strings.Join(ex, ";\n"+indent) + "]"
}

func emitParrots(r *genResult) string {
	var sb strings.Builder
	sb.WriteString("(* GENERATED by `harness/cmd/c03 gen` from u_common.go (go/parser: every Hello* ClientHelloID) and\n")
	sb.WriteString("   UTLSIdToSpec of the compiled package (" + strconv.Itoa(draws) + " calls per id). Do not edit: the file is rewritten from the\n")
	sb.WriteString("   tree under check before every proof build of C03; this copy is the snapshot of the last run.\n")
	sb.WriteString("   For an id whose calls returned different extension orders (p_shuffles) the list is given in a canonical\n")
	sb.WriteString("   order: GREASE / padding / pre_shared_key in their slots, the rest sorted by extension type; the translator\n")
	sb.WriteString("   refuses to emit the file when two calls are not rearrangements of each other with those slots unchanged.\n")
	fmt.Fprintf(&sb, "   ids in the source: %d; aliases: %d; rejected by UTLSIdToSpec: %d; randomized (no fixed spec): %d; parrots below: %d. *)\n",
		len(r.Source), len(r.Aliases), len(r.Rejected), len(r.Randomized), len(r.Parrots))
	sb.WriteString("From UV Require Import Base.Common Model.Ext Model.Preset.\nOpen Scope N_scope.\n\n")
	for _, p := range r.Parrots {
		fmt.Fprintf(&sb, "(* Hello%s = ClientHelloID{%q, %q}%s *)\n", p.Name, p.ID.Client, p.ID.Version,
			map[bool]string{true: "; ShuffleChromeTLSExtensions observed", false: ""}[p.Shuffles])
		fmt.Fprintf(&sb, "Definition %s : parrot := {|\n  p_name := %s;\n", coqIdent(p.Name), vh.Str(p.Name))
		fmt.Fprintf(&sb, "  p_spec := {| sp_min := %d; sp_max := %d;\n    sp_suites := %s;\n    sp_comp := %s;\n    sp_exts := %s |};\n",
			p.Spec.TLSVersMin, p.Spec.TLSVersMax, vh.U16s(p.Spec.CipherSuites), vh.Bytes(p.Spec.CompressionMethods), extList(p.Exts, "      "))
		fmt.Fprintf(&sb, "  p_shuffles := %s |}.\n\n", vh.Bool(p.Shuffles))
	}
	var names []string
	for _, p := range r.Parrots {
		names = append(names, coqIdent(p.Name))
	}
	fmt.Fprintf(&sb, "Definition all : list parrot := %s.\n\n", vh.List(names))
	var rej []string
	for _, n := range r.Rejected {
		rej = append(rej, vh.Str(n))
	}
	fmt.Fprintf(&sb, "(* ids UTLSIdToSpec refuses (no fixed spec): %s *)\nDefinition rejected : list bytes := %s.\n\n", strings.Join(r.Rejected, ", "), vh.List(rej))
	fmt.Fprintf(&sb, "(* helloRandomized* ids (spec generated per connection, property C09): %s *)\n", strings.Join(r.Randomized, ", "))
	var al []string
	for a := range r.Aliases {
		al = append(al, a)
	}
	sort.Strings(al)
	sb.WriteString("(* aliases:")
	for _, a := range al {
		fmt.Fprintf(&sb, " %s = %s;", a, r.Aliases[a])
	}
	sb.WriteString(" *)\n")
	return sb.String()
}

func genMain(args []string) int {
	fs := flag.NewFlagSet("gen", flag.ExitOnError)
	repo := fs.String("repo", "/repo", "")
	out := fs.String("out", "", "")
	fs.Parse(args)
	r, err := loadParrots(*repo)
	if err != nil {
		fmt.Println("c03 gen:", err)
		return 1
	}
	for a, t := range r.Aliases {
		found := false
		for _, s := range r.Source {
			if s.Name == t {
				found = true
			}
		}
		if !found {
			fmt.Printf("c03 gen: alias %s points at unknown id %s\n", a, t)
			return 1
		}
	}
	if len(r.Disagree) > 0 {
		fmt.Println("c03 gen: C03 FAILS on the specs themselves: " + strings.Join(r.Disagree, "; "))
		return 1
	}
	txt := emitParrots(r)
	if *out == "" {
		fmt.Print(txt)
		return 0
	}
	if err := os.WriteFile(*out, []byte(txt), 0o644); err != nil {
		fmt.Println("c03 gen:", err)
		return 1
	}
	nsh := 0
	for _, p := range r.Parrots {
		if p.Shuffles {
			nsh++
		}
	}
	fmt.Printf("c03 gen: %d Hello* ids, %d aliases, %d rejected (%s), %d randomized, %d parrots (%d shuffling)\n",
		len(r.Source), len(r.Aliases), len(r.Rejected), strings.Join(r.Rejected, ","), len(r.Randomized), len(r.Parrots), nsh)
	return 0
}

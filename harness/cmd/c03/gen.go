package main

// Translator. Every package-level `Hello*` variable of type ClientHelloID in <repo>/u_common.go is found
// with go/parser (no hand list: a parrot added later is picked up, or listed as rejected when
// UTLSIdToSpec does not know it). The (Client, Version) pair of each literal is resolved from the source
// (string constants of the same file), the ClientHelloID is rebuilt from it and UTLSIdToSpec is called
// `draws` times on the COMPILED package (built from the same tree). Output: coq/theories/Gen/Parrots.v,
// one `parrot` record per accepted id.

import (
	"flag"
	"fmt"
	"go/ast"
	"go/parser"
	"go/token"
	"os"
	"path/filepath"
	"sort"
	"strconv"
	"strings"

	tls "github.com/refraction-networking/utls"
	"verif/harness/extcoq"
	"verif/harness/vh"
)

const draws = 16

type srcID struct {
	Name    string // Go identifier, e.g. HelloChrome_58
	Alias   string // non-empty: `HelloX_Auto = HelloX_n`
	Client  string
	Version string
	Line    int
	Random  bool // the Client field is one of the helloRandomized* constants: no fixed spec (C09's business)
}

// helloIDs lists the Hello* ClientHelloID variables of u_common.go in source order.
func helloIDs(repo string) ([]srcID, error) {
	fset := token.NewFileSet()
	f, err := parser.ParseFile(fset, filepath.Join(repo, "u_common.go"), nil, 0)
	if err != nil {
		return nil, err
	}
	consts := map[string]string{}
	for _, d := range f.Decls {
		gd, ok := d.(*ast.GenDecl)
		if !ok || gd.Tok != token.CONST {
			continue
		}
		for _, s := range gd.Specs {
			vs := s.(*ast.ValueSpec)
			for i, n := range vs.Names {
				if i < len(vs.Values) {
					if bl, ok := vs.Values[i].(*ast.BasicLit); ok && bl.Kind == token.STRING {
						if v, err := strconv.Unquote(bl.Value); err == nil {
							consts[n.Name] = v
						}
					}
				}
			}
		}
	}
	str := func(e ast.Expr) (string, bool) {
		switch x := e.(type) {
		case *ast.BasicLit:
			if x.Kind == token.STRING {
				v, err := strconv.Unquote(x.Value)
				return v, err == nil
			}
		case *ast.Ident:
			v, ok := consts[x.Name]
			return v, ok
		}
		return "", false
	}
	var out []srcID
	for _, d := range f.Decls {
		gd, ok := d.(*ast.GenDecl)
		if !ok || gd.Tok != token.VAR {
			continue
		}
		for _, s := range gd.Specs {
			vs := s.(*ast.ValueSpec)
			for i, n := range vs.Names {
				if !strings.HasPrefix(n.Name, "Hello") || i >= len(vs.Values) {
					continue
				}
				id := srcID{Name: n.Name, Line: fset.Position(n.Pos()).Line}
				switch v := vs.Values[i].(type) {
				case *ast.Ident:
					if !strings.HasPrefix(v.Name, "Hello") {
						continue
					}
					id.Alias = v.Name
				case *ast.CompositeLit:
					t, ok := v.Type.(*ast.Ident)
					if !ok || t.Name != "ClientHelloID" {
						continue
					}
					var ce, ve ast.Expr
					for k, el := range v.Elts {
						if kv, ok := el.(*ast.KeyValueExpr); ok {
							switch kv.Key.(*ast.Ident).Name {
							case "Client":
								ce = kv.Value
							case "Version":
								ve = kv.Value
							}
						} else if k == 0 {
							ce = el
						} else if k == 1 {
							ve = el
						}
					}
					var ok1, ok2 bool
					if ce != nil {
						id.Client, ok1 = str(ce)
						if ci, ok := ce.(*ast.Ident); ok && strings.HasPrefix(ci.Name, "helloRandomized") {
							id.Random = true
						}
					}
					if ve != nil {
						id.Version, ok2 = str(ve)
					}
					if !ok1 || !ok2 {
						return nil, fmt.Errorf("u_common.go:%d: cannot resolve Client/Version of %s from the source", id.Line, n.Name)
					}
				default:
					continue
				}
				out = append(out, id)
			}
		}
	}
	if len(out) == 0 {
		return nil, fmt.Errorf("no Hello* ClientHelloID found in %s/u_common.go", repo)
	}
	return out, nil
}

// sextTerm renders one spec extension as a Coq term of type Preset.sext. GREASE ECH is rendered from its
// exported candidate fields (Len()/init() is NOT called: the spec value stays as UTLSIdToSpec returned it).
func sextTerm(e tls.TLSExtension) (string, bool) {
	if g, ok := e.(*tls.GREASEEncryptedClientHelloExtension); ok {
		var su []string
		for _, s := range g.CandidateCipherSuites {
			su = append(su, fmt.Sprintf("(%d, %d)", s.KdfId, s.AeadId))
		}
		var pl []string
		for _, l := range g.CandidatePayloadLens {
			pl = append(pl, fmt.Sprintf("%d", l))
		}
		return fmt.Sprintf("(SGreaseECH %s %s %s %s)", vh.List(su), vh.Bytes(g.CandidateConfigIds), vh.Bytes(g.EncapsulatedKey), vh.List(pl)), true
	}
	t, ok := extcoq.ExtTerm(e)
	if !ok {
		return "", false
	}
	return "(SExt " + t + ")", true
}

type parrotOut struct {
	Name     string // without the Hello prefix
	ID       tls.ClientHelloID
	Spec     tls.ClientHelloSpec // draw 0
	Exts     []string            // draw 0, rendered
	Draws    [][]string          // draws 1..15 rendered (only kept when some draw differs from draw 0)
	Shuffles bool
}

type genResult struct {
	Parrots  []parrotOut
	Rejected []string          // ids UTLSIdToSpec refuses
	Randomized []string        // helloRandomized* ids: generated per connection, no fixed spec
	Aliases  map[string]string // alias -> target
	Source   []srcID
}

func renderExts(exts []tls.TLSExtension) ([]string, error) {
	var out []string
	for i, e := range exts {
		t, ok := sextTerm(e)
		if !ok {
			return nil, fmt.Errorf("extension #%d of type %T cannot be rendered as a Coq term", i, e)
		}
		out = append(out, t)
	}
	return out, nil
}

func loadParrots(repo string) (*genResult, error) {
	ids, err := helloIDs(repo)
	if err != nil {
		return nil, err
	}
	res := &genResult{Aliases: map[string]string{}, Source: ids}
	for _, s := range ids {
		if s.Alias != "" {
			res.Aliases[s.Name] = s.Alias
			continue
		}
		if s.Random {
			res.Randomized = append(res.Randomized, s.Name)
			continue
		}
		id := tls.ClientHelloID{Client: s.Client, Version: s.Version}
		spec, err := tls.UTLSIdToSpec(id)
		if err != nil {
			res.Rejected = append(res.Rejected, s.Name)
			continue
		}
		p := parrotOut{Name: strings.TrimPrefix(s.Name, "Hello"), ID: id, Spec: spec}
		if p.Exts, err = renderExts(spec.Extensions); err != nil {
			return nil, fmt.Errorf("%s: %v", s.Name, err)
		}
		for k := 1; k < draws; k++ {
			sp, err := tls.UTLSIdToSpec(id)
			if err != nil {
				return nil, fmt.Errorf("%s: draw %d: %v", s.Name, k, err)
			}
			ex, err := renderExts(sp.Extensions)
			if err != nil {
				return nil, fmt.Errorf("%s: draw %d: %v", s.Name, k, err)
			}
			if sp.TLSVersMin != spec.TLSVersMin || sp.TLSVersMax != spec.TLSVersMax ||
				vh.U16s(sp.CipherSuites) != vh.U16s(spec.CipherSuites) || vh.Bytes(sp.CompressionMethods) != vh.Bytes(spec.CompressionMethods) {
				return nil, fmt.Errorf("%s: draw %d differs from draw 0 outside the extension list", s.Name, k)
			}
			if strings.Join(ex, ";") != strings.Join(p.Exts, ";") {
				p.Shuffles = true
			}
			p.Draws = append(p.Draws, ex)
		}
		if !p.Shuffles {
			p.Draws = nil
		}
		res.Parrots = append(res.Parrots, p)
	}
	return res, nil
}

func coqIdent(name string) string {
	var sb strings.Builder
	sb.WriteString("p_")
	for _, c := range name {
		if c >= 'a' && c <= 'z' || c >= 'A' && c <= 'Z' || c >= '0' && c <= '9' || c == '_' {
			sb.WriteRune(c)
		} else {
			sb.WriteByte('_')
		}
	}
	return sb.String()
}

func extList(ex []string, indent string) string {
	if len(ex) == 0 {
		return "[]"
	}
	return "[\n" + indent + strings.Join(ex, ";\n"+indent) + "]"
}

func emitParrots(r *genResult) string {
	var sb strings.Builder
	sb.WriteString("(* GENERATED by `harness/cmd/c03 gen` from u_common.go (go/parser: every Hello* ClientHelloID) and\n")
	sb.WriteString("   UTLSIdToSpec of the compiled package (" + strconv.Itoa(draws) + " calls per id). Do not edit: the file is rewritten from the\n")
	sb.WriteString("   tree under check before every proof build of C03; this copy is the snapshot of the last run.\n")
	fmt.Fprintf(&sb, "   ids in the source: %d; aliases: %d; rejected by UTLSIdToSpec: %d; randomized (no fixed spec): %d; parrots below: %d. *)\n",
		len(r.Source), len(r.Aliases), len(r.Rejected), len(r.Randomized), len(r.Parrots))
	sb.WriteString("From UV Require Import Base.Common Model.Ext Model.Preset.\nOpen Scope N_scope.\n\n")
	for _, p := range r.Parrots {
		fmt.Fprintf(&sb, "(* Hello%s = ClientHelloID{%q, %q}%s *)\n", p.Name, p.ID.Client, p.ID.Version,
			map[bool]string{true: "; ShuffleChromeTLSExtensions observed", false: ""}[p.Shuffles])
		fmt.Fprintf(&sb, "Definition %s : parrot := {|\n  p_name := %s;\n", coqIdent(p.Name), vh.Str(p.Name))
		fmt.Fprintf(&sb, "  p_spec := {| sp_min := %d; sp_max := %d;\n    sp_suites := %s;\n    sp_comp := %s;\n    sp_exts := %s |};\n",
			p.Spec.TLSVersMin, p.Spec.TLSVersMax, vh.U16s(p.Spec.CipherSuites), vh.Bytes(p.Spec.CompressionMethods), extList(p.Exts, "      "))
		var ds []string
		for _, d := range p.Draws {
			ds = append(ds, extList(d, "      "))
		}
		fmt.Fprintf(&sb, "  p_draws := %s |}.\n\n", extList(ds, "    "))
	}
	var names []string
	for _, p := range r.Parrots {
		names = append(names, coqIdent(p.Name))
	}
	fmt.Fprintf(&sb, "Definition all : list parrot := %s.\n\n", vh.List(names))
	var rej []string
	for _, n := range r.Rejected {
		rej = append(rej, vh.Str(n))
	}
	fmt.Fprintf(&sb, "(* ids UTLSIdToSpec refuses (no fixed spec): %s *)\nDefinition rejected : list bytes := %s.\n\n", strings.Join(r.Rejected, ", "), vh.List(rej))
	fmt.Fprintf(&sb, "(* helloRandomized* ids (spec generated per connection, property C09): %s *)\n", strings.Join(r.Randomized, ", "))
	var al []string
	for a := range r.Aliases {
		al = append(al, a)
	}
	sort.Strings(al)
	sb.WriteString("(* aliases:")
	for _, a := range al {
		fmt.Fprintf(&sb, " %s = %s;", a, r.Aliases[a])
	}
	sb.WriteString(" *)\n")
	return sb.String()
}

func genMain(args []string) int {
	fs := flag.NewFlagSet("gen", flag.ExitOnError)
	repo := fs.String("repo", "/repo", "")
	out := fs.String("out", "", "")
	fs.Parse(args)
	r, err := loadParrots(*repo)
	if err != nil {
		fmt.Println("c03 gen:", err)
		return 1
	}
	for a, t := range r.Aliases {
		found := false
		for _, s := range r.Source {
			if s.Name == t {
				found = true
			}
		}
		if !found {
			fmt.Printf("c03 gen: alias %s points at unknown id %s\n", a, t)
			return 1
		}
	}
	txt := emitParrots(r)
	if *out == "" {
		fmt.Print(txt)
		return 0
	}
	if err := os.WriteFile(*out, []byte(txt), 0o644); err != nil {
		fmt.Println("c03 gen:", err)
		return 1
	}
	nsh := 0
	for _, p := range r.Parrots {
		if p.Shuffles {
			nsh++
		}
	}
	fmt.Printf("c03 gen: %d Hello* ids, %d aliases, %d rejected (%s), %d randomized, %d parrots (%d shuffling)\n",
		len(r.Source), len(r.Aliases), len(r.Rejected), strings.Join(r.Rejected, ","), len(r.Randomized), len(r.Parrots), nsh)
	return 0
}

package main

import (
	"encoding/binary"
	"errors"
)

// wireExt: one extension of a parsed ClientHello; Off is the offset of Body in the message.
type wireExt struct {
	ID   uint16
	Body []byte
	Off  int
}

type wireHello struct {
	Vers   uint16
	Random []byte
	SID    []byte
	Suites []uint16
	Comp   []byte
	Exts   []wireExt
}

// parseHello: strict framing parser of a ClientHello handshake message (4-byte header included);
// written for this runner, independent of the library's unmarshaller.
func parseHello(msg []byte) (*wireHello, error) {
	bad := errors.New("malformed ClientHello")
	if len(msg) < 4 || msg[0] != 1 || int(msg[1])<<16|int(msg[2])<<8|int(msg[3]) != len(msg)-4 {
		return nil, bad
	}
	p := 4
	need := func(n int) bool { return n >= 0 && p+n <= len(msg) }
	h := &wireHello{}
	if !need(2 + 32 + 1) {
		return nil, bad
	}
	h.Vers = binary.BigEndian.Uint16(msg[p:])
	h.Random = msg[p+2 : p+34]
	p += 34
	n := int(msg[p])
	p++
	if !need(n + 2) {
		return nil, bad
	}
	h.SID = msg[p : p+n]
	p += n
	n = int(binary.BigEndian.Uint16(msg[p:]))
	p += 2
	if n%2 != 0 || !need(n+1) {
		return nil, bad
	}
	for i := 0; i < n; i += 2 {
		h.Suites = append(h.Suites, binary.BigEndian.Uint16(msg[p+i:]))
	}
	p += n
	n = int(msg[p])
	p++
	if !need(n) {
		return nil, bad
	}
	h.Comp = msg[p : p+n]
	p += n
	if p == len(msg) {
		return h, nil
	}
	if !need(2) || int(binary.BigEndian.Uint16(msg[p:])) != len(msg)-p-2 {
		return nil, bad
	}
	p += 2
	for p < len(msg) {
		if !need(4) {
			return nil, bad
		}
		id := binary.BigEndian.Uint16(msg[p:])
		l := int(binary.BigEndian.Uint16(msg[p+2:]))
		p += 4
		if !need(l) {
			return nil, bad
		}
		h.Exts = append(h.Exts, wireExt{ID: id, Body: msg[p : p+l], Off: p})
		p += l
	}
	return h, nil
}

func isGREASE(v uint16) bool { return v&0x0f0f == 0x0a0a && v>>8 == v&0xff }

// C12 runner: every parrot against the scripted server, which forces one selection at a time
// drawn from the complement of the client's parsed on-wire ClientHello (plus positive controls
// drawn from the offered sets). Observes the client's error/alert, ConnectionState and whether
// application data flowed; emits (a) view/wire synchronisation cases, (b) decision cases compared
// with Model/Negotiate.v, and (c) the property's own oracle on the Go side.
package main

import (
	"fmt"
	"os"
	"sort"
	"strings"
	"sync"

	tls "github.com/refraction-networking/utls"
	"verif/harness/hs"
	"verif/harness/vh"
)

func main() { vh.Main(map[string]vh.Suite{"C12": {Corr: "Corr.C12Corr", Run: run}}) }

// scenario: one forced selection. pick runs inside the server's OnClientHello with the parsed
// wire hello and fills the script; it returns the forced value (for keys/reports), whether that
// value is absent from the wire hello's offered set (by the property's reading), and ok=false
// when the scenario does not apply to this hello.
type scenario struct {
	kind    string
	variant string
	maxVers uint16
	pick    func(w *hs.WireHello, s *tls.VerifServerScript, rng func(int) int) (val string, unoffered bool, ok bool)
	// stale (instead of pick): for clients whose hello was re-built after a change; prev = the wire hello before the
	// change. Selects a value the EARLIER hello offered and the one on the wire does not (always unoffered).
	stale func(w, prev *hs.WireHello, s *tls.VerifServerScript) (val string, ok bool)
}

func otherGREASE(used []uint16, rng func(int) int) uint16 {
	for k := 0; k < 64; k++ {
		n := uint16(rng(16))
		v := n<<12 | 0x0a00 | n<<4 | 0x0a
		if !hs.ContainsU16(used, v) {
			return v
		}
	}
	return 0
}

var real13 = []uint16{tls.TLS_AES_128_GCM_SHA256, tls.TLS_AES_256_GCM_SHA384, tls.TLS_CHACHA20_POLY1305_SHA256}
var realGroups = []uint16{uint16(tls.X25519), uint16(tls.CurveP256), uint16(tls.CurveP384), uint16(tls.CurveP521), uint16(tls.X25519MLKEM768)}
var realCurves12 = []uint16{uint16(tls.X25519), uint16(tls.CurveP256), uint16(tls.CurveP384), uint16(tls.CurveP521)}

func offers13(w *hs.WireHello) bool { return hs.ContainsU16(w.SupportedVersions, tls.VersionTLS13) }

func firstNotIn(cands, set []uint16) (uint16, bool) {
	for _, c := range cands {
		if !hs.ContainsU16(set, c) {
			return c, true
		}
	}
	return 0, false
}

// ECDHE suites usable with the harness certificates (ECDSA + RSA leaves).
var ecdhe12 = []uint16{
	tls.TLS_ECDHE_ECDSA_WITH_AES_128_GCM_SHA256, tls.TLS_ECDHE_RSA_WITH_AES_128_GCM_SHA256,
	tls.TLS_ECDHE_ECDSA_WITH_AES_256_GCM_SHA384, tls.TLS_ECDHE_RSA_WITH_AES_256_GCM_SHA384,
	tls.TLS_ECDHE_ECDSA_WITH_CHACHA20_POLY1305_SHA256, tls.TLS_ECDHE_RSA_WITH_CHACHA20_POLY1305_SHA256,
	tls.TLS_ECDHE_RSA_WITH_AES_128_CBC_SHA, tls.TLS_ECDHE_RSA_WITH_AES_256_CBC_SHA,
	tls.TLS_ECDHE_ECDSA_WITH_AES_128_CBC_SHA, tls.TLS_ECDHE_ECDSA_WITH_AES_256_CBC_SHA,
	tls.TLS_ECDHE_ECDSA_WITH_AES_128_CBC_SHA256, tls.TLS_ECDHE_RSA_WITH_AES_128_CBC_SHA256,
	tls.TLS_ECDHE_RSA_WITH_3DES_EDE_CBC_SHA, tls.TLS_ECDHE_RSA_WITH_RC4_128_SHA, tls.TLS_ECDHE_ECDSA_WITH_RC4_128_SHA,
}

func scenarios() []scenario {
	u16 := func(v uint16) string { return fmt.Sprintf("0x%04x", v) }
	var sc []scenario
	add := func(kind, variant string, maxVers uint16, pick func(w *hs.WireHello, s *tls.VerifServerScript, rng func(int) int) (string, bool, bool)) {
		sc = append(sc, scenario{kind: kind, variant: variant, maxVers: maxVers, pick: pick})
	}
	V13, V12 := uint16(tls.VersionTLS13), uint16(tls.VersionTLS12)

	// ---- positive controls: an honest server, and each kind with an offered value ----
	add("honest13", "offered", V13, func(w *hs.WireHello, s *tls.VerifServerScript, _ func(int) int) (string, bool, bool) {
		return "-", false, offers13(w)
	})
	add("honest12", "offered", V12, func(w *hs.WireHello, s *tls.VerifServerScript, _ func(int) int) (string, bool, bool) {
		return "-", false, true
	})
	add("suite13", "offered", V13, func(w *hs.WireHello, s *tls.VerifServerScript, rng func(int) int) (string, bool, bool) {
		var offered []uint16
		for _, id := range real13 {
			if hs.ContainsU16(w.CipherSuites, id) {
				offered = append(offered, id)
			}
		}
		if !offers13(w) || len(offered) == 0 {
			return "", false, false
		}
		s.Suite = offered[rng(len(offered))]
		return u16(s.Suite), false, true
	})
	add("group13", "offered", V13, func(w *hs.WireHello, s *tls.VerifServerScript, rng func(int) int) (string, bool, bool) {
		var offered []uint16
		for _, g := range realGroups {
			if hs.ContainsU16(w.KeyShareGroups, g) && hs.ContainsU16(w.SupportedGroups, g) {
				offered = append(offered, g)
			}
		}
		if !offers13(w) || len(offered) == 0 {
			return "", false, false
		}
		s.Group = tls.CurveID(offered[rng(len(offered))])
		return u16(uint16(s.Group)), false, true
	})
	add("hrrgroup", "offered", V13, func(w *hs.WireHello, s *tls.VerifServerScript, rng func(int) int) (string, bool, bool) {
		var offered []uint16
		for _, g := range realCurves12 {
			if hs.ContainsU16(w.SupportedGroups, g) && !hs.ContainsU16(w.KeyShareGroups, g) {
				offered = append(offered, g)
			}
		}
		if !offers13(w) || len(offered) == 0 {
			return "", false, false
		}
		s.HRRGroup = tls.CurveID(offered[rng(len(offered))])
		return u16(uint16(s.HRRGroup)), false, true
	})
	add("certcomp", "offered", V13, func(w *hs.WireHello, s *tls.VerifServerScript, rng func(int) int) (string, bool, bool) {
		if !offers13(w) || len(w.CertCompressionAlgs) == 0 {
			return "", false, false
		}
		s.CertCompression = w.CertCompressionAlgs[rng(len(w.CertCompressionAlgs))]
		return u16(s.CertCompression), false, true
	})
	add("suite12", "offered", V12, func(w *hs.WireHello, s *tls.VerifServerScript, rng func(int) int) (string, bool, bool) {
		var offered []uint16
		for _, id := range ecdhe12 {
			if hs.ContainsU16(w.CipherSuites, id) {
				offered = append(offered, id)
			}
		}
		if len(offered) == 0 {
			return "", false, false
		}
		s.Suite = offered[rng(len(offered))]
		return u16(s.Suite), false, true
	})
	add("curve12", "offered", V12, func(w *hs.WireHello, s *tls.VerifServerScript, rng func(int) int) (string, bool, bool) {
		var offered []uint16
		for _, g := range realCurves12 {
			if hs.ContainsU16(w.SupportedGroups, g) {
				offered = append(offered, g)
			}
		}
		if len(offered) == 0 {
			return "", false, false
		}
		s.SKXCurve = tls.CurveID(offered[rng(len(offered))])
		return u16(uint16(s.SKXCurve)), false, true
	})

	// ---- TLS 1.3: one unoffered selection at a time ----
	add("suite13", "real", V13, func(w *hs.WireHello, s *tls.VerifServerScript, _ func(int) int) (string, bool, bool) {
		id, ok := firstNotIn(real13, w.CipherSuites)
		if !offers13(w) || !ok {
			return "", false, false
		}
		s.Suite = id
		return u16(id), true, true
	})
	add("suite13", "grease", V13, func(w *hs.WireHello, s *tls.VerifServerScript, rng func(int) int) (string, bool, bool) {
		s.Suite = otherGREASE(w.CipherSuites, rng)
		return u16(s.Suite), true, offers13(w)
	})
	add("suite13", "unimpl", V13, func(w *hs.WireHello, s *tls.VerifServerScript, _ func(int) int) (string, bool, bool) {
		id, ok := firstNotIn([]uint16{0x1304, 0x1305}, w.CipherSuites) // TLS_AES_128_CCM_SHA256, TLS_AES_128_CCM_8_SHA256
		s.Suite = id
		return u16(id), true, ok && offers13(w)
	})
	add("suite13", "tls12suite", V13, func(w *hs.WireHello, s *tls.VerifServerScript, _ func(int) int) (string, bool, bool) {
		// suite confusion: a TLS 1.2 suite in a TLS 1.3 ServerHello; unoffered one if the complement has one
		id, ok := firstNotIn(ecdhe12, w.CipherSuites)
		if !ok {
			id = ecdhe12[0]
		}
		s.Suite = id
		return u16(id), ok, offers13(w)
	})
	// an implemented group the hello sent no key share for: the server takes the classical half of a hybrid share when there is
	// one (a genuine client key), else fabricates the client share; one scenario per group
	for _, gg := range []struct {
		n string
		g uint16
	}{{"x25519", uint16(tls.X25519)}, {"p256", uint16(tls.CurveP256)}, {"p384", uint16(tls.CurveP384)}, {"p521", uint16(tls.CurveP521)}, {"mlkem", uint16(tls.X25519MLKEM768)}} {
		gg := gg
		add("group13", "real-"+gg.n, V13, func(w *hs.WireHello, s *tls.VerifServerScript, _ func(int) int) (string, bool, bool) {
			if !offers13(w) || hs.ContainsU16(w.KeyShareGroups, gg.g) {
				return "", false, false
			}
			s.Group = tls.CurveID(gg.g)
			return u16(gg.g), true, true
		})
	}
	add("group13", "grease", V13, func(w *hs.WireHello, s *tls.VerifServerScript, rng func(int) int) (string, bool, bool) {
		s.Group = tls.CurveID(otherGREASE(append(append([]uint16{}, w.KeyShareGroups...), w.SupportedGroups...), rng))
		return u16(uint16(s.Group)), true, offers13(w)
	})
	add("hrrgroup", "real", V13, func(w *hs.WireHello, s *tls.VerifServerScript, _ func(int) int) (string, bool, bool) {
		g, ok := firstNotIn([]uint16{uint16(tls.CurveP521), uint16(tls.CurveP384), uint16(tls.CurveP256), uint16(tls.X25519)}, w.SupportedGroups)
		if !offers13(w) || !ok {
			return "", false, false
		}
		s.HRRGroup = tls.CurveID(g)
		return u16(g), true, true
	})
	add("hrrgroup", "grease", V13, func(w *hs.WireHello, s *tls.VerifServerScript, rng func(int) int) (string, bool, bool) {
		s.HRRGroup = tls.CurveID(otherGREASE(append(append([]uint16{}, w.KeyShareGroups...), w.SupportedGroups...), rng))
		return u16(uint16(s.HRRGroup)), true, offers13(w)
	})
	add("hrrgroup", "unimpl", V13, func(w *hs.WireHello, s *tls.VerifServerScript, _ func(int) int) (string, bool, bool) {
		g, ok := firstNotIn([]uint16{0x001e /* x448 */, 0x0101 /* ffdhe3072 */, 0x0200}, w.SupportedGroups)
		s.HRRGroup = tls.CurveID(g)
		return u16(g), true, ok && offers13(w)
	})
	add("alpn13", "unoffered", V13, func(w *hs.WireHello, s *tls.VerifServerScript, _ func(int) int) (string, bool, bool) {
		s.ALPN = "verif/unoffered"
		if hs.ContainsStr(w.ALPN, "h2") && !hs.ContainsStr(w.ALPN, "h3") {
			s.ALPN = "h3"
		}
		return s.ALPN, true, offers13(w)
	})
	add("compression13", "deflate", V13, func(w *hs.WireHello, s *tls.VerifServerScript, _ func(int) int) (string, bool, bool) {
		s.CompressionMethod = 1
		return "1", true, offers13(w) && len(w.CompressionMethods) == 1 && w.CompressionMethods[0] == 0
	})
	add("psk13", "index", V13, func(w *hs.WireHello, s *tls.VerifServerScript, _ func(int) int) (string, bool, bool) {
		i := uint16(w.PSKIdentities) // first index past the offered identities (0 when none was offered)
		s.SelectedIdentity = &i
		return fmt.Sprint(i), true, offers13(w)
	})
	add("certcomp", "unoffered", V13, func(w *hs.WireHello, s *tls.VerifServerScript, _ func(int) int) (string, bool, bool) {
		// zlib when only brotli was advertised; brotli when nothing was
		a, ok := firstNotIn([]uint16{1, 2, 3}, w.CertCompressionAlgs)
		s.CertCompression = a
		return u16(a), true, ok && offers13(w)
	})
	add("sessionid13", "flipped", V13, func(w *hs.WireHello, s *tls.VerifServerScript, _ func(int) int) (string, bool, bool) {
		sid := append([]byte{}, w.SessionID...)
		if len(sid) == 0 {
			sid = []byte("verif-unsolicited-session-id-32b") // the hello sent none: a full-size id nobody asked for
		} else {
			sid[len(sid)-1] ^= 0x80
		}
		s.SessionID = sid
		return "flipped", true, offers13(w)
	})
	add("sessionid13", "empty", V13, func(w *hs.WireHello, s *tls.VerifServerScript, _ func(int) int) (string, bool, bool) {
		s.SessionID = []byte{}
		return "empty", true, offers13(w) && len(w.SessionID) > 0
	})

	// ---- TLS 1.2 ----
	add("suite12", "real", V12, func(w *hs.WireHello, s *tls.VerifServerScript, _ func(int) int) (string, bool, bool) {
		id, ok := firstNotIn(ecdhe12, w.CipherSuites)
		s.Suite = id
		return u16(id), true, ok
	})
	add("suite12", "grease", V12, func(w *hs.WireHello, s *tls.VerifServerScript, rng func(int) int) (string, bool, bool) {
		s.Suite = otherGREASE(w.CipherSuites, rng)
		return u16(s.Suite), true, true
	})
	add("suite12", "tls13suite", V12, func(w *hs.WireHello, s *tls.VerifServerScript, _ func(int) int) (string, bool, bool) {
		// suite confusion: a TLS 1.3 suite in a TLS 1.2 ServerHello (offered for 1.3 by most parrots)
		s.Suite = tls.TLS_AES_128_GCM_SHA256
		return u16(s.Suite), !hs.ContainsU16(w.CipherSuites, s.Suite), true
	})
	add("alpn12", "unoffered", V12, func(w *hs.WireHello, s *tls.VerifServerScript, _ func(int) int) (string, bool, bool) {
		s.ALPN = "verif/unoffered"
		return s.ALPN, true, true
	})
	add("compression12", "deflate", V12, func(w *hs.WireHello, s *tls.VerifServerScript, _ func(int) int) (string, bool, bool) {
		s.CompressionMethod = 1
		return "1", true, len(w.CompressionMethods) == 1 && w.CompressionMethods[0] == 0
	})
	add("curve12", "real", V12, func(w *hs.WireHello, s *tls.VerifServerScript, _ func(int) int) (string, bool, bool) {
		g, ok := firstNotIn([]uint16{uint16(tls.CurveP521), uint16(tls.CurveP384), uint16(tls.X25519), uint16(tls.CurveP256)}, w.SupportedGroups)
		s.SKXCurve = tls.CurveID(g)
		return u16(g), true, ok
	})
	add("curve12", "grease", V12, func(w *hs.WireHello, s *tls.VerifServerScript, rng func(int) int) (string, bool, bool) {
		s.SKXCurve = tls.CurveID(otherGREASE(w.SupportedGroups, rng))
		return u16(uint16(s.SKXCurve)), true, true
	})

	// ---- the same selections on the ServerHello that FOLLOWS a well-formed HelloRetryRequest ----
	// (checkServerHelloOrHRR runs a second time there: handshake_client_tls13.go:498)
	hrrFirst := func(w *hs.WireHello, s *tls.VerifServerScript) {
		s.ForceHRR, s.OverridesAfterHRROnly = true, true
		for _, g := range realCurves12 {
			if hs.ContainsU16(w.SupportedGroups, g) && !hs.ContainsU16(w.KeyShareGroups, g) {
				s.HRRGroup = tls.CurveID(g)
				return
			}
		}
		s.HRRCookie = []byte("verif-cookie") // every real group already has a share: cookie-only HRR
	}
	add("honest13-afterhrr", "offered", V13, func(w *hs.WireHello, s *tls.VerifServerScript, _ func(int) int) (string, bool, bool) {
		hrrFirst(w, s)
		return "-", false, offers13(w)
	})
	add("sessionid13-afterhrr", "flipped", V13, func(w *hs.WireHello, s *tls.VerifServerScript, _ func(int) int) (string, bool, bool) {
		hrrFirst(w, s)
		sid := append([]byte{}, w.SessionID...)
		if len(sid) == 0 {
			sid = []byte("verif-unsolicited-session-id-32b")
		} else {
			sid[0] ^= 0x01
		}
		s.SessionID = sid
		return "flipped", true, offers13(w)
	})
	add("sessionid13-afterhrr", "empty", V13, func(w *hs.WireHello, s *tls.VerifServerScript, _ func(int) int) (string, bool, bool) {
		hrrFirst(w, s)
		s.SessionID = []byte{}
		return "empty", true, offers13(w) && len(w.SessionID) > 0
	})
	add("compression13-afterhrr", "deflate", V13, func(w *hs.WireHello, s *tls.VerifServerScript, _ func(int) int) (string, bool, bool) {
		hrrFirst(w, s)
		s.CompressionMethod = 1
		return "1", true, offers13(w) && len(w.CompressionMethods) == 1 && w.CompressionMethods[0] == 0
	})
	add("suite13-afterhrr", "grease", V13, func(w *hs.WireHello, s *tls.VerifServerScript, rng func(int) int) (string, bool, bool) {
		hrrFirst(w, s)
		s.Suite = otherGREASE(w.CipherSuites, rng)
		return u16(s.Suite), true, offers13(w)
	})
	add("suite13-afterhrr", "changed", V13, func(w *hs.WireHello, s *tls.VerifServerScript, _ func(int) int) (string, bool, bool) {
		// both suites offered, but the ServerHello names another one than the HRR did (expected abort; no oracle: nothing unoffered)
		hrrFirst(w, s)
		var offered []uint16
		for _, id := range real13 {
			if hs.ContainsU16(w.CipherSuites, id) {
				offered = append(offered, id)
			}
		}
		if len(offered) < 2 {
			return "", false, false
		}
		s.HRRSuite, s.Suite = offered[0], offered[1]
		return u16(offered[0]) + "->" + u16(offered[1]), false, offers13(w)
	})
	add("group13-afterhrr", "real", V13, func(w *hs.WireHello, s *tls.VerifServerScript, _ func(int) int) (string, bool, bool) {
		hrrFirst(w, s)
		used := append([]uint16{uint16(s.HRRGroup)}, w.KeyShareGroups...)
		g, ok := firstNotIn([]uint16{uint16(tls.CurveP521), uint16(tls.CurveP384), uint16(tls.CurveP256), uint16(tls.X25519)}, used)
		if s.HRRGroup == 0 || !ok {
			return "", false, false // after a cookie-only HRR the shares are unchanged: covered by group13/real
		}
		s.Group = tls.CurveID(g)
		return u16(g), true, offers13(w)
	})
	add("group13-afterhrr", "grease", V13, func(w *hs.WireHello, s *tls.VerifServerScript, rng func(int) int) (string, bool, bool) {
		hrrFirst(w, s)
		s.Group = tls.CurveID(otherGREASE(append(append([]uint16{}, w.KeyShareGroups...), w.SupportedGroups...), rng))
		return u16(uint16(s.Group)), true, offers13(w)
	})

	// ---- stale selections: offered by the hello BEFORE a re-preset / an edit of uc.Extensions, absent from the wire ----
	addStale := func(kind string, maxVers uint16, f func(w, prev *hs.WireHello, s *tls.VerifServerScript) (string, bool)) {
		sc = append(sc, scenario{kind: kind, variant: "stale", maxVers: maxVers, stale: f})
	}
	diff16 := func(prev, cur, impl []uint16) (uint16, bool) {
		for _, v := range prev {
			if !hs.ContainsU16(cur, v) && (impl == nil || hs.ContainsU16(impl, v)) {
				return v, true
			}
		}
		return 0, false
	}
	addStale("suite13", V13, func(w, prev *hs.WireHello, s *tls.VerifServerScript) (string, bool) {
		v, ok := diff16(prev.CipherSuites, w.CipherSuites, real13)
		s.Suite = v
		return u16(v), ok && offers13(w)
	})
	addStale("group13", V13, func(w, prev *hs.WireHello, s *tls.VerifServerScript) (string, bool) {
		v, ok := diff16(prev.KeyShareGroups, w.KeyShareGroups, realGroups)
		s.Group = tls.CurveID(v)
		return u16(v), ok && offers13(w)
	})
	addStale("hrrgroup", V13, func(w, prev *hs.WireHello, s *tls.VerifServerScript) (string, bool) {
		v, ok := diff16(prev.SupportedGroups, w.SupportedGroups, realCurves12)
		s.HRRGroup = tls.CurveID(v)
		return u16(v), ok && offers13(w) && !hs.ContainsU16(w.KeyShareGroups, v)
	})
	staleALPN := func(w, prev *hs.WireHello, s *tls.VerifServerScript) (string, bool) {
		for _, a := range prev.ALPN {
			if !hs.ContainsStr(w.ALPN, a) {
				s.ALPN = a
				return a, true
			}
		}
		return "", false
	}
	addStale("alpn13", V13, func(w, prev *hs.WireHello, s *tls.VerifServerScript) (string, bool) {
		v, ok := staleALPN(w, prev, s)
		return v, ok && offers13(w)
	})
	addStale("alpn12", V12, staleALPN)
	addStale("certcomp", V13, func(w, prev *hs.WireHello, s *tls.VerifServerScript) (string, bool) {
		v, ok := diff16(prev.CertCompressionAlgs, w.CertCompressionAlgs, []uint16{1, 2, 3})
		s.CertCompression = v
		return u16(v), ok && offers13(w)
	})
	addStale("suite12", V12, func(w, prev *hs.WireHello, s *tls.VerifServerScript) (string, bool) {
		v, ok := diff16(prev.CipherSuites, w.CipherSuites, ecdhe12)
		s.Suite = v
		return u16(v), ok
	})
	addStale("curve12", V12, func(w, prev *hs.WireHello, s *tls.VerifServerScript) (string, bool) {
		v, ok := diff16(prev.SupportedGroups, w.SupportedGroups, realCurves12)
		s.SKXCurve = tls.CurveID(v)
		return u16(v), ok
	})
	return sc
}

// client: who connects and what the caller did to the UConn before the handshake.
type client struct {
	name string
	id   tls.ClientHelloID
	// hooks (optional) returns, for ONE connection, the callbacks handed to hs.Run and a getter for the wire hello of
	// the state before the last change (nil when nothing was re-built)
	hooks func() (prepare, afterBuild func(*tls.UConn) error, prev func() *hs.WireHello)
}

type outcome struct {
	cl      client
	sc      scenario
	val     string
	unoff   bool
	applies bool
	res     *hs.Result
	script  *tls.VerifServerScript
}

func runOne(p *hs.PKI, cl client, sc scenario, seed int64) *outcome {
	o := &outcome{cl: cl, sc: sc}
	rng := vh.NewRand(seed)
	script := &tls.VerifServerScript{}
	var prepare, afterBuild func(*tls.UConn) error
	prev := func() *hs.WireHello { return nil }
	if cl.hooks != nil {
		prepare, afterBuild, prev = cl.hooks()
	}
	script.OnClientHello = func(raw []byte) {
		w, err := hs.ParseClientHello(raw)
		if err != nil {
			return
		}
		if sc.stale != nil {
			if pw := prev(); pw != nil {
				o.val, o.applies = sc.stale(w, pw, script)
				o.unoff = true
			}
			return
		}
		o.val, o.unoff, o.applies = sc.pick(w, script, rng.Intn)
	}
	scfg := p.ServerConfig("h2", "http/1.1")
	scfg.MaxVersion = sc.maxVers
	o.script = script
	o.res = hs.Run(hs.Opts{ID: cl.id, ClientCfg: p.ClientConfig(), ServerCfg: scfg, Script: script, Prepare: prepare, AfterBuild: afterBuild})
	return o
}

func rawHello(uc *tls.UConn) *hs.WireHello {
	w, err := hs.ParseClientHello(uc.HandshakeState.Hello.Raw)
	if err != nil {
		return nil
	}
	return w
}

// represet: one HelloCustom UConn: ApplyPreset(a) -> BuildHandshakeStateWithoutSession -> ApplyPreset(b) -> Handshake.
func represet(a, b hs.Parrot) client {
	return client{name: "represet:" + a.Name + "->" + b.Name, id: tls.HelloCustom, hooks: func() (func(*tls.UConn) error, func(*tls.UConn) error, func() *hs.WireHello) {
		var pw *hs.WireHello
		prepare := func(uc *tls.UConn) error {
			sa, err := tls.UTLSIdToSpec(a.ID)
			if err != nil {
				return err
			}
			if err := uc.ApplyPreset(&sa); err != nil {
				return err
			}
			if err := uc.BuildHandshakeStateWithoutSession(); err != nil {
				return err
			}
			pw = rawHello(uc)
			sb, err := tls.UTLSIdToSpec(b.ID)
			if err != nil {
				return err
			}
			return uc.ApplyPreset(&sb)
		}
		return prepare, nil, func() *hs.WireHello { return pw }
	}}
}

// edited: a predefined parrot whose uc.Extensions / Hello the caller changes after BuildHandshakeState.
func edited(pr hs.Parrot, what string) client {
	return client{name: "edit:" + pr.Name + ":" + what, id: pr.ID, hooks: func() (func(*tls.UConn) error, func(*tls.UConn) error, func() *hs.WireHello) {
		var pw *hs.WireHello
		after := func(uc *tls.UConn) error {
			pw = rawHello(uc)
			var exts []tls.TLSExtension
			for _, e := range uc.Extensions {
				switch x := e.(type) {
				case *tls.UtlsCompressCertExtension:
					if what == "drop-certcomp" {
						continue
					}
				case *tls.ALPNExtension:
					if what == "drop-alpn" {
						continue
					}
				case *tls.KeyShareExtension:
					if what == "drop-keyshare-ext" {
						continue
					}
					if what == "drop-keyshare" && len(x.KeyShares) > 1 {
						// keep everything up to and including the first real share
						for i, ks := range x.KeyShares {
							if !hs.IsGREASE(uint16(ks.Group)) {
								x.KeyShares = x.KeyShares[:i+1]
								break
							}
						}
					}
				case *tls.SupportedCurvesExtension:
					if what == "drop-groups-ext" {
						continue
					}
					if what == "drop-group" && len(x.Curves) > 2 {
						x.Curves = x.Curves[:len(x.Curves)-1]
					}
				}
				exts = append(exts, e)
			}
			uc.Extensions = exts
			if what == "clear-sid" {
				// no middlebox-compatibility mode / QUIC style: the hello goes out with an empty legacy_session_id
				uc.HandshakeState.Hello.SessionId = nil
			}
			if what == "drop-suite" {
				var cs []uint16
				for _, id := range uc.HandshakeState.Hello.CipherSuites {
					if id == tls.TLS_AES_256_GCM_SHA384 || id == tls.TLS_ECDHE_RSA_WITH_AES_128_GCM_SHA256 || id == tls.TLS_ECDHE_ECDSA_WITH_AES_128_GCM_SHA256 {
						continue
					}
					cs = append(cs, id)
				}
				uc.HandshakeState.Hello.CipherSuites = cs
			}
			return nil
		}
		return nil, after, func() *hs.WireHello { return pw }
	}}
}

// keyShareSubset: a predefined parrot's spec with its key_share entries filtered (GREASE entries stay).
func keyShareSubset(pr hs.Parrot, label string, keep func(g tls.CurveID) bool) client {
	return client{name: "custom:" + pr.Name + ":" + label, id: tls.HelloCustom, hooks: func() (func(*tls.UConn) error, func(*tls.UConn) error, func() *hs.WireHello) {
		prepare := func(uc *tls.UConn) error {
			sp, err := tls.UTLSIdToSpec(pr.ID)
			if err != nil {
				return err
			}
			for _, e := range sp.Extensions {
				if ks, ok := e.(*tls.KeyShareExtension); ok {
					var out []tls.KeyShare
					for _, k := range ks.KeyShares {
						if hs.IsGREASE(uint16(k.Group)) || keep(k.Group) {
							out = append(out, k)
						}
					}
					ks.KeyShares = out
				}
			}
			return uc.ApplyPreset(&sp)
		}
		return prepare, nil, func() *hs.WireHello { return nil }
	}}
}

func isHybrid(g tls.CurveID) bool { return g == tls.X25519MLKEM768 || g == tls.X25519Kyber768Draft00 }

// customClients: hello shapes no predefined parrot has: the only key share is a hybrid one / the hybrid one is left out.
func customClients(quick bool) []client {
	cls := []client{
		keyShareSubset(must("Chrome_133"), "hybrid-share-only", isHybrid),
		keyShareSubset(must("Chrome_115_PQ"), "hybrid-share-only", isHybrid),
		keyShareSubset(must("Chrome_131"), "classical-share-only", func(g tls.CurveID) bool { return !isHybrid(g) }),
	}
	if !quick {
		cls = append(cls, keyShareSubset(must("Chrome_131"), "hybrid-share-only", isHybrid), keyShareSubset(must("Chrome_120_PQ"), "hybrid-share-only", isHybrid),
			keyShareSubset(must("Firefox_120"), "second-share-only", func(g tls.CurveID) bool { return g == tls.CurveP256 }))
	}
	return cls
}

func must(name string) hs.Parrot {
	pr, _ := hs.ParrotByName(name)
	return pr
}

func sequenceClients(quick bool) []client {
	cls := []client{
		represet(must("Chrome_120"), must("Firefox_105")),
		represet(must("Chrome_133"), must("Safari_16_0")),
		represet(must("Firefox_120"), must("Chrome_58")),
		represet(must("Firefox_105"), must("Chrome_120")),
	}
	bases := []string{"Chrome_120", "Firefox_120", "Chrome_133"}
	if !quick {
		bases = []string{"Chrome_120", "Firefox_120", "Chrome_133", "Safari_16_0", "Edge_106", "IOS_14", "Firefox_105", "Chrome_100_PSK"}
		cls = append(cls, represet(must("Edge_106"), must("IOS_14")), represet(must("Chrome_131"), must("Firefox_65")), represet(must("Safari_16_0"), must("Chrome_133")))
	}
	for _, b := range bases {
		for _, what := range []string{"drop-certcomp", "drop-alpn", "drop-keyshare", "drop-group", "drop-suite", "drop-keyshare-ext", "drop-groups-ext", "clear-sid"} {
			cls = append(cls, edited(must(b), what))
		}
	}
	cls = append(cls, edited(hs.Parrot{Name: "Golang", ID: tls.HelloGolang}, "clear-sid"))
	return cls
}

func run(c *vh.Ctx) {
	p := hs.SharedPKI()
	quick := c.Tier == "quick"
	c.Extra["tree_has_ExtraEcdhe"] = hs.TreeFixed()
	var clients []client
	for _, pr := range hs.Parrots() {
		clients = append(clients, client{name: pr.Name, id: pr.ID})
	}
	clients = append(clients, client{name: "Golang", id: tls.HelloGolang})
	clients = append(clients, customClients(quick)...)
	if !quick {
		// thorough: reproducible randomized fingerprints as well
		for _, pr := range hs.RandomizedParrots(12, c.Seed) {
			clients = append(clients, client{name: pr.Name, id: pr.ID})
		}
	}
	scs := scenarios()
	type job struct {
		cl   client
		sc   scenario
		seed int64
	}
	var jobs []job
	afterHRRAlways := map[string]bool{"Chrome_120": true, "Safari_16_0": true, "Golang": true, "Firefox_120": true, "Chrome_133": true, "IOS_14": true}
	for pi, cl := range clients {
		for si, sc := range scs {
			if sc.stale != nil {
				continue
			}
			// quick tier: every client meets every kind at least in one variant, the variants rotate with the seed
			if quick && (pi+si+int(c.Seed))%3 != 0 && !strings.HasPrefix(sc.variant, "real") && sc.kind != "honest13" && sc.kind != "honest12" &&
				!(afterHRRAlways[cl.name] && strings.HasSuffix(sc.kind, "-afterhrr")) {
				continue
			}
			jobs = append(jobs, job{cl, sc, c.Seed*1000003 + int64(pi)*1009 + int64(si)})
		}
	}
	if !quick {
		// thorough: several draws of every randomised variant
		reps := 3
		base := len(jobs)
		for r := 1; r < reps; r++ {
			for _, j := range jobs[:base] {
				if j.sc.variant == "grease" || j.sc.variant == "offered" {
					jobs = append(jobs, job{j.cl, j.sc, j.seed + int64(r)*7919})
				}
			}
		}
	}
	// re-preset / edit sequences: the stale kinds, the controls, and (thorough) everything else
	for ci, cl := range sequenceClients(quick) {
		for si, sc := range scs {
			if quick && sc.stale == nil && sc.kind != "honest13" && sc.kind != "honest12" && !(sc.kind == "certcomp" && sc.variant == "unoffered") &&
				!(sc.kind == "alpn13" && sc.variant == "unoffered") && !(strings.HasSuffix(cl.name, ":clear-sid") && strings.HasPrefix(sc.kind, "sessionid13")) &&
				!(strings.HasSuffix(cl.name, ":clear-sid") && sc.kind == "honest13-afterhrr") {
				continue
			}
			jobs = append(jobs, job{cl, sc, c.Seed*1000003 + 555557 + int64(ci)*1013 + int64(si)})
		}
	}
	out := make([]*outcome, len(jobs))
	var wg sync.WaitGroup
	sem := make(chan struct{}, 16)
	for i, j := range jobs {
		wg.Add(1)
		sem <- struct{}{}
		go func(i int, j job) {
			defer wg.Done()
			defer func() { <-sem }()
			out[i] = runOne(p, j.cl, j.sc, j.seed)
		}(i, j)
	}
	wg.Wait()

	debug := os.Getenv("C12_DEBUG") != ""
	synced := map[string]bool{}
	for _, o := range out {
		if !o.applies || o.res.BuildErr != nil || o.res.Wire == nil {
			if o.res.BuildErr != nil {
				c.Count("build-error")
				if debug {
					fmt.Println("BUILD", o.cl.name, o.sc.kind, o.res.BuildErr)
				}
			} else {
				c.Count("not-applicable")
			}
			continue
		}
		emit(c, o, synced, debug)
	}
	runResumptions(c, p, quick, debug)
	if debug {
		ks := vh.SortedKeys(c.Dist)
		sort.Strings(ks)
		for _, k := range ks {
			fmt.Println(k, c.Dist[k])
		}
	}
}

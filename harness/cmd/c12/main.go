// C12 runner: every parrot against the scripted server, which forces one selection at a time
// drawn from the complement of the client's parsed on-wire ClientHello (plus positive controls
// drawn from the offered sets). Observes the client's error/alert, ConnectionState and whether
// application data flowed; emits (a) view/wire synchronisation cases, (b) decision cases compared
// with Model/Negotiate.v, and (c) the property's own oracle on the Go side.
package main

import (
	"fmt"
	"os"
	"sort"
	"sync"

	tls "github.com/refraction-networking/utls"
	"verif/harness/hs"
	"verif/harness/vh"
)

func main() { vh.Main(map[string]vh.Suite{"C12": {Corr: "Corr.C12Corr", Run: run}}) }

// scenario: one forced selection. pick runs inside the server's OnClientHello with the parsed
// wire hello and fills the script; it returns the forced value (for keys/reports), whether that
// value is absent from the wire hello's offered set (by the property's reading), and ok=false
// when the scenario does not apply to this hello.
type scenario struct {
	kind    string
	variant string
	maxVers uint16
	pick    func(w *hs.WireHello, s *tls.VerifServerScript, rng func(int) int) (val string, unoffered bool, ok bool)
}

func otherGREASE(used []uint16, rng func(int) int) uint16 {
	for k := 0; k < 64; k++ {
		n := uint16(rng(16))
		v := n<<12 | 0x0a00 | n<<4 | 0x0a
		if !hs.ContainsU16(used, v) {
			return v
		}
	}
	return 0
}

var real13 = []uint16{tls.TLS_AES_128_GCM_SHA256, tls.TLS_AES_256_GCM_SHA384, tls.TLS_CHACHA20_POLY1305_SHA256}
var realGroups = []uint16{uint16(tls.X25519), uint16(tls.CurveP256), uint16(tls.CurveP384), uint16(tls.CurveP521), uint16(tls.X25519MLKEM768)}
var realCurves12 = []uint16{uint16(tls.X25519), uint16(tls.CurveP256), uint16(tls.CurveP384), uint16(tls.CurveP521)}

func offers13(w *hs.WireHello) bool { return hs.ContainsU16(w.SupportedVersions, tls.VersionTLS13) }

func firstNotIn(cands, set []uint16) (uint16, bool) {
	for _, c := range cands {
		if !hs.ContainsU16(set, c) {
			return c, true
		}
	}
	return 0, false
}

// ECDHE suites usable with the harness certificates (ECDSA + RSA leaves).
var ecdhe12 = []uint16{
	tls.TLS_ECDHE_ECDSA_WITH_AES_128_GCM_SHA256, tls.TLS_ECDHE_RSA_WITH_AES_128_GCM_SHA256,
	tls.TLS_ECDHE_ECDSA_WITH_AES_256_GCM_SHA384, tls.TLS_ECDHE_RSA_WITH_AES_256_GCM_SHA384,
	tls.TLS_ECDHE_ECDSA_WITH_CHACHA20_POLY1305_SHA256, tls.TLS_ECDHE_RSA_WITH_CHACHA20_POLY1305_SHA256,
	tls.TLS_ECDHE_RSA_WITH_AES_128_CBC_SHA, tls.TLS_ECDHE_RSA_WITH_AES_256_CBC_SHA,
	tls.TLS_ECDHE_ECDSA_WITH_AES_128_CBC_SHA, tls.TLS_ECDHE_ECDSA_WITH_AES_256_CBC_SHA,
	tls.TLS_ECDHE_ECDSA_WITH_AES_128_CBC_SHA256, tls.TLS_ECDHE_RSA_WITH_AES_128_CBC_SHA256,
	tls.TLS_ECDHE_RSA_WITH_3DES_EDE_CBC_SHA, tls.TLS_ECDHE_RSA_WITH_RC4_128_SHA, tls.TLS_ECDHE_ECDSA_WITH_RC4_128_SHA,
}

func scenarios() []scenario {
	u16 := func(v uint16) string { return fmt.Sprintf("0x%04x", v) }
	var sc []scenario
	add := func(kind, variant string, maxVers uint16, pick func(w *hs.WireHello, s *tls.VerifServerScript, rng func(int) int) (string, bool, bool)) {
		sc = append(sc, scenario{kind, variant, maxVers, pick})
	}
	V13, V12 := uint16(tls.VersionTLS13), uint16(tls.VersionTLS12)

	// ---- positive controls: an honest server, and each kind with an offered value ----
	add("honest13", "offered", V13, func(w *hs.WireHello, s *tls.VerifServerScript, _ func(int) int) (string, bool, bool) {
		return "-", false, offers13(w)
	})
	add("honest12", "offered", V12, func(w *hs.WireHello, s *tls.VerifServerScript, _ func(int) int) (string, bool, bool) {
		return "-", false, true
	})
	add("suite13", "offered", V13, func(w *hs.WireHello, s *tls.VerifServerScript, rng func(int) int) (string, bool, bool) {
		var offered []uint16
		for _, id := range real13 {
			if hs.ContainsU16(w.CipherSuites, id) {
				offered = append(offered, id)
			}
		}
		if !offers13(w) || len(offered) == 0 {
			return "", false, false
		}
		s.Suite = offered[rng(len(offered))]
		return u16(s.Suite), false, true
	})
	add("group13", "offered", V13, func(w *hs.WireHello, s *tls.VerifServerScript, rng func(int) int) (string, bool, bool) {
		var offered []uint16
		for _, g := range realGroups {
			if hs.ContainsU16(w.KeyShareGroups, g) && hs.ContainsU16(w.SupportedGroups, g) {
				offered = append(offered, g)
			}
		}
		if !offers13(w) || len(offered) == 0 {
			return "", false, false
		}
		s.Group = tls.CurveID(offered[rng(len(offered))])
		return u16(uint16(s.Group)), false, true
	})
	add("hrrgroup", "offered", V13, func(w *hs.WireHello, s *tls.VerifServerScript, rng func(int) int) (string, bool, bool) {
		var offered []uint16
		for _, g := range realCurves12 {
			if hs.ContainsU16(w.SupportedGroups, g) && !hs.ContainsU16(w.KeyShareGroups, g) {
				offered = append(offered, g)
			}
		}
		if !offers13(w) || len(offered) == 0 {
			return "", false, false
		}
		s.HRRGroup = tls.CurveID(offered[rng(len(offered))])
		return u16(uint16(s.HRRGroup)), false, true
	})
	add("certcomp", "offered", V13, func(w *hs.WireHello, s *tls.VerifServerScript, rng func(int) int) (string, bool, bool) {
		if !offers13(w) || len(w.CertCompressionAlgs) == 0 {
			return "", false, false
		}
		s.CertCompression = w.CertCompressionAlgs[rng(len(w.CertCompressionAlgs))]
		return u16(s.CertCompression), false, true
	})
	add("suite12", "offered", V12, func(w *hs.WireHello, s *tls.VerifServerScript, rng func(int) int) (string, bool, bool) {
		var offered []uint16
		for _, id := range ecdhe12 {
			if hs.ContainsU16(w.CipherSuites, id) {
				offered = append(offered, id)
			}
		}
		if len(offered) == 0 {
			return "", false, false
		}
		s.Suite = offered[rng(len(offered))]
		return u16(s.Suite), false, true
	})
	add("curve12", "offered", V12, func(w *hs.WireHello, s *tls.VerifServerScript, rng func(int) int) (string, bool, bool) {
		var offered []uint16
		for _, g := range realCurves12 {
			if hs.ContainsU16(w.SupportedGroups, g) {
				offered = append(offered, g)
			}
		}
		if len(offered) == 0 {
			return "", false, false
		}
		s.SKXCurve = tls.CurveID(offered[rng(len(offered))])
		return u16(uint16(s.SKXCurve)), false, true
	})

	// ---- TLS 1.3: one unoffered selection at a time ----
	add("suite13", "real", V13, func(w *hs.WireHello, s *tls.VerifServerScript, _ func(int) int) (string, bool, bool) {
		id, ok := firstNotIn(real13, w.CipherSuites)
		if !offers13(w) || !ok {
			return "", false, false
		}
		s.Suite = id
		return u16(id), true, true
	})
	add("suite13", "grease", V13, func(w *hs.WireHello, s *tls.VerifServerScript, rng func(int) int) (string, bool, bool) {
		s.Suite = otherGREASE(w.CipherSuites, rng)
		return u16(s.Suite), true, offers13(w)
	})
	add("suite13", "unimpl", V13, func(w *hs.WireHello, s *tls.VerifServerScript, _ func(int) int) (string, bool, bool) {
		id, ok := firstNotIn([]uint16{0x1304, 0x1305}, w.CipherSuites) // TLS_AES_128_CCM_SHA256, TLS_AES_128_CCM_8_SHA256
		s.Suite = id
		return u16(id), true, ok && offers13(w)
	})
	add("suite13", "tls12suite", V13, func(w *hs.WireHello, s *tls.VerifServerScript, _ func(int) int) (string, bool, bool) {
		// suite confusion: a TLS 1.2 suite in a TLS 1.3 ServerHello; unoffered one if the complement has one
		id, ok := firstNotIn(ecdhe12, w.CipherSuites)
		if !ok {
			id = ecdhe12[0]
		}
		s.Suite = id
		return u16(id), ok, offers13(w)
	})
	add("group13", "real", V13, func(w *hs.WireHello, s *tls.VerifServerScript, _ func(int) int) (string, bool, bool) {
		// an implemented group the hello sent no key share for (P-521 first): the server fabricates
		// the client share, so the flight is fully consistent
		g, ok := firstNotIn([]uint16{uint16(tls.CurveP521), uint16(tls.CurveP384), uint16(tls.CurveP256), uint16(tls.X25519), uint16(tls.X25519MLKEM768)}, w.KeyShareGroups)
		if !offers13(w) || !ok {
			return "", false, false
		}
		s.Group = tls.CurveID(g)
		return u16(g), true, true
	})
	add("group13", "grease", V13, func(w *hs.WireHello, s *tls.VerifServerScript, rng func(int) int) (string, bool, bool) {
		s.Group = tls.CurveID(otherGREASE(append(append([]uint16{}, w.KeyShareGroups...), w.SupportedGroups...), rng))
		return u16(uint16(s.Group)), true, offers13(w)
	})
	add("hrrgroup", "real", V13, func(w *hs.WireHello, s *tls.VerifServerScript, _ func(int) int) (string, bool, bool) {
		g, ok := firstNotIn([]uint16{uint16(tls.CurveP521), uint16(tls.CurveP384), uint16(tls.CurveP256), uint16(tls.X25519)}, w.SupportedGroups)
		if !offers13(w) || !ok {
			return "", false, false
		}
		s.HRRGroup = tls.CurveID(g)
		return u16(g), true, true
	})
	add("hrrgroup", "grease", V13, func(w *hs.WireHello, s *tls.VerifServerScript, rng func(int) int) (string, bool, bool) {
		s.HRRGroup = tls.CurveID(otherGREASE(append(append([]uint16{}, w.KeyShareGroups...), w.SupportedGroups...), rng))
		return u16(uint16(s.HRRGroup)), true, offers13(w)
	})
	add("hrrgroup", "unimpl", V13, func(w *hs.WireHello, s *tls.VerifServerScript, _ func(int) int) (string, bool, bool) {
		g, ok := firstNotIn([]uint16{0x001e /* x448 */, 0x0101 /* ffdhe3072 */, 0x0200}, w.SupportedGroups)
		s.HRRGroup = tls.CurveID(g)
		return u16(g), true, ok && offers13(w)
	})
	add("alpn13", "unoffered", V13, func(w *hs.WireHello, s *tls.VerifServerScript, _ func(int) int) (string, bool, bool) {
		s.ALPN = "verif/unoffered"
		if hs.ContainsStr(w.ALPN, "h2") && !hs.ContainsStr(w.ALPN, "h3") {
			s.ALPN = "h3"
		}
		return s.ALPN, true, offers13(w)
	})
	add("compression13", "deflate", V13, func(w *hs.WireHello, s *tls.VerifServerScript, _ func(int) int) (string, bool, bool) {
		s.CompressionMethod = 1
		return "1", true, offers13(w) && len(w.CompressionMethods) == 1 && w.CompressionMethods[0] == 0
	})
	add("psk13", "index", V13, func(w *hs.WireHello, s *tls.VerifServerScript, _ func(int) int) (string, bool, bool) {
		i := uint16(w.PSKIdentities) // first index past the offered identities (0 when none was offered)
		s.SelectedIdentity = &i
		return fmt.Sprint(i), true, offers13(w)
	})
	add("certcomp", "unoffered", V13, func(w *hs.WireHello, s *tls.VerifServerScript, _ func(int) int) (string, bool, bool) {
		// zlib when only brotli was advertised; brotli when nothing was
		a, ok := firstNotIn([]uint16{1, 2, 3}, w.CertCompressionAlgs)
		s.CertCompression = a
		return u16(a), true, ok && offers13(w)
	})
	add("sessionid13", "flipped", V13, func(w *hs.WireHello, s *tls.VerifServerScript, _ func(int) int) (string, bool, bool) {
		sid := append([]byte{}, w.SessionID...)
		if len(sid) == 0 {
			sid = []byte{1, 2, 3, 4}
		} else {
			sid[len(sid)-1] ^= 0x80
		}
		s.SessionID = sid
		return "flipped", true, offers13(w)
	})
	add("sessionid13", "empty", V13, func(w *hs.WireHello, s *tls.VerifServerScript, _ func(int) int) (string, bool, bool) {
		s.SessionID = []byte{}
		return "empty", true, offers13(w) && len(w.SessionID) > 0
	})

	// ---- TLS 1.2 ----
	add("suite12", "real", V12, func(w *hs.WireHello, s *tls.VerifServerScript, _ func(int) int) (string, bool, bool) {
		id, ok := firstNotIn(ecdhe12, w.CipherSuites)
		s.Suite = id
		return u16(id), true, ok
	})
	add("suite12", "grease", V12, func(w *hs.WireHello, s *tls.VerifServerScript, rng func(int) int) (string, bool, bool) {
		s.Suite = otherGREASE(w.CipherSuites, rng)
		return u16(s.Suite), true, true
	})
	add("suite12", "tls13suite", V12, func(w *hs.WireHello, s *tls.VerifServerScript, _ func(int) int) (string, bool, bool) {
		// suite confusion: a TLS 1.3 suite in a TLS 1.2 ServerHello (offered for 1.3 by most parrots)
		s.Suite = tls.TLS_AES_128_GCM_SHA256
		return u16(s.Suite), !hs.ContainsU16(w.CipherSuites, s.Suite), true
	})
	add("alpn12", "unoffered", V12, func(w *hs.WireHello, s *tls.VerifServerScript, _ func(int) int) (string, bool, bool) {
		s.ALPN = "verif/unoffered"
		return s.ALPN, true, true
	})
	add("compression12", "deflate", V12, func(w *hs.WireHello, s *tls.VerifServerScript, _ func(int) int) (string, bool, bool) {
		s.CompressionMethod = 1
		return "1", true, len(w.CompressionMethods) == 1 && w.CompressionMethods[0] == 0
	})
	add("curve12", "real", V12, func(w *hs.WireHello, s *tls.VerifServerScript, _ func(int) int) (string, bool, bool) {
		g, ok := firstNotIn([]uint16{uint16(tls.CurveP521), uint16(tls.CurveP384), uint16(tls.X25519), uint16(tls.CurveP256)}, w.SupportedGroups)
		s.SKXCurve = tls.CurveID(g)
		return u16(g), true, ok
	})
	add("curve12", "grease", V12, func(w *hs.WireHello, s *tls.VerifServerScript, rng func(int) int) (string, bool, bool) {
		s.SKXCurve = tls.CurveID(otherGREASE(w.SupportedGroups, rng))
		return u16(uint16(s.SKXCurve)), true, true
	})
	return sc
}

type outcome struct {
	pr      hs.Parrot
	sc      scenario
	val     string
	unoff   bool
	applies bool
	res     *hs.Result
	script  *tls.VerifServerScript
}

func runOne(p *hs.PKI, pr hs.Parrot, sc scenario, seed int64) *outcome {
	o := &outcome{pr: pr, sc: sc}
	rng := vh.NewRand(seed)
	script := &tls.VerifServerScript{}
	script.OnClientHello = func(raw []byte) {
		w, err := hs.ParseClientHello(raw)
		if err != nil {
			return
		}
		o.val, o.unoff, o.applies = sc.pick(w, script, rng.Intn)
	}
	scfg := p.ServerConfig("h2", "http/1.1")
	scfg.MaxVersion = sc.maxVers
	ccfg := p.ClientConfig()
	o.script = script
	o.res = hs.Run(hs.Opts{ID: pr.ID, ClientCfg: ccfg, ServerCfg: scfg, Script: script})
	return o
}

func run(c *vh.Ctx) {
	p := hs.SharedPKI()
	parrots := hs.Parrots()
	if c.Tier != "quick" {
		// thorough: reproducible randomized fingerprints as well
		parrots = append(parrots, hs.RandomizedParrots(12, c.Seed)...)
	}
	scs := scenarios()
	type job struct {
		pr   hs.Parrot
		sc   scenario
		seed int64
	}
	var jobs []job
	for pi, pr := range parrots {
		for si, sc := range scs {
			// quick tier: every parrot meets every kind at least in one variant, the variants rotate with the seed
			if c.Tier == "quick" && (pi+si+int(c.Seed))%3 != 0 && sc.variant != "real" && sc.kind != "honest13" && sc.kind != "honest12" {
				continue
			}
			jobs = append(jobs, job{pr, sc, c.Seed*1000003 + int64(pi)*1009 + int64(si)})
		}
	}
	if c.Tier != "quick" {
		// thorough: several draws of every randomised variant
		reps := 3
		base := len(jobs)
		for r := 1; r < reps; r++ {
			for _, j := range jobs[:base] {
				if j.sc.variant == "grease" || j.sc.variant == "offered" {
					jobs = append(jobs, job{j.pr, j.sc, j.seed + int64(r)*7919})
				}
			}
		}
	}
	out := make([]*outcome, len(jobs))
	var wg sync.WaitGroup
	sem := make(chan struct{}, 16)
	for i, j := range jobs {
		wg.Add(1)
		sem <- struct{}{}
		go func(i int, j job) {
			defer wg.Done()
			defer func() { <-sem }()
			out[i] = runOne(p, j.pr, j.sc, j.seed)
		}(i, j)
	}
	wg.Wait()

	debug := os.Getenv("C12_DEBUG") != ""
	synced := map[string]bool{}
	for _, o := range out {
		if !o.applies || o.res.BuildErr != nil || o.res.Wire == nil {
			if o.res.BuildErr != nil {
				c.Count("build-error")
				if debug {
					fmt.Println("BUILD", o.pr.Name, o.res.BuildErr)
				}
			} else {
				c.Count("not-applicable")
			}
			continue
		}
		emit(c, o, synced, debug)
	}
	if debug {
		ks := vh.SortedKeys(c.Dist)
		sort.Strings(ks)
		for _, k := range ks {
			fmt.Println(k, c.Dist[k])
		}
	}
}

package main

import (
	"fmt"
	"strings"

	tls "github.com/refraction-networking/utls"
	"verif/harness/hs"
	"verif/harness/vh"
)

var alpnPrefs = []string{"h2", "http/1.1"}

func emit(c *vh.Ctx, o *outcome, synced map[string]bool, debug bool) {
	r, s, w := o.res, o.script, o.res.Wire
	name := o.cl.name
	key := o.sc.kind + "/" + name
	completed := r.ClientErr == nil
	if o.sc.kind == "curve12" && r.Trace.Group == 0 && len(r.Trace.Sent) > 0 {
		// the server ended up with a non-ECDHE suite (the hello has no usable group): no ServerKeyExchange, the forced curve was never sent
		o.unoff = false
	}

	// ---- (c) the property's own oracle, independent of the model ----
	input := map[string]any{"parrot": name, "kind": o.sc.kind, "variant": o.sc.variant, "forced": o.val, "server_max_version": o.sc.maxVers,
		"wire_suites": w.CipherSuites, "wire_groups": w.SupportedGroups, "wire_key_shares": w.KeyShareGroups, "wire_alpn": w.ALPN,
		"wire_cert_compression": w.CertCompressionAlgs, "wire_psk_identities": w.PSKIdentities}
	if o.unoff && completed {
		c.Fail(key, fmt.Sprintf("client completed the handshake although the server's %s (%s) was not offered in its ClientHello", o.sc.kind, o.val),
			input, map[string]any{"completed": true, "app_data": r.AppData, "version": r.ClientState.Version, "suite": r.ClientState.CipherSuite,
				"alpn": r.ClientState.NegotiatedProtocol, "curve": r.ClientCurve}, "handshake aborted with an error before application data")
	}
	if o.unoff && r.AppData {
		c.Fail(key, "application data was exchanged after an unoffered "+o.sc.kind, input, "app data echoed", "no application data")
	}
	if completed {
		// whatever the scenario: nothing unoffered may be reported
		st := r.ClientState
		if !hs.ContainsU16(w.CipherSuites, st.CipherSuite) {
			c.Fail("suite-reported/"+name, "ConnectionState.CipherSuite was not offered on the wire", input, st.CipherSuite, w.CipherSuites)
		}
		if st.NegotiatedProtocol != "" && !hs.ContainsStr(w.ALPN, st.NegotiatedProtocol) {
			c.Fail("alpn-reported/"+name, "ConnectionState.NegotiatedProtocol was not offered on the wire", input, st.NegotiatedProtocol, w.ALPN)
		}
		if r.ClientCurve != 0 {
			offered := w.SupportedGroups
			if st.Version == tls.VersionTLS13 && !r.ClientDidHRR {
				offered = w.KeyShareGroups
			}
			if !hs.ContainsU16(offered, r.ClientCurve) {
				c.Fail("curve-reported/"+name, "the connection's key-exchange group was not offered on the wire", input, r.ClientCurve, offered)
			}
		}
	}

	if !completed {
		// ... nor after an aborted handshake: whatever the scenario, the connection must not report an unoffered value
		fs := r.FinalState
		if fs.NegotiatedProtocol != "" && !hs.ContainsStr(w.ALPN, fs.NegotiatedProtocol) {
			c.Fail("alpn-reported-after-abort/"+name, "after the aborted handshake ConnectionState.NegotiatedProtocol holds a protocol that was not offered on the wire",
				input, map[string]any{"negotiated_protocol": fs.NegotiatedProtocol, "client_error": errStr(r.ClientErr)}, w.ALPN)
		}
		if fs.CipherSuite != 0 && !hs.ContainsU16(w.CipherSuites, fs.CipherSuite) {
			c.Fail("suite-reported-after-abort/"+name, "after the aborted handshake ConnectionState.CipherSuite holds a suite that was not offered on the wire",
				input, map[string]any{"suite": fs.CipherSuite, "client_error": errStr(r.ClientErr)}, w.CipherSuites)
		}
		if r.FinalCurve != 0 && !hs.ContainsU16(w.KeyShareGroups, r.FinalCurve) && !hs.ContainsU16(w.SupportedGroups, r.FinalCurve) {
			c.Fail("curve-reported-after-abort/"+name, "after the aborted handshake the connection holds a key-exchange group that was not offered on the wire",
				input, map[string]any{"curve": r.FinalCurve, "client_error": errStr(r.ClientErr)}, append(append([]uint16{}, w.KeyShareGroups...), w.SupportedGroups...))
		}
	}

	// ---- (a) view / wire synchronisation (once per parrot) ----
	vt := hs.ViewTerm(r)
	wt := hs.WireTerm(w)
	if !synced[name] {
		synced[name] = true
		c.Case("sync", fmt.Sprintf("(CSync %s %s)", vt, wt), "sync/"+name, len(w.KeyShareGroups) > 0, map[string]any{"parrot": name})
	}

	// ---- (b) decision correspondence ----
	fl, ok := hs.FlightTerm(r, s, alpnPrefs)
	if !ok || (r.AlertFromServer >= 0 && !completed) {
		// the server itself declined (sent nothing, or alerted first): no client decision to compare
		c.Count("server-declined")
		if debug {
			fmt.Printf("%-28s %-14s %-10s val=%-16s SERVER DECLINED serr=%q cerr=%q\n", name, o.sc.kind, o.sc.variant, o.val, errStr(r.ServerErr), errStr(r.ClientErr))
		}
		return
	}
	nontrivial := o.unoff || completed
	ckey := fmt.Sprintf("%s/%s/%s/%s", o.sc.kind, o.sc.variant, name, o.val)
	c.Case(o.sc.kind+"-"+o.sc.variant, fmt.Sprintf("(CRun %s %s %s %s %s %s)", vh.Bool(hs.TreeFixed()), vt, r.KeyShape, wt, fl, hs.ObsTermFinal(r)), ckey, nontrivial,
		map[string]any{"parrot": name, "kind": o.sc.kind, "variant": o.sc.variant, "forced": o.val, "completed": completed,
			"client_error": errStr(r.ClientErr), "alert": hs.ClientAlert(r)})
	if debug {
		fmt.Printf("%-28s %-14s %-10s val=%-16s unoff=%-5v completed=%-5v app=%-5v alert=%-3d cerr=%q serr=%q\n", name, o.sc.kind, o.sc.variant, o.val, o.unoff, completed, r.AppData, hs.ClientAlert(r), errStr(r.ClientErr), errStr(r.ServerErr))
	}
}

func errStr(e error) string {
	if e == nil {
		return ""
	}
	return strings.ReplaceAll(e.Error(), "\n", " ")
}

package main

import (
	"fmt"

	tls "github.com/refraction-networking/utls"
	"verif/harness/hs"
	"verif/harness/vh"
)

// Resumption histories (two connections): a session obtained by a first, real connection is offered by a later
// ClientHello - through the shared ClientSessionCache, or injected with SetSessionState into a UConn whose hello
// does not offer the session's cipher suite - and the (hostile) server resumes it. Oracle unchanged: a completed
// handshake must report a suite that was on the wire of THIS connection.

var ticketKeyA = func() (k [32]byte) { copy(k[:], "verif-c12-ticket-key-A----------"); return }()

type resumeCase struct {
	name   string // key
	kind   string
	first  hs.Parrot // obtains the session
	second hs.Parrot // offers it
	suite  uint16    // TLS 1.2 suite the first server forces (0 = server's choice)
	inject bool      // SetSessionState on a fresh Config (else: shared cache)
	tls13  bool      // TLS 1.3 PSK history
}

func runResumptions(c *vh.Ctx, p *hs.PKI, quick, debug bool) {
	ecdsaCBC := uint16(tls.TLS_ECDHE_ECDSA_WITH_AES_128_CBC_SHA) // 0xc009: Firefox offers it, Chrome >= 70 does not
	var cases []resumeCase
	seconds := []string{"Chrome_120", "Firefox_120", "Chrome_133", "Safari_16_0"}
	if !quick {
		seconds = nil
		for _, pr := range hs.Parrots() {
			seconds = append(seconds, pr.Name)
		}
	}
	for _, n := range seconds {
		cases = append(cases, resumeCase{name: n, kind: "resume12-injected", first: must("Firefox_105"), second: must(n), suite: ecdsaCBC, inject: true})
		cases = append(cases, resumeCase{name: n, kind: "resume12-cache", first: must("Firefox_105"), second: must(n), suite: ecdsaCBC})
		cases = append(cases, resumeCase{name: n, kind: "resume12-own", first: must(n), second: must(n)})
	}
	for _, n := range []string{"Chrome_100_PSK", "Chrome_112_PSK_Shuf", "Chrome_115_PQ_PSK"} {
		cases = append(cases, resumeCase{name: n, kind: "psk13-hash", first: must(n), second: must(n), tls13: true})
		cases = append(cases, resumeCase{name: n, kind: "psk13-own", first: must(n), second: must(n), tls13: true})
	}
	for _, rc := range cases {
		runResume(c, p, rc, debug)
	}
}

func runResume(c *vh.Ctx, p *hs.PKI, rc resumeCase, debug bool) {
	cache := tls.NewLRUClientSessionCache(4)
	ccfg1 := p.ClientConfig()
	ccfg1.ClientSessionCache = cache
	s1 := p.ServerConfig(alpnPrefs...)
	s1.SessionTicketsDisabled = false
	s1.SessionTicketKey = ticketKeyA
	sc1 := &tls.VerifServerScript{}
	if !rc.tls13 {
		s1.MaxVersion = tls.VersionTLS12
		sc1.Suite = rc.suite
	}
	r1 := hs.Run(hs.Opts{ID: rc.first.ID, ClientCfg: ccfg1, ServerCfg: s1, Script: sc1})
	cs, have := cache.Get(hs.ServerName)
	if r1.ClientErr != nil || r1.BuildErr != nil || !have || cs == nil {
		c.Count("resume-setup-failed")
		if debug {
			fmt.Printf("RESUME %-18s %-22s setup failed: build=%v client=%v have=%v\n", rc.kind, rc.name, r1.BuildErr, r1.ClientErr, have)
		}
		return
	}
	// second connection
	ccfg2 := ccfg1
	var prepare func(*tls.UConn) error
	if rc.inject {
		ccfg2 = p.ClientConfig()
		ccfg2.ClientSessionCache = tls.NewLRUClientSessionCache(4)
		prepare = func(uc *tls.UConn) error { return uc.SetSessionState(cs) }
	}
	s2 := p.ServerConfig(alpnPrefs...)
	s2.SessionTicketsDisabled = false
	s2.SessionTicketKey = ticketKeyA
	sc2 := &tls.VerifServerScript{}
	sessSuite := r1.ClientState.CipherSuite
	if !rc.tls13 {
		s2.MaxVersion = tls.VersionTLS12
		// the hostile server resumes whatever ticket it is shown, with the session's own suite
		sc2.Suite = sessSuite
	} else if rc.kind == "psk13-hash" {
		// accept the PSK (selected_identity 0) under a suite whose hash differs from the session's
		other := uint16(tls.TLS_AES_256_GCM_SHA384)
		if sessSuite == other {
			other = tls.TLS_AES_128_GCM_SHA256
		}
		zero := uint16(0)
		sc2.Suite, sc2.SelectedIdentity = other, &zero
	}
	r2 := hs.Run(hs.Opts{ID: rc.second.ID, ClientCfg: ccfg2, ServerCfg: s2, Script: sc2, Prepare: prepare})
	key := rc.kind + "/" + rc.name
	if r2.BuildErr != nil || r2.Wire == nil {
		c.Count("build-error")
		if debug {
			fmt.Printf("RESUME %-18s %-22s build error %v\n", rc.kind, rc.name, r2.BuildErr)
		}
		return
	}
	w2 := r2.Wire
	completed := r2.ClientErr == nil
	st := r2.ClientState
	input := map[string]any{"kind": rc.kind, "first_client": rc.first.Name, "second_client": rc.second.Name, "session_suite": sessSuite,
		"session_version": r1.ClientState.Version, "injected_with_SetSessionState": rc.inject, "second_hello_offers_ticket": len(w2.SessionTicket) > 0,
		"second_hello_psk_identities": w2.PSKIdentities, "wire_suites": w2.CipherSuites}
	// ---- the property's oracle ----
	if completed && !hs.ContainsU16(w2.CipherSuites, st.CipherSuite) {
		c.Fail(key, fmt.Sprintf("client completed (resumed=%v) with cipher suite %#04x which its ClientHello did not offer", st.DidResume, st.CipherSuite),
			input, map[string]any{"suite": st.CipherSuite, "resumed": st.DidResume, "version": st.Version, "app_data": r2.AppData}, w2.CipherSuites)
	}
	if rc.kind == "psk13-hash" && completed && w2.PSKIdentities > 0 {
		c.Fail(key, "client completed although the server selected its PSK together with a cipher suite of another hash", input,
			map[string]any{"suite": st.CipherSuite, "resumed": st.DidResume}, "abort with illegal_parameter")
	}
	if !r2.ServerHelloSeen || (r2.AlertFromServer >= 0 && !completed) {
		c.Count("server-declined")
		if debug {
			fmt.Printf("RESUME %-18s %-22s SERVER DECLINED serr=%q cerr=%q\n", rc.kind, rc.name, errStr(r2.ServerErr), errStr(r2.ClientErr))
		}
		return
	}
	var term string
	if rc.tls13 {
		sess := uint16(0)
		if w2.PSKIdentities > 0 {
			sess = sessSuite
		}
		fl, ok := hs.FlightTerm(r2, sc2, alpnPrefs)
		if !ok {
			c.Count("server-declined")
			return
		}
		obs := hs.ObsTermFinal(r2)
		term = fmt.Sprintf("(CRun %s %s %s %s %s %s)", vh.Bool(hs.TreeFixed()), hs.ViewTermSess(r2, sess), r2.KeyShape, hs.WireTerm(w2), fl, obs)
	} else {
		sess := "None"
		if len(w2.SessionTicket) > 0 {
			sess = fmt.Sprintf("(Some (mkSess %d %d %s))", r1.ClientState.Version, sessSuite, vh.Bool(r1.Wire != nil && r1.Wire.HasEMS))
		}
		alpn, _ := hs.NegotiatedALPN(alpnPrefs, w2.ALPN)
		fl := hs.Flight12FromSeen(r2, alpn, uint16(r2.Trace.Group))
		term = fmt.Sprintf("(CRunSess %s %s %s %s %s %s %s %s %s)", vh.Bool(hs.TreeFixed()), hs.ViewTerm(r2), r2.KeyShape, hs.WireTerm(w2), sess, vh.Bool(w2.HasEMS), fl, hs.ObsTermFinal(r2), vh.Bool(st.DidResume))
	}
	c.Case(rc.kind, term, key, true, map[string]any{"kind": rc.kind, "client": rc.name, "completed": completed, "resumed": st.DidResume,
		"suite": st.CipherSuite, "client_error": errStr(r2.ClientErr)})
	if debug {
		fmt.Printf("RESUME %-18s %-22s ticket=%-5v psk=%d completed=%-5v resumed=%-5v suite=%04x sess=%04x alert=%-3d cerr=%q serr=%q\n", rc.kind, rc.name,
			len(w2.SessionTicket) > 0, w2.PSKIdentities, completed, st.DidResume, st.CipherSuite, sessSuite, hs.ClientAlert(r2), errStr(r2.ClientErr), errStr(r2.ServerErr))
	}
}
